# Unit `cryptkdf` (C06): the key-derivation / password-check bodies of pdf/src/crypt.rs. See NOTES.md.
F = 'pdf/src/crypt.rs'
O = 'pdf/src/object/mod.rs'
FILE = 'pdf/src/file.rs'
IMPL = r'^impl Decoder$'
NESTED = [IMPL, r'fn from_password\(']          # the nested fn items live inside the body of Decoder::from_password

KEY_OK = '1 <= key@.len() <= 256'               # Rc4::new: assert!(!key.is_empty() && key.len() <= 256)

# R7 hoists shared by the nested fns; argument expressions stay verbatim (regex back-references)
H_MIN = {'rule': 'R7', 'regex': r'std::cmp::min\(', 'replace': 'hoist_min(', 'count': '*'}
H_MAX = {'rule': 'R7', 'regex': r'(\w+)\.max\((\d+)\)', 'replace': r'hoist_max(\1, \2)', 'count': '*'}
H_COPY = {'rule': 'R7', 'regex': r'(\w+)\[([^\]]*)\]\.copy_from_slice\(', 'replace': r'hoist_copy(&mut \1[\2], ', 'count': '*'}
H_XOR = {'rule': 'R7', 'regex': r'for (\w+) in &mut (\w+) \{\s*\*\1 \^= ([^;]+);\s*\}', 'replace': r'hoist_xor_all(&mut \2, \3);', 'count': '*'}
# the password padding, identical in both key derivations: hint = the constant is the ISO padding string
PAD_HINT = {'rule': 'R1', 'find': 'let mut hash = md5::Context::new();',
            'replace': 'proof { lemma_padding_const(); } let mut hash = md5::Context::new();'}

UNIT = {
 'name': 'cryptkdf',
 'rlimit': 40,   # headroom: revision_6_kdf needs more than half of the default limit under some seeds (half-rlimit stability run)
 'doc': 'nested fns of Decoder::from_password against ISO 32000-1 Algorithms 2, 3 a-d, 4, 5, 6; Decoder::revision_6_kdf against '
        'ISO 32000-2 Algorithm 2.B; from_password re-proved on the proved contracts (MD5, SHA-2, AES uninterpreted, RC4 = spec fn and lemmas of units/rc4 with no RC4 axiom, hash feed as ghost state)',
 'items': {
  'const PADDING': {'kind': 'decl', 'file': F, 'header': r'^const PADDING\b'},
  'enum CryptMethod': {'kind': 'decl', 'file': F, 'header': r'^pub enum CryptMethod$', 'attrs': ['#[derive(Clone, Copy)]']},
  'enum AuthEvent': {'kind': 'decl', 'file': F, 'header': r'^pub enum AuthEvent$', 'attrs': ['#[derive(Clone, Copy)]']},
  'struct CryptFilter': {'kind': 'decl', 'file': F, 'header': r'^pub struct CryptFilter$',
     'rewrites': [{'rule': 'R2', 'find': '_other: Dictionary', 'replace': ''}]},
  'struct CryptDict': {'kind': 'decl', 'file': F, 'header': r'^pub struct CryptDict$',
     'rewrites': [{'rule': 'R2', 'regex': r'\n    (\w+): ', 'replace': r'\n    pub \1: ', 'count': '*'},
                  {'rule': 'R2', 'find': 'pub _other: Dictionary', 'replace': ''}]},

  # ---------------- Algorithms 4, 5, 6 ----------------
  'compute_u_rev_2': {'kind': 'fn', 'file': F, 'container': NESTED, 'name': 'compute_u_rev_2', 'props': ['C06'],
     'requires': [KEY_OK],
     'ensures': [('alg4_rc4_of_padding', 'r@ == alg4_u(key@)')],
     'rewrites': [{'rule': 'R1', 'find': 'let mut data =', 'replace': 'proof { lemma_padding_const(); } let mut data ='},
                  {'rule': 'R7', 'find': 'PADDING.to_vec()', 'replace': 'hoist_to_vec(&PADDING)'}]},
  'check_password_rev_2': {'kind': 'fn', 'file': F, 'container': NESTED, 'name': 'check_password_rev_2', 'props': ['C06'],
     'requires': [KEY_OK],
     'ensures': [('alg6_rev2_whole_u', 'r == (document_u@ == alg4_u(key@))')],
     'rewrites': [{'rule': 'R7', 'regex': r'(compute_u_rev_2\([^()]*\)) == (\w+)', 'replace': r'hoist_bytes_eq(&\1, \2)'}]},
  'compute_u_rev_3_4': {'kind': 'fn', 'file': F, 'container': NESTED, 'name': 'compute_u_rev_3_4', 'props': ['C06'],
     'requires': [KEY_OK],
     'ensures': [('alg5_hash_and_20_rc4', 'r@ == alg5_u16(id@, key@)')],
     'loops': {1: {'for_ghost': 'it',
                   'invariant': [KEY_OK, ('alg5_counter_1_to_19', 'data@ == alg5_up(key@, rc4(key@, md5_spec(iso_padding() + id@)), i as int - 1)')]}},
     'rewrites': [PAD_HINT,
                  {'rule': 'R7', 'find': 'key.to_owned()', 'replace': 'hoist_to_vec(key)'}, H_XOR]},
  'check_password_rev_3_4': {'kind': 'fn', 'file': F, 'container': NESTED, 'name': 'check_password_rev_3_4', 'props': ['C06'],
     'requires': [KEY_OK],
     'ensures': [('alg6_first_16_bytes', 'r == (document_u@.len() >= 16 && document_u@.subrange(0, 16) == alg5_u16(id@, key@))')],
     'rewrites': [{'rule': 'R7', 'regex': r'(\w+)\.starts_with\(', 'replace': r'hoist_starts_with(\1, '}]},
  'check_password_rc4': {'kind': 'fn', 'file': F, 'container': NESTED, 'name': 'check_password_rc4', 'props': ['C06'],
     # call sites (from_password): key = key[..min(key_size, 16)] with key_size >= 1 (`bail!` on 0), and key[..key_size] with
     # key_size <= 16 (key_derivation_owner_password_rc4 fails otherwise)
     'requires': [KEY_OK],
     'ensures': [('alg6', 'r == alg6_u_matches(revision, document_u@, id@, key@)')]},

  # ---------------- Algorithms 2 and 3 a)-d) ----------------
  'key_derivation_user_password_rc4': {'kind': 'fn', 'file': F, 'container': NESTED, 'name': 'key_derivation_user_password_rc4', 'props': ['C06'],
     'ensures': [('alg2_buffer_len', 'r@.len() == (if key_size > 16 { key_size } else { 16 })'),
                 ('alg2', 'r@.subrange(0, 16) == alg2_hash(revision, key_size, dict.o.view(), dict.p, id@, dict.encrypt_metadata, pass@)')],
     'loops': {1: {'for_ghost': 'it',
                   'invariant': [('alg2_50_rounds_first_n', 'data@ == md5_iter_n(md5_spec(alg2_input(revision, dict.o.view(), dict.p, id@, dict.encrypt_metadata, pass@)), '
                                                            '(if key_size < 16 { key_size as int } else { 16 }), it.index@ as int)')]}},
     'rewrites': [PAD_HINT, H_MIN, H_MAX,
                  {'rule': 'R7', 'regex': r'key\[\.\.(\w+)\]\.copy_from_slice\(', 'replace': r'hoist_copy_prefix(&mut key, \1, '},
                  {'rule': 'R7', 'regex': r'(\w+)\.to_(le|be)_bytes\(\)', 'replace': r'hoist_i32_to_\2_bytes(\1)'}]},
  'key_derivation_owner_password_rc4': {'kind': 'fn', 'file': F, 'container': NESTED, 'name': 'key_derivation_owner_password_rc4', 'props': ['C06'],
     'ensures': [('alg3_key_size_limit', 'key_size > 16 ==> r is Err'),
                 ('alg3', 'key_size <= 16 ==> (r matches Ok(k) && k@.len() == key_size && k@ == alg3_owner_key(revision, key_size, pass@))')],
     'loops': {1: {'for_ghost': 'it',
                   'invariant': [('alg3_50_rounds_whole', 'md5_spec(hash.fed()) == md5_iter(md5_spec(pad32(pass@)), it.index@ as int)')]}},
     'rewrites': [PAD_HINT,
                  {'rule': 'R7', 'find': 'digest.to_vec()', 'replace': 'hoist_to_vec(digest)'}]},

  # ---------------- Algorithm 2.B ----------------
  'Decoder::revision_6_kdf': {'kind': 'fn', 'file': F, 'container': IMPL, 'name': 'revision_6_kdf', 'props': ['C06'],
     # call sites (from_password): password = SASLprep output truncated to 127 bytes; u = b"" or the 48-byte /U (length checked)
     'requires': ['password@.len() <= 128', 'u@.len() <= 48'],
     'ensures': [('alg2b', 'r@ == alg2b_hash(password@, salt@, u@)')],
     'loops': {
        1: {'invariant': [
                'password@.len() <= 128', 'u@.len() <= 48',
                '32 <= block_size <= 64', 'i <= 288', 'i >= 1 ==> 1 <= data_total_len <= 15360',
                ('aes_key_first_16_iv_second_16_bytes_of_k', 'key.view() == block@.subrange(0, 16) && iv.view() == block@.subrange(16, 32)'),
                'sha256.fed() == Seq::<u8>::empty()', 'sha384.fed() == Seq::<u8>::empty()', 'sha512.fed() == Seq::<u8>::empty()',
                ('alg2b_rounds_and_stop_condition',
                 'alg2b_from(password@, u@, block@.subrange(0, block_size as int), (if i == 0 { 0u8 } else { data@[data_total_len - 1] }), i as int) '
                 '== alg2b_from(password@, u@, sha256_spec(password@ + salt@ + u@), 0u8, 0)')],
            'decreases': '288 - i'},
        2: {'invariant': [
                'password@.len() <= 128', 'u@.len() <= 48', '32 <= block_size <= 64',
                'data_repeat_len == password@.len() + block_size + u@.len()', '(j as int) * (data_repeat_len as int) <= 15360',
                ('k1_64_repetitions', 'data@.subrange(0, j * data_repeat_len) == repeat(password@ + block@.subrange(0, block_size as int) + u@, j as int)'),
                'data@.subrange(0, data_repeat_len as int) == password@ + block@.subrange(0, block_size as int) + u@']},
     },
     'rewrites': [
        # R1 ghost: lemma calls without `requires` (implications over pointwise hypotheses) and ghost snapshots
        {'rule': 'R1', 'regex': r'(for j in 1\.\.\d+ \{)',
         'replace': r'proof { let k_ = block@.subrange(0, block_size as int); lemma_unit_layout(data@, password@, k_, u@); lemma_repeat_one(password@ + k_ + u@); '
                    r'lemma_mul_bound(1, data_repeat_len as int); } \1'},
        {'rule': 'R1', 'regex': r'(data\.copy_within\([^;]*;)',
         'replace': r'let ghost before_ = data@; proof { lemma_mul_bound(j as int, data_repeat_len as int); } \1 '
                    r'proof { lemma_repeat_step(password@ + block@.subrange(0, block_size as int) + u@, before_, data@, j as int, data_repeat_len as int); }'},
        {'rule': 'R1', 'find': 'let mut i = 0;',
         'replace': 'proof { let in_ = input.view(); assert(in_.len() == 32 ==> in_.subrange(0, 32) =~= in_); '
                    'assert(Seq::<u8>::empty() + password@ =~= password@); } let mut i = 0;'},
        {'rule': 'R1', 'find': 'let aes =',
         'replace': 'let ghost k0_ = block@.subrange(0, block_size as int); let ghost el0_ = if i == 0 { 0u8 } else { data@[data_total_len - 1] }; let aes ='},
        {'rule': 'R1', 'find': 'i += 1;',
         'replace': 'proof { lemma_alg2b_step(password@, u@, k0_, el0_, i as int); } i += 1;'},
        {'rule': 'R1', 'find': 'let mut hash =',
         'replace': 'proof { lemma_alg2b_stop(password@, u@, block@.subrange(0, block_size as int), (if i == 0 { 0u8 } else { data@[data_total_len - 1] }), i as int); } let mut hash ='},
        {'rule': 'R1', 'find': 'let encrypted =',
         'replace': 'proof { let k_ = block@.subrange(0, block_size as int); assert(32 <= block_size <= 64 ==> '
                    '(k_.subrange(0, 16) =~= block@.subrange(0, 16) && k_.subrange(16, 32) =~= block@.subrange(16, 32))); } let encrypted ='},
        {'rule': 'R1', 'find': 'let sum: usize =',
         'replace': 'proof { lemma_be_mod3(encrypted@.subrange(0, 16)); lemma_sum_bound(encrypted@.subrange(0, 16)); } let sum: usize ='},
        # R7 hoists
        {'rule': 'R7', 'regex': r'\((\w+)\[([^\]]*)\]\)\.copy_from_slice\(', 'replace': r'hoist_copy(&mut \1[\2], ', 'count': '*'},
        {'rule': 'R7', 'regex': r'(?<![\w(])(\w+)\[([^\]]*)\]\.copy_from_slice\(', 'replace': r'hoist_copy(&mut \1[\2], ', 'count': '*'},
        {'rule': 'R7', 'regex': r'\bhash\.copy_from_slice\(', 'replace': 'hoist_copy(&mut hash, ', 'count': 1},
        {'rule': 'R7', 'regex': r'&input\[\.\.(\w+)\]', 'replace': r'hoist_ga_prefix(&input, \1)', 'count': 1},
        {'rule': 'R7', 'regex': r'&(sha\d+\.finalize_reset\(\))', 'replace': r'hoist_ga_slice(&\1)', 'count': '*'},
        {'rule': 'R7', 'regex': r'(\w+)\.copy_within\(\.\.([^,]+), ([^;]+)\);', 'replace': r'hoist_copy_within(&mut \1, \2, \3);', 'count': '*'},
        {'rule': 'R7', 'regex': r'(\w+\[[^\]]*\])\.iter\(\)\.map\(\|byte\| \*byte as usize\)\.sum\(\)', 'replace': r'hoist_sum_bytes(&\1)', 'count': 1},
     ]},

  # ---------------- Decoder::from_password re-proved on the proved callees (items as in unit `decrypt`) ----------------
  'type ObjNr': {'kind': 'decl', 'file': O, 'header': r'^pub type ObjNr\b'},
  'type GenNr': {'kind': 'decl', 'file': O, 'header': r'^pub type GenNr\b'},
  'struct PlainRef': {'kind': 'decl', 'file': O, 'header': r'^pub struct PlainRef$',
     'attrs': ['#[derive(Clone, Copy, PartialEq, Eq, Structural)]']},
  'struct Decoder': {'kind': 'decl', 'file': F, 'header': r'^pub struct Decoder$',
     'rewrites': [{'rule': 'R2', 'find': 'key_size:', 'replace': 'pub key_size:'},
                  {'rule': 'R2', 'find': 'key:', 'replace': 'pub key:'},
                  {'rule': 'R2', 'find': 'method:', 'replace': 'pub method:'},
                  {'rule': 'R2', 'find': 'pub(crate)', 'replace': 'pub', 'count': 2},
                  {'rule': 'R2', 'find': 'encrypt_metadata:', 'replace': 'pub encrypt_metadata:'}]},

  'Decoder::new': {'kind': 'fn', 'file': F, 'container': IMPL, 'name': 'new', 'props': ['C06'],
     'ensures': [('new_fields', 'r.key_size == key_size && r.key@ == key@ && r.method == method && r.encrypt_metadata == encrypt_metadata '
                                '&& r.encrypt_indirect_object is None && r.metadata_indirect_object is None')]},
  'Decoder::from_password': {'kind': 'fn', 'file': F, 'container': IMPL, 'name': 'from_password', 'props': ['C06'],
     'ensures': [
        ('selection_rejects', 'iso_selection(*dict) is None ==> r is Err'),
        ('revision_rejects', '!(2 <= dict.r <= 6) ==> r is Err'),
        ('key_size_selection', 'post_key_size_selection(*dict, r)'),
        ('decoder_wf', 'r matches Ok(d) ==> d.wf()'),
        ('decoder_fresh', 'r matches Ok(d) ==> fresh_decoder(d, *dict)'),
        ('rc4_login', 'post_rc4_login(*dict, id@, pass@, r)'),
        ('aes_login', 'post_aes_login(*dict, pass@, r)'),
     ],
     'loops': {1: {'for_ghost': 'it',
                   'invariant': [('alg7_rc4_rounds_and_counter', 'data@ == rounds_up(password_wrap_key@, dict.o.view(), it.index@ as int)'),
                                 'password_wrap_key@.len() == key_size', '1 <= key_size <= 16', 'rounds <= 20']}},
     'rewrites': [
        # R2: the seven nested fn items are lifted out of the body (they are abstract callees, see the template)
        {'rule': 'R2', 'regex': r'fn (?:compute_u_rev_2|check_password_rev_2|compute_u_rev_3_4|check_password_rev_3_4|check_password_rc4|'
                                r'key_derivation_user_password_rc4|key_derivation_owner_password_rc4)\(.*?\n        \}\n',
         'replace': '', 'count': 7},
        # R1: closure contracts (Verus needs them to know the value of Option::map)
        {'rule': 'R1', 'regex': r'\|n\| 8 \* n', 'count': '*',
         'replace': '|n: u32| -> (r8: u32) ensures r8 == 8 * n { 8 * n }'},
        {'rule': 'R1', 'regex': r'\|n\| n\.saturating_mul\(8\)', 'count': '*',
         'replace': '|n: u32| -> (r8: u32) ensures r8 == (if 8 * n <= u32::MAX { (8 * n) as u32 } else { u32::MAX }) { n.saturating_mul(8) }'},
        {'rule': 'R1', 'find': 'let unwrapped_user_password = data;',
         'replace': 'proof { lemma_alg7(level, password_wrap_key@, dict.o.view(), rounds as int); } let unwrapped_user_password = data;'},
        # shape-independent hints only (tautologies / lemmas over the ISO-side terms)
        {'rule': 'R1', 'find': 'let (intermediate_key, mut wrapped_key) =',
         'replace': 'proof { lemma_empty_literal(); let pw_ = password_encoded@; let u_ = dict.u.view(); '
                    'lemma_concat_empty(pw_); lemma_concat_empty(pw_ + u_.subrange(32, 40)); lemma_concat_empty(pw_ + u_.subrange(40, 48)); } '
                    'let (intermediate_key, mut wrapped_key) ='},
        {'rule': 'R1', 'regex': r'if check_password_rc4\(', 'count': 2,
         'replace': 'proof { assert(key_size <= 16 ==> key@.subrange(0, 16).subrange(0, key_size as int) =~= key@.subrange(0, key_size as int)); } if check_password_rc4('},
        {'rule': 'R1', 'find': 'let key_slice = t!(',
         'replace': 'proof { assert((zero_iv.view().len() == 16 && (forall|i: int| 0 <= i < 16 ==> zero_iv.view()[i] == 0u8)) ==> zero_iv.view() =~= zeros16()); } let key_slice = t!('},
        # R7 hoists
        {'rule': 'R7', 'regex': r'dict\s*\.crypt_filters\s*\.get\((.*?)\)\s*\.ok_or_else\(\|\| other!\(.*?\)\)\?;',
         'replace': r'hoist_cf_get(&dict.crypt_filters, \1)?;', 'count': 1},
        {'rule': 'R7', 'regex': r'\((\d+)\.\.=(\d+)\)\.contains\((&\w+)\)', 'replace': r'hoist_range_incl_contains(\1, \2, \3)', 'count': 1},
        {'rule': 'R7', 'regex': r'std::cmp::min\(', 'replace': 'hoist_min(', 'count': '*'},
        {'rule': 'R7', 'regex': r'(dict\.o\.as_bytes\(\))\.to_vec\(\)', 'replace': r'hoist_to_vec(\1)', 'count': 1},
        {'rule': 'R7', 'regex': r'for byte in round_key\.iter_mut\(\) \{\s*\*byte \^= ([^;]+);\s*\}', 'replace': r'hoist_xor_all(&mut round_key, \1);', 'count': 1},
        {'rule': 'R3', 'regex': r'err!\(format!\((?:.*?)\)\s*\.into\(\)\)', 'replace': 'err!(PdfError::Other)', 'count': 3},
        {'rule': 'R7', 'regex': r'String::from_utf8\(pass\.to_vec\(\)\)\.map_err\(\|_\| PdfError::InvalidPassword\)', 'replace': 'hoist_from_utf8(pass)', 'count': 1},
        {'rule': 'R7', 'regex': r'stringprep::saslprep\((&\w+)\)\.map_err\(\|_\| PdfError::InvalidPassword\)', 'replace': r'hoist_saslprep(\1)', 'count': 1},
        {'rule': 'R7', 'regex': r'dict\.(ue|oe)\.as_ref\(\)\.ok_or_else\(\|\| PdfError::MissingEntry \{.*?\}\)', 'replace': r'hoist_ok_or_missing(dict.\1.as_ref())', 'count': 2},
        {'rule': 'R7', 'regex': r'(t!\(hoist_ok_or_missing\(dict\.\w+\.as_ref\(\)\)\)\s*\.as_bytes\(\))\s*\.to_vec\(\)', 'replace': r'hoist_to_vec(\1)', 'count': 2},
        {'rule': 'R7', 'regex': r'(Self::revision_6_kdf\([^()]*\))\.into\(\)', 'replace': r'hoist_ga_from_array(\1)', 'count': 2},
        {'rule': 'R7', 'regex': r'b("[^"]*")', 'replace': r'hoist_bstr(\1)', 'count': '*'},
        {'rule': 'R7', 'regex': r'(\w+_hash_computed)\.as_slice\(\) == (\w+_hash)\b', 'replace': r'hoist_bytes_eq(\1.as_slice(), \2)', 'count': 2},
        {'rule': 'R7', 'regex': r'if (\w+_hash_computed) == (\w+_hash)\b', 'replace': r'if hoist_bytes_eq(&\1, \2)', 'count': 2},
        {'rule': 'R7', 'regex': r'Aes256CbcDec::new\(([^()]*)\)\s*\.decrypt_padded_mut::<NoPadding>\(([^()]*)\)\s*\.map_err\(\|_\| PdfError::InvalidPassword\)',
         'replace': r'hoist_aes256_nopad(\1, \2)', 'count': 1},
        {'rule': 'R7', 'regex': r'key_slice\.into\(\)', 'replace': 'hoist_vec_from_slice(key_slice)', 'count': 1},
     ]},

  'Decoder::default': {'kind': 'fn', 'file': F, 'container': IMPL, 'name': 'default', 'props': ['C06'],
     'ensures': [('default_is_empty_password', 'post_key_size_selection(*dict, r) && post_rc4_login(*dict, id@, Seq::<u8>::empty(), r) '
                                               '&& post_aes_login(*dict, Seq::<u8>::empty(), r)'),
                 ('decoder_wf', 'r matches Ok(d) ==> d.wf()')],
     'rewrites': [{'rule': 'R1', 'find': 'Decoder::from_password(', 'replace': 'proof { lemma_empty_literal(); } Decoder::from_password('},
                  {'rule': 'R7', 'regex': r'b("[^"]*")', 'replace': r'hoist_bstr(\1)', 'count': 1}]},


  # ---------------- installation of the decoder (pdf/src/file.rs) ----------------
  'enum Primitive': {'kind': 'decl', 'file': 'pdf/src/primitive.rs', 'header': r'^pub enum Primitive$'},
  'struct Storage': {'kind': 'decl', 'file': FILE, 'header': r'^pub struct Storage<B, OC, SC, L>$',
     'rewrites': [{'rule': 'R2', 'regex': r'\n    (\w+):(\s)', 'replace': r'\n    pub \1:\2', 'count': '*'}]},
  'Storage::load_storage_and_trailer_password': {'kind': 'fn', 'file': FILE, 'container': r'^impl<B, OC, SC, L> Storage<B, OC, SC, L> where',
     'name': 'load_storage_and_trailer_password', 'props': ['C06'],
     'ensures': [
        ('trailer_and_refs_from_backend', 'r matches Ok(tr) ==> (old(self).backend.xref_and_trailer(old(self).start_offset, old(self).store()) matches Ok(rt) '
                                          '&& rt.1 == tr && final(self).refs == rt.0)'),
        ('no_encrypt_no_change_of_decoder', 'r matches Ok(tr) ==> (!tr@.dom().contains("Encrypt"@) ==> final(self).decoder == old(self).decoder)'),
        ('decoder_from_trailer_encrypt_and_first_id', 'r matches Ok(tr) ==> (tr@.dom().contains("Encrypt"@) ==> ('
            ''
            'first_id(tr) matches Some(id) && cryptdict_reads(tr@["Encrypt"@], with_refs(*old(self), final(self).refs).store()) matches Ok(dict) '
            '&& final(self).decoder matches Some(d) && d.wf() '
            '&& post_key_size_selection(dict, Ok::<Decoder, PdfError>(unexempt(d))) '
            '&& post_rc4_login(dict, id, password@, Ok::<Decoder, PdfError>(unexempt(d))) '
            '&& post_aes_login(dict, password@, Ok::<Decoder, PdfError>(unexempt(d)))))'),
        ('encrypt_dictionary_exempt', 'r matches Ok(tr) ==> (tr@.dom().contains("Encrypt"@) ==> '
            '(final(self).decoder matches Some(d) && d.encrypt_indirect_object == entry_ref(tr, "Encrypt"@)))'),
        ('metadata_object_exempt', 'r matches Ok(tr) ==> (tr@.dom().contains("Encrypt"@) ==> ('
            'final(self).decoder matches Some(d) && '
            'match entry_ref(tr, "Root"@) { '
            '  None => d.metadata_indirect_object is None, '
            '  Some(c) => catalog_of(with_decoder(with_refs(*old(self), final(self).refs), before_metadata(d)).store(), c) matches Some(cat) '
            '             && d.metadata_indirect_object == entry_ref(cat, "Metadata"@) }))'),
        ('frame', 'final(self).backend == old(self).backend && final(self).start_offset == old(self).start_offset'),
     ],
     'rewrites': [
        {'rule': 'R3', 'regex': r'field: "[^"]*"\.into\(\),?', 'replace': '', 'count': 2},
        {'rule': 'R7', 'regex': r'let key = (trailer\s*\.get\("ID"\).*?\.as_array\(\)\?)\s*\.get\((\d+)\)', 'replace': r'let key = hoist_get(\1, \2)', 'count': 1},
     ]},
 },
}
