// Unit `a85enc` (C16): the ASCII85 and ASCIIHex *encoders* of pdf/src/enc.rs
//   base85_chunk, divmod, a85   against the ISO 32000-1 7.4.3 base-85 group relation
//   encode_85                   against the 7.4.3 encoder function (z shorthand, partial tail, ~> EOD)
//   encode_nibble, encode_hex   against 7.4.2 (two hexadecimal digits per byte, high nibble first)
//   + lemma: word_85 (decoder side, contract proved by Kani in units/enc_leaf) inverts base85_chunk.
use vstd::prelude::*;
verus! {
global size_of usize == 8;

// =====================================================================================================
// spec: ISO 32000-1 7.4.3 ASCII85Decode
// "ASCII base-85 encoding shall use the ASCII characters ! through u and the character z ... The ASCII
//  base-85 encoding shall produce 5 ASCII characters for every 4 bytes of binary data. Each group of 4
//  binary input bytes, (b1 b2 b3 b4), shall be converted to a group of 5 output bytes, (c1 c2 c3 c4 c5),
//  using the relation  b1*256^3 + b2*256^2 + b3*256 + b4 = c1*85^4 + c2*85^3 + c3*85^2 + c4*85 + c5 ...
//  the five bytes of base-85 data shall be converted to ASCII characters by adding 33 ... As a special
//  case, if all five digits are 0, they shall be represented by the character with code 122 (z) ...
//  If the length of the data to be encoded is not a multiple of 4 bytes, the last, partial group of 4
//  shall be used to produce a last, partial group of 5 output characters. Given n (1, 2, or 3) bytes of
//  binary data, the encoder shall first append 4 - n zero bytes to make a complete group of 4. It shall
//  encode this group in the usual way, but shall not apply the special z case. Finally, it shall write
//  only the first n + 1 characters of the resulting group of 5. ... followed by ~> (EOD)."
// =====================================================================================================
pub open spec fn be32(c: Seq<u8>) -> int {
    (c[0] as int) * 16777216 + (c[1] as int) * 65536 + (c[2] as int) * 256 + (c[3] as int)
}
pub open spec fn a85_value(e: Seq<u8>) -> int {
    (e[0] - 33) * 52200625 + (e[1] - 33) * 614125 + (e[2] - 33) * 7225 + (e[3] - 33) * 85 + (e[4] - 33)
}
pub open spec fn a85_sym(b: u8) -> bool { 0x21 <= b <= 0x75 }     // '!' ..= 'u'
pub open spec fn a85_syms(e: Seq<u8>) -> bool {
    a85_sym(e[0]) && a85_sym(e[1]) && a85_sym(e[2]) && a85_sym(e[3]) && a85_sym(e[4])
}
// the relation between a 4-byte group and its 5 symbols
pub open spec fn a85_group_rel(c: Seq<u8>, e: Seq<u8>) -> bool {
    c.len() == 4 && e.len() == 5 && a85_syms(e) && a85_value(e) == be32(c)
}
// the (unique, see lemma_a85_group_unique) solution of the relation: positional base-85 digits of the value
#[verifier::opaque]
pub open spec fn a85_group(c: Seq<u8>) -> Seq<u8> {
    let n = be32(c);
    seq![((n / 52200625) % 85 + 33) as u8, ((n / 614125) % 85 + 33) as u8, ((n / 7225) % 85 + 33) as u8,
         ((n / 85) % 85 + 33) as u8, (n % 85 + 33) as u8]
}
pub open spec fn zero_group(c: Seq<u8>) -> bool { c[0] == 0 && c[1] == 0 && c[2] == 0 && c[3] == 0 }
pub open spec fn a85_eod() -> Seq<u8> { seq![0x7eu8, 0x3eu8] }      // "~>"
pub open spec fn zeros(n: int) -> Seq<u8> { Seq::new(n as nat, |i: int| 0u8) }

pub open spec fn enc85_spec(d: Seq<u8>) -> Seq<u8>
    decreases d.len()
{
    if d.len() >= 4 {
        let g = d.subrange(0, 4);
        (if zero_group(g) { seq![0x7au8] } else { a85_group(g) }) + enc85_spec(d.subrange(4, d.len() as int))
    } else if d.len() == 0 {
        a85_eod()
    } else {
        a85_group(d + zeros(4 - d.len())).subrange(0, d.len() as int + 1) + a85_eod()
    }
}

// spec: ISO 32000-1 7.4.2 ASCIIHexDecode — "2 hexadecimal digits for each byte", first digit = high nibble.
// (The encoder may use either case; lower case is what the property statement C16 pins for this crate.)
pub open spec fn hexdigit(n: int) -> u8 { if n < 10 { (0x30 + n) as u8 } else { (0x61 + n - 10) as u8 } }
pub open spec fn enchex_spec(d: Seq<u8>) -> Seq<u8> {
    Seq::new(2 * d.len(), |k: int| if k % 2 == 0 { hexdigit(d[k / 2] as int / 16) } else { hexdigit(d[k / 2] as int % 16) })
}

// =====================================================================================================
// L0 helpers (R7 / R6): std operations Verus cannot read. Bodies are the hoisted source expressions.
// =====================================================================================================
#[verifier::external_body]
fn hoist_from_be(c: [u8; 4]) -> (r: u32)
    ensures r == be32(c@)
{ u32::from_be_bytes(c) }

// R6: `data.chunks_exact(4)` collected: yields exactly the consecutive full 4-byte windows, in order
#[verifier::external_body]
fn hoist_chunks_exact4<'a>(data: &'a [u8]) -> (r: Vec<&'a [u8]>)
    ensures r@.len() == data@.len() / 4,
        forall|i: int| 0 <= i < r@.len() ==> (#[trigger] r@[i])@ == data@.subrange(4 * i, 4 * i + 4)
{ data.chunks_exact(4).collect() }

// R6: `chunks.remainder()` of `data.chunks_exact(4)`: the bytes after the last full window
#[verifier::external_body]
fn hoist_remainder4<'a>(data: &'a [u8]) -> (r: &'a [u8])
    ensures r@ == data@.subrange(data@.len() - data@.len() % 4, data@.len() as int)
{ data.chunks_exact(4).remainder() }

#[verifier::external_body]
fn hoist_try_into4(chunk: &[u8]) -> (r: [u8; 4])
    requires chunk@.len() == 4      // what `.unwrap()` needs
    ensures r@ == chunk@
{ chunk.try_into().unwrap() }

// byte-string literal: Verus knows its length but not its contents
#[verifier::external_body]
fn hoist_lit_eod() -> (r: &'static [u8; 2])
    ensures r@ == a85_eod()
{ b"~>" }

// =====================================================================================================
// decoder-side contract (assumed here, proved on the real function by the Kani harness `word_85_iso`
// of units/enc_leaf over all 2^40 inputs): word_85 is an abstract callee in this unit.
// =====================================================================================================
#[verifier::external_body]
fn word_85(w: [u8; 5]) -> (r: Option<[u8; 4]>)
    ensures
        (a85_syms(w@) && a85_value(w@) <= 0xffff_ffff) ==> (r matches Some(b) && be32(b@) == a85_value(w@)),
        !(a85_syms(w@) && a85_value(w@) <= 0xffff_ffff) ==> r is None,
{ unimplemented!() }

// =====================================================================================================
// lemmas
// =====================================================================================================
proof fn lemma_be32_injective(a: Seq<u8>, b: Seq<u8>)
    requires a.len() == 4, b.len() == 4, be32(a) == be32(b)
    ensures a =~= b
{
    lemma_be32_digits(a);
    lemma_be32_digits(b);
}
proof fn lemma_be32_digits(a: Seq<u8>)
    requires a.len() == 4
    ensures a[3] as int == be32(a) % 256, a[2] as int == be32(a) / 256 % 256,
        a[1] as int == be32(a) / 256 / 256 % 256, a[0] as int == be32(a) / 256 / 256 / 256
{
    let n = be32(a);
    let (a0, a1, a2, a3) = (a[0] as int, a[1] as int, a[2] as int, a[3] as int);
    assert(n == ((a0 * 256 + a1) * 256 + a2) * 256 + a3) by (nonlinear_arith)
        requires n == a0 * 16777216 + a1 * 65536 + a2 * 256 + a3;
    vstd::arithmetic::div_mod::lemma_fundamental_div_mod_converse(n, 256, (a0 * 256 + a1) * 256 + a2, a3);
    vstd::arithmetic::div_mod::lemma_fundamental_div_mod_converse(n / 256, 256, a0 * 256 + a1, a2);
    vstd::arithmetic::div_mod::lemma_fundamental_div_mod_converse(n / 256 / 256, 256, a0, a1);
}

// base-85 representation is unique: any 5 symbols in '!'..'u' with the right value are the positional digits
proof fn lemma_a85_group_unique(c: Seq<u8>, e: Seq<u8>)
    requires a85_group_rel(c, e)
    ensures e =~= a85_group(c)
{
    reveal(a85_group);
    let n = be32(c);
    let d0 = e[0] - 33; let d1 = e[1] - 33; let d2 = e[2] - 33; let d3 = e[3] - 33; let d4 = e[4] - 33;
    assert(n == (((d0 * 85 + d1) * 85 + d2) * 85 + d3) * 85 + d4) by (nonlinear_arith)
        requires n == d0 * 52200625 + d1 * 614125 + d2 * 7225 + d3 * 85 + d4;
    lemma_digit_step(((d0 * 85 + d1) * 85 + d2) * 85 + d3, d4, n);
    lemma_digit_step((d0 * 85 + d1) * 85 + d2, d3, n / 85);
    lemma_digit_step(d0 * 85 + d1, d2, n / 85 / 85);
    lemma_digit_step(d0, d1, n / 85 / 85 / 85);
    lemma_nested_div(n);
    assert(d0 % 85 == d0);
}
proof fn lemma_digit_step(q: int, r: int, n: int)
    requires 0 <= r < 85, n == q * 85 + r
    ensures n / 85 == q, n % 85 == r
{
    vstd::arithmetic::div_mod::lemma_fundamental_div_mod_converse(n, 85, q, r);
}
proof fn lemma_nested_div(n: int)
    requires 0 <= n
    ensures n / 85 / 85 == n / 7225, n / 85 / 85 / 85 == n / 614125, n / 85 / 85 / 85 / 85 == n / 52200625
{
    vstd::arithmetic::div_mod::lemma_div_denominator(n, 85, 85);
    vstd::arithmetic::div_mod::lemma_div_denominator(n, 7225, 85);
    vstd::arithmetic::div_mod::lemma_div_denominator(n, 614125, 85);
}

// implication-style wrapper (no `requires`): usable in a proof block that does not know which branch the code took
proof fn lemma_a85_group_unique_if(c: Seq<u8>, e: Seq<u8>)
    ensures a85_group_rel(c, e) ==> e =~= a85_group(c)
{ if a85_group_rel(c, e) { lemma_a85_group_unique(c, e); } }

// one full group peeled off the front of the spec encoder
proof fn lemma_enc85_step(d: Seq<u8>, i: int, b0: Seq<u8>, g: Seq<u8>, b1: Seq<u8>)
    requires 0 <= i, 4 * i + 4 <= d.len(),
    ensures
        (b0 + enc85_spec(d.subrange(4 * i, d.len() as int)) == enc85_spec(d)
            && g =~= d.subrange(4 * i, 4 * i + 4)
            && b1 =~= b0 + (if zero_group(g) { seq![0x7au8] } else { a85_group(g) }))
        ==> b1 + enc85_spec(d.subrange(4 * i + 4, d.len() as int)) == enc85_spec(d),
{
    let t = d.subrange(4 * i, d.len() as int);
    let u = d.subrange(4 * i + 4, d.len() as int);
    assert(t.subrange(0, 4) =~= d.subrange(4 * i, 4 * i + 4));
    assert(t.subrange(4, t.len() as int) =~= u);
    if g =~= d.subrange(4 * i, 4 * i + 4) {
        let h = if zero_group(g) { seq![0x7au8] } else { a85_group(g) };
        assert(enc85_spec(t) == h + enc85_spec(u));
        assert((b0 + h) + enc85_spec(u) =~= b0 + (h + enc85_spec(u)));
    }
}

// =====================================================================================================
// extracted code
// =====================================================================================================
//@@ divmod
//@@ a85
//@@ base85_chunk
//@@ encode_85
//@@ encode_nibble
//@@ encode_hex

// C16 group inverse, stated on the contracts: decoding the five symbols the encoder emits for a group
// returns the group, for all 2^32 groups. (Hand-written composition; both callees are seen only through
// their contracts: base85_chunk's is proved above, word_85's is the Kani-proved L0 contract.)
fn a85_group_roundtrip(c: [u8; 4]) -> (r: Option<[u8; 4]>)
    ensures r == Some(c)
{
    let e = base85_chunk(c);
    let r = word_85(e);
    proof {
        assert(0 <= be32(c@) <= 0xffff_ffff);
        let b = r.unwrap();
        lemma_be32_injective(b@, c@);
        assert(b == c);
    }
    r
}

}
fn main(){}
