E = 'pdf/src/enc.rs'
CHUNK_FACTS = ['chunks@.len() == data@.len() / 4',
               'forall|k: int| 0 <= k < chunks@.len() ==> (#[trigger] chunks@[k])@ == data@.subrange(4 * k, 4 * k + 4)']
UNIT = {
 'rlimit': 60,   # headroom: the proof needs < 1/4 of this (checked with the half-rlimit stability run)
 'name': 'a85enc',
 'doc': 'ASCII85 / ASCIIHex encoders against ISO 32000-1 7.4.2-7.4.3; word_85 inverts base85_chunk',
 'items': {
  'divmod': {'kind': 'fn', 'file': E, 'container': None, 'name': 'divmod', 'props': ['C16'],
     # every call site (4x in base85_chunk) passes the literal 85
     'requires': ['m != 0'],
     'ensures': [('divmod_quot', 'r.0 == n / m'), ('divmod_rem', 'r.1 == n % m'),
                 ('divmod_euclid', 'n == r.0 * m + r.1 && r.1 < m')],
     'rewrites': [{'rule': 'R1', 'find': '(n / m, n % m)',
                   'replace': 'proof { vstd::arithmetic::div_mod::lemma_fundamental_div_mod(n as int, m as int); '
                              'assert((m as int) * (n as int / m as int) == (n as int / m as int) * (m as int)) by (nonlinear_arith); } '
                              '(n / m, n % m)'}]},
  'a85': {'kind': 'fn', 'file': E, 'container': None, 'name': 'a85', 'props': ['C16'],
     # call sites: base85_chunk only, on four remainders mod 85 and on n / 85^4 <= 82
     'requires': ['n < 85'],
     'ensures': [('a85_adds_33', 'r == n + 33')]},      # ISO: "converted to ASCII characters by adding 33"
  'base85_chunk': {'kind': 'fn', 'file': E, 'container': None, 'name': 'base85_chunk', 'props': ['C16'],
     'ensures': [('b85_symbols_in_range', 'a85_syms(r@)'),
                 ('b85_value', 'a85_value(r@) == be32(c@)')],
     'rewrites': [{'rule': 'R7', 'find': 'u32::from_be_bytes(c)', 'replace': 'hoist_from_be(c)'}]},
  'encode_85': {'kind': 'fn', 'file': E, 'container': None, 'name': 'encode_85', 'props': ['C16'], 'ret': 'res',
     # a Rust slice never spans more than isize::MAX bytes (language invariant); needed for `(len / 4) * 5 + 10`
     'requires': ['data@.len() <= isize::MAX'],
     'ensures': [('enc85_is_iso_encoder', 'res@ =~= enc85_spec(data@)')],
     'loops': {1: {'invariant': ['i_ <= chunks@.len()'] + CHUNK_FACTS + [
                       ('enc85_inv', 'buf@ + enc85_spec(data@.subrange(4 * i_, data@.len() as int)) == enc85_spec(data@)')],
                   'decreases': 'chunks@.len() - i_'}},
     'rewrites': [
        # R6: iterator loop over chunks_exact(4) -> index loop over the hoisted, collected windows
        {'rule': 'R6', 'find': 'let mut chunks = data.chunks_exact(4);', 'replace': 'let chunks = hoist_chunks_exact4(data);'},
        {'rule': 'R6', 'regex': r'for\s+(\w+)\s+in\s+chunks\.by_ref\(\)\s*\{',
         'replace': r'proof { assert(data@.subrange(0, data@.len() as int) =~= data@); assert(buf@ + enc85_spec(data@) =~= enc85_spec(data@)); } '
                    r'let mut i_: usize = 0; while i_ < chunks.len() { let \1 = chunks[i_]; let ghost b0 = buf@; let ghost i0 = i_ as int; i_ += 1;'},
        {'rule': 'R6', 'find': 'chunks.remainder()', 'replace': 'hoist_remainder4(data)'},
        {'rule': 'R7', 'regex': r'(\w+)\.try_into\(\)\.unwrap\(\)', 'replace': r'hoist_try_into4(\1)'},
        {'rule': 'R7', 'find': 'b"~>"', 'replace': 'hoist_lit_eod()'},
        # R1 ghost, keyed on shapes (names captured): the group of this iteration, the end of the chunk loop (= the `}` in front
        # of the remainder statement), the remainder, the tail's `let <out> = base85_chunk(<c>);`.
        # The per-iteration step is the SAME branch-agnostic proof block (lemmas with implication-style posts only) after every
        # `buf.push(..);` / `buf.extend_from_slice(..);` that textually precedes the remainder statement (= inside the chunk loop);
        # writes of the tail get none.
        {'rule': 'R1', 'regex': r'(let\s+(\w+)\s*:\s*\[u8;\s*4\]\s*=\s*hoist_try_into4\(\w+\);)', 'replace': r'\1 let ghost gc = \2@;'},
        {'rule': 'R1', 'regex': r'(buf\.(?:push|extend_from_slice)\([^;]*\);)(?=.*\bhoist_remainder4\()',
         'replace': r'\1 proof { let e = buf@.subrange(b0.len() as int, buf@.len() as int); lemma_a85_group_unique_if(gc, e); '
                    r'assert(buf@ =~= b0 + e); lemma_enc85_step(data@, i0, b0, gc, buf@); }', 'count': '*'},
        {'rule': 'R1', 'regex': r'let\s+(\w+)\s*=\s*hoist_remainder4\(data\);', 'replace': r'let \1 = hoist_remainder4(data); let ghost gr = \1@;'},
        {'rule': 'R1', 'regex': r'let\s+(\w+)\s*=\s*base85_chunk\((\w+)\);', 'count': '*',
         'replace': r'let \1 = base85_chunk(\2); '
                    r'proof { lemma_a85_group_unique(\2@, \1@); assert(\2@ =~= gr + zeros(4 - gr.len())); '
                    r'assert(gr =~= data@.subrange(4 * (data@.len() as int / 4), data@.len() as int)); }'},
     ]},
  'encode_nibble': {'kind': 'fn', 'file': E, 'container': None, 'name': 'encode_nibble', 'props': ['C16'],
     # call sites: encode_hex only, with `b >> 4` and `b & 0xf`
     'requires': ['c < 16'],
     'ensures': [('nibble_is_hexdigit', 'r == hexdigit(c as int)')]},
  'encode_hex': {'kind': 'fn', 'file': E, 'container': None, 'name': 'encode_hex', 'props': ['C16'],
     # language invariant on slices; needed for `data.len() * 2`
     'requires': ['data@.len() <= isize::MAX'],
     'ensures': [('enchex_two_digits_per_byte_high_first', 'r@ =~= enchex_spec(data@)')],
     'loops': {1: {'for_ghost': 'it',
                   'invariant': ['buf@.len() == 2 * it.index@',
                                 ('enchex_inv', 'forall|k: int| 0 <= k < 2 * it.index@ ==> buf@[k] == enchex_spec(data@)[k]')]}},
     'rewrites': [
        {'rule': 'R5', 'find': 'for &b in data {',
         'replace': 'for b_ in data { let b = *b_; '
                    'proof { assert(b >> 4 == b / 16 && b & 0xf == b % 16 && (b >> 4) < 16 && (b & 0xf) < 16) by (bit_vector); }'},
     ]},
 },
}
