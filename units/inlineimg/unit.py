"""Unit `inlineimg` (C08 "inline image parsing", C01): content.rs inline_image / expand_abbr_name / expand_abbr and
Lexer::seek_substr (first occurrence) against ISO 32000-1 8.9.7, Tables 92-94 (gen_tables.py -> iso_tables.rs)."""
F = 'pdf/src/content.rs'
P = 'pdf/src/primitive.rs'
T = 'pdf/src/object/types.rs'
L = 'pdf/src/parser/lexer/mod.rs'
LX = r"^impl<'a> Lexer<'a>$"

S0 = 'src_of(*old(lexer))'


def pub(*fields):
    return [{'rule': 'R2', 'find': f + ':', 'replace': 'pub ' + f + ':'} for f in fields]


# R8: `o.map(|p| e).transpose()?`  ==  `match o { Some(p) => Some(e?), None => None }`  (closure inlined; `e` verbatim)
MAP_TRANSPOSE = {'rule': 'R8', 'regex': r'dict\.(get|remove)\(("\w+")\)\.map\(\|p\|\s*(.*?)\)\.transpose\(\)\?', 'count': '*',
                 'replace': r'(match dict.\1(\2) { Some(p) => Some(\3?), None => None })'}
# R8: `o.map(|p| e)` == `match o { Some(p) => Some(e), None => None }` (the /Filter value)
MAP_PLAIN = {'rule': 'R8', 'regex': r'dict\.remove\("Filter"\)\.map\(\|p\|\s*(expand_abbr\(p,\s*&\[.*?\]\s*\))\)', 'count': 1,
             'replace': r'(match dict.remove("Filter") { Some(p) => Some(\1), None => None })'}


def named_table(call_head, var, iso_fn, fuel):
    """R7/R1: the literal abbreviation table handed to expand_abbr* is given a name (a block that binds the literal and
    evaluates to it, as units/widths does for `repeat(D).take(N)`) so that the ghost text can compare it with the ISO table."""
    return {'rule': 'R1', 'regex': r'(%s)&\[(.*?)\]\s*\)' % call_head, 'count': 1,
            'replace': r'\1{ let %s: &[(&str, &str)] = &[\2]; proof { lemma_literals(); reveal_with_fuel(lookup_from, %d); '
                       r'lemma_alt_ext(%s@, %s_fn()); } %s })' % (var, fuel, var, iso_fn, var)}


INLINE_REWRITES = [
    # R1: ghost state: the source, the number of complete pairs
    {'rule': 'R1', 'find': 'let mut dict = Dictionary::new();',
     'replace': 'let ghost s0 = src_of(*lexer); let ghost mut cnt: nat = 0; let mut dict = Dictionary::new();'},
    {'rule': 'R1', 'find': 'let backup_pos = lexer.get_pos();',
     'replace': 'let backup_pos = lexer.get_pos(); '
                'proof { assert forall|n: nat| (hdr_ends(s0, n) || hdr_bad(s0, n)) implies n == cnt || !prefix_ok(s0, cnt) || pair_ok(s0, cnt) by { lemma_hdr_excl(s0, n, cnt); } }', 'count': 1},
    # R4/R2: match guard -> nested if (same order of tests)
    {'rule': 'R2', 'find': 'Err(e) if e.is_eof() => return Err(e), Err(_) => { lexer.set_pos(backup_pos); break; }',
     'replace': 'Err(e) => { if e.is_eof() { return Err(e); } lexer.set_pos(backup_pos); break; }'},
    # the table of abbreviated keys
    named_table(r'expand_abbr_name\(key,\s*', 'tab93', 't93_full', 12),
    {'rule': 'R1', 'find': 'dict.insert(key, val);',
     'replace': 'dict.insert(key, val); proof { assert(pair_ok(s0, cnt)); cnt = cnt + 1; }'},
    {'rule': 'R1', 'find': 'lexer.next_expect("ID")?;',
     'replace': 'proof { lemma_literals(); assert forall|n: nat| (hdr_ends(s0, n) || hdr_bad(s0, n)) implies n == cnt by { lemma_hdr_excl(s0, n, cnt); } } '
                'lexer.next_expect("ID")?; let ghost idend = lexer.pos as int;'},
    # R7 + R1 (shape, count '*'): `<e>.iter().take_while(|b| b.is_ascii_<kind>()).count()` -> generic L0 helper; the closure keeps its
    # body and gets the `ensures` an unannotated closure lacks; <e>, the binder and the predicate kind are captured
    {'rule': 'R7', 'regex': r'([\w.()&*]+?)\.iter\(\)\s*\.take_while\(\|(\w+)\|\s*\2\.is_ascii_(\w+)\(\)\)\s*\.count\(\)', 'count': '*',
     'replace': r'{ let f_ = |\2: &&u8| -> (k_: bool) ensures k_ == \2.is_ascii_\3() { \2.is_ascii_\3() }; '
                r'proof { assert(computes_u8(f_, |c_: u8| spec_is_ascii_\3(&c_))); } iter_take_while_count(\1, f_) }'},
    # R2: impl AsRef<[u8]> argument
    {'rule': 'R2', 'regex': r'lexer\.seek_substr\(("(?:[^"\\]|\\.)*")\)', 'replace': r'lexer.seek_substr(str_as_bytes(\1))'},
    {'rule': 'R1', 'find': 'if lexer.seek_substr(', 'replace': 'proof { lemma_literals(); assert(all_ascii("\\nEI"@)); assert(ascii_bytes("\\nEI"@) =~= lf_e_i()); } if lexer.seek_substr('},
    # anchored on the shape "the `if lexer.seek_substr(..).. { .. }` block" (not on the name of the local that follows it)
    {'rule': 'R1', 'regex': r'(if\s+lexer\.seek_substr\([^{]*\{[^{}]*\})',
     'replace': r'\1 let ghost q0 = lexer.pos as int - 3; '
                'proof { assert(first_occ(s0.buf, lf_e_i(), idend, q0)); '
                'assert forall|q: int| first_occ(s0.buf, lf_e_i(), idend, q) implies q == q0 by { if q < q0 { assert(!occ(s0.buf, lf_e_i(), q)); } else if q0 < q { assert(!occ(s0.buf, lf_e_i(), q0)); } } }'},
    MAP_PLAIN, MAP_TRANSPOSE,
    named_table(r'ColorSpace::from_primitive\(expand_abbr\(p\.clone\(\),\s*', 'tab94cs', 't94_cs', 8),
    named_table(r'Some\(expand_abbr\(p,\s*', 'tab94f', 't94_filter', 10),
    # R2: trait static call with inferred Self (ImageDict::decode: Option<Vec<f32>>)
    {'rule': 'R2', 'find': 'Object::from_primitive(p.clone(), resolve)', 'replace': 'vec_f32_from_primitive(p.clone(), resolve)'},
    # R7: Option::unwrap_or_default
    {'rule': 'R7', 'regex': r'let decode_parms = (.*?)\.unwrap_or_default\(\);', 'replace': r'let decode_parms = dict_or_default(\1);'},
    # R7: iterator chain of the array form of /Filter
    {'rule': 'R7', 'regex': r'parts\.into_iter\(\)\s*\.map\(\|p\| p\.as_name\(\)\.and_then\(\|kind\| StreamFilter::from_kind_and_params\(kind, decode_parms\.clone\(\), resolve\)\)\)\s*\.collect::<Result<_>>\(\)\?',
     'replace': 'collect_filters(parts, &decode_parms, resolve)?'},
    # R2: &SmallString -> &str deref made explicit
    {'rule': 'R2', 'find': 'StreamFilter::from_kind_and_params(&kind, decode_parms, resolve)', 'replace': 'StreamFilter::from_kind_and_params(ss_as_str(&kind), decode_parms, resolve)'},
    {'rule': 'R1', 'find': 'let height =', 'replace': 'let ghost d_all = hdr(s0, cnt); let height ='},
    {'rule': 'R1', 'find': 'let data = lexer.new_substr', 'replace': 'proof { assert(image_dict.other@ =~= d_all.remove("Filter"@).remove("Height"@).remove("Intent"@).remove("Width"@)); } let data = lexer.new_substr'},
]

UNIT = {
 'name': 'inlineimg',
 'doc': 'inline image parsing (BI .. ID .. EI): Table 93/94 abbreviations, data range, lexer position; Lexer::seek_substr first occurrence',
 'rlimit': 60, 'timeout': 1200,
 'tolerances': {'TOL_EMPTY_DATA': '`ID` directly followed by LF-E-I (no data byte at all, the LF doubling as the separator): ISO = empty data; '
                                  'new_substr() repairs the backward range idend+1..idend into the one byte `E`. Only a zero-sized image has no data.'},
 'items': {
  'enum Primitive': {'kind': 'decl', 'file': P, 'header': r'^pub enum Primitive$'},
  'struct Name': {'kind': 'decl', 'file': P, 'header': r'^pub struct Name\b'},
  'struct ImageDict': {'kind': 'decl', 'file': T, 'header': r'^pub struct ImageDict$'},
  'struct ImageXObject': {'kind': 'decl', 'file': T, 'header': r'^pub struct ImageXObject$'},
  'struct Lexer': {'kind': 'decl', 'file': L, 'header': r"^pub struct Lexer<'a>$", 'rewrites': pub('pos', 'buf', 'file_offset')},
  'struct Substr': {'kind': 'decl', 'file': L, 'header': r"^pub struct Substr<'a>$", 'rewrites': pub('slice', 'file_offset')},

  'Lexer::seek_substr': {'kind': 'fn', 'file': L, 'container': LX, 'name': 'seek_substr', 'props': ['C08', 'C01'],
     # call sites: content.rs:160 "\nEI", repair.rs:13 "endobj" -- non-empty, first byte not repeated
     'requires': ['old(self).wf()', 'head_unique(substr@)'],
     'ensures': [('seek_wf', 'final(self).wf() && final(self).same(old(self))'),
                 ('seek_first_occurrence', 'r is Some ==> first_occ(old(self).buf@, substr@, old(self).pos as int, final(self).pos - substr@.len())'),
                 ('seek_none_means_absent', 'r is None ==> no_occ(old(self).buf@, substr@, old(self).pos as int)')],
     'rewrites': [{'where': 'sig', 'rule': 'R2', 'find': 'substr: impl AsRef<[u8]>', 'replace': 'substr: &[u8]'},
                  {'rule': 'R2', 'find': 'let substr = substr.as_ref();', 'replace': ''},
                  {'rule': 'R1', 'find': 'if self.buf[self.pos] == substr[matched] {', 'replace': 'let ghost m_before = matched as int; if self.buf[self.pos] == substr[matched] {'},
                  {'rule': 'R1', 'find': 'if matched == substr.len() {',
                   'replace': 'proof { lemma_seek_step(self.buf@, substr@, start as int, self.pos as int, m_before, matched as int); } if matched == substr.len() {'}],
     'loops': {1: {'invariant': ['self.wf()', 'self.same(old(self))', 'head_unique(substr@)', 'start == old(self).pos', 'start <= self.pos'],
                   'invariant_except_break': ['matched < substr@.len()', 'matched <= self.pos - start',
                                 'forall|j: int| 0 <= j < matched ==> self.buf@[self.pos - matched + j] == #[trigger] substr@[j]',
                                 ('seek_nothing_skipped', 'none_before(self.buf@, substr@, start as int, self.pos - matched)')],
                   'ensures': ['self.pos < self.buf@.len()', 'self.pos + 1 >= start + substr@.len()',
                               'forall|j: int| 0 <= j < substr@.len() ==> self.buf@[self.pos + 1 - substr@.len() + j] == #[trigger] substr@[j]',
                               ('seek_nothing_skipped', 'none_before(self.buf@, substr@, start as int, self.pos + 1 - substr@.len())')],
                   'decreases': 'self.buf@.len() - self.pos'}}},

  'expand_abbr_name': {'kind': 'fn', 'file': F, 'container': None, 'name': 'expand_abbr_name', 'props': ['C08', 'C01'],
     'ensures': [('first_matching_pair', 'r.view() == lookup_from(alt@, name.view(), 0)')],
     'loops': {1: {'for_ghost': 'it',
                   'invariant': ['lookup_from(alt@, name.view(), 0) == lookup_from(alt@, name.view(), it.index@ as int)']}},
     'rewrites': [{'where': 'sig', 'rule': 'R2', 'find': 'alt: &[(&str, &str)]', 'replace': "alt: &[(&'static str, &'static str)]"},
                  {'rule': 'R5', 'find': 'for &(p, r) in alt {', 'replace': 'for pr_ in alt { let (p, r) = *pr_;'},
                  {'rule': 'R7', 'find': 'name == p', 'replace': 'ss_eq_str(&name, p)'},
                  {'rule': 'R7', 'find': 'return r.into();', 'replace': 'return ss_from_str(r);'}]},
  'expand_abbr': {'kind': 'fn', 'file': F, 'container': None, 'name': 'expand_abbr', 'props': ['C08', 'C01'],
     'ensures': [('names_expanded', 'r == expand_val(p, alt_fn(alt@))')],
     'rewrites': [{'where': 'sig', 'rule': 'R2', 'find': 'alt: &[(&str, &str)]', 'replace': "alt: &[(&'static str, &'static str)]"},
                  {'rule': 'R1', 'find': 'match p {', 'replace': 'broadcast use {axiom_ss_view, axiom_view_ss}; match p {'},
                  {'rule': 'R7', 'find': 'items.into_iter().map(|p| expand_abbr(p, alt)).collect()', 'replace': 'map_expand(items, alt)'}]},

  'inline_image': {'kind': 'fn', 'file': F, 'container': None, 'name': 'inline_image', 'props': ['C08', 'C01'],
     # call site: OpBuilder::add "BI" with the lexer of OpBuilder::parse (Lexer::new(data): wf)
     'requires': ['old(lexer).wf()'],
     'ensures': [('lexer_frame', 'final(lexer).wf() && final(lexer).same(old(lexer))'),
                 # Table 93/94, 8.9.7: keys under their full names, values typed, data range, lexer right after EI
                 ('table93_image', 'forall|n: nat| #[trigger] hdr_ends(%s, n) ==> image_post(%s, n, r, final(lexer).pos as int)' % (S0, S0)),
                 ('malformed_header_is_err', 'forall|n: nat| #[trigger] hdr_bad(%s, n) ==> r is Err' % S0)],
     'rewrites': INLINE_REWRITES,
     'loops': {1: {'invariant': ['lexer.wf()', 'lexer.same(old(lexer))', 's0 == src_of(*old(lexer))',
                                 ('pairs_read_in_order', 'lexer.pos == st(s0, cnt) && prefix_ok(s0, cnt)'),
                                 ('keys_under_full_names', 'dict@ == hdr(s0, cnt)')],
                   'ensures': [('list_ends_at_non_object', 'hdr_ends(s0, cnt)')],
                   'decreases': 'lexer.buf@.len() - lexer.pos'}}},
 },
}
