#!/usr/bin/env python3
"""Regenerates mutants/*.diff and benign/*.diff.  Each = /repo + findings/*_fix.diff (those that still apply) + ONE edit,
written as a diff against /repo.  Run: python3 units/<unit>/gen_mutants.py"""
import os, subprocess, tempfile, shutil, glob
HERE = os.path.dirname(os.path.abspath(__file__))
C = 'pdf/src/content.rs'
L = 'pdf/src/parser/lexer/mod.rs'
MUTANTS = {
 'dp_wrong_full_key': ('inline_image/keys_under_full_names', C, '("DP", "DecodeParms"),', '("DP", "Decode"),'),
 'cs_i_wrong_name': ('inline_image/table93_image', C, '("I", "Indexed")', '("I", "ICCBased")'),
 'filter_fl_wrong_name': ('inline_image/table93_image', C, '("Fl", "FlateDecode"),', '("Fl", "LZWDecode"),'),
 'ei_without_lf': ('inline_image/table93_image', C, 'lexer.seek_substr("\\nEI")', 'lexer.seek_substr("EI")'),
 'data_keeps_separator': ('inline_image/table93_image', C, 'let data_start = lexer.get_pos() + 1;', 'let data_start = lexer.get_pos();'),
 'data_drops_last_byte': ('inline_image/table93_image', C, 'let data_end = lexer.get_pos() - 3;', 'let data_end = lexer.get_pos() - 4;'),
 'width_height_swapped': ('inline_image/table93_image', C, 'let width = dict.require("InlineImage", "Width")?.as_u32()?;', 'let width = dict.require("InlineImage", "Height")?.as_u32()?;'),
 'interpolate_reads_imagemask': ('inline_image/table93_image', C, 'let interpolate = dict.get("Interpolate")', 'let interpolate = dict.get("ImageMask")'),
 'unknown_key_rejected': ('inline_image/table93_image', C, '    let image_dict = ImageDict {', '    if dict.len() > 0 { bail!("unknown key"); }\n    let image_dict = ImageDict {'),
 'seek_restart_dropped': ('Lexer::seek_substr/seek_nothing_skipped', L, '                matched = 1;\n', '                matched = 0;\n'),
 'seek_stops_one_short': ('Lexer::seek_substr/seek_first_occurrence', L, '            self.pos += 1;\n        }\n        self.pos += 1;\n        Some(self.new_substr(start..(self.pos - substr.len())))',
                          '            self.pos += 1;\n        }\n        Some(self.new_substr(start..(self.pos + 1 - substr.len())))'),
}
BENIGN = {
 'table_rows_reordered': (C, '            ("BPC", "BitsPerComponent"),\n            ("CS", "ColorSpace"),\n', '            ("CS", "ColorSpace"),\n            ("BPC", "BitsPerComponent"),\n'),
 'width_read_before_height': (C, None, None),
}


def main():
    tmp = tempfile.mkdtemp(prefix='mut_')
    try:
        files = sorted({m[1] for m in MUTANTS.values()} | {b[0] for b in BENIGN.values()})
        for side in 'ab':
            for f in files:
                os.makedirs(os.path.join(tmp, side, os.path.dirname(f)), exist_ok=True)
                shutil.copy(os.path.join('/repo', f), os.path.join(tmp, side, f))
        for fx in sorted(glob.glob(os.path.join(HERE, 'findings', '*_fix.diff'))):
            subprocess.run(['patch', '-p1', '-s', '-N', '-r', '-', '-i', fx], cwd=os.path.join(tmp, 'b'))
        fixed = {f: open(os.path.join(tmp, 'b', f)).read() for f in files}
        # second benign edit: two independent statements swapped
        h = '    let height = dict.require("InlineImage", "Height")?.as_u32()?;\n'
        im = '    let image_mask = dict.get("ImageMask").map(|p| p.as_bool()).transpose()?.unwrap_or(false);\n'
        BENIGN['width_read_before_height'] = (C, h + im, im + h)
        for kind, table in (('mutants', MUTANTS), ('benign', BENIGN)):
            os.makedirs(os.path.join(HERE, kind), exist_ok=True)
            for name, spec in table.items():
                expect, f, old, new = spec if kind == 'mutants' else (None,) + spec
                assert fixed[f].count(old) == 1, (name, fixed[f].count(old))
                open(os.path.join(tmp, 'b', f), 'w').write(fixed[f].replace(old, new))
                d = ''
                for g in files:
                    d += subprocess.run(['diff', '-u', '--label', 'a/' + g, '--label', 'b/' + g, 'a/' + g, 'b/' + g],
                                        cwd=tmp, capture_output=True, text=True).stdout
                open(os.path.join(tmp, 'b', f), 'w').write(fixed[f])
                head = ('# expect: %s\n# (contains the hunks of findings/*_fix.diff, see gen_mutants.py)\n' % expect) if expect else \
                       '# benign edit: must NOT be reported as failed (includes the fix hunks)\n'
                open(os.path.join(HERE, kind, name + '.diff'), 'w').write(head + d)
    finally:
        shutil.rmtree(tmp)


if __name__ == '__main__':
    main()
