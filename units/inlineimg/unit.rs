// Unit `inlineimg` (C08 "inline image parsing", C01): content.rs `inline_image`, `expand_abbr_name`, `expand_abbr` and
// lexer `Lexer::seek_substr` (first-occurrence contract) against ISO 32000-1 8.9.7, Tables 92, 93, 94.
use vstd::prelude::*;
use std::sync::Arc;
//@@ INCLUDE _common/error_macros.rs
verus! {
//@@ INCLUDE _common/std_specs_u8.rs
global size_of usize == 8;

//@@ PDFERROR
//@@ DEVIATIONS

// ---------------------------------------------------------------------------------------------------------
// env: opaque types of other modules
// ---------------------------------------------------------------------------------------------------------
#[verifier::external_body] pub struct SmallString { p: core::marker::PhantomData<()> }
#[verifier::external_body] pub struct PdfString { p: core::marker::PhantomData<()> }
#[verifier::external_body] pub struct PdfStream { p: core::marker::PhantomData<()> }
#[verifier::external_body] pub struct PlainRef { p: core::marker::PhantomData<()> }
#[verifier::external_body] pub struct ColorSpace { p: core::marker::PhantomData<()> }
#[verifier::external_body] pub struct RenderingIntent { p: core::marker::PhantomData<()> }
#[verifier::external_body] pub struct StreamFilter { p: core::marker::PhantomData<()> }
#[verifier::external_body] #[verifier::accept_recursive_types(T)] pub struct Ref<T> { p: core::marker::PhantomData<T> }
pub struct NoResolve;
pub trait Resolve { }

// A SmallString is determined by its characters (value type): `ss` is the inverse of `view`.  [trusted axiom]
impl SmallString { pub uninterp spec fn view(&self) -> Seq<char>; }
pub uninterp spec fn ss(c: Seq<char>) -> SmallString;
#[verifier::external_body]
pub broadcast proof fn axiom_ss_view(c: Seq<char>) ensures #[trigger] ss(c).view() == c { }
#[verifier::external_body]
pub broadcast proof fn axiom_view_ss(x: SmallString) ensures #[trigger] ss(x.view()) == x { }

//@@ enum Primitive
//@@ struct Name

// Dictionary (pdf/src/primitive.rs, an IndexMap<Name, Primitive>): modelled as the map key characters -> value
// (insertion order is not part of the model)
#[verifier::external_body] pub struct Dictionary { p: core::marker::PhantomData<()> }
impl Dictionary {
    pub uninterp spec fn view(&self) -> Map<Seq<char>, Primitive>;
    #[verifier::external_body]
    pub fn new() -> (r: Dictionary) ensures r@ == Map::<Seq<char>, Primitive>::empty() { unimplemented!() }
    #[verifier::external_body]
    pub fn len(&self) -> (r: usize) ensures (r == 0) == (forall|k: Seq<char>| !self@.dom().contains(k)) { unimplemented!() }
    // IndexMap::insert: the value stored under the key afterwards is `val`, all other keys untouched
    #[verifier::external_body]
    pub fn insert(&mut self, key: SmallString, val: Primitive) -> (r: Option<Primitive>)
        ensures final(self)@ == old(self)@.insert(key.view(), val) { unimplemented!() }
    #[verifier::external_body]
    pub fn get(&self, key: &str) -> (r: Option<&Primitive>)
        ensures self@.dom().contains(key@) ==> (r matches Some(p) && *p == self@[key@]), !self@.dom().contains(key@) ==> r is None
    { unimplemented!() }
    #[verifier::external_body]
    pub fn remove(&mut self, key: &str) -> (r: Option<Primitive>)
        ensures final(self)@ == old(self)@.remove(key@),
            old(self)@.dom().contains(key@) ==> r == Some(old(self)@[key@]), !old(self)@.dom().contains(key@) ==> r is None
    { unimplemented!() }
    // body in /repo: self.remove(key).ok_or(MissingEntry{..})
    #[verifier::external_body]
    pub fn require(&mut self, typ: &'static str, key: &str) -> (r: Result<Primitive>)
        ensures final(self)@ == old(self)@.remove(key@),
            old(self)@.dom().contains(key@) ==> r == Ok::<Primitive, PdfError>(old(self)@[key@]), !old(self)@.dom().contains(key@) ==> r is Err
    { unimplemented!() }
}

//@@ struct ImageDict
//@@ struct ImageXObject

// env twin of object/stream.rs `Stream<I>` as built by `Stream::from_compressed(info, data, filters)`:
// typed dictionary, the still-encoded bytes and the filters they are encoded with (file = None, no file filters)
pub struct Stream<I> { pub info: I, pub filters: Vec<StreamFilter>, pub data: Vec<u8> }
impl<I> Stream<I> {
    #[verifier::external_body]
    pub fn from_compressed(i: I, data: Vec<u8>, filters: Vec<StreamFilter>) -> (r: Stream<I>)
        ensures r.info == i && r.data@ == data@ && r.filters@ == filters@ { unimplemented!() }
}

// ---------------------------------------------------------------------------------------------------------
// ISO 32000-1:2008, 8.9.7 "Inline Images" -- transcribed from the standard, not from the code
// ---------------------------------------------------------------------------------------------------------
//@@ INCLUDE inlineimg/iso_tables.rs

// abbreviation table as the code passes it: first pair whose abbreviation equals the name decides, else unchanged
pub open spec fn lookup_from(alt: Seq<(&'static str, &'static str)>, k: Seq<char>, i: int) -> Seq<char>
    decreases alt.len() - i
{
    if i < 0 || i >= alt.len() { k } else if alt[i].0@ == k { alt[i].1@ } else { lookup_from(alt, k, i + 1) }
}
pub open spec fn alt_fn(alt: Seq<(&'static str, &'static str)>) -> spec_fn(Seq<char>) -> Seq<char> {
    |k: Seq<char>| lookup_from(alt, k, 0)
}
// a table that answers like the ISO function IS that function (extensionality); no precondition: the hypothesis is left to the solver
pub proof fn lemma_alt_ext(alt: Seq<(&'static str, &'static str)>, f: spec_fn(Seq<char>) -> Seq<char>)
    ensures (forall|k: Seq<char>| #[trigger] lookup_from(alt, k, 0) == f(k)) ==> alt_fn(alt) == f
{
    if forall|k: Seq<char>| #[trigger] lookup_from(alt, k, 0) == f(k) { assert(alt_fn(alt) =~= f); }
}
// the value with its names expanded: a name is replaced, an array element-wise (recursively), anything else unchanged
pub uninterp spec fn map_vec(v: Vec<Primitive>, f: spec_fn(Seq<char>) -> Seq<char>) -> Vec<Primitive>;
pub open spec fn expand_val(p: Primitive, f: spec_fn(Seq<char>) -> Seq<char>) -> Primitive {
    match p {
        Primitive::Name(n) => Primitive::Name(ss(f(n.view()))),
        Primitive::Array(v) => Primitive::Array(map_vec(v, f)),
        _ => p,
    }
}

// ---------------------------------------------------------------------------------------------------------
// env: the lexer.  struct taken from /repo; seek_substr is under contract HERE (first occurrence), the other
// methods are restated with the contracts proved in units/lexer.
// ---------------------------------------------------------------------------------------------------------
//@@ struct Lexer
//@@ struct Substr

pub open spec fn occ(hay: Seq<u8>, needle: Seq<u8>, k: int) -> bool {
    0 <= k && k + needle.len() <= hay.len() && forall|j: int| 0 <= j < needle.len() ==> hay[k + j] == #[trigger] needle[j]
}
pub open spec fn none_before(hay: Seq<u8>, needle: Seq<u8>, lo: int, hi: int) -> bool {
    forall|s: int| lo <= s < hi ==> !#[trigger] occ(hay, needle, s)
}
// first occurrence at or after `from`
pub open spec fn first_occ(hay: Seq<u8>, needle: Seq<u8>, from: int, q: int) -> bool {
    from <= q && occ(hay, needle, q) && none_before(hay, needle, from, q)
}
pub open spec fn no_occ(hay: Seq<u8>, needle: Seq<u8>, from: int) -> bool {
    forall|s: int| from <= s ==> !#[trigger] occ(hay, needle, s)
}
// the needle's first byte does not occur again inside it ("endobj", LF-E-I)
pub open spec fn head_unique(needle: Seq<u8>) -> bool {
    needle.len() > 0 && forall|j: int| 1 <= j < needle.len() ==> #[trigger] needle[j] != needle[0]
}

// one scanner step: the partial match either grows, restarts at this byte, or is dropped
pub proof fn lemma_seek_step(buf: Seq<u8>, n: Seq<u8>, start: int, pos: int, m: int, m2: int)
    ensures
        (head_unique(n) && 0 <= m < n.len() && start <= pos - m && 0 <= pos < buf.len()
         && (forall|j: int| 0 <= j < m ==> buf[pos - m + j] == #[trigger] n[j])
         && none_before(buf, n, start, pos - m)
         && ((buf[pos] == n[m] && m2 == m + 1)
             || (buf[pos] != n[m] && buf[pos] == n[0] && m2 == 1)
             || (buf[pos] != n[m] && buf[pos] != n[0] && m2 == 0)))
        ==> none_before(buf, n, start, pos + 1 - m2)
{
    if head_unique(n) && 0 <= m < n.len() && start <= pos - m && 0 <= pos < buf.len()
        && (forall|j: int| 0 <= j < m ==> buf[pos - m + j] == #[trigger] n[j])
        && none_before(buf, n, start, pos - m) && buf[pos] != n[m]
        && ((buf[pos] == n[0] && m2 == 1) || (buf[pos] != n[0] && m2 == 0)) {
        assert forall|s: int| pos - m <= s < pos + 1 - m2 implies !#[trigger] occ(buf, n, s) by {
            if occ(buf, n, s) {
                if s == pos - m { assert(buf[s + m] == n[m]); }
                else if s < pos { assert(buf[s + 0] == n[0]); assert(buf[pos - m + (s - (pos - m))] == n[s - (pos - m)]); }
                else { assert(buf[s + 0] == n[0]); }
            }
        }
    }
}

impl<'a> Substr<'a> {
    pub open spec fn cut_from(&self, buf: Seq<u8>, base: int, lo: int, hi: int) -> bool {
        0 <= lo <= hi <= buf.len() && self.slice@ == buf.subrange(lo, hi) && self.file_offset == base + lo
    }
    // body in /repo: self.slice.to_vec()
    #[verifier::external_body]
    pub fn to_vec(&self) -> (r: Vec<u8>) ensures r@ == self.slice@ { self.slice.to_vec() }
}

// parse_with_lexer(lexer, &NoResolve, ParseFlags::ANY) as a function of (buffer, file offset, position):
// value or error, and the position afterwards
pub uninterp spec fn pw(buf: Seq<u8>, off: int, pos: int) -> (Result<Primitive>, int);
// Lexer::next_expect(word) as a function of (buffer, position): accepted?, position afterwards
pub uninterp spec fn expect_at(buf: Seq<u8>, pos: int, word: Seq<char>) -> (bool, int);
pub uninterp spec fn is_eof_spec(e: PdfError) -> bool;

impl<'a> Lexer<'a> {
    pub open spec fn wf(&self) -> bool {
        self.pos <= self.buf@.len() && self.buf@.len() <= isize::MAX && self.file_offset + self.buf@.len() <= usize::MAX
    }
    pub open spec fn same(&self, o: &Lexer<'a>) -> bool { self.buf@ == o.buf@ && self.file_offset == o.file_offset }
    /// proved in units/lexer: Lexer::get_pos/get_pos_is_pos
    #[verifier::external_body]
    pub fn get_pos(&self) -> (r: usize) ensures r == self.pos { unimplemented!() }
    /// proved in units/lexer: Lexer::get_remaining_slice/remaining_is_tail
    #[verifier::external_body]
    pub fn get_remaining_slice(&self) -> (r: &'a [u8])
        requires self.wf()
        ensures r@ == self.buf@.subrange(self.pos as int, self.buf@.len() as int)
    { unimplemented!() }
    /// proved in units/lexer: Lexer::set_pos/set_pos_wf, set_pos_clamped
    #[verifier::external_body]
    pub fn set_pos(&mut self, wanted_pos: usize) -> (r: Substr<'a>)
        requires old(self).wf()
        ensures final(self).wf() && final(self).same(old(self)),
            final(self).pos == if wanted_pos <= old(self).buf@.len() { wanted_pos as int } else { old(self).buf@.len() as int }
    { unimplemented!() }
    /// proved in units/lexer: Lexer::next_expect/expect_wf, expect_eof, expect_compares_iso_token (which make the
    /// outcome and the end position functions of buffer, position and the expected word: `expect_at`)
    #[verifier::external_body]
    pub fn next_expect(&mut self, expected: &'static str) -> (r: Result<()>)
        requires old(self).wf()
        ensures final(self).wf() && final(self).same(old(self)),
            (r is Ok, final(self).pos as int) == expect_at(old(self).buf@, old(self).pos as int, expected@)
    { unimplemented!() }
    /// proved in units/lexer: Lexer::new_substr/substr_is_range, substr_backward_range
    #[verifier::external_body]
    pub fn new_substr(&self, range: core::ops::Range<usize>) -> (r: Substr<'a>)
        requires self.wf(), if range.start <= range.end { range.end <= self.buf@.len() } else { range.start < self.buf@.len() }
        ensures range.start <= range.end ==> r.cut_from(self.buf@, self.file_offset as int, range.start as int, range.end as int),
            range.start > range.end ==> r.cut_from(self.buf@, self.file_offset as int, range.end + 1, range.start + 1)
    { unimplemented!() }
//@@ Lexer::seek_substr
}

pub struct ParseFlags { pub bits: u16 }
impl ParseFlags { pub const ANY: ParseFlags = ParseFlags { bits: 0xffff }; }
/// proved in units/parser_obj: parse_with_lexer/ctx_frame, err_restores_position, ok_consumes; the last clause names
/// the outcome (the parser is a function of buffer, offset and position; nothing is assumed about its value)
#[verifier::external_body]
fn parse_with_lexer(lexer: &mut Lexer, r: &NoResolve, flags: ParseFlags) -> (res: Result<Primitive>)
    requires old(lexer).wf()
    ensures final(lexer).wf() && final(lexer).same(old(lexer)),
        res is Err ==> final(lexer).pos == old(lexer).pos,
        res is Ok ==> final(lexer).pos > old(lexer).pos,
        (res, final(lexer).pos as int) == pw(old(lexer).buf@, old(lexer).file_offset as int, old(lexer).pos as int)
{ unimplemented!() }
impl PdfError {
    #[verifier::external_body] pub fn is_eof(&self) -> (r: bool) ensures r == is_eof_spec(*self) { unimplemented!() }
}

// ---------------------------------------------------------------------------------------------------------
// env: typed readers applied to the entries of the image dictionary (abstract: each is some function of its argument)
// ---------------------------------------------------------------------------------------------------------
pub uninterp spec fn as_integer_spec(p: Primitive) -> Result<i32>;
pub uninterp spec fn as_bool_spec(p: Primitive) -> Result<bool>;
pub uninterp spec fn as_u32_spec(p: Primitive) -> Result<u32>;
pub uninterp spec fn as_name_spec(p: Primitive) -> Result<Seq<char>>;
pub uninterp spec fn colorspace_spec(p: Primitive) -> Result<ColorSpace>;
pub uninterp spec fn decode_spec(p: Primitive) -> Result<Vec<f32>>;
pub uninterp spec fn intent_spec(p: Primitive) -> Result<RenderingIntent>;
pub uninterp spec fn resolve_spec(p: Primitive) -> Result<Primitive>;
pub uninterp spec fn into_dict_spec(p: Primitive) -> Result<Dictionary>;
pub uninterp spec fn filter_spec(kind: Seq<char>, params: Dictionary) -> Result<StreamFilter>;
pub uninterp spec fn default_dict() -> Dictionary;

impl Primitive {
    #[verifier::external_body] pub fn clone(&self) -> (r: Primitive) ensures r == *self { unimplemented!() }
    #[verifier::external_body] pub fn as_integer(&self) -> (r: Result<i32>) ensures r == as_integer_spec(*self) { unimplemented!() }
    #[verifier::external_body] pub fn as_bool(&self) -> (r: Result<bool>) ensures r == as_bool_spec(*self) { unimplemented!() }
    #[verifier::external_body] pub fn as_u32(&self) -> (r: Result<u32>) ensures r == as_u32_spec(*self) { unimplemented!() }
    #[verifier::external_body] pub fn resolve(self, r: &impl Resolve) -> (res: Result<Primitive>) ensures res == resolve_spec(self) { unimplemented!() }
    #[verifier::external_body] pub fn into_dictionary(self) -> (r: Result<Dictionary>) ensures r == into_dict_spec(self) { unimplemented!() }
}
impl ColorSpace {
    #[verifier::external_body]
    pub fn from_primitive(p: Primitive, resolve: &impl Resolve) -> (r: Result<ColorSpace>) ensures r == colorspace_spec(p) { unimplemented!() }
}
impl RenderingIntent {
    #[verifier::external_body]
    pub fn from_primitive(p: Primitive, resolve: &NoResolve) -> (r: Result<RenderingIntent>) ensures r == intent_spec(p) { unimplemented!() }
}
// R2: `Object::from_primitive(p, resolve)` with Self = Vec<f32> inferred from `ImageDict::decode`
#[verifier::external_body]
fn vec_f32_from_primitive(p: Primitive, resolve: &impl Resolve) -> (r: Result<Vec<f32>>) ensures r == decode_spec(p) { unimplemented!() }
impl StreamFilter {
    #[verifier::external_body]
    pub fn from_kind_and_params(kind: &str, params: Dictionary, r: &impl Resolve) -> (res: Result<StreamFilter>)
        ensures res == filter_spec(kind@, params) { unimplemented!() }
}

// ---- L0 helpers (R7): expressions Verus cannot read; each body is (or is described by) the hoisted source text ----
#[verifier::external_body]
fn ss_eq_str(a: &SmallString, b: &str) -> (r: bool) ensures r == (a.view() == b@) { unimplemented!() /* *a == b */ }
#[verifier::external_body]
fn ss_from_str(s: &str) -> (r: SmallString) ensures r.view() == s@ { unimplemented!() /* s.into() */ }
#[verifier::external_body]
fn ss_as_str(s: &SmallString) -> (r: &str) ensures r@ == s.view() { unimplemented!() /* &s (Deref) */ }
// "lit".as_ref() for an ASCII literal: its bytes are its characters
pub open spec fn all_ascii(s: Seq<char>) -> bool { forall|i: int| 0 <= i < s.len() ==> (#[trigger] s[i] as u32) < 128 }
pub open spec fn ascii_bytes(s: Seq<char>) -> Seq<u8> { Seq::new(s.len(), |i: int| s[i] as u8) }
#[verifier::external_body]
fn str_as_bytes(s: &'static str) -> (r: &'static [u8])
    ensures all_ascii(s@) ==> r@ == ascii_bytes(s@)
{ s.as_ref() }
// `s.iter().take_while(f).count()` for a byte predicate `f` (R7; generic in the closure): the length of the longest
// prefix of `s` whose bytes all satisfy the predicate the closure computes
pub open spec fn leading(s: Seq<u8>, p: spec_fn(u8) -> bool) -> nat
    decreases s.len()
{
    if s.len() == 0 || !p(s[0]) { 0 } else { 1 + leading(s.skip(1), p) }
}
pub open spec fn computes_u8<F: Fn(&&u8) -> bool>(f: F, p: spec_fn(u8) -> bool) -> bool {
    forall|b: &&u8, k: bool| #[trigger] f.ensures((b,), k) ==> k == p(**b)
}
#[verifier::external_body]
fn iter_take_while_count<F: Fn(&&u8) -> bool>(s: &[u8], f: F) -> (r: usize)
    requires forall|b: &&u8| f.requires((b,))
    ensures r <= s@.len(), forall|p: spec_fn(u8) -> bool| #[trigger] computes_u8(f, p) ==> r == leading(s@, p)
{ s.iter().take_while(f).count() }
// items.into_iter().map(|p| expand_abbr(p, alt)).collect()
#[verifier::external_body]
fn map_expand(items: Vec<Primitive>, alt: &[(&'static str, &'static str)]) -> (r: Vec<Primitive>)
    ensures r == map_vec(items, alt_fn(alt@)), r@.len() == items@.len(),
        forall|i: int| 0 <= i < items@.len() ==> r@[i] == expand_val(#[trigger] items@[i], alt_fn(alt@))
{ unimplemented!() }
// Option<Dictionary>::unwrap_or_default()
#[verifier::external_body]
fn dict_or_default(o: Option<Dictionary>) -> (r: Dictionary) ensures r == (match o { Some(d) => d, None => default_dict() })
{ unimplemented!() /* o.unwrap_or_default() */ }
// parts.into_iter().map(|p| p.as_name().and_then(|kind| StreamFilter::from_kind_and_params(kind, decode_parms.clone(), resolve))).collect::<Result<_>>()
pub open spec fn filters_ok(parts: Seq<Primitive>, dp: Dictionary) -> bool {
    forall|i: int| 0 <= i < parts.len() ==> as_name_spec(#[trigger] parts[i]) is Ok && filter_spec(as_name_spec(parts[i])->Ok_0, dp) is Ok
}
#[verifier::external_body]
fn collect_filters(parts: Vec<Primitive>, decode_parms: &Dictionary, resolve: &impl Resolve) -> (r: Result<Vec<StreamFilter>>)
    ensures filters_ok(parts@, *decode_parms) ==> (r matches Ok(v) && v@.len() == parts@.len()
                && forall|i: int| 0 <= i < parts@.len() ==> Ok::<StreamFilter, PdfError>(#[trigger] v@[i]) == filter_spec(as_name_spec(parts@[i])->Ok_0, *decode_parms)),
            !filters_ok(parts@, *decode_parms) ==> r is Err
{ unimplemented!() }

//@@ INCLUDE inlineimg/spec.rs

//@@ expand_abbr_name
//@@ expand_abbr
//@@ inline_image
}
fn main(){}
