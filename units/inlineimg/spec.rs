// ---------------------------------------------------------------------------------------------------------
// ISO 32000-1 8.9.7: BI <key value>* ID <one white-space byte> <data> EI
// The key/value objects are read by the object parser; `pw` is that parser as a function of the position.
// ---------------------------------------------------------------------------------------------------------
pub struct Src { pub buf: Seq<u8>, pub off: int, pub p0: int }
pub open spec fn src_of(l: Lexer) -> Src { Src { buf: l.buf@, off: l.file_offset as int, p0: l.pos as int } }

// position after n complete key/value pairs
pub open spec fn st(s: Src, n: nat) -> int decreases n {
    if n == 0 { s.p0 } else { pw(s.buf, s.off, pw(s.buf, s.off, st(s, (n - 1) as nat)).1).1 }
}
pub open spec fn key_r(s: Src, i: nat) -> Result<Primitive> { pw(s.buf, s.off, st(s, i)).0 }
pub open spec fn val_r(s: Src, i: nat) -> Result<Primitive> { pw(s.buf, s.off, pw(s.buf, s.off, st(s, i)).1).0 }
pub open spec fn key_is_name(s: Src, i: nat) -> bool { match key_r(s, i) { Ok(Primitive::Name(_)) => true, _ => false } }
pub open spec fn key_chars(s: Src, i: nat) -> Seq<char> { match key_r(s, i) { Ok(Primitive::Name(k)) => k.view(), _ => Seq::empty() } }
pub open spec fn pair_ok(s: Src, i: nat) -> bool { key_is_name(s, i) && val_r(s, i) is Ok }
pub open spec fn prefix_ok(s: Src, n: nat) -> bool { forall|i: nat| i < n ==> #[trigger] pair_ok(s, i) }
// the image dictionary after n pairs: every key is stored under its FULL name (Table 93); keys outside the table are
// kept as they are; a repeated key keeps the last value
pub open spec fn hdr(s: Src, n: nat) -> Map<Seq<char>, Primitive> decreases n {
    if n == 0 { Map::empty() } else { hdr(s, (n - 1) as nat).insert(t93_full(key_chars(s, (n - 1) as nat)), val_r(s, (n - 1) as nat)->Ok_0) }
}
// the list of pairs ends where the next object is not an object at all (the keyword ID is an operator, not an object)
pub open spec fn hdr_ends(s: Src, n: nat) -> bool {
    prefix_ok(s, n) && match key_r(s, n) { Err(e) => !is_eof_spec(e), Ok(_) => false }
}
// malformed: the data ends inside the list, a key is not a name, or a key has no readable value
pub open spec fn hdr_bad(s: Src, n: nat) -> bool {
    prefix_ok(s, n) && match key_r(s, n) { Err(e) => is_eof_spec(e), Ok(Primitive::Name(_)) => val_r(s, n) is Err, Ok(_) => true }
}
pub proof fn lemma_hdr_excl(s: Src, a: nat, b: nat)
    ensures (prefix_ok(s, a) && !pair_ok(s, a) && prefix_ok(s, b) && !pair_ok(s, b)) ==> a == b
{
    if prefix_ok(s, a) && !pair_ok(s, a) && prefix_ok(s, b) && !pair_ok(s, b) {
        if a < b { assert(pair_ok(s, a)); } else if b < a { assert(pair_ok(s, b)); }
    }
}

pub open spec fn lf_e_i() -> Seq<u8> { seq![10u8, 69u8, 73u8] }

// ---- the typed entries (Table 89 keys as Table 93 allows them) read from the dictionary d ----
pub open spec fn has(d: Map<Seq<char>, Primitive>, k: Seq<char>) -> bool { d.dom().contains(k) }
pub open spec fn opt_ok<T>(r: Result<T>) -> Result<Option<T>> { match r { Ok(v) => Ok(Some(v)), Err(e) => Err(e) } }
pub open spec fn e_bpc(d: Map<Seq<char>, Primitive>) -> Result<Option<i32>> {
    if has(d, "BitsPerComponent"@) { opt_ok(as_integer_spec(d["BitsPerComponent"@])) } else { Ok(None) }
}
pub open spec fn e_cs(d: Map<Seq<char>, Primitive>) -> Result<Option<ColorSpace>> {
    if has(d, "ColorSpace"@) { opt_ok(colorspace_spec(expand_val(d["ColorSpace"@], t94_cs_fn()))) } else { Ok(None) }
}
pub open spec fn e_decode(d: Map<Seq<char>, Primitive>) -> Result<Option<Vec<f32>>> {
    if has(d, "Decode"@) { opt_ok(decode_spec(d["Decode"@])) } else { Ok(None) }
}
pub open spec fn e_dp(d: Map<Seq<char>, Primitive>) -> Result<Dictionary> {
    if has(d, "DecodeParms"@) { match resolve_spec(d["DecodeParms"@]) { Ok(p) => into_dict_spec(p), Err(e) => Err(e) } } else { Ok(default_dict()) }
}
pub open spec fn e_filter_val(d: Map<Seq<char>, Primitive>) -> Option<Primitive> {
    if has(d, "Filter"@) { Some(expand_val(d["Filter"@], t94_filter_fn())) } else { None }
}
pub open spec fn e_mask(d: Map<Seq<char>, Primitive>) -> Result<bool> {
    if has(d, "ImageMask"@) { as_bool_spec(d["ImageMask"@]) } else { Ok(false) }
}
pub open spec fn e_interp(d: Map<Seq<char>, Primitive>) -> Result<bool> {
    if has(d, "Interpolate"@) { as_bool_spec(d["Interpolate"@]) } else { Ok(false) }
}
pub open spec fn e_intent(d: Map<Seq<char>, Primitive>) -> Result<Option<RenderingIntent>> {
    if has(d, "Intent"@) { opt_ok(intent_spec(d["Intent"@])) } else { Ok(None) }
}
pub open spec fn e_dim(d: Map<Seq<char>, Primitive>, k: Seq<char>) -> Result<u32> {
    if has(d, k) { as_u32_spec(d[k]) } else { Err(PdfError::MissingEntry { typ: "InlineImage" }) }
}
// /Filter: a name or an array of names (Table 5), every filter paired with the one /DecodeParms dictionary
pub open spec fn filters_readable(fv: Option<Primitive>, dp: Dictionary) -> bool {
    match fv {
        Some(Primitive::Array(parts)) => filters_ok(parts@, dp),
        Some(Primitive::Name(kind)) => filter_spec(kind.view(), dp) is Ok,
        None => true,
        Some(_) => false,
    }
}
pub open spec fn filters_are(fv: Option<Primitive>, dp: Dictionary, v: Seq<StreamFilter>) -> bool {
    match fv {
        Some(Primitive::Array(parts)) => v.len() == parts@.len()
            && forall|i: int| 0 <= i < parts@.len() ==> Ok::<StreamFilter, PdfError>(#[trigger] v[i]) == filter_spec(as_name_spec(parts@[i])->Ok_0, dp),
        Some(Primitive::Name(kind)) => v.len() == 1 && Ok::<StreamFilter, PdfError>(v[0]) == filter_spec(kind.view(), dp),
        _ => v.len() == 0,
    }
}
pub open spec fn readable(d: Map<Seq<char>, Primitive>) -> bool {
    e_bpc(d) is Ok && e_cs(d) is Ok && e_decode(d) is Ok && e_dp(d) is Ok && filters_readable(e_filter_val(d), e_dp(d)->Ok_0)
    && e_dim(d, "Height"@) is Ok && e_mask(d) is Ok && e_intent(d) is Ok && e_interp(d) is Ok && e_dim(d, "Width"@) is Ok
}
pub open spec fn image_is(img: ImageXObject, d: Map<Seq<char>, Primitive>, data: Seq<u8>, data_known: bool) -> bool {
    let i = img.inner.info;
    &&& i.width == e_dim(d, "Width"@)->Ok_0
    &&& i.height == e_dim(d, "Height"@)->Ok_0
    &&& i.color_space == e_cs(d)->Ok_0
    &&& i.bits_per_component == e_bpc(d)->Ok_0
    &&& i.intent == e_intent(d)->Ok_0
    &&& i.image_mask == e_mask(d)->Ok_0
    &&& i.mask is None
    &&& i.decode == e_decode(d)->Ok_0
    &&& i.interpolate == e_interp(d)->Ok_0
    &&& i.struct_parent is None && i.id is None && i.smask is None
    // every other entry (unknown keys included) is kept; the four entries consumed by value are not repeated
    &&& i.other@ == d.remove("Filter"@).remove("Height"@).remove("Intent"@).remove("Width"@)
    &&& filters_are(e_filter_val(d), e_dp(d)->Ok_0, img.inner.filters@)
    &&& (data_known ==> img.inner.data@ == data)
}
// what `inline_image` must answer when the key/value list ends after n pairs
pub open spec fn image_post(s: Src, n: nat, r: Result<Arc<ImageXObject>>, endpos: int) -> bool {
    let d = hdr(s, n);
    let idok = expect_at(s.buf, st(s, n), "ID"@).0;
    let idend = expect_at(s.buf, st(s, n), "ID"@).1;
    if !idok { r is Err }
    else {
        (no_occ(s.buf, lf_e_i(), idend) ==> r is Err)
        && forall|q: int| #[trigger] first_occ(s.buf, lf_e_i(), idend, q) ==> (
            // the lexer is left right after EI
            endpos == q + 3
            && (r is Ok <==> readable(d))
            // the data: from the byte after ID + one (white-space) byte up to the LF in front of EI
            && (r matches Ok(img) ==> image_is(*img, d, s.buf.subrange(idend + 1, if idend + 1 <= q { q } else { idend + 1 }), idend + 1 <= q || !TOL_EMPTY_DATA()))
        )
    }
}
