// Drop into <scratch copy>/pdf/tests/ and run
//   CARGO_TARGET_DIR=/tmp/inlineimg_target cargo test --offline -p pdf --test seek_substr_misses_overlap_repro
use pdf::content::{parse_ops, Op};
use pdf::object::NoResolve;

fn image_data(content: &[u8]) -> Result<Vec<u8>, String> {
    let ops = parse_ops(content, &NoResolve).map_err(|e| format!("{:?}", e))?;
    match ops.into_iter().next() {
        Some(Op::InlineImage { image }) => Ok(image.inner.data(&NoResolve).map_err(|e| format!("{:?}", e))?.to_vec()),
        o => Err(format!("not an inline image: {:?}", o)),
    }
}

// a 1x1 8-bit gray image whose only sample is 0x0A: ID, one white-space byte, the sample, LF E I
#[test]
fn inline_image_whose_data_ends_in_lf() {
    let r = image_data(b"BI /W 1 /H 1 /BPC 8 /CS /G ID \n\nEI Q");
    println!("sample 0x0A : {:?}", r);
    assert_eq!(r, Ok(vec![0x0a]));
}
// control: the same image with sample 0x41
#[test]
fn inline_image_control() {
    let r = image_data(b"BI /W 1 /H 1 /BPC 8 /CS /G ID A\nEI Q");
    println!("sample 0x41 : {:?}", r);
    assert_eq!(r, Ok(vec![0x41]));
}
// the first LF E I is skipped, a later one is taken: the data swallows the operators in between
#[test]
fn inline_image_runs_into_the_next_one() {
    let r = image_data(b"BI /W 1 /H 1 /BPC 8 /CS /G ID \n\nEI Q q BI /W 1 /H 1 /BPC 8 /CS /G ID B\nEI Q");
    println!("two images  : {:?}", r);
    assert_eq!(r, Ok(vec![0x0a]));
}
