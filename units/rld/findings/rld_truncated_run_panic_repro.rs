// Repro for finding rld_truncated_run_panic (C05/C01): drop into a scratch copy of /repo as
// pdf/tests/verif_rld_repro.rs and run
//   CARGO_TARGET_DIR=/tmp/rld_target cargo test --offline -p pdf --test verif_rld_repro
// Pinned tree: both tests FAIL (the call panics: slice index / index out of bounds).
// With findings/rld_truncated_run_panic_fix.diff applied: both pass.
use pdf::enc::run_length_decode;

#[test]
fn truncated_literal_run_is_an_error_not_a_panic() {
    // length byte 5 announces 6 literal bytes, none follow
    let r = std::panic::catch_unwind(|| run_length_decode(&[5]).is_err());
    assert_eq!(r.ok(), Some(true), "run_length_decode(&[5]) must return Err (observed: panic)");
}

#[test]
fn truncated_repeat_run_is_an_error_not_a_panic() {
    // length byte 200 announces a byte to repeat 57 times, none follows
    let r = std::panic::catch_unwind(|| run_length_decode(&[200]).is_err());
    assert_eq!(r.ok(), Some(true), "run_length_decode(&[200]) must return Err (observed: panic)");
}
