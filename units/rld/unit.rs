// Unit `rld` (C05, C01): run_length_decode of pdf/src/enc.rs against the run-length function of
// ISO 32000-1 7.4.5 (RunLengthDecode filter).
use vstd::prelude::*;
//@@ INCLUDE _common/error_macros.rs
verus! {
global size_of usize == 8;

//@@ PDFERROR

// ---- spec (ISO 32000-1 7.4.5) -------------------------------------------------------------------
// "The encoded data shall be a sequence of runs, where each run shall consist of a length byte followed
//  by 1 to 128 bytes of data. If the length byte is in the range 0 to 127, the following length + 1
//  (1 to 128) bytes shall be copied literally during decompression. If length is in the range 129 to
//  255, the following single byte shall be copied 257 - length (2 to 128) times during decompression.
//  A length value of 128 shall denote EOD."
// rl_spec(d, c) = decoding of the runs that start at offset c; None = a run is cut short by the end of
// the data (malformed). Data that simply ends at a run boundary without the EOD byte is accepted.
pub open spec fn rl_spec(d: Seq<u8>, c: int) -> Option<Seq<u8>>
    decreases d.len() - c
{
    if c < 0 || c >= d.len() { Some(Seq::empty()) } else {
        let l = d[c] as int;
        if l <= 127 {
            // literal run: bytes c+1 .. c+1+(l+1)
            if c + 1 + (l + 1) > d.len() { None } else {
                match rl_spec(d, c + 1 + (l + 1)) {
                    Some(rest) => Some(d.subrange(c + 1, c + 1 + (l + 1)) + rest),
                    None => None } }
        } else if l >= 129 {
            // replicated run: byte c+1, 257 - l times
            if c + 1 >= d.len() { None } else {
                match rl_spec(d, c + 2) {
                    Some(rest) => Some(Seq::new((257 - l) as nat, |i: int| d[c + 1]) + rest),
                    None => None } }
        } else { Some(Seq::empty()) }   // 128: EOD
    }
}

// ---- L0 helper (R7): std iterator adaptor Verus cannot read; the body is the hoisted source text ----
#[verifier::external_body]
fn hoist_extend_repeat(buf: &mut Vec<u8>, b: u8, copy: usize)
    ensures final(buf)@ == old(buf)@ + Seq::new(copy as nat, |i: int| b)
{
    buf.extend(std::iter::repeat(b).take(copy));
}

// ---- proof steps used by the injected ghost code (R1) ----
// rl_inv: "what is already decoded (b0) followed by what the spec says for the rest (from offset c)
// is what the spec says for the whole input"; malformed rest <=> malformed whole.
pub open spec fn rl_inv(d: Seq<u8>, c: int, b0: Seq<u8>) -> bool {
    match rl_spec(d, c) { Some(rest) => rl_spec(d, 0) == Some(b0 + rest), None => rl_spec(d, 0) is None }
}
// The lemmas carry their semantic hypotheses as antecedents (not `requires`), so that a wrong run kind or
// cursor step in the code shows up at the loop invariant `rl_inv`; only the in-bounds facts that the
// adjacent slice/index access needs anyway are `requires` (they fail together with that access).
proof fn lemma_rl_literal(d: Seq<u8>, c: int, b0: Seq<u8>, b1: Seq<u8>)
    requires 0 <= c < d.len(), c + 2 + d[c] <= d.len(),     // the run lies inside the data (what the slice access needs)
    ensures
        (d[c] <= 127 && rl_inv(d, c, b0)
            && b1 =~= b0 + d.subrange(c + 1, c + 2 + d[c]))
        ==> rl_inv(d, c + 2 + d[c], b1),
{
    if d[c] <= 127 && rl_inv(d, c, b0)
        && b1 =~= b0 + d.subrange(c + 1, c + 2 + d[c]) {
        let e = c + 2 + d[c];
        let rest = rl_spec(d, e);
        if rest is Some {
            assert((b0 + d.subrange(c + 1, e)) + rest.unwrap() =~= b0 + (d.subrange(c + 1, e) + rest.unwrap()));
        }
    }
}

proof fn lemma_rl_repeat(d: Seq<u8>, c: int, b0: Seq<u8>, b1: Seq<u8>)
    requires 0 <= c, c + 1 < d.len(),                       // the repeated byte lies inside the data (what the index needs)
    ensures
        (d[c] >= 129 && rl_inv(d, c, b0)
            && b1 =~= b0 + Seq::new((257 - d[c]) as nat, |i: int| d[c + 1]))
        ==> rl_inv(d, c + 2, b1),
{
    if d[c] >= 129 && rl_inv(d, c, b0)
        && b1 =~= b0 + Seq::new((257 - d[c]) as nat, |i: int| d[c + 1]) {
        let rest = rl_spec(d, c + 2);
        let rep = Seq::new((257 - d[c]) as nat, |i: int| d[c + 1]);
        if rest is Some {
            assert((b0 + rep) + rest.unwrap() =~= b0 + (rep + rest.unwrap()));
        }
    }
}

proof fn lemma_rl_stop(d: Seq<u8>, c: int, b0: Seq<u8>)
    ensures
        ((c >= d.len() || (0 <= c < d.len() && d[c] == 128)) && rl_inv(d, c, b0)) ==> rl_spec(d, 0) == Some(b0),
{
    if (c >= d.len() || (0 <= c < d.len() && d[c] == 128)) && rl_inv(d, c, b0) {
        assert(rl_spec(d, c) == Some(Seq::<u8>::empty()));
        assert(b0 + Seq::<u8>::empty() =~= b0);
    }
}

//@@ run_length_decode

}
fn main(){}
