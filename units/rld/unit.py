E = 'pdf/src/enc.rs'
INV = 'rl_inv(data@, c as int, buf@)'
UNIT = {
 'name': 'rld',
 'doc': 'run_length_decode against the ISO 32000-1 7.4.5 run-length function (exact output, Err on truncated run, no panic)',
 'items': {
  'run_length_decode': {'kind': 'fn', 'file': E, 'container': None, 'name': 'run_length_decode',
     'props': ['C05', 'C01'],
     # Rust guarantees that a slice never spans more than isize::MAX bytes (std::slice::from_raw_parts safety
     # contract / Reference "dynamically sized types"); every &[u8] that reaches `decode` satisfies it.
     'requires': ['data@.len() <= isize::MAX'],
     'ensures': [('rld_wellformed', 'rl_spec(data@, 0) matches Some(s) ==> (r matches Ok(v) && v@ == s)'),
                 ('rld_truncated_is_err', 'rl_spec(data@, 0) is None ==> r is Err')],
     'loops': {1: {'invariant': ['d == data', 'c <= data@.len()', 'data@.len() <= isize::MAX',
                                 ('rl_inv', INV)],
                   'ensures': [('rl_exit', 'rl_spec(data@, 0) == Some(buf@)')],
                   'decreases': 'data@.len() - c'}},
     'rewrites': [
        # R1 ghost: remember the output so far, then one lemma call per run kind
        {'rule': 'R1', 'find': 'buf.extend_from_slice(&d[start..end]);',
         'replace': 'let ghost b0 = buf@; buf.extend_from_slice(&d[start..end]); '
                    'proof { lemma_rl_literal(data@, c as int, b0, buf@); }'},
        # R7: iterator adaptor hoisted; argument expressions stay verbatim
        {'rule': 'R7', 'regex': r'buf\.extend\(std::iter::repeat\((.*?)\)\.take\((.*?)\)\);',
         'replace': r'let ghost b0 = buf@; hoist_extend_repeat(&mut buf, \1, \2); '
                    r'proof { lemma_rl_repeat(data@, c as int, b0, buf@); }'},
        {'rule': 'R1', 'find': 'break;', 'replace': 'proof { lemma_rl_stop(data@, c as int, buf@); } break;'},
     ]},
 },
}
