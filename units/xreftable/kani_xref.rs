// Kani harnesses on the real pdf/src/xref.rs (appended as a #[cfg(kani)] module; `use super::*`).
// None of the functions below constructs a PdfError.

fn any_xref() -> XRef {
    match kani::any::<u8>() % 3 {
        0 => XRef::Free { next_obj_nr: kani::any(), gen_nr: kani::any() },
        1 => XRef::Raw { pos: kani::any(), gen_nr: kani::any() },
        _ => XRef::Stream { stream_id: kani::any(), index: kani::any() },
    }
}

fn same(a: &XRef, b: &XRef) -> bool {
    match (*a, *b) {
        (XRef::Free { next_obj_nr: x, gen_nr: g }, XRef::Free { next_obj_nr: y, gen_nr: h }) => x == y && g == h,
        (XRef::Raw { pos: x, gen_nr: g }, XRef::Raw { pos: y, gen_nr: h }) => x == y && g == h,
        (XRef::Stream { stream_id: x, index: g }, XRef::Stream { stream_id: y, index: h }) => x == y && g == h,
        (XRef::Promised, XRef::Promised) | (XRef::Invalid, XRef::Invalid) => true,
        _ => false,
    }
}

/// L0 contract of `hoist_section_entries` (unit.rs), on the real iterator:
/// XRefSection::entries() yields exactly (first_id + k, &entries[k]) for k = 0 .. len, in order;
/// add_free_entry / add_inuse_entry append Free / Raw entries carrying the given fields.
/// BOUNDED: sections of at most 4 entries.
#[kani::proof]
#[kani::unwind(6)]
fn section_entries_mapping() {
    let first_id: u32 = kani::any();
    let n: usize = kani::any();
    kani::assume(n <= 4);
    let mut sec = XRefSection::new(first_id);
    let mut model: [XRef; 4] = [XRef::Invalid; 4];
    let mut k = 0;
    while k < n {
        let e = any_xref();
        match e {
            XRef::Free { next_obj_nr, gen_nr } => sec.add_free_entry(next_obj_nr, gen_nr),
            XRef::Raw { pos, gen_nr } => sec.add_inuse_entry(pos, gen_nr),
            other => sec.entries.push(other),
        }
        model[k] = e;
        k += 1;
    }
    assert!(sec.first_id == first_id);
    assert!(sec.entries.len() == n);
    let mut count = 0usize;
    for (i, e) in sec.entries() {
        assert!(count < n);
        assert!(i == first_id as usize + count);
        assert!(same(e, &model[count]));
        count += 1;
    }
    assert!(count == n);
    kani::cover!(n == 4);
    kani::cover!(n == 0);
}

fn pow256(k: usize) -> u128 { 1u128 << (8 * k) }

/// byte_len(n) is the least number of bytes (1..=8) whose big-endian value range contains n.
/// COMPLETE: loop-free, all 2^64 inputs.
#[kani::proof]
fn byte_len_complete() {
    let n: u64 = kani::any();
    let r = byte_len(n);
    assert!(1 <= r && r <= 8);
    assert!((n as u128) < pow256(r));
    assert!(r == 1 || (n as u128) >= pow256(r - 1));
    kani::cover!(r == 8);
    kani::cover!(n == 0);
}

fn any_slot() -> XRef {
    if kani::any() { XRef::Invalid } else { any_xref() }
}
fn gen_of(e: &XRef) -> u64 {
    match *e { XRef::Free { gen_nr, .. } | XRef::Raw { gen_nr, .. } => gen_nr, _ => 0 }
}

/// Second opinion / counterexample source for `add_entries_from/newest_wins` on the real function:
/// a 3-slot table whose slots are arbitrary Invalid|Free|Raw|Stream, one older section of 2 arbitrary entries at
/// first_id in 0..=2, generations of the older section not above the merged direct/free ones (well-formed history).
/// Expected: slot i takes the section's entry iff it was Invalid and is mentioned (merge1).
/// BOUNDED: 3 slots, 2 entries. The Err path (Promised slot) is excluded by construction; the result is forgotten
/// so that no PdfError drop glue is reached.
#[kani::proof]
#[kani::unwind(5)]
fn add_entries_newest_wins_small() {
    let mut t = XRefTable::new(2);
    let old: [XRef; 3] = [any_slot(), any_slot(), any_slot()];
    t.entries[0] = old[0];
    t.entries[1] = old[1];
    t.entries[2] = old[2];
    let first_id: u32 = kani::any();
    kani::assume(first_id <= 2);
    let sec_entries: [XRef; 2] = [any_xref(), any_xref()];
    let mut k = 0;
    while k < 2 {
        let i = first_id as usize + k;
        if i < 3 {
            if let XRef::Raw { gen_nr, .. } | XRef::Free { gen_nr, .. } = old[i] {
                kani::assume(gen_of(&sec_entries[k]) <= gen_nr);
            }
        }
        k += 1;
    }
    let sec = XRefSection { first_id, entries: vec![sec_entries[0], sec_entries[1]] };
    let r = t.add_entries_from(sec);
    let ok = r.is_ok();
    std::mem::forget(r);
    assert!(ok);
    assert!(t.entries.len() == 3);
    let mut i = 0;
    while i < 3 {
        let mentioned = i >= first_id as usize && i < first_id as usize + 2;
        let expect = if matches!(old[i], XRef::Invalid) && mentioned { sec_entries[i - first_id as usize] } else { old[i] };
        assert!(same(&t.entries[i], &expect));
        i += 1;
    }
    kani::cover!(matches!(old[1], XRef::Stream { .. }) && first_id == 0);
}
