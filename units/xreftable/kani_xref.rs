// Kani harnesses on the real pdf/src/xref.rs (appended as a #[cfg(kani)] module; `use super::*`).
// None of the functions below constructs a PdfError.

fn any_xref() -> XRef {
    match kani::any::<u8>() % 3 {
        0 => XRef::Free { next_obj_nr: kani::any(), gen_nr: kani::any() },
        1 => XRef::Raw { pos: kani::any(), gen_nr: kani::any() },
        _ => XRef::Stream { stream_id: kani::any(), index: kani::any() },
    }
}

fn same(a: &XRef, b: &XRef) -> bool {
    match (*a, *b) {
        (XRef::Free { next_obj_nr: x, gen_nr: g }, XRef::Free { next_obj_nr: y, gen_nr: h }) => x == y && g == h,
        (XRef::Raw { pos: x, gen_nr: g }, XRef::Raw { pos: y, gen_nr: h }) => x == y && g == h,
        (XRef::Stream { stream_id: x, index: g }, XRef::Stream { stream_id: y, index: h }) => x == y && g == h,
        (XRef::Promised, XRef::Promised) | (XRef::Invalid, XRef::Invalid) => true,
        _ => false,
    }
}

/// L0 contract of `hoist_section_entries` (unit.rs), on the real iterator:
/// XRefSection::entries() yields exactly (first_id + k, &entries[k]) for k = 0 .. len, in order;
/// add_free_entry / add_inuse_entry append Free / Raw entries carrying the given fields.
/// BOUNDED: sections of at most 4 entries.
#[kani::proof]
#[kani::unwind(6)]
fn section_entries_mapping() {
    let first_id: u32 = kani::any();
    let n: usize = kani::any();
    kani::assume(n <= 4);
    let mut sec = XRefSection::new(first_id);
    let mut model: [XRef; 4] = [XRef::Invalid; 4];
    let mut k = 0;
    while k < n {
        let e = any_xref();
        match e {
            XRef::Free { next_obj_nr, gen_nr } => sec.add_free_entry(next_obj_nr, gen_nr),
            XRef::Raw { pos, gen_nr } => sec.add_inuse_entry(pos, gen_nr),
            other => sec.entries.push(other),
        }
        model[k] = e;
        k += 1;
    }
    assert!(sec.first_id == first_id);
    assert!(sec.entries.len() == n);
    let mut count = 0usize;
    for (i, e) in sec.entries() {
        assert!(count < n);
        assert!(i == first_id as usize + count);
        assert!(same(e, &model[count]));
        count += 1;
    }
    assert!(count == n);
    kani::cover!(n == 4);
    kani::cover!(n == 0);
}

fn pow256(k: usize) -> u128 { 1u128 << (8 * k) }

/// byte_len(n) is the least number of bytes (1..=8) whose big-endian value range contains n.
/// COMPLETE: loop-free, all 2^64 inputs.
#[kani::proof]
fn byte_len_complete() {
    let n: u64 = kani::any();
    let r = byte_len(n);
    assert!(1 <= r && r <= 8);
    assert!((n as u128) < pow256(r));
    assert!(r == 1 || (n as u128) >= pow256(r - 1));
    kani::cover!(r == 8);
    kani::cover!(n == 0);
}

// NOTE: a bounded second-opinion harness on XRefTable::add_entries_from itself (3 slots, 2 entries) was tried and
// dropped: CBMC needed > 25 min and 21 GB (Vec<XRef> + the PdfError-returning path). The native tests in
// findings/*_repro.rs are the counterexample for `newest_wins`.

/// XRefTable::get on a freshly built table of n <= 3 objects, for EVERY object number (C02/C18: a number beyond the
/// table is UnspecifiedXRefEntry, never a panic and never some other entry). BOUNDED: tables of <= 3 objects.
#[kani::proof]
#[kani::unwind(6)]
fn xref_get_bounds() {
    let n: ObjNr = kani::any();
    kani::assume(n <= 3);
    let t = XRefTable::new(n);
    let id: ObjNr = kani::any();
    let r = t.get(id);
    match r {
        Ok(e) => {
            assert!(id <= n);
            if id == n { assert!(same(&e, &XRef::Free { next_obj_nr: 0, gen_nr: 0xffff })); } else { assert!(same(&e, &XRef::Invalid)); }
        }
        Err(e) => {
            assert!(id > n);
            match e { PdfError::UnspecifiedXRefEntry { id: j } => assert!(j == id), _ => assert!(false) }
            std::mem::forget(e);
        }
    }
    std::mem::forget(t);
}
