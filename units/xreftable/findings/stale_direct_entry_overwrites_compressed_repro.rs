// Repro for finding `stale_direct_entry_overwrites_compressed` (C02, obligation
// xreftable/XRefTable::add_entries_from/newest_wins).
//
// Drop into a scratch copy of /repo as  pdf/tests/xreftable_newest_wins.rs  and run
//   CARGO_TARGET_DIR=/tmp/xreftable_target cargo test --offline -p pdf --test xreftable_newest_wins
// On the pinned tree both tests FAIL (the stale, older entry / value is returned);
// with findings/stale_direct_entry_overwrites_compressed_fix.diff applied both pass.
use pdf::file::FileOptions;
use pdf::object::{PlainRef, Resolve};
use pdf::primitive::Primitive;
use pdf::xref::{XRef, XRefSection, XRefTable};

/// Table level: sections are handed to `add_entries_from` newest first (backend.rs:
/// read_xref_table_and_trailer). The newest section says "object 1 is member 0 of object stream 2",
/// an older section says "object 1 is at byte 100, generation 0". C02: the newest mention wins.
#[test]
fn newer_compressed_entry_survives_older_direct_entry() {
    let mut table = XRefTable::new(3);

    // newest section (e.g. the cross-reference stream of the last incremental update)
    let newest = XRefSection {
        first_id: 1,
        entries: vec![XRef::Stream { stream_id: 2, index: 0 }, XRef::Raw { pos: 500, gen_nr: 0 }],
    };
    table.add_entries_from(newest).unwrap();
    assert!(matches!(table.get(1).unwrap(), XRef::Stream { stream_id: 2, index: 0 }));

    // older section (the original classic table), generation numbers do not exceed the newer ones
    let mut older = XRefSection::new(0);
    older.add_free_entry(0, 65535);
    older.add_inuse_entry(100, 0);
    table.add_entries_from(older).unwrap();

    let got = table.get(1).unwrap();
    assert!(
        matches!(got, XRef::Stream { stream_id: 2, index: 0 }),
        "object 1: expected the newest entry Stream {{ stream_id: 2, index: 0 }}, table holds {:?}",
        got
    );
}

fn push_obj(out: &mut Vec<u8>, offsets: &mut Vec<usize>, text: &[u8]) {
    offsets.push(out.len());
    out.extend_from_slice(text);
}

/// File level: original body defines object 3 directly as the string (old); one incremental update
/// moves object 3 into an object stream with the value (new) and describes that in a cross-reference
/// stream with /Prev pointing at the original table (ISO 32000-1 7.5.6, 7.5.7, 7.5.8).
#[test]
fn object_moved_into_object_stream_by_update_resolves_to_new_value() {
    let mut out: Vec<u8> = Vec::new();
    let mut off: Vec<usize> = vec![0]; // off[n] = byte offset of object n
    out.extend_from_slice(b"%PDF-1.5\n");
    push_obj(&mut out, &mut off, b"1 0 obj\n<< /Type /Catalog /Pages 2 0 R >>\nendobj\n");
    push_obj(&mut out, &mut off, b"2 0 obj\n<< /Type /Pages /Kids [] /Count 0 >>\nendobj\n");
    push_obj(&mut out, &mut off, b"3 0 obj\n(old)\nendobj\n");
    let xref1 = out.len();
    out.extend_from_slice(b"xref\n0 4\n0000000000 65535 f \n");
    for n in 1..4 {
        out.extend_from_slice(format!("{:010} 00000 n \n", off[n]).as_bytes());
    }
    out.extend_from_slice(b"trailer\n<< /Size 4 /Root 1 0 R >>\n");
    out.extend_from_slice(format!("startxref\n{}\n%%EOF\n", xref1).as_bytes());

    // ---- incremental update ----
    let objstm_data: &[u8] = b"3 0 (new)"; // "objnr offset" pairs, then the objects from /First on
    push_obj(&mut out, &mut off, format!("4 0 obj\n<< /Type /ObjStm /N 1 /First 4 /Length {} >>\nstream\n", objstm_data.len()).as_bytes());
    out.extend_from_slice(objstm_data);
    out.extend_from_slice(b"\nendstream\nendobj\n");

    let xref2 = out.len();
    off.push(xref2); // object 5 = the cross-reference stream itself
    assert!(xref2 < 0x10000);
    let mut rows: Vec<u8> = Vec::new();
    rows.extend_from_slice(&[2, 0, 4, 0]); // object 3: type 2, in object stream 4, index 0
    rows.extend_from_slice(&[1, (off[4] >> 8) as u8, off[4] as u8, 0]); // object 4: type 1
    rows.extend_from_slice(&[1, (off[5] >> 8) as u8, off[5] as u8, 0]); // object 5: type 1
    out.extend_from_slice(
        format!("5 0 obj\n<< /Type /XRef /Size 6 /Index [3 3] /W [1 2 1] /Prev {} /Root 1 0 R /Length {} >>\nstream\n", xref1, rows.len()).as_bytes(),
    );
    out.extend_from_slice(&rows);
    out.extend_from_slice(b"\nendstream\nendobj\n");
    out.extend_from_slice(format!("startxref\n{}\n%%EOF\n", xref2).as_bytes());

    let file = FileOptions::uncached().load(out).expect("the two-section file opens");
    let got = file.resolver().resolve(PlainRef { id: 3, gen: 0 }).expect("object 3 resolves");
    match got {
        Primitive::String(ref s) => assert_eq!(
            s.as_bytes(), b"new",
            "object 3 must be the value written by the most recent update, got the stale {:?}", s
        ),
        other => panic!("object 3: expected a string, got {:?}", other),
    }
}
