X = 'pdf/src/xref.rs'
O = 'pdf/src/object/mod.rs'
TAB = r'^impl XRefTable$'

# facts every loop iteration of add_entries_from needs again (Verus checks loops in isolation)
_E = 'self.entries@'
_O = 'old(self).entries@'
AEF_INV = [
    # R6 contract of the hoisted iterator, repeated
    '__it@.len() == section.entries@.len()',
    'section.first_id + section.entries@.len() < usize::MAX',
    'forall|k: int| 0 <= k < __it@.len() ==> __it@[k] == ((section.first_id + k) as usize, section.entries@[k])',
    # preconditions, repeated
    'forall|k: int| 0 <= k < section.entries@.len() ==> usable(#[trigger] section.entries@[k])',
    'forall|i: int| 0 <= i < %s.len() ==> !(#[trigger] %s[i] is Promised)' % (_O, _O),
    # progress: slots first_id .. first_id + __k are done, every other slot is as before
    ('len_kept', '%s.len() == %s.len()' % (_E, _O)),
    ('untouched', 'forall|i: int| 0 <= i < %s.len() && !(section.first_id <= i < section.first_id + __k) ==> #[trigger] %s[i] == %s[i]' % (_E, _E, _O)),
    ('newest_wins', 'forall|i: int| 0 <= i < %s.len() && section.first_id <= i < section.first_id + __k && hist_wf_at(%s, section, i) ==> #[trigger] %s[i] == merge1_at(%s, section, i)' % (_E, _O, _E, _O)),
    ('no_invention', 'forall|i: int| 0 <= i < %s.len() ==> #[trigger] %s[i] == %s[i] || (mentions(section, i) && %s[i] == sec_at(section, i))' % (_E, _E, _O, _E)),
]

UNIT = {
 'name': 'xreftable',
 'doc': 'Merged cross-reference table: first mention (newest section) wins; exact new/get/set/push/len; field widths',
 'timeout': 600,
 'items': {
  # ---- types, byte for byte from /repo (attributes dropped, private field widened: R2) ----
  'type ObjNr': {'kind': 'decl', 'file': O, 'header': r'^pub type ObjNr\b'},
  'type GenNr': {'kind': 'decl', 'file': O, 'header': r'^pub type GenNr\b'},
  'enum XRef': {'kind': 'decl', 'file': X, 'header': r'^pub enum XRef$', 'attrs': ['#[derive(Copy, Clone)]']},
  'struct XRefTable': {'kind': 'decl', 'file': X, 'header': r'^pub struct XRefTable$',
     'rewrites': [{'rule': 'R2', 'find': 'entries:', 'replace': 'pub entries:'}]},
  'struct XRefSection': {'kind': 'decl', 'file': X, 'header': r'^pub struct XRefSection$'},

  # ---- XRef::get_gen_nr ----
  'XRef::get_gen_nr': {'kind': 'fn', 'file': X, 'container': r'^impl XRef$', 'name': 'get_gen_nr', 'props': ['C02', 'C01'],
     # only call site: add_entries_from, on an entry of a section (Free | Raw | Stream)
     'requires': ['!(*self is Promised)', '!(*self is Invalid)'],
     'ensures': [('gen_exact', 'r == gen_of(*self)')]},

  # ---- XRefTable::new / get / set / len / push ----
  'XRefTable::new': {'kind': 'fn', 'file': X, 'container': TAB, 'name': 'new', 'props': ['C02', 'C01'],
     'ensures': [('new_len', 'r.entries@.len() == num_objects + 1'),
                 ('new_nothing_mentioned', 'forall|i: int| 0 <= i < num_objects ==> #[trigger] r.entries@[i] is Invalid'),
                 ('new_exact', 'r.entries@ =~= Seq::new(num_objects as nat, |i: int| XRef::Invalid).push(XRef::Free { next_obj_nr: 0, gen_nr: 0xffff })')]},
  'XRefTable::get': {'kind': 'fn', 'file': X, 'container': TAB, 'name': 'get', 'props': ['C02', 'C01', 'C18'],
     'ensures': [('get_in_table', '(id as int) < self.entries@.len() ==> r == Ok::<XRef, PdfError>(self.entries@[id as int])'),
                 ('get_beyond_table', '(id as int) >= self.entries@.len() ==> r == Err::<XRef, PdfError>(PdfError::UnspecifiedXRefEntry { id })')],
     # R5 by shape (any binding name, block or expression arm); count '*': a body without such a pattern (explicit bounds
     # test + indexing) is read verbatim
     'rewrites': [{'rule': 'R5', 'regex': r'Some\(&(\w+)\)\s*=>\s*\{', 'replace': r'Some(\1_) => { let \1 = *\1_;', 'count': '*'},
                  {'rule': 'R5', 'regex': r'Some\(&(\w+)\)\s*=>\s*([^,{}]*),', 'replace': r'Some(\1_) => { let \1 = *\1_; \2 },', 'count': '*'}]},
  'XRefTable::set': {'kind': 'fn', 'file': X, 'container': TAB, 'name': 'set', 'props': ['C02', 'C01'],
     # call sites (file.rs Storage::save): ids are keys of `changes` or a promised id; each was < refs.len()
     # when recorded (create/promise push first; update checks refs.get(id)?) and refs only grows
     'requires': ['(id as int) < old(self).entries@.len()'],
     'ensures': [('set_exact', 'final(self).entries@ =~= old(self).entries@.update(id as int, r)')]},
  'XRefTable::len': {'kind': 'fn', 'file': X, 'container': TAB, 'name': 'len', 'props': ['C02', 'C01'],
     'ensures': [('len_exact', 'r == self.entries@.len()')]},
  'XRefTable::push': {'kind': 'fn', 'file': X, 'container': TAB, 'name': 'push', 'props': ['C02', 'C01'],
     'ensures': [('push_exact', 'final(self).entries@ =~= old(self).entries@.push(new_entry)')]},

  # ---- XRefTable::max_field_widths (C10) ----
  'XRefTable::max_field_widths': {'kind': 'fn', 'file': X, 'container': TAB, 'name': 'max_field_widths', 'props': ['C10', 'C02'],
     'ensures': [
        ('widths_cover', 'forall|i: int| 0 <= i < self.entries@.len() && usable(#[trigger] self.entries@[i]) ==> field_a(self.entries@[i]) <= r.0 && field_b(self.entries@[i]) <= r.1'),
        ('width_a_attained', 'r.0 == 0 || exists|i: int| 0 <= i < self.entries@.len() && usable(#[trigger] self.entries@[i]) && field_a(self.entries@[i]) == r.0'),
        ('width_b_attained', 'r.1 == 0 || exists|i: int| 0 <= i < self.entries@.len() && usable(#[trigger] self.entries@[i]) && field_b(self.entries@[i]) == r.1')],
     'rewrites': [
        # R5 (`for &e in`) + R10 (`continue` inside `for` -> while with the increment before the body)
        {'rule': 'R5+R10', 'find': 'for &e in &self.entries {',
         'replace': 'let mut __i: usize = 0; while __i < self.entries.len() { let e = self.entries[__i]; __i += 1;'}],
     'loops': {1: {'invariant': [
            '__i <= self.entries@.len()',
            ('widths_cover', 'forall|i: int| 0 <= i < __i && usable(#[trigger] self.entries@[i]) ==> field_a(self.entries@[i]) <= max_a && field_b(self.entries@[i]) <= max_b'),
            ('width_a_attained', 'max_a == 0 || exists|i: int| 0 <= i < __i && usable(#[trigger] self.entries@[i]) && field_a(self.entries@[i]) == max_a'),
            ('width_b_attained', 'max_b == 0 || exists|i: int| 0 <= i < __i && usable(#[trigger] self.entries@[i]) && field_b(self.entries@[i]) == max_b')],
         'decreases': 'self.entries@.len() - __i'}}},

  # ---- XRefTable::add_entries_from (C02) ----
  'XRefTable::add_entries_from': {'kind': 'fn', 'file': X, 'container': TAB, 'name': 'add_entries_from', 'props': ['C02', 'C01', 'C18'],
     'requires': [
        # both section readers (parse_xref_table_and_trailer: add_free_entry/add_inuse_entry;
        # parse_xref_section_from_stream: types 0, 1, 2) produce only Free | Raw | Stream
        'forall|k: int| 0 <= k < section.entries@.len() ==> usable(#[trigger] section.entries@[k])',
        # the table is the one built by XRefTable::new + add_entries_from in read_xref_table_and_trailer:
        # Invalid | Free | Raw | Stream only (Promised is created later, by Storage::create/promise)
        'forall|i: int| 0 <= i < old(self).entries@.len() ==> !(#[trigger] old(self).entries@[i] is Promised)'],
     'ensures': [
        ('always_ok', 'r is Ok'),
        ('len_kept', 'final(self).entries@.len() == old(self).entries@.len()'),
        ('newest_wins', 'forall|i: int| 0 <= i < old(self).entries@.len() && hist_wf_at(old(self).entries@, section, i) ==> #[trigger] final(self).entries@[i] == merge1(old(self).entries@, section)[i]'),
        ('no_invention', 'forall|i: int| 0 <= i < old(self).entries@.len() ==> #[trigger] final(self).entries@[i] == old(self).entries@[i] || (mentions(section, i) && final(self).entries@[i] == sec_at(section, i))'),
        ('whole_table', '(forall|i: int| 0 <= i < old(self).entries@.len() ==> hist_wf_at(old(self).entries@, section, i)) ==> final(self).entries@ =~= merge1(old(self).entries@, section)')],
     'rewrites': [
        # R6: iterator loop -> index loop over the collected iterator (hoist_section_entries, L0 + Kani leaf);
        # the `&entry` pattern becomes a by-value tuple element (R5)
        {'rule': 'R6', 'find': 'for (i, &entry) in section.entries() {',
         'replace': 'let __it = hoist_section_entries(&section); for __k in 0..__it.len() { let (i, entry) = __it[__k];'}],
     'loops': {1: {'invariant': AEF_INV}}},

  # ---- byte_len (C10) ----
  'byte_len': {'kind': 'fn', 'file': X, 'container': None, 'name': 'byte_len', 'props': ['C10', 'C02'],
     'ensures': [('len_range', '1 <= r <= 8'),
                 ('len_sufficient', '(n as nat) < pow256(r as nat)'),
                 ('len_minimal', 'r == 1 || (n as nat) >= pow256((r - 1) as nat)')],
     'rewrites': [{'rule': 'R1', 'regex': r'^\{', 'replace': '{ proof { lemma_byte_len(n); }'}]},
 },
 'kani': {
   'modules': [{'file': X, 'code': 'kani_xref.rs'}],
   'harnesses': [
     {'name': 'xref_get_bounds', 'fn': 'XRefTable::get', 'file': X, 'props': ['C02', 'C18', 'C01'], 'kind': 'bounded',
      'bound': 'fresh tables of <= 3 objects, every object number', 'tier': 'thorough',
      'contract': 'get(id) on new(n): Ok(entry) iff id <= n (Free sentinel at n, Invalid below), else Err(UnspecifiedXRefEntry{id}); never panics'},
     {'name': 'section_entries_mapping', 'fn': 'XRefSection::entries', 'file': X, 'props': ['C02'], 'kind': 'bounded',
      'bound': 'sections of <= 4 entries, unwind 6', 'covers': True,
      'contract': 'XRefSection::entries() yields (first_id + k, &entries[k]) for k = 0..len in order (the L0 contract of hoist_section_entries); add_free_entry/add_inuse_entry append Free/Raw with the given fields'},
     {'name': 'byte_len_complete', 'fn': 'byte_len', 'file': X, 'props': ['C10'], 'kind': 'complete', 'covers': True,
      'contract': 'forall n: u64. 1 <= byte_len(n) <= 8, n < 256^byte_len(n), and byte_len(n) is the least such count'},
   ],
   'jobs': 4, 'timeout': 1500,
 },
}
