// Unit `xreftable` (C02 primary, C01, C10, C18): the merged cross-reference table of pdf/src/xref.rs.
//   XRefTable::{new, get, set, len, push, add_entries_from, max_field_widths}, XRef::get_gen_nr, byte_len
// Function bodies are inserted at the //@@ markers by the extractor; everything else in this file is
// specification (written from the property statements / ISO 32000-1 7.5.4-7.5.8), lemmas and L0 helpers.
use vstd::prelude::*;
//@@ INCLUDE _common/error_macros.rs
verus! {
global size_of usize == 8;

//@@ PDFERROR

//@@ type ObjNr
//@@ type GenNr
//@@ enum XRef
//@@ struct XRefTable
//@@ struct XRefSection

// ------------------------------------------------------------------------------------------------
// C02 specification: "sections are merged newest first; entry i is the entry of the FIRST section in
// that order that mentions i, Invalid if none".
// ------------------------------------------------------------------------------------------------

/// the three kinds of entry a cross-reference section of a file can carry (ISO 32000-1 7.5.4: `f`/`n`;
/// 7.5.8.3: types 0, 1, 2)
pub open spec fn usable(e: XRef) -> bool { e is Free || e is Raw || e is Stream }

/// generation number of an entry; compressed objects have generation 0 (ISO 32000-1 7.5.8.3, type 2)
pub open spec fn gen_of(e: XRef) -> u64 {
    match e { XRef::Free { gen_nr, .. } => gen_nr, XRef::Raw { gen_nr, .. } => gen_nr, _ => 0 }
}

/// a section (first id, k entries) mentions exactly the object numbers first .. first + k
pub open spec fn mentions(sec: XRefSection, i: int) -> bool {
    sec.first_id <= i < sec.first_id + sec.entries@.len()
}
pub open spec fn sec_at(sec: XRefSection, i: int) -> XRef { sec.entries@[i - sec.first_id] }

/// slot i of the table after one more (older) section: a slot that no newer section mentioned
/// (still `Invalid`) takes the section's entry; every slot a newer section did mention keeps it.
pub open spec fn merge1_at(t: Seq<XRef>, sec: XRefSection, i: int) -> XRef {
    if t[i] is Invalid && mentions(sec, i) { sec_at(sec, i) } else { t[i] }
}
pub open spec fn merge1(t: Seq<XRef>, sec: XRefSection) -> Seq<XRef> {
    Seq::new(t.len(), |i: int| merge1_at(t, sec, i))
}

/// Domain of C02 ("every well-formed file"): in a well-formed update history generation numbers never
/// decrease with time (a number is re-used with generation + 1 after it was freed, ISO 32000-1 7.5.4),
/// i.e. an OLDER section never carries a larger generation than the direct/free entry already merged.
/// Stated per slot, as the hypothesis of `newest_wins`; it is NOT a precondition.
pub open spec fn hist_wf_at(t: Seq<XRef>, sec: XRefSection, i: int) -> bool {
    (mentions(sec, i) && (t[i] is Raw || t[i] is Free)) ==> gen_of(sec_at(sec, i)) <= gen_of(t[i])
}

// ------------------------------------------------------------------------------------------------
// C10 specification: the two numeric fields of an entry as written to a cross-reference stream
// (ISO 32000-1 Table 18), and the number of bytes needed for a field.
// ------------------------------------------------------------------------------------------------
pub open spec fn field_a(e: XRef) -> u64 {
    match e { XRef::Free { next_obj_nr, .. } => next_obj_nr, XRef::Raw { pos, .. } => pos as u64,
              XRef::Stream { stream_id, .. } => stream_id, _ => 0 }
}
pub open spec fn field_b(e: XRef) -> u64 {
    match e { XRef::Free { gen_nr, .. } => gen_nr, XRef::Raw { gen_nr, .. } => gen_nr,
              XRef::Stream { index, .. } => index as u64, _ => 0 }
}
pub open spec fn pow256(k: nat) -> nat decreases k { if k == 0 { 1 } else { 256 * pow256((k - 1) as nat) } }

proof fn lemma_pow256_values()
    ensures pow256(0) == 1, pow256(1) == 0x100, pow256(2) == 0x1_0000, pow256(3) == 0x100_0000,
        pow256(4) == 0x1_0000_0000, pow256(5) == 0x100_0000_0000, pow256(6) == 0x1_0000_0000_0000,
        pow256(7) == 0x100_0000_0000_0000, pow256(8) == 0x1_0000_0000_0000_0000,
{
    reveal_with_fuel(pow256, 10);
}

/// what `leading_zeros` says about the magnitude of n (vstd: axiom_u64_leading_zeros), in the form the
/// byte count needs: n < 2^(64-lz) and, for n != 0, n >= 2^(63-lz)
proof fn lemma_byte_len(n: u64)
    ensures
        ({
            let lz = vstd::std_specs::bits::u64_leading_zeros(n) as int;
            let r = (64 + 8 - 1 - lz) / 8 + (if n == 0 { 1int } else { 0int });
            &&& 0 <= lz <= 64
            &&& 1 <= r <= 8
            &&& (n as nat) < pow256(r as nat)
            &&& (r == 1 || (n as nat) >= pow256((r - 1) as nat))
        }),
{
    vstd::std_specs::bits::axiom_u64_leading_zeros(n);
    lemma_pow256_values();
    let lz = vstd::std_specs::bits::u64_leading_zeros(n);
    if n != 0 {
        let hi: u64 = (64 - lz) as u64;
        let top: u64 = (63 - lz) as u64;
        assert(n >> hi == 0 || hi == 64) by {
            if hi < 64 { assert(n >> hi == 0); }
        }
        assert(top == sub(63u64, lz as u64));
        assert((n >> top) & 1 != 0);
        // upper bound: n < 2^hi <= 256^r  (hi <= 8 r)
        assert(hi <= 8 && (n >> hi == 0) ==> n < 0x100) by (bit_vector);
        assert(hi <= 16 && (n >> hi == 0) ==> n < 0x1_0000) by (bit_vector);
        assert(hi <= 24 && (n >> hi == 0) ==> n < 0x100_0000) by (bit_vector);
        assert(hi <= 32 && (n >> hi == 0) ==> n < 0x1_0000_0000) by (bit_vector);
        assert(hi <= 40 && (n >> hi == 0) ==> n < 0x100_0000_0000) by (bit_vector);
        assert(hi <= 48 && (n >> hi == 0) ==> n < 0x1_0000_0000_0000) by (bit_vector);
        assert(hi <= 56 && (n >> hi == 0) ==> n < 0x100_0000_0000_0000) by (bit_vector);
        // lower bound: bit `top` is set and top >= 8 (r - 1)
        assert(8 <= top < 64 && ((n >> top) & 1 != 0) ==> n >= 0x100) by (bit_vector);
        assert(16 <= top < 64 && ((n >> top) & 1 != 0) ==> n >= 0x1_0000) by (bit_vector);
        assert(24 <= top < 64 && ((n >> top) & 1 != 0) ==> n >= 0x100_0000) by (bit_vector);
        assert(32 <= top < 64 && ((n >> top) & 1 != 0) ==> n >= 0x1_0000_0000) by (bit_vector);
        assert(40 <= top < 64 && ((n >> top) & 1 != 0) ==> n >= 0x100_0000_0000) by (bit_vector);
        assert(48 <= top < 64 && ((n >> top) & 1 != 0) ==> n >= 0x1_0000_0000_0000) by (bit_vector);
        assert(56 <= top < 64 && ((n >> top) & 1 != 0) ==> n >= 0x100_0000_0000_0000) by (bit_vector);
    }
}

// ---- L0 helper (R6/R7): the iterator `XRefSection::entries()` collected, in order --------------------
// Body = the body of XRefSection::entries (pdf/src/xref.rs) with the loop's `&entry` deref applied.
// Contract: yields (first_id + k, entries[k]) for k = 0 .. len, in order. Checked on the real
// XRefSection::entries by the Kani leaf harness `section_entries_mapping` (bounded: <= 4 entries).
// `first_id + k` does not wrap: first_id is a u32 and a Vec<XRef> (24-byte elements) has at most
// isize::MAX / 24 elements [A: Rust allocation limit].
#[verifier::external_body]
fn hoist_section_entries(section: &XRefSection) -> (r: Vec<(usize, XRef)>)
    ensures
        r@.len() == section.entries@.len(),
        section.first_id + section.entries@.len() < usize::MAX,
        forall|k: int| 0 <= k < r@.len() ==> r@[k] == ((section.first_id + k) as usize, section.entries@[k]),
{
    section.entries.iter().enumerate().map(move |(i, e)| (i + section.first_id as usize, *e)).collect()
}

impl XRef {
//@@ XRef::get_gen_nr
}

impl XRefTable {
//@@ XRefTable::new
//@@ XRefTable::get
//@@ XRefTable::set
//@@ XRefTable::len
//@@ XRefTable::push
//@@ XRefTable::max_field_widths
//@@ XRefTable::add_entries_from
}

//@@ byte_len

}
fn main(){}
