// BOUNDED native stand-in of unit `codecs2` (+ `flate`, `rld`) for the DECODER half of C05: runs the REAL crate through its public API
// (`pdf::enc::{decode, StreamFilter, LZWFlateParams}`) on encodings produced by INDEPENDENT encoders written in this file from
// ISO 32000-1 7.4.2 (ASCIIHex), 7.4.3 (ASCII85), 7.4.5 (RunLength), 7.4.4.2 (LZW, Table 8 EarlyChange), RFC 1950 / RFC 1951 (zlib framing,
// stored and fixed-Huffman deflate blocks, Adler-32) and the PNG specification's filter types 0-4 (7.4.4.4 Table 10: Predictor 10..15).
// None of the crate's encoders is used. Reported under bounded_checks, never as a proof.
//
// Universe (the bound); P2 = all 65 793 byte strings of length <= 2, A = {00, 01, 7e '~', 3e '>', 7a 'z', ff, 80, 20 ' '},
// SHAPED = lengths {4,5,8,127,128,129,255,256,257,4095,4096,4097} x {constant 00, constant 'A', constant ff, alternating 00/ff, ramp, LCG bytes,
// LCG over {00,7a,7e,ff}, runs (LCG run lengths 1..=140 of LCG bytes)} (96 strings):
//   ASCIIHex   P2 + A^3 + SHAPED  x  styles {lower-case, upper-case, mixed case, one white-space character (NUL HT LF FF CR SP in rotation) after every
//              digit, line breaks every 7 digits + leading/trailing white-space, final `0` digit dropped when the last digit is 0 (odd digit count)}, always `>`;
//   ASCII85    P2 + A^3 + A^4 + A^5 + SHAPED  x  styles {`z` for zero groups, `!!!!!` for zero groups, one white-space character after every
//              character (rotation over the six), line breaks every 5 / 7 characters}; final groups of 1, 2, 3 bytes (2, 3, 4 characters); `~>`;
//   RunLength  P2 + A^3 + SHAPED  x  styles {literal runs only of at most 1 / 2 / 127 / 128 bytes, greedy repeat runs of 2..=128 / 2..=3 / 3..=128 with literal
//              runs of at most 128 / 5 in between}, EOD 128; (and: bytes after EOD are not data);
//   LZW        P1 (<= 1 byte) + A^3 + SHAPED + 3 large low-entropy strings (20 000 / 20 000 / 24 000 bytes)  x  EarlyChange {1 (default), 0}  x  clear-table
//              policy {when the table becomes full (entry 4095 assigned), TIFF style (entry 4094), early (entry 600)}: code widths 9->10->11->12 and table
//              resets are reached (asserted);
//   Flate      plain (defaults; Predictor 1 with odd geometry): P1 + a 4 096-string slice of P2 + SHAPED + one 70 000 byte string  x  framing {zlib stored one
//              block per 65 535 bytes, zlib stored 3-byte blocks, raw deflate stored, zlib fixed-Huffman literals, raw fixed-Huffman literals};
//              PNG predictors: Predictor {10..15} x Colors {1, 3} x BitsPerComponent 8 x Columns 1..=5 x rows {0, 1, 2, 3, 4} and
//              Predictor {12, 15} x Colors {1, 3} x BitsPerComponent {1, 2, 4, 16} x Columns 1..=5 x rows {1, 3}  (row bytes = ceil(Columns*Colors*BPC/8),
//              non-byte-aligned rows included)  x  row tags {all 0, all 1, all 2, all 3, all 4, rotating 0..4, rotating from 3}  x  pixel data {LCG bytes, extremes
//              00/ff/80/7f pattern}  x  framing {zlib stored, zlib fixed-Huffman} (+ raw stored for BPC 8).
//   NOT in the universe (KNOWN FINDINGS of unit flate, known_findings.txt): TIFF Predictor 2 (DEV_TIFF_PREDICTOR_IGNORED: not undone) and any predictor
//   on LZWDecode (DEV_LZW_PREDICTOR_IGNORED). Also not: filter chains (units filterchain / tostream), DCT / CCITTFax / JBIG2 / JPX (no independent encoder here).
// Statement checked for every element: decode(encoding, filter) == Ok(plaintext), nothing panics.
// Second sentence of C05 (test `truncated_or_corrupted_data_never_panics`): every prefix of, and every single-byte substitution (5 values per position) in,
// a set of 40 short encodings of all five filters (with and without predictors): decode returns Ok or Err, never panics.
use pdf::enc::{decode, LZWFlateParams, StreamFilter};
use std::panic::{catch_unwind, AssertUnwindSafe};

fn params(predictor: i32, n_components: i32, bits_per_component: i32, columns: i32, early_change: i32) -> LZWFlateParams {
    LZWFlateParams { predictor, n_components, bits_per_component, columns, early_change }
}
const WS: [u8; 6] = [0, 9, 10, 12, 13, 32];
const A: [u8; 8] = [0x00, 0x01, 0x7e, 0x3e, 0x7a, 0xff, 0x80, 0x20];

// ------------------------------------------------------------------------------------------------------- independent encoders
/// 7.4.2
fn hex_enc(x: &[u8], style: usize) -> Vec<u8> {
    let digit = |v: u8, k: usize| -> u8 {
        let upper = match style { 1 => true, 2 => k % 3 == 0, _ => false };
        if v < 10 { b'0' + v } else if upper { b'A' + v - 10 } else { b'a' + v - 10 }
    };
    let mut digits = vec![];
    for (i, &b) in x.iter().enumerate() { digits.push(digit(b / 16, 2 * i)); digits.push(digit(b % 16, 2 * i + 1)); }
    if style == 5 && digits.last() == Some(&b'0') { digits.pop(); }               // odd number of digits: the missing one reads as 0
    let mut out = vec![];
    if style == 4 { out.extend_from_slice(b" \r\n"); }
    for (k, &d) in digits.iter().enumerate() {
        out.push(d);
        if style == 3 { out.push(WS[k % 6]); }
        if style == 4 && k % 7 == 6 { out.push(b'\n'); }
    }
    if style == 4 { out.extend_from_slice(b"\t\x0c\x00"); }
    out.push(b'>');
    out
}
/// 7.4.3
fn a85_enc(x: &[u8], style: usize) -> Vec<u8> {
    let mut chars = vec![];
    for g in x.chunks(4) {
        let mut v: u64 = 0;
        for k in 0..4 { v = v * 256 + *g.get(k).unwrap_or(&0) as u64; }
        if g.len() == 4 && v == 0 && style != 1 { chars.push(b'z'); continue; }
        let mut c = [0u8; 5];
        for k in (0..5).rev() { c[k] = b'!' + (v % 85) as u8; v /= 85; }
        chars.extend_from_slice(&c[..g.len() + 1]);
    }
    chars.extend_from_slice(b"~>");
    let mut out = vec![];
    let body = chars.len() - 2;
    for (k, &c) in chars.iter().enumerate() {
        out.push(c);
        if k + 1 >= body + 1 { continue; }                                          // nothing inside or after `~>`
        match style { 2 => out.push(WS[k % 6]), 3 if k % 5 == 4 => out.push(b'\n'), 4 if k % 7 == 6 => out.extend_from_slice(b"\r\n"), _ => {} }
    }
    out
}
/// 7.4.5: length byte 0..=127: copy the following length+1 bytes; 129..=255: repeat the following byte 257-length times; 128: EOD.
fn rl_enc(x: &[u8], style: usize) -> Vec<u8> {
    let (max_lit, min_rep, max_rep) = match style { 0 => (1, 0, 0), 1 => (2, 0, 0), 2 => (127, 0, 0), 3 => (128, 0, 0), 4 => (128, 2, 128), 5 => (5, 2, 3), _ => (128, 3, 128) };
    let mut out = vec![];
    let mut lit: Vec<u8> = vec![];
    let flush = |lit: &mut Vec<u8>, out: &mut Vec<u8>| { for c in lit.chunks(max_lit) { out.push((c.len() - 1) as u8); out.extend_from_slice(c); } lit.clear(); };
    let mut i = 0;
    while i < x.len() {
        let mut run = 1;
        while i + run < x.len() && x[i + run] == x[i] && run < max_rep { run += 1; }
        if max_rep > 0 && run >= min_rep {
            flush(&mut lit, &mut out);
            out.push((257 - run) as u8);
            out.push(x[i]);
            i += run;
        } else {
            lit.push(x[i]);
            i += 1;
        }
    }
    flush(&mut lit, &mut out);
    out.push(128);
    out
}
struct MsbBits { out: Vec<u8>, acc: u32, n: u32 }
impl MsbBits {
    fn put(&mut self, code: usize, width: u32) { for k in (0..width).rev() { self.acc = self.acc << 1 | ((code >> k) & 1) as u32; self.n += 1; if self.n == 8 { self.out.push(self.acc as u8); self.acc = 0; self.n = 0; } } }
    fn finish(mut self) -> Vec<u8> { while self.n != 0 { self.put(0, 1); } self.out }
}
/// 7.4.4.2. `clear_when` = number of assigned table entries (258 + sequences) at which the encoder issues a clear-table code.
/// Returns the encoding, the largest code width used and the number of clear-table codes.
fn lzw_enc(x: &[u8], early: bool, clear_when: usize) -> (Vec<u8>, u32, usize) {
    use std::collections::HashMap;
    let mut w = MsbBits { out: vec![], acc: 0, n: 0 };
    let mut table: HashMap<(usize, u8), usize> = HashMap::new();
    let mut next = 258usize;                       // next code the ENCODER assigns
    let (mut width, mut maxw, mut clears) = (9u32, 9u32, 1usize);
    w.put(256, 9);
    let mut cur: Option<usize> = None;
    // width of the code that follows, as seen by a reader whose table lags one entry behind the writer's (Table 8: EarlyChange = one code early)
    let width_for = |next: usize, first: bool| -> u32 {
        let reader_next = if first { 258 } else { next - 1 } + early as usize;
        if reader_next >= 2048 { 12 } else if reader_next >= 1024 { 11 } else if reader_next >= 512 { 10 } else { 9 }
    };
    for &b in x {
        match cur {
            None => cur = Some(b as usize),
            Some(c) => match table.get(&(c, b)) {
                Some(&code) => cur = Some(code),
                None => {
                    w.put(c, width); maxw = maxw.max(width);
                    table.insert((c, b), next); next += 1;
                    width = width_for(next, false);
                    if next >= clear_when {
                        w.put(256, width); clears += 1;
                        table.clear(); next = 258; width = 9;
                    }
                    cur = Some(b as usize);
                }
            },
        }
    }
    if let Some(c) = cur {
        w.put(c, width); maxw = maxw.max(width);
        // the reader assigns one more entry on receiving this code (unless it is the first after a clear)
        width = width_for(next + 1, false);
    }
    w.put(257, width);
    (w.finish(), maxw, clears)
}
fn adler32(x: &[u8]) -> u32 { let (mut a, mut b) = (1u32, 0u32); for &c in x { a = (a + c as u32) % 65521; b = (b + a) % 65521; } b << 16 | a }
/// RFC 1951 3.2.4 stored blocks of at most `block` bytes
fn deflate_stored(x: &[u8], block: usize) -> Vec<u8> {
    let mut out = vec![];
    let chunks: Vec<&[u8]> = if x.is_empty() { vec![&x[..]] } else { x.chunks(block).collect() };
    for (i, c) in chunks.iter().enumerate() {
        out.push((i + 1 == chunks.len()) as u8);                                    // BFINAL, BTYPE 00, padding to the byte boundary
        out.extend_from_slice(&(c.len() as u16).to_le_bytes());
        out.extend_from_slice(&(!(c.len() as u16)).to_le_bytes());
        out.extend_from_slice(c);
    }
    out
}
/// RFC 1951 3.2.6 one final block with the fixed Huffman codes, literals only
fn deflate_fixed(x: &[u8]) -> Vec<u8> {
    let (mut out, mut acc, mut n) = (vec![], 0u32, 0u32);
    let mut bit = |b: u32, out: &mut Vec<u8>| { acc |= b << n; n += 1; if n == 8 { out.push(acc as u8); acc = 0; n = 0; } };
    bit(1, &mut out); bit(1, &mut out); bit(0, &mut out);                           // BFINAL 1, BTYPE 01 (LSB first)
    let mut huff = |code: u32, len: u32, out: &mut Vec<u8>| { for k in (0..len).rev() { bit((code >> k) & 1, out); } };   // Huffman codes: MSB first
    for &b in x { if b < 144 { huff(0x30 + b as u32, 8, &mut out) } else { huff(0x190 + (b as u32 - 144), 9, &mut out) } }
    huff(0, 7, &mut out);                                                           // end of block (256)
    for _ in 0..7 { huff(0, 1, &mut out); }                                         // flush (at most 7 padding bits; a partial byte is completed)
    out
}
fn zlib(deflated: Vec<u8>, x: &[u8]) -> Vec<u8> {
    let mut out = vec![0x78, 0x01];                                                 // CM 8, 32K window, FLEVEL 0, FCHECK: 0x7801 % 31 == 0
    out.extend(deflated);
    out.extend_from_slice(&adler32(x).to_be_bytes());
    out
}
const FRAMINGS: [&str; 5] = ["zlib, stored blocks of 65535", "zlib, stored blocks of 3", "raw deflate, stored", "zlib, fixed Huffman literals", "raw deflate, fixed Huffman literals"];
fn flate_enc(x: &[u8], framing: usize) -> Vec<u8> {
    match framing {
        0 => zlib(deflate_stored(x, 65535), x),
        1 => zlib(deflate_stored(x, 3), x),
        2 => deflate_stored(x, 65535),
        3 => zlib(deflate_fixed(x), x),
        _ => deflate_fixed(x),
    }
}
/// PNG specification, filter types 0..4 (None, Sub, Up, Average, Paeth) on rows of `rb` bytes, `bpp` = bytes per complete pixel rounded up to 1;
/// each row is preceded by its tag byte; `tags(row)` chooses the type. The row above the first is all zero.
fn png_filter(x: &[u8], rb: usize, bpp: usize, tags: &dyn Fn(usize) -> u8) -> Vec<u8> {
    assert!(rb > 0 && x.len() % rb == 0);
    let mut out = vec![];
    let zero = vec![0u8; rb];
    for (r, row) in x.chunks(rb).enumerate() {
        let prior: &[u8] = if r == 0 { &zero } else { &x[(r - 1) * rb..r * rb] };
        let t = tags(r);
        out.push(t);
        for i in 0..rb {
            let a = if i >= bpp { row[i - bpp] as i32 } else { 0 };
            let b = prior[i] as i32;
            let c = if i >= bpp { prior[i - bpp] as i32 } else { 0 };
            let pred = match t {
                0 => 0,
                1 => a,
                2 => b,
                3 => (a + b) / 2,
                _ => { let p = a + b - c; let (pa, pb, pc) = ((p - a).abs(), (p - b).abs(), (p - c).abs()); if pa <= pb && pa <= pc { a } else if pb <= pc { b } else { c } }
            };
            out.push((row[i] as i32 - pred).rem_euclid(256) as u8);
        }
    }
    out
}

// ---------------------------------------------------------------------------------------------------------------- universe
struct Lcg(u64);
impl Lcg { fn next(&mut self) -> u8 { self.0 = self.0.wrapping_mul(6364136223846793005).wrapping_add(1442695040888963407); (self.0 >> 33) as u8 } }
const LENGTHS: [usize; 12] = [4, 5, 8, 127, 128, 129, 255, 256, 257, 4095, 4096, 4097];
fn shaped() -> Vec<(String, Vec<u8>)> {
    let mut v = vec![];
    for &n in &LENGTHS {
        let mut l1 = Lcg(0xc05_0000 + n as u64);
        let mut l2 = Lcg(0xc05_1000 + n as u64);
        let mut l3 = Lcg(0xc05_2000 + n as u64);
        v.push((format!("constant 00 x {}", n), vec![0u8; n]));
        v.push((format!("constant 41 x {}", n), vec![0x41u8; n]));
        v.push((format!("constant ff x {}", n), vec![0xffu8; n]));
        v.push((format!("alternating 00 ff x {}", n), (0..n).map(|i| if i % 2 == 0 { 0 } else { 0xff }).collect()));
        v.push((format!("ramp i%256 x {}", n), (0..n).map(|i| i as u8).collect()));
        v.push((format!("LCG(0xc050000+n) bytes x {}", n), (0..n).map(|_| l1.next()).collect()));
        v.push((format!("LCG(0xc051000+n) over {{00,7a,7e,ff}} x {}", n), (0..n).map(|_| [0u8, 0x7a, 0x7e, 0xff][(l2.next() & 3) as usize]).collect()));
        let mut runs = vec![];
        while runs.len() < n { let (len, b) = (1 + l3.next() as usize % 140, l3.next()); for _ in 0..len { if runs.len() < n { runs.push(b); } } }
        v.push((format!("LCG(0xc052000+n) runs of 1..=140 x {}", n), runs));
    }
    v
}
fn alphabet_strings(len: usize) -> Vec<Vec<u8>> {
    let mut out: Vec<Vec<u8>> = vec![vec![]];
    for _ in 0..len { out = out.iter().flat_map(|p| A.iter().map(move |&c| { let mut q = p.clone(); q.push(c); q })).collect(); }
    out
}
fn p2(f: &mut dyn FnMut(&[u8])) {
    f(&[]);
    for a in 0..=255u8 { f(&[a]); for b in 0..=255u8 { f(&[a, b]); } }
}
fn show(x: &[u8]) -> String {
    let h: Vec<String> = x.iter().take(64).map(|b| format!("{:02x}", b)).collect();
    format!("{} bytes [{}{}]", x.len(), h.join(" "), if x.len() > 64 { " .." } else { "" })
}
fn expect(f: &StreamFilter, fname: &str, enc: &[u8], plain: &[u8], how: &str) {
    match catch_unwind(AssertUnwindSafe(|| decode(enc, f))) {
        Err(_) => panic!("decode PANICKED: filter {} encoder {} plaintext {} encoded {}", fname, how, show(plain), show(enc)),
        Ok(Err(e)) => panic!("decode = Err({:?}) on a conforming encoding: filter {} encoder {} plaintext {} encoded {}", e, fname, how, show(plain), show(enc)),
        Ok(Ok(d)) => if d != plain { panic!("decode != plaintext: filter {} encoder {} plaintext {} encoded {} decoded {}", fname, how, show(plain), show(enc), show(&d)) },
    }
}

// -------------------------------------------------------------------------------------------------------------------- tests
#[test]
fn ascii_hex_decodes_independent_encodings() {
    let f = StreamFilter::ASCIIHexDecode;
    let mut one = |x: &[u8]| for style in 0..6 { expect(&f, "ASCIIHexDecode", &hex_enc(x, style), x, &format!("hex style {}", style)); };
    p2(&mut one);
    for x in alphabet_strings(3) { one(&x); }
    for (_, x) in shaped() { one(&x); }
    // the odd-digit style really produced odd digit counts
    assert_eq!(hex_enc(&[0x12, 0x30], 5), b"123>");
}

#[test]
fn ascii85_decodes_independent_encodings() {
    let f = StreamFilter::ASCII85Decode;
    let mut one = |x: &[u8]| for style in 0..5 { expect(&f, "ASCII85Decode", &a85_enc(x, style), x, &format!("a85 style {}", style)); };
    p2(&mut one);
    for n in 3..=5 { for x in alphabet_strings(n) { one(&x); } }
    for (_, x) in shaped() { one(&x); }
    assert_eq!(a85_enc(&[0, 0, 0, 0, 0], 0), b"z!!~>");
    assert_eq!(a85_enc(b"hello world!", 1), b"BOu!rD]j7BEbo80~>");
}

#[test]
fn run_length_decodes_independent_encodings() {
    let f = StreamFilter::RunLengthDecode;
    let mut one = |x: &[u8]| for style in 0..7 { expect(&f, "RunLengthDecode", &rl_enc(x, style), x, &format!("run-length style {}", style)); };
    p2(&mut one);
    for x in alphabet_strings(3) { one(&x); }
    for (_, x) in shaped() { one(&x); }
    assert_eq!(rl_enc(&[7; 128], 4), [129, 7, 128]);
    assert_eq!(rl_enc(&[7; 129], 4), [129, 7, 0, 7, 128]);
    assert_eq!(rl_enc(b"abc", 3), [2, b'a', b'b', b'c', 128]);
    // 7.4.5: a length byte of 128 denotes EOD -- what follows is not data
    expect(&f, "RunLengthDecode", &[1, b'a', b'b', 128, 0, b'x', 255, b'y'], b"ab", "hand-written, bytes after EOD");
}

fn lzw_large() -> Vec<(String, Vec<u8>)> {
    let mut a = Lcg(11); let mut b = Lcg(12); let mut c = Lcg(13);
    vec![
        ("LCG(11) over 16 letters x 20000".into(), (0..20000).map(|_| 0x40 + (a.next() & 15)).collect()),
        ("LCG(12) bytes x 20000".into(), (0..20000).map(|_| b.next()).collect()),
        ("LCG(13) over 3 letters x 24000".into(), (0..24000).map(|_| b"abz"[(c.next() % 3) as usize]).collect()),
    ]
}
#[test]
fn lzw_decodes_independent_encodings() {
    // ISO 32000-1 7.4.4.2 EXAMPLE 2: 45 45 45 45 45 65 45 45 45 66 -> 256 45 258 258 65 259 66 257 -> 80 0B 60 50 22 0C 0C 85 01
    assert_eq!(lzw_enc(&[45, 45, 45, 45, 45, 65, 45, 45, 45, 66], true, 4096).0, [0x80, 0x0B, 0x60, 0x50, 0x22, 0x0C, 0x0C, 0x85, 0x01]);
    let (mut maxw, mut maxclears) = (0, 0);
    for (early, fname, f) in [(true, "LZWDecode{defaults}", StreamFilter::LZWDecode(LZWFlateParams::default())),
                              (false, "LZWDecode{EarlyChange 0}", StreamFilter::LZWDecode(params(1, 1, 8, 1, 0))),
                              (true, "LZWDecode{EarlyChange 1, Colors 3, Columns 5}", StreamFilter::LZWDecode(params(1, 3, 8, 5, 1)))] {
        let mut one = |what: &str, x: &[u8]| for clear_when in [4096, 4094, 600] {
            let (e, w, c) = lzw_enc(x, early, clear_when);
            maxw = maxw.max(w); maxclears = maxclears.max(c);
            expect(&f, fname, &e, x, &format!("LZW early={} clear-table at entry {} ({})", early, clear_when, what));
        };
        one("empty", &[]);
        for a in 0..=255u8 { one("1 byte", &[a]); }
        for x in alphabet_strings(3) { one("A^3", &x); }
        for (what, x) in shaped() { one(&what, &x); }
        for (what, x) in lzw_large() { one(&what, &x); }
    }
    assert!(maxw == 12 && maxclears >= 3, "universe does not reach 12-bit codes / table resets: {} {}", maxw, maxclears);
}

#[test]
fn flate_decodes_independent_encodings_without_predictor() {
    let fs = [("FlateDecode{defaults}", StreamFilter::FlateDecode(LZWFlateParams::default())),
              ("FlateDecode{Predictor 1, Colors 3, BPC 4, Columns 7}", StreamFilter::FlateDecode(params(1, 3, 4, 7, 1)))];
    for (fname, f) in &fs {
        let mut one = |x: &[u8]| for fr in 0..5 { expect(f, fname, &flate_enc(x, fr), x, FRAMINGS[fr]); };
        one(&[]);
        for a in 0..=255u8 { one(&[a]); }
        for a in 0..64u8 { for b in 0..64u8 { one(&[a.wrapping_mul(4).wrapping_add(b >> 4), b.wrapping_mul(37)]); } }
        for (_, x) in shaped() { one(&x); }
    }
    let mut l = Lcg(70000);
    let big: Vec<u8> = (0..70000).map(|i| if i % 1000 < 500 { l.next() } else { 0 }).collect();
    for fr in 0..5 { expect(&fs[0].1, fs[0].0, &flate_enc(&big, fr), &big, FRAMINGS[fr]); }
    assert_eq!(flate_enc(b"a", 0), [0x78, 0x01, 0x01, 0x01, 0x00, 0xfe, 0xff, b'a', 0x00, 0x62, 0x00, 0x62]);
}

fn tag_patterns() -> Vec<(&'static str, Box<dyn Fn(usize) -> u8>)> {
    vec![("all rows 0 None", Box::new(|_| 0)), ("all rows 1 Sub", Box::new(|_| 1)), ("all rows 2 Up", Box::new(|_| 2)), ("all rows 3 Average", Box::new(|_| 3)),
         ("all rows 4 Paeth", Box::new(|_| 4)), ("rows 0,1,2,3,4,..", Box::new(|r| (r % 5) as u8)), ("rows 3,4,0,1,2,..", Box::new(|r| ((r + 3) % 5) as u8))]
}
fn pixels(n: usize, kind: usize, seed: u64) -> Vec<u8> {
    let mut l = Lcg(seed);
    (0..n).map(|i| if kind == 0 { l.next() } else { [0x00, 0xff, 0x80, 0x7f, 0xff, 0x00, 0x01, 0xfe][(i + (l.next() & 1) as usize) % 8] }).collect()
}
fn png_case(predictor: i32, colors: i32, bpc: i32, columns: i32, rows: usize, framings: &[usize]) {
    let rb = ((columns * colors * bpc + 7) / 8) as usize;
    let bpp = std::cmp::max(1, (colors * bpc / 8) as usize);
    let f = StreamFilter::FlateDecode(params(predictor, colors, bpc, columns, 1));
    let fname = format!("FlateDecode{{Predictor {}, Colors {}, BitsPerComponent {}, Columns {}}}", predictor, colors, bpc, columns);
    for (tname, tags) in tag_patterns() {
        for kind in 0..2 {
            let x = pixels(rows * rb, kind, (predictor * 1000 + colors * 100 + bpc * 10 + columns) as u64 + rows as u64 * 7919);
            let filtered = png_filter(&x, rb, bpp, &*tags);
            for &fr in framings {
                expect(&f, &fname, &flate_enc(&filtered, fr), &x, &format!("PNG filter rows ({}), {} rows of {} bytes, bpp {}, {}", tname, rows, rb, bpp, FRAMINGS[fr]));
            }
        }
    }
}
#[test]
fn flate_png_predictors_8_bit() {
    for predictor in 10..=15 { for colors in [1, 3] { for columns in 1..=5 { for rows in 0..=4 { png_case(predictor, colors, 8, columns, rows, &[0, 2, 3]); } } } }
}
#[test]
fn flate_png_predictors_1_2_4_16_bit() {
    for predictor in [12, 15] { for colors in [1, 3] { for bpc in [1, 2, 4, 16] { for columns in 1..=5 { for rows in [1, 3] { png_case(predictor, colors, bpc, columns, rows, &[0, 3]); } } } } }
}

#[test]
fn truncated_or_corrupted_data_never_panics() {
    let plain: Vec<Vec<u8>> = vec![b"".to_vec(), b"a".to_vec(), vec![0, 0, 0, 0, 0xff], b"hello world!".to_vec(), vec![7; 20], (0..30u8).map(|i| i.wrapping_mul(37)).collect()];
    let mut cases: Vec<(String, StreamFilter, Vec<u8>)> = vec![];
    for x in &plain {
        cases.push(("ASCIIHexDecode".into(), StreamFilter::ASCIIHexDecode, hex_enc(x, 4)));
        cases.push(("ASCII85Decode".into(), StreamFilter::ASCII85Decode, a85_enc(x, 3)));
        cases.push(("RunLengthDecode".into(), StreamFilter::RunLengthDecode, rl_enc(x, 4)));
        cases.push(("LZWDecode{defaults}".into(), StreamFilter::LZWDecode(LZWFlateParams::default()), lzw_enc(x, true, 4096).0));
        cases.push(("LZWDecode{EarlyChange 0}".into(), StreamFilter::LZWDecode(params(1, 1, 8, 1, 0)), lzw_enc(x, false, 4096).0));
        cases.push(("FlateDecode{defaults}".into(), StreamFilter::FlateDecode(LZWFlateParams::default()), flate_enc(x, 3)));
    }
    for (predictor, colors, bpc, columns) in [(12, 1, 8, 3), (15, 3, 8, 2), (11, 1, 4, 5), (14, 3, 16, 1)] {
        let rb = ((columns * colors * bpc + 7) / 8) as usize;
        let x = pixels(3 * rb, 0, 99);
        let filtered = png_filter(&x, rb, std::cmp::max(1, (colors * bpc / 8) as usize), &|r| ((r + 2) % 5) as u8);
        cases.push((format!("FlateDecode{{Predictor {}, Colors {}, BPC {}, Columns {}}}", predictor, colors, bpc, columns),
                    StreamFilter::FlateDecode(params(predictor, colors, bpc, columns, 1)), flate_enc(&filtered, 0)));
    }
    assert_eq!(cases.len(), 40);
    for (fname, f, e) in &cases {
        let mut probe = |d: &[u8], what: String| {
            if catch_unwind(AssertUnwindSafe(|| { let _ = decode(d, f); })).is_err() { panic!("decode PANICKED on {}: filter {} data {}", what, fname, show(d)); }
        };
        for n in 0..e.len() { probe(&e[..n], format!("a prefix of {} bytes", n)); }
        for i in 0..e.len() {
            for v in [0x00, 0xff, e[i] ^ 0x01, e[i] ^ 0x80, e[i].wrapping_add(1)] {
                let mut d = e.clone(); d[i] = v;
                probe(&d, format!("byte {} replaced by {:02x}", i, v));
            }
        }
    }
}
