E = 'pdf/src/enc.rs'
DEC = ['C05', 'C16', 'C01']
ENC = ['C16']

# ---------------------------------------------------------------------------------------------------------------------
# shared rewrites of the two iterator-chain decoders
# ---------------------------------------------------------------------------------------------------------------------
# R2: Verus reads closure parameters that are plain variables only. `|&b| EXPR` becomes `|b_: &u8| { let b = *b_; EXPR }`;
# the closure's `ensures` is generated from the SAME captured text EXPR (back-reference), so the predicate stays verbatim
# under proof: what the closure computes is whatever the source says, and the postcondition of the function decides
# whether that is the right predicate. EXPR = everything up to the parenthesis that closes the adaptor call (one level of
# nested parentheses, as in `!matches!(b, ..)`).
CLOSURE = {'rule': 'R2', 'regex': r'\|&b\| ((?:[^()]|\([^()]*\))*)\)', 'count': '*',
           'replace': r'|b_: &u8| -> (keep: bool) ensures keep == ({ let b = *b_; \1 }) { let b = *b_; \1 })'}
# R7: the slice iterator (env model `ByteIter`, see unit.rs)
ITER = {'rule': 'R7', 'find': 'data.iter().cloned()', 'replace': 'hoist_iter_cloned(data)'}

# ---------------------------------------------------------------------------------------------------------------------
# decode_85
# ---------------------------------------------------------------------------------------------------------------------
A85_BEFORE_LOOP = '''
    let ghost s = stream.items();
    let ghost i = first_from(s, 0x7eu8, 0);
    let ghost mut p: int = 0;
    proof { lemma_first_from(s, 0x7eu8, 0); lemma_a85_start(s, i, out@); let ghost _c = computes(symbols.f, not_eod_a85()); }
'''
A85_INV = [
    'computes(symbols.f, symbols.pred@)', ('a85_data_ends_at_tilde', 'symbols.pred@ == not_eod_a85()'),
    ('a85_all_white_space_ignored', 's == strip_ws(data@)'), 'i == first_from(s, 0x7eu8, 0)',
    'stream.items() == s', '0 <= p <= i <= s.len()',
    'forall|j: int| 0 <= j < i ==> s[j] != 0x7eu8', 'i < s.len() ==> s[i] == 0x7eu8',
]
A85_INV_LOOP = [
    # cursor: `p` characters of the data consumed, EOD not yet seen
    'stream.pos() == p', '!symbols.done',
    # the bytes written so far, followed by what ISO 7.4.3 prescribes for the rest of the data, is what it prescribes for the whole
    ('a85_inv', 'a85_inv(s, p, i, out@)'),
]
A85_EXIT = [
    'stream.items() == s', 'stream.pos() == (if i < s.len() { i + 1 } else { s.len() as int })',
    '0 <= p <= i <= s.len()', 'tail_len <= 4',
    # on leaving the loop the cursor stands behind EOD (or at the end) and `tail` is the partial group completed with `u`
    ('a85_tail_is_rest', 'tail_len == i - p'),
    ('a85_tail_padded_with_u', 'tail_len > 0 ==> s[p] != 0x7au8 && tail@ =~= a85_group_at(s, p, i)'),
    ('a85_inv_exit', 'a85_inv(s, p, i, out@)'),
]
DECODE_85 = {'kind': 'fn', 'file': E, 'container': None, 'name': 'decode_85', 'props': DEC,
    # language invariant of slices (needed for `(data.len() + 4) / 5 * 4`); call sites: enc::decode, tests
    'requires': ['data@.len() <= isize::MAX'],
    'ensures': [
        ('a85_is_iso_decoder', 'a85_decode_spec(data@) matches Some(v) ==> (r matches Ok(o) && o@ == v)'),
        ('a85_errors', 'a85_decode_spec(data@) is None ==> r is Err'),
    ],
    'loops': {1: {'invariant': A85_INV, 'invariant_except_break': A85_INV_LOOP, 'ensures': A85_EXIT, 'decreases': 's.len() - p'}},
    'rewrites': [
        ITER, CLOSURE,
        # R8: `stream.by_ref().take_while(f)` = TakeWhile<&mut I, F>: the `&mut` alias is made explicit (model TakeWhileRef)
        {'rule': 'R8', 'regex': r'stream\.by_ref\(\)\s*\.take_while\(', 'replace': 'by_ref_take_while('},
        {'rule': 'R8', 'regex': r'symbols\.next\(\)', 'count': '*', 'replace': 'symbols.next(&mut stream)'},
        # R10: `let (a, b) = loop { .. break (x, y) .. };` -> deferred initialisation + plain `break`
        {'rule': 'R10', 'find': 'let (tail_len, tail) = loop {', 'replace': A85_BEFORE_LOOP + 'let tail_len: usize; let tail: [u8; 5]; loop {'},
        {'rule': 'R10', 'regex': r'break \(([^,()]*), (\[[^\]]*\])\)', 'count': '*', 'replace': r'{ tail_len = \1; tail = \2; break; }'},
        # R1 ghost
        {'rule': 'R1', 'regex': r"(Some\(b'z'\) => )(out\.extend_from_slice\(&\[[^\]]*\]\)),",
         'replace': r'\1{ let ghost o0 = out@; \2; proof { lemma_a85_step_z(s, p, i, o0, out@); p = p + 1; } },'},
        {'rule': 'R1', 'regex': r'(out\.extend_from_slice\(&word_85\((\[[^\]]*\])\)[^;]*\?\);)',
         'replace': r'let ghost o0 = out@; let ghost g = \2@; proof { lemma_a85_group_err(s, p, i, o0, g); } \1 proof { '
                    r'let w = out@.subrange(o0.len() as int, out@.len() as int); lemma_be32_digits(w); '
                    r'lemma_a85_step_group(s, p, i, o0, g, w, out@); p = p + 5; }'},
        {'rule': 'R1', 'regex': r'(if tail_len > 0 \{)', 'count': '*',
         'replace': r'let ghost o0 = out@; proof { lemma_a85_done(s, p, i, o0); } \1 proof { lemma_a85_group_err(s, p, i, o0, tail@); }'},
        {'rule': 'R1', 'regex': r'(let last = word_85\(tail\)[^;]*;)', 'replace': r'\1 proof { lemma_be32_digits(last@); }'},
        {'rule': 'R1', 'regex': r'(out\.extend_from_slice\(&last\[[^\]]*\]\);)',
         'replace': r'\1 proof { lemma_a85_tail(s, p, i, o0, tail@, last@, out@); }'},
    ]}

# ---------------------------------------------------------------------------------------------------------------------
# decode_hex
# ---------------------------------------------------------------------------------------------------------------------
HEX_LOOP = ('let ghost dg = hex_digits(data@); proof { lemma_hex_digits_len(data@); } '
            'let pairs_v = hoist_enumerate_collect(pairs); let mut i_: usize = 0; '
            'while i_ < pairs_v.len() { let (i, (high, low)) = pairs_v[i_]; i_ += 1; ')
HEX_INV = [
    'i_ <= pairs_v@.len()', 'out@.len() == i_',
    # the pairs the chain delivers are the digits before EOD, white-space dropped, two at a time, the last one completed with 0
    ('hex_pairs', 'pairs_v@.len() == (dg.len() + 1) / 2 && forall|k: int| 0 <= k < pairs_v@.len() ==> '
                  '#[trigger] pairs_v@[k] == (k as usize, (dg[2 * k], hex_digit_at(dg, 2 * k + 1)))'),
    ('hex_bytes_so_far', 'all_hex(dg) ==> forall|k: int| 0 <= k < i_ ==> out@[k] == hex_byte(dg, k)'),
    ('hex_accepted_so_far', 'forall|k: int| 0 <= k < 2 * i_ && k < dg.len() ==> is_hex(dg[k]) || (TOL_HEX_GH_ARE_DIGITS() && is_gh(dg[k]))'),
]
DECODE_HEX = {'kind': 'fn', 'file': E, 'container': None, 'name': 'decode_hex', 'props': DEC,
    'requires': ['data@.len() <= isize::MAX'],
    'ensures': [
        ('hex_is_iso_decoder', 'hex_decode_spec(data@) matches Some(v) ==> (r matches Ok(o) && o@ == v)'),
        ('hex_rejects_non_digits', 'hex_decode_spec(data@) is None && !(TOL_HEX_GH_ARE_DIGITS() && has_gh(hex_digits(data@))) ==> r is Err'),
    ],
    'attrs': ['#[verifier::loop_isolation(false)]'],
    'loops': {1: {'invariant': HEX_INV, 'decreases': 'pairs_v@.len() - i_'}},
    'rewrites': [
        ITER, CLOSURE,
        {'rule': 'R7', 'regex': r'std::iter::once\(', 'count': '*', 'replace': 'iter_once('},
        # R6: iterator loop -> index loop over the collected (index, item) pairs
        {'rule': 'R6', 'find': 'for (i, (high, low)) in pairs.enumerate() {', 'replace': HEX_LOOP},
        {'rule': 'R1', 'regex': r'(out\.push\(([^;]*)\);)',
         'replace': r'\1 proof { assert(high < 16 && low < 16 ==> (high << 4 | low) == (high * 16 + low) as u8 && (low | high << 4) == (high * 16 + low) as u8) by (bit_vector); }'},
    ]}

DECODE_NIBBLE = {'kind': 'fn', 'file': E, 'container': None, 'name': 'decode_nibble', 'props': DEC,
    'ensures': [('nibble_hex_digit', 'is_hex(c) ==> r == Some(hexval(c) as u8)'),
                ('nibble_rejects_others', '!is_hex(c) && !(TOL_HEX_GH_ARE_DIGITS() && is_gh(c)) ==> r is None')]}

# ---------------------------------------------------------------------------------------------------------------------
# encoders / pairing
# ---------------------------------------------------------------------------------------------------------------------
# R7: weezl's streaming call chain (a struct holding `&mut out`) behind one abstract call; receiver, sink and data stay verbatim
WEEZL = {'rule': 'R7', 'regex': r'((?:Encoder::new\([^()]*\))|\b\w+)\s*\.into_stream\(&mut (\w+)\)\s*\.(encode|decode)_all\((\w+)\)\.status',
         'replace': r'weezl_\3_all(&mut \1, &mut \2, \4)'}
EC01 = '(params.early_change == 0 || params.early_change == 1)'
FLATE_ENCODE = {'kind': 'fn', 'file': E, 'container': None, 'name': 'flate_encode', 'props': ENC,
    'ensures': [
        # ISO 32000-1 7.4.4.1: Flate data is a zlib stream (RFC 1950)
        ('flate_standard_framing', 'zlib_inflated(r@) == Some(data@)'),
        # what flate_decode (zlib first, raw deflate as fallback) makes of it
        ('flate_pairing', 'inflated(r@) == Some(data@)'),
    ]}
LZW_DECODE = {'kind': 'fn', 'file': E, 'container': None, 'name': 'lzw_decode', 'props': DEC,
    'ensures': [
        ('lzw_decodes_standard_format', EC01 + ' ==> ((lzw_expand(pdf_lzw_cfg(params.early_change as int), data@) is None ==> r is Err)'
            ' && (lzw_expand(pdf_lzw_cfg(params.early_change as int), data@) matches Some(x) ==> (params.predictor == 1 ==> (r matches Ok(v) && v@ == x))))'),
    ],
    'rewrites': [WEEZL]}
LZW_ENCODE = {'kind': 'fn', 'file': E, 'container': None, 'name': 'lzw_encode', 'props': ENC,
    'ensures': [
        # Table 8: EarlyChange defaults to 1 -- the encoder must accept what the filter's defaults say
        ('lzw_default_parameters_accepted', EC01 + ' ==> r is Ok'),
        ('lzw_standard_format', EC01 + ' ==> (r matches Ok(v) ==> lzw_expand(pdf_lzw_cfg(params.early_change as int), v@) == Some(data@))'),
    ],
    'rewrites': [WEEZL]}
F = '(*filter)'
ENCODE = {'kind': 'fn', 'file': E, 'container': None, 'name': 'encode', 'props': ENC,
    'requires': ['data@.len() <= isize::MAX'],      # language invariant of slices (encode_hex / encode_85 need it)
    'ensures': [
        ('encode_hex_arm', F + ' is ASCIIHexDecode ==> (r matches Ok(v) && v@ == enchex_spec(data@))'),
        ('encode_85_arm', F + ' is ASCII85Decode ==> (r matches Ok(v) && v@ == enc85_spec(data@))'),
        ('encode_lzw_arm', F + ' matches StreamFilter::LZWDecode(p) ==> (p.predictor == 1 && (p.early_change == 0 || p.early_change == 1)'
                           ' ==> (r matches Ok(v) && lzw_expand(pdf_lzw_cfg(p.early_change as int), v@) == Some(data@)))'),
        ('encode_flate_arm', F + ' matches StreamFilter::FlateDecode(p) ==> (p.predictor == 1 ==> (r matches Ok(v) && zlib_inflated(v@) == Some(data@)))'),
        # neither encoder applies a predictor: parameters that ask for one must be refused, not silently ignored
        ('encode_refuses_predictors', '(' + F + ' matches StreamFilter::LZWDecode(p) && p.predictor != 1) || (' + F + ' matches StreamFilter::FlateDecode(p) && p.predictor != 1) ==> r is Err'),
        ('encode_unsupported_is_err', F + ' is JPXDecode || ' + F + ' is DCTDecode || ' + F + ' is CCITTFaxDecode || ' + F + ' is JBIG2Decode || '
                                      + F + ' is Crypt || ' + F + ' is RunLengthDecode ==> r is Err'),
    ],
    'rewrites': [
        # R4: the crate's own `unimplemented!()` (error.rs) is `bail!("Unimplemented @ ..")`, not a panic
        {'rule': 'R4', 'find': 'unimplemented!()', 'replace': 'bail!("Unimplemented")', 'count': '*'},
    ]}

UNIT = {
 'name': 'codecs2',
 'doc': 'decode_85 / decode_hex whole string vs ISO 32000-1 7.4.2-7.4.3 and inversion of the ISO encoders; flate/lzw encoder-decoder pairing (typestate env); encode dispatch',
 'rlimit': 80,
 'tolerances': {
   'TOL_A85_DATA_AFTER_EOD_IS_ERROR': 'non-white-space bytes after `~>` make decode_85 fail. ISO 7.4.3 ends the data at EOD and says nothing about what follows; '
                                      'a conforming encoder writes nothing after EOD (C05/C16 quantify over encoder output)',
   'TOL_A85_LONE_FINAL_CHAR': 'a final group of ONE character (ISO: "shall never occur") is not rejected: decode_85 pads it with uuuu, and if that is a valid group it '
                              'contributes 0 bytes. C05 allows "an error or a value" for corrupted data',
   'TOL_HEX_GH_ARE_DIGITS': 'decode_nibble takes g, h, G, H for digits 16 and 17 (`a..=h`), so decode_hex does not reject them (ISO 7.4.2: "any other characters '
                            'shall cause an error"). C05 allows "an error or a value" for corrupted data; nothing is demanded for input containing these four letters',
 },
 # BOUNDED native stand-ins (vlib/native.py): the real crate through its public API (pdf::enc::{encode, decode}) on enumerated universes.
 # They run the real libflate / weezl behind the dispatchers (which the Verus reading sees through trusted typestate stubs only) and the whole
 # predictor path of flate_decode on encodings made by encoders the crate does not contain. Never counted as proved.
 'native': {'tests': [
   {'name': 'decode_inverts_encode_enumerated', 'code': 'native_c16_roundtrip_bounded.rs', 'place': 'pdf/tests/verif_codecs2_c16_bounded.rs',
    'fn': 'encode', 'props': ['C16'], 'tier': 'quick', 'timeout': 900,
    'bound': 'filters {ASCIIHex, ASCII85, Flate{defaults}, Flate{Predictor 1, Colors 3, BPC 4, Columns 7}, LZW{EarlyChange 1}, LZW{EarlyChange 0}, '
             'LZW{EarlyChange 1, Colors 3, Columns 7}} (RunLength has no encoder: refusal checked) x inputs {all 65 793 byte strings of length <= 2 (5 filters with distinct code '
             'paths); all 512 strings of length 3 over {00,01,7e,3e,7a,ff,80,20}; lengths 4,5,8,127,128,129,255,256,257,4095,4096,4097 x 8 shapes (3 constants, alternating, 2 ramps, '
             'LCG bytes, LCG over 4 letters); 3 low-entropy / random strings of 20 000-24 000 bytes (LZW table reset reached: clear codes counted)}; refusal: Predictor 2,10..15 x 6 '
             'geometries x EarlyChange 0/1 on Flate and LZW, RunLength, DCT, JPX, CCITTFax, JBIG2, Crypt (must be Err), 7 other Predictor values and 5 odd EarlyChange values (Err or '
             'round trip) x 5 inputs',
    'contract': 'encode(x, f) == Ok(e) and decode(e, f) == Ok(x), nothing panics; e is also read back to x by a reference decoder written in the harness from ISO 32000-1 7.4.2 / '
                '7.4.3 / 7.4.4.2 + Table 8 (hex, ASCII85, LZW with either EarlyChange), Flate output carries a valid RFC 1950 header and the Adler-32 of x; a filter value that encode '
                'cannot invert (predictor, unsupported filter) yields Err and no bytes'},
   {'name': 'decoders_read_independent_encodings', 'code': 'native_c05_decoders_bounded.rs', 'place': 'pdf/tests/verif_codecs2_c05_bounded.rs',
    'fn': 'decode', 'props': ['C05'], 'tier': 'quick', 'timeout': 900,
    'bound': 'encoders written in the harness (none of the crate): ASCIIHex 6 styles (case, each white-space character, line breaks, odd digit count, `>`), ASCII85 5 styles (`z` / `!!!!!`, '
             'white-space, line breaks, final groups of 1-3 bytes, `~>`), RunLength 7 styles (literal runs <= 1/2/127/128, repeat runs 2..128 / 2..3 / 3..128, EOD 128), LZW (EarlyChange 0/1, '
             'clear-table at entry 4096 / 4094 / 600; 12-bit codes and resets reached), Flate (zlib stored 65535- and 3-byte blocks, raw stored, zlib and raw fixed-Huffman literals) over all '
             'byte strings of length <= 2 (hex, 85, RL; <= 1 + a 4 096 slice for Flate; <= 1 for LZW), {00,01,7e,3e,7a,ff,80,20}^3 (^4, ^5 for ASCII85), 96 shaped strings of length 4..4097, '
             '20-70 kB strings for LZW / Flate; PNG Predictor 10..15 x Colors {1,3} x BPC 8 x Columns 1..5 x 0..4 rows and Predictor {12,15} x Colors {1,3} x BPC {1,2,4,16} x Columns 1..5 x '
             '{1,3} rows, x 7 row-tag patterns (each of 0..4, two rotations) x 2 pixel sets x 2-3 framings; prefixes and 5 single-byte substitutions per position of 40 encodings (no panic). '
             'NOT covered (known findings of unit flate): TIFF Predictor 2, predictors on LZWDecode; filter chains; DCT/CCITTFax/JBIG2/JPX',
    'contract': 'decode(encoding of x by a specification-conforming encoder, filter) == Ok(x), nothing panics; truncated or corrupted encodings give Ok or Err, never a panic'},
 ]},
 'items': {
   'decode_nibble': DECODE_NIBBLE,
   'decode_hex': DECODE_HEX,
   'decode_85': DECODE_85,
   'struct LZWFlateParams': {'kind': 'decl', 'file': E, 'header': r'^pub struct LZWFlateParams$'},
   'enum StreamFilter': {'kind': 'decl', 'file': E, 'header': r'^pub enum StreamFilter$'},
   'flate_encode': FLATE_ENCODE,
   'lzw_decode': LZW_DECODE,
   'lzw_encode': LZW_ENCODE,
   'encode': ENCODE,
 },
}
