// Unit `codecs2` (C05, C16, C01): the string-level ASCII85 / ASCIIHex decoders of pdf/src/enc.rs against
// ISO 32000-1 7.4.2 / 7.4.3, their inversion of the ISO encoders (specs of unit `a85enc`), the pairing of
// flate_encode/flate_decode and lzw_encode/lzw_decode through typestate models of libflate / weezl, and
// the `encode` dispatch.
use vstd::prelude::*;
//@@ INCLUDE _common/error_macros.rs
verus! {
global size_of usize == 8;

//@@ PDFERROR

//@@ DEVIATIONS

// =====================================================================================================
// spec: ISO 32000-1 7.2.2 Table 1 white-space; 7.4.2 ASCIIHexDecode; 7.4.3 ASCII85Decode  (decoder side)
// =====================================================================================================
// Table 1: NUL, HT, LF, FF, CR, SP
pub open spec fn is_ws(b: u8) -> bool { b == 0 || b == 9 || b == 10 || b == 12 || b == 13 || b == 32 }
pub open spec fn not_ws() -> spec_fn(u8) -> bool { |b: u8| !is_ws(b) }
// 7.4.2 / 7.4.3: "All white-space characters shall be ignored."
pub open spec fn strip_ws(d: Seq<u8>) -> Seq<u8> { d.filter(not_ws()) }
// index of the first occurrence of c at or after p (s.len() if there is none)
pub open spec fn first_from(s: Seq<u8>, c: u8, p: int) -> int
    decreases s.len() - p
{
    if p >= s.len() { s.len() as int } else if s[p] == c { p } else { first_from(s, c, p + 1) }
}

// ---- 7.4.2: "The ASCIIHexDecode filter shall produce one byte of binary data for each pair of ASCII hexadecimal
// digits (0-9 and A-F or a-f). All white-space characters shall be ignored. A GREATER-THAN SIGN (3Eh) indicates EOD.
// Any other characters shall cause an error. If the filter encounters the EOD marker after reading an odd number of
// hexadecimal digits, it shall behave as if a 0 (zero) followed the last digit."
pub open spec fn is_hex(c: u8) -> bool { (0x30 <= c <= 0x39) || (0x41 <= c <= 0x46) || (0x61 <= c <= 0x66) }
pub open spec fn hexval(c: u8) -> int { if c <= 0x39 { c - 0x30 } else if c <= 0x46 { c - 0x41 + 10 } else { c - 0x61 + 10 } }
// the characters before EOD (the whole data if there is no `>`: lenient, not demanded by ISO), white-space removed
pub open spec fn not_eod_hex() -> spec_fn(u8) -> bool { |b: u8| b != 0x3eu8 }
pub open spec fn hex_digits(d: Seq<u8>) -> Seq<u8> { strip_ws(take_while_seq(d, not_eod_hex())) }
pub open spec fn all_hex(s: Seq<u8>) -> bool { forall|k: int| 0 <= k < s.len() ==> is_hex(#[trigger] s[k]) }
pub open spec fn hex_digit_at(s: Seq<u8>, k: int) -> u8 { if k < s.len() { s[k] } else { 0x30u8 } }
pub open spec fn hex_byte(s: Seq<u8>, k: int) -> u8 { (16 * hexval(s[2 * k]) + hexval(hex_digit_at(s, 2 * k + 1))) as u8 }
pub open spec fn hex_bytes(s: Seq<u8>) -> Seq<u8> { Seq::new(((s.len() + 1) / 2) as nat, |k: int| hex_byte(s, k)) }
pub open spec fn hex_decode_spec(d: Seq<u8>) -> Option<Seq<u8>> {
    if all_hex(hex_digits(d)) { Some(hex_bytes(hex_digits(d))) } else { None }
}
// the four letters after f / F that `decode_nibble` takes for digits 16 and 17 (tolerance, see unit.py)
pub open spec fn is_gh(c: u8) -> bool { c == 0x67 || c == 0x68 || c == 0x47 || c == 0x48 }
pub open spec fn has_gh(s: Seq<u8>) -> bool { exists|k: int| 0 <= k < s.len() && is_gh(#[trigger] s[k]) }

// ---- 7.4.3 (group relation and alphabet: same text as unit a85enc)
pub open spec fn be32(c: Seq<u8>) -> int {
    (c[0] as int) * 16777216 + (c[1] as int) * 65536 + (c[2] as int) * 256 + (c[3] as int)
}
pub open spec fn a85_value(e: Seq<u8>) -> int {
    (e[0] - 33) * 52200625 + (e[1] - 33) * 614125 + (e[2] - 33) * 7225 + (e[3] - 33) * 85 + (e[4] - 33)
}
pub open spec fn a85_sym(b: u8) -> bool { 0x21 <= b <= 0x75 }     // '!' ..= 'u'
pub open spec fn a85_syms(e: Seq<u8>) -> bool {
    a85_sym(e[0]) && a85_sym(e[1]) && a85_sym(e[2]) && a85_sym(e[3]) && a85_sym(e[4])
}
pub open spec fn zeros(n: int) -> Seq<u8> { Seq::new(n as nat, |i: int| 0u8) }
// the 4 bytes b1 b2 b3 b4 with b1*256^3 + b2*256^2 + b3*256 + b4 == n
pub open spec fn be4(n: int) -> Seq<u8> {
    seq![(n / 16777216) as u8, (n / 65536 % 256) as u8, (n / 256 % 256) as u8, (n % 256) as u8]
}
// one group of five: "The following conditions shall never occur in a correctly encoded byte sequence: the value
// represented by a group of 5 characters is greater than 2^32 - 1" (and characters outside ! .. u are not part of the alphabet)
pub open spec fn a85_word(w: Seq<u8>) -> Option<Seq<u8>> {
    if a85_syms(w) && a85_value(w) <= 0xffff_ffff { Some(be4(a85_value(w))) } else { None }
}
// k-th character of the group starting at p in s[..end]; a final partial group is completed with `u` (the largest
// digit, 84): the encoder wrote the first n+1 characters of a group whose remaining base-85 digits were discarded, and
// completing with the largest digit is the convention of the PostScript/PDF reference decoders under which the first n
// bytes come out unchanged (this is what lemma_a85_inverse proves against the ISO encoder).
pub open spec fn a85_at(s: Seq<u8>, p: int, end: int, k: int) -> u8 { if p + k < end { s[p + k] } else { 0x75u8 } }
pub open spec fn a85_group_at(s: Seq<u8>, p: int, end: int) -> Seq<u8> {
    seq![a85_at(s, p, end, 0), a85_at(s, p, end, 1), a85_at(s, p, end, 2), a85_at(s, p, end, 3), a85_at(s, p, end, 4)]
}
pub open spec fn opt_cat(a: Seq<u8>, b: Option<Seq<u8>>) -> Option<Seq<u8>> {
    match b { Some(t) => Some(a + t), None => None }
}
// the data characters s[p..end] (white-space already removed, EOD not included)
#[verifier::opaque]
pub open spec fn a85_body(s: Seq<u8>, p: int, end: int) -> Option<Seq<u8>>
    decreases end - p
{
    if p >= end {
        Some(Seq::<u8>::empty())
    } else if s[p] == 0x7a {
        // "if all five digits are 0, they shall be represented by the character with code 122 (z)"; a z in the middle
        // of a group "shall never occur": there it is not in the alphabet ! .. u and a85_word rejects the group
        opt_cat(zeros(4), a85_body(s, p + 1, end))
    } else if end - p == 1 {
        // "A final partial group contains only one character" shall never occur
        if TOL_A85_LONE_FINAL_CHAR() { if a85_word(a85_group_at(s, p, end)) is Some { Some(Seq::<u8>::empty()) } else { None } } else { None }
    } else {
        match a85_word(a85_group_at(s, p, end)) {
            None => None,
            Some(w) =>
                if p + 5 <= end { opt_cat(w, a85_body(s, p + 5, end)) }
                // n+1 characters (n = 1, 2, 3) stand for n bytes
                else { Some(w.subrange(0, end - p - 1)) },
        }
    }
}
pub open spec fn not_eod_a85() -> spec_fn(u8) -> bool { |b: u8| b != 0x7eu8 }
// "~> (EOD)"
pub open spec fn a85_decode_spec(d: Seq<u8>) -> Option<Seq<u8>> {
    let s = strip_ws(d);
    let i = first_from(s, 0x7e, 0);
    if i + 1 < s.len() && s[i + 1] == 0x3e && (i + 2 == s.len() || !TOL_A85_DATA_AFTER_EOD_IS_ERROR()) {
        a85_body(s, 0, i)
    } else {
        None
    }
}

// =====================================================================================================
// env: iterator model. A `ByteIter` is any `Iterator<Item = u8>` built from a slice by the adaptors below; its
// behaviour is a protocol over a fixed ghost sequence `items()` with a cursor `pos()`: `next()` yields items()[pos()]
// and advances, or yields None for ever once pos() == items().len() (all iterators concerned are fused).
// Adaptors build a new ByteIter whose `items()` is the derived sequence of the not-yet-consumed items.
// =====================================================================================================
#[verifier::external_body]
pub struct ByteIter { it: Box<dyn Iterator<Item = u8>> }
// `f` computes the spec predicate `p`: whatever a call `f(&b)` returns is p(b). (Verus gives a closure's `ensures` in one
// direction only -- "if the call returns k then the clause holds for k" -- hence the formulation.)
pub open spec fn computes<F: Fn(&u8) -> bool>(f: F, p: spec_fn(u8) -> bool) -> bool {
    forall|b: u8, k: bool| f.requires((&b,)) && (#[trigger] f.ensures((&b,), k) ==> k == p(b))
}
// index of the first item at or after k that fails p (s.len() if there is none)
pub open spec fn first_not(s: Seq<u8>, p: spec_fn(u8) -> bool, k: int) -> int
    decreases s.len() - k
{
    if k >= s.len() { s.len() as int } else if !p(s[k]) { k } else { first_not(s, p, k + 1) }
}
// the longest prefix all of whose items satisfy p
pub open spec fn take_while_seq(s: Seq<u8>, p: spec_fn(u8) -> bool) -> Seq<u8> { s.subrange(0, first_not(s, p, 0)) }
impl ByteIter {
    pub uninterp spec fn items(&self) -> Seq<u8>;
    pub uninterp spec fn pos(&self) -> nat;
    // core::iter::Iterator::next
    #[verifier::external_body]
    pub fn next(&mut self) -> (r: Option<u8>)
        requires old(self).pos() <= old(self).items().len()
        ensures
            final(self).items() == old(self).items(), final(self).pos() <= final(self).items().len(),
            old(self).pos() < old(self).items().len() ==> r == Some(old(self).items()[old(self).pos() as int]) && final(self).pos() == old(self).pos() + 1,
            old(self).pos() >= old(self).items().len() ==> r is None && final(self).pos() == old(self).pos(),
    { unimplemented!() }
    // The adaptors are specified for an iterator that has not been advanced (pos() == 0: true at every use in enc.rs,
    // and checked there as a precondition); the new iterator's items() is the derived sequence.
    // core::iter::Iterator::filter: the items for which the predicate returns true, in order
    #[verifier::external_body]
    pub fn filter<F: Fn(&u8) -> bool>(self, f: F) -> (r: ByteIter)
        requires self.pos() == 0, forall|b: u8| f.requires((&b,))
        ensures r.pos() == 0,
            forall|p: spec_fn(u8) -> bool| computes(f, p) ==> r.items() == #[trigger] self.items().filter(p),
    { unimplemented!() }
    // core::iter::Iterator::take_while (by value): the longest prefix on which the predicate returns true
    #[verifier::external_body]
    pub fn take_while<F: Fn(&u8) -> bool>(self, f: F) -> (r: ByteIter)
        requires self.pos() == 0, forall|b: u8| f.requires((&b,))
        ensures r.pos() == 0,
            forall|p: spec_fn(u8) -> bool| computes(f, p) ==> r.items() == #[trigger] take_while_seq(self.items(), p),
    { unimplemented!() }
    // core::iter::Iterator::chain
    #[verifier::external_body]
    pub fn chain(self, other: ByteIter) -> (r: ByteIter)
        requires self.pos() == 0, other.pos() == 0
        ensures r.pos() == 0, r.items() == self.items() + other.items()
    { unimplemented!() }
    // itertools::Itertools::tuples::<(u8, u8)>: consecutive complete pairs; an incomplete last tuple is dropped
    #[verifier::external_body]
    pub fn tuples(self) -> (r: PairIter)
        requires self.pos() == 0
        ensures r.pairs().len() == self.items().len() / 2,
            forall|k: int| 0 <= k < r.pairs().len() ==> #[trigger] r.pairs()[k] == (self.items()[2 * k], self.items()[2 * k + 1]),
    { unimplemented!() }
}
#[verifier::external_body]
pub struct PairIter { it: Box<dyn Iterator<Item = (u8, u8)>> }
impl PairIter {
    pub uninterp spec fn pairs(&self) -> Seq<(u8, u8)>;
}
// R7 `data.iter().cloned()`: the bytes of the slice front to back
#[verifier::external_body]
fn hoist_iter_cloned(data: &[u8]) -> (r: ByteIter)
    ensures r.pos() == 0, r.items() == data@
{ unimplemented!() /* data.iter().cloned() */ }
// R7 `std::iter::once(b)`
#[verifier::external_body]
fn iter_once(b: u8) -> (r: ByteIter)
    ensures r.pos() == 0, r.items() == seq![b]
{ unimplemented!() /* std::iter::once(b) */ }
// R6 `for (i, x) in pairs.enumerate()`: (index, item) in order, collected
#[verifier::external_body]
fn hoist_enumerate_collect(pairs: PairIter) -> (r: Vec<(usize, (u8, u8))>)
    ensures r@.len() == pairs.pairs().len(),
        forall|k: int| 0 <= k < r@.len() ==> #[trigger] r@[k] == (k as usize, pairs.pairs()[k]),
{ unimplemented!() /* pairs.enumerate().collect() */ }

// R8 `stream.by_ref().take_while(f)`: core::iter::TakeWhile<&mut I, F>. The adaptor owns nothing but the predicate and
// its `flag`; every `next()` goes to the underlying iterator *through the mutable borrow*, which is passed explicitly
// here (`symbols.next()` is rewritten to `symbols.next(&mut stream)`). std's definition, which this contract transcribes:
//     if self.flag { None } else { let x = self.iter.next()?; if (self.predicate)(&x) { Some(x) } else { self.flag = true; None } }
// In particular the first item that fails the predicate IS consumed from the underlying iterator (and dropped).
pub struct TakeWhileRef<F> { pub f: F, pub done: bool }
impl<F: Fn(&u8) -> bool> TakeWhileRef<F> {
    #[verifier::external_body]
    pub fn next(&mut self, inner: &mut ByteIter) -> (r: Option<u8>)
        requires old(inner).pos() <= old(inner).items().len()
        ensures
            final(self).f == old(self).f, final(inner).items() == old(inner).items(), final(inner).pos() <= final(inner).items().len(),
            old(self).done ==> r is None && final(self).done && final(inner).pos() == old(inner).pos(),
            !old(self).done && old(inner).pos() >= old(inner).items().len() ==> r is None && !final(self).done && final(inner).pos() == old(inner).pos(),
            !old(self).done && old(inner).pos() < old(inner).items().len() ==> final(inner).pos() == old(inner).pos() + 1 && ({
                let x = old(inner).items()[old(inner).pos() as int];
                (r == Some(x) && !final(self).done && old(self).f.ensures((&x,), true))
                || (r is None && final(self).done && old(self).f.ensures((&x,), false)) }),
    { unimplemented!() }
}
fn by_ref_take_while<F: Fn(&u8) -> bool>(f: F) -> (r: TakeWhileRef<F>)
    requires forall|b: u8| f.requires((&b,))     // the adaptor calls the predicate on whatever the underlying iterator yields
    ensures r.f == f, !r.done
{ TakeWhileRef { f, done: false } }

// =====================================================================================================
// env: leaf decoders
// =====================================================================================================
// proved on the real function over all 2^40 inputs in units/enc_leaf: word_85/word_85_iso (Kani); same text as the
// stub of unit a85enc
#[verifier::external_body]
fn word_85(w: [u8; 5]) -> (r: Option<[u8; 4]>)
    ensures
        (a85_syms(w@) && a85_value(w@) <= 0xffff_ffff) ==> (r matches Some(b) && be32(b@) == a85_value(w@)),
        !(a85_syms(w@) && a85_value(w@) <= 0xffff_ffff) ==> r is None,
{ unimplemented!() }

// =====================================================================================================
// lemmas
// =====================================================================================================
pub proof fn lemma_first_from(s: Seq<u8>, c: u8, p: int)
    requires 0 <= p <= s.len()
    ensures p <= first_from(s, c, p) <= s.len(),
        forall|j: int| p <= j < first_from(s, c, p) ==> s[j] != c,
        first_from(s, c, p) < s.len() ==> s[first_from(s, c, p)] == c,
    decreases s.len() - p
{
    if p < s.len() && s[p] != c { lemma_first_from(s, c, p + 1); }
}
// any index with the two defining properties is the first occurrence
pub proof fn lemma_first_from_unique(s: Seq<u8>, c: u8, p: int, n: int)
    requires 0 <= p <= n <= s.len(), forall|j: int| p <= j < n ==> s[j] != c, n < s.len() ==> s[n] == c
    ensures first_from(s, c, p) == n
    decreases s.len() - p
{
    if p < n { lemma_first_from_unique(s, c, p + 1, n); }
}
// ---- Seq::filter (vstd: opaque, defined by recursion on drop_last)
pub proof fn lemma_filter_len(s: Seq<u8>, p: spec_fn(u8) -> bool)
    ensures s.filter(p).len() <= s.len()
    decreases s.len()
{
    reveal_with_fuel(Seq::filter, 2);
    if s.len() > 0 { lemma_filter_len(s.drop_last(), p); }
}
pub proof fn lemma_filter_all(s: Seq<u8>, p: spec_fn(u8) -> bool)
    ensures (forall|k: int| 0 <= k < s.len() ==> p(s[k])) ==> s.filter(p) == s
    decreases s.len()
{
    reveal_with_fuel(Seq::filter, 2);
    if s.len() > 0 {
        lemma_filter_all(s.drop_last(), p);
        if forall|k: int| 0 <= k < s.len() ==> p(s[k]) {
            assert(forall|k: int| 0 <= k < s.drop_last().len() ==> p(s.drop_last()[k]));
            assert(s.drop_last().push(s.last()) =~= s);
        }
    }
}
pub proof fn lemma_first_not(s: Seq<u8>, p: spec_fn(u8) -> bool, k: int)
    requires 0 <= k <= s.len()
    ensures k <= first_not(s, p, k) <= s.len()
    decreases s.len() - k
{
    if k < s.len() && p(s[k]) { lemma_first_not(s, p, k + 1); }
}
pub proof fn lemma_hex_digits_len(d: Seq<u8>)
    ensures hex_digits(d).len() <= d.len()
{
    lemma_first_not(d, not_eod_hex(), 0);
    lemma_filter_len(take_while_seq(d, not_eod_hex()), not_ws());
}
proof fn lemma_be32_digits(a: Seq<u8>)
    ensures a.len() == 4 ==> a =~= be4(be32(a)) && 0 <= be32(a) <= 0xffff_ffff
{
    if a.len() != 4 { return; }
    let n = be32(a);
    let (a0, a1, a2, a3) = (a[0] as int, a[1] as int, a[2] as int, a[3] as int);
    assert(n == ((a0 * 256 + a1) * 256 + a2) * 256 + a3) by (nonlinear_arith)
        requires n == a0 * 16777216 + a1 * 65536 + a2 * 256 + a3;
    vstd::arithmetic::div_mod::lemma_fundamental_div_mod_converse(n, 256, (a0 * 256 + a1) * 256 + a2, a3);
    vstd::arithmetic::div_mod::lemma_fundamental_div_mod_converse(n / 256, 256, a0 * 256 + a1, a2);
    vstd::arithmetic::div_mod::lemma_fundamental_div_mod_converse(n / 256 / 256, 256, a0, a1);
    vstd::arithmetic::div_mod::lemma_div_denominator(n, 256, 256);
    vstd::arithmetic::div_mod::lemma_div_denominator(n, 65536, 256);
}
// what word_85's contract means in terms of a85_word
proof fn lemma_word_85(w: Seq<u8>, r: Option<[u8; 4]>)
    ensures
        (((a85_syms(w) && a85_value(w) <= 0xffff_ffff) ==> (r matches Some(b) && be32(b@) == a85_value(w)))
          && (!(a85_syms(w) && a85_value(w) <= 0xffff_ffff) ==> r is None))
        ==> ((r is None <==> a85_word(w) is None) && (r matches Some(b) ==> a85_word(w) == Some(b@))),
{
    if let Some(b) = r { lemma_be32_digits(b@); }
}
// steps of the ASCII85 body (implication form: a violated hypothesis surfaces at the labelled invariant / postcondition,
// not at a proof step). `inv`: the bytes written so far followed by what 7.4.3 prescribes for the rest = the whole.
pub open spec fn a85_inv(s: Seq<u8>, p: int, end: int, o: Seq<u8>) -> bool { opt_cat(o, a85_body(s, p, end)) == a85_body(s, 0, end) }
proof fn lemma_a85_start(s: Seq<u8>, end: int, o: Seq<u8>)
    ensures o.len() == 0 ==> a85_inv(s, 0, end, o)
{
    if o.len() == 0 { if let Some(t) = a85_body(s, 0, end) { assert(o + t =~= t); } }
}
proof fn lemma_a85_step_z(s: Seq<u8>, p: int, end: int, o0: Seq<u8>, o1: Seq<u8>)
    ensures (0 <= p < end && s[p] == 0x7a && o1 =~= o0 + zeros(4) && a85_inv(s, p, end, o0)) ==> a85_inv(s, p + 1, end, o1)
{
    reveal_with_fuel(a85_body, 2);
    if 0 <= p < end && s[p] == 0x7a && o1 =~= o0 + zeros(4) {
        if let Some(t) = a85_body(s, p + 1, end) { assert((o0 + zeros(4)) + t =~= o0 + (zeros(4) + t)); }
    }
}
proof fn lemma_a85_step_group(s: Seq<u8>, p: int, end: int, o0: Seq<u8>, g: Seq<u8>, w: Seq<u8>, o1: Seq<u8>)
    ensures (0 <= p && p + 5 <= end && s[p] != 0x7a && g =~= a85_group_at(s, p, end) && a85_word(g) == Some(w) && o1 =~= o0 + w
             && a85_inv(s, p, end, o0)) ==> a85_inv(s, p + 5, end, o1)
{
    reveal_with_fuel(a85_body, 2);
    if 0 <= p && p + 5 <= end && s[p] != 0x7a && g =~= a85_group_at(s, p, end) && a85_word(g) == Some(w) && o1 =~= o0 + w {
        if let Some(t) = a85_body(s, p + 5, end) { assert((o0 + w) + t =~= o0 + (w + t)); }
    }
}
// a group (full or partial) that is not a valid word makes the whole data invalid
proof fn lemma_a85_group_err(s: Seq<u8>, p: int, end: int, o0: Seq<u8>, g: Seq<u8>)
    ensures (0 <= p < end && s[p] != 0x7a && g =~= a85_group_at(s, p, end) && a85_word(g) is None && a85_inv(s, p, end, o0))
        ==> a85_body(s, 0, end) is None
{
    reveal_with_fuel(a85_body, 2);
}
proof fn lemma_a85_tail(s: Seq<u8>, p: int, end: int, o0: Seq<u8>, g: Seq<u8>, w: Seq<u8>, o1: Seq<u8>)
    ensures (0 <= p && 1 <= end - p <= 4 && s[p] != 0x7a && g =~= a85_group_at(s, p, end) && a85_word(g) == Some(w)
             && o1 =~= o0 + w.subrange(0, end - p - 1) && a85_inv(s, p, end, o0))
        ==> a85_body(s, 0, end) == Some(o1)
{
    reveal_with_fuel(a85_body, 2);
    if end - p == 1 { assert(o0 + Seq::<u8>::empty() =~= o0); assert(w.subrange(0, 0) =~= Seq::<u8>::empty()); }
}
proof fn lemma_a85_done(s: Seq<u8>, p: int, end: int, o0: Seq<u8>)
    ensures (p == end && a85_inv(s, p, end, o0)) ==> a85_body(s, 0, end) == Some(o0)
{
    reveal_with_fuel(a85_body, 2);
    assert(o0 + Seq::<u8>::empty() =~= o0);
}

// =====================================================================================================
// extracted code
// =====================================================================================================
//@@ decode_nibble
//@@ decode_hex
//@@ decode_85

}
fn main(){}
