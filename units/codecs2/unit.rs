// Unit `codecs2` (C05, C16, C01): the string-level ASCII85 / ASCIIHex decoders of pdf/src/enc.rs against
// ISO 32000-1 7.4.2 / 7.4.3, their inversion of the ISO encoders (specs of unit `a85enc`), the pairing of
// flate_encode/flate_decode and lzw_encode/lzw_decode through typestate models of libflate / weezl, and
// the `encode` dispatch.
use vstd::prelude::*;
//@@ INCLUDE _common/error_macros.rs
verus! {
global size_of usize == 8;

//@@ PDFERROR

//@@ DEVIATIONS

// =====================================================================================================
// spec: ISO 32000-1 7.2.2 Table 1 white-space; 7.4.2 ASCIIHexDecode; 7.4.3 ASCII85Decode  (decoder side)
// =====================================================================================================
// Table 1: NUL, HT, LF, FF, CR, SP
pub open spec fn is_ws(b: u8) -> bool { b == 0 || b == 9 || b == 10 || b == 12 || b == 13 || b == 32 }
pub open spec fn not_ws() -> spec_fn(u8) -> bool { |b: u8| !is_ws(b) }
// 7.4.2 / 7.4.3: "All white-space characters shall be ignored."
pub open spec fn strip_ws(d: Seq<u8>) -> Seq<u8> { d.filter(not_ws()) }
// index of the first occurrence of c at or after p (s.len() if there is none)
pub open spec fn first_from(s: Seq<u8>, c: u8, p: int) -> int
    decreases s.len() - p
{
    if p >= s.len() { s.len() as int } else if s[p] == c { p } else { first_from(s, c, p + 1) }
}

// ---- 7.4.2: "The ASCIIHexDecode filter shall produce one byte of binary data for each pair of ASCII hexadecimal
// digits (0-9 and A-F or a-f). All white-space characters shall be ignored. A GREATER-THAN SIGN (3Eh) indicates EOD.
// Any other characters shall cause an error. If the filter encounters the EOD marker after reading an odd number of
// hexadecimal digits, it shall behave as if a 0 (zero) followed the last digit."
pub open spec fn is_hex(c: u8) -> bool { (0x30 <= c <= 0x39) || (0x41 <= c <= 0x46) || (0x61 <= c <= 0x66) }
pub open spec fn hexval(c: u8) -> int { if c <= 0x39 { c - 0x30 } else if c <= 0x46 { c - 0x41 + 10 } else { c - 0x61 + 10 } }
// the characters before EOD (the whole data if there is no `>`: lenient, not demanded by ISO), white-space removed
pub open spec fn not_eod_hex() -> spec_fn(u8) -> bool { |b: u8| b != 0x3eu8 }
pub open spec fn hex_digits(d: Seq<u8>) -> Seq<u8> { strip_ws(take_while_seq(d, not_eod_hex())) }
pub open spec fn all_hex(s: Seq<u8>) -> bool { forall|k: int| 0 <= k < s.len() ==> is_hex(#[trigger] s[k]) }
pub open spec fn hex_digit_at(s: Seq<u8>, k: int) -> u8 { if k < s.len() { s[k] } else { 0x30u8 } }
pub open spec fn hex_byte(s: Seq<u8>, k: int) -> u8 { (16 * hexval(s[2 * k]) + hexval(hex_digit_at(s, 2 * k + 1))) as u8 }
pub open spec fn hex_bytes(s: Seq<u8>) -> Seq<u8> { Seq::new(((s.len() + 1) / 2) as nat, |k: int| hex_byte(s, k)) }
pub open spec fn hex_decode_spec(d: Seq<u8>) -> Option<Seq<u8>> {
    if all_hex(hex_digits(d)) { Some(hex_bytes(hex_digits(d))) } else { None }
}
// the four letters after f / F that `decode_nibble` takes for digits 16 and 17 (tolerance, see unit.py)
pub open spec fn is_gh(c: u8) -> bool { c == 0x67 || c == 0x68 || c == 0x47 || c == 0x48 }
pub open spec fn has_gh(s: Seq<u8>) -> bool { exists|k: int| 0 <= k < s.len() && is_gh(#[trigger] s[k]) }

// ---- 7.4.3 (group relation and alphabet: same text as unit a85enc)
pub open spec fn be32(c: Seq<u8>) -> int {
    (c[0] as int) * 16777216 + (c[1] as int) * 65536 + (c[2] as int) * 256 + (c[3] as int)
}
pub open spec fn a85_value(e: Seq<u8>) -> int {
    (e[0] - 33) * 52200625 + (e[1] - 33) * 614125 + (e[2] - 33) * 7225 + (e[3] - 33) * 85 + (e[4] - 33)
}
pub open spec fn a85_sym(b: u8) -> bool { 0x21 <= b <= 0x75 }     // '!' ..= 'u'
pub open spec fn a85_syms(e: Seq<u8>) -> bool {
    a85_sym(e[0]) && a85_sym(e[1]) && a85_sym(e[2]) && a85_sym(e[3]) && a85_sym(e[4])
}
pub open spec fn zeros(n: int) -> Seq<u8> { Seq::new(n as nat, |i: int| 0u8) }
// the 4 bytes b1 b2 b3 b4 with b1*256^3 + b2*256^2 + b3*256 + b4 == n
pub open spec fn be4(n: int) -> Seq<u8> {
    seq![(n / 16777216) as u8, (n / 65536 % 256) as u8, (n / 256 % 256) as u8, (n % 256) as u8]
}
// one group of five: "The following conditions shall never occur in a correctly encoded byte sequence: the value
// represented by a group of 5 characters is greater than 2^32 - 1" (and characters outside ! .. u are not part of the alphabet)
pub open spec fn a85_word(w: Seq<u8>) -> Option<Seq<u8>> {
    if a85_syms(w) && a85_value(w) <= 0xffff_ffff { Some(be4(a85_value(w))) } else { None }
}
// k-th character of the group starting at p in s[..end]; a final partial group is completed with `u` (the largest
// digit, 84): the encoder wrote the first n+1 characters of a group whose remaining base-85 digits were discarded, and
// completing with the largest digit is the convention of the PostScript/PDF reference decoders under which the first n
// bytes come out unchanged (this is what lemma_a85_inverse proves against the ISO encoder).
pub open spec fn a85_at(s: Seq<u8>, p: int, end: int, k: int) -> u8 { if p + k < end { s[p + k] } else { 0x75u8 } }
pub open spec fn a85_group_at(s: Seq<u8>, p: int, end: int) -> Seq<u8> {
    seq![a85_at(s, p, end, 0), a85_at(s, p, end, 1), a85_at(s, p, end, 2), a85_at(s, p, end, 3), a85_at(s, p, end, 4)]
}
pub open spec fn opt_cat(a: Seq<u8>, b: Option<Seq<u8>>) -> Option<Seq<u8>> {
    match b { Some(t) => Some(a + t), None => None }
}
// the data characters s[p..end] (white-space already removed, EOD not included)
#[verifier::opaque]
pub open spec fn a85_body(s: Seq<u8>, p: int, end: int) -> Option<Seq<u8>>
    decreases end - p
{
    if p >= end {
        Some(Seq::<u8>::empty())
    } else if s[p] == 0x7a {
        // "if all five digits are 0, they shall be represented by the character with code 122 (z)"; a z in the middle
        // of a group "shall never occur": there it is not in the alphabet ! .. u and a85_word rejects the group
        opt_cat(zeros(4), a85_body(s, p + 1, end))
    } else if end - p == 1 {
        // "A final partial group contains only one character" shall never occur
        if TOL_A85_LONE_FINAL_CHAR() { if a85_word(a85_group_at(s, p, end)) is Some { Some(Seq::<u8>::empty()) } else { None } } else { None }
    } else {
        match a85_word(a85_group_at(s, p, end)) {
            None => None,
            Some(w) =>
                if p + 5 <= end { opt_cat(w, a85_body(s, p + 5, end)) }
                // n+1 characters (n = 1, 2, 3) stand for n bytes
                else { Some(w.subrange(0, end - p - 1)) },
        }
    }
}
pub open spec fn not_eod_a85() -> spec_fn(u8) -> bool { |b: u8| b != 0x7eu8 }
// "~> (EOD)"
pub open spec fn a85_decode_spec(d: Seq<u8>) -> Option<Seq<u8>> {
    let s = strip_ws(d);
    let i = first_from(s, 0x7e, 0);
    if i + 1 < s.len() && s[i + 1] == 0x3e && (i + 2 == s.len() || !TOL_A85_DATA_AFTER_EOD_IS_ERROR()) {
        a85_body(s, 0, i)
    } else {
        None
    }
}

// =====================================================================================================
// env: iterator model. A `ByteIter` is any `Iterator<Item = u8>` built from a slice by the adaptors below; its
// behaviour is a protocol over a fixed ghost sequence `items()` with a cursor `pos()`: `next()` yields items()[pos()]
// and advances, or yields None for ever once pos() == items().len() (all iterators concerned are fused).
// Adaptors build a new ByteIter whose `items()` is the derived sequence of the not-yet-consumed items.
// =====================================================================================================
#[verifier::external_body]
pub struct ByteIter { it: Box<dyn Iterator<Item = u8>> }
// `f` computes the spec predicate `p`: whatever a call `f(&b)` returns is p(b). (Verus gives a closure's `ensures` in one
// direction only -- "if the call returns k then the clause holds for k" -- hence the formulation.)
pub open spec fn computes<F: Fn(&u8) -> bool>(f: F, p: spec_fn(u8) -> bool) -> bool {
    forall|b: u8, k: bool| f.requires((&b,)) && (#[trigger] f.ensures((&b,), k) ==> k == p(b))
}
// index of the first item at or after k that fails p (s.len() if there is none)
pub open spec fn first_not(s: Seq<u8>, p: spec_fn(u8) -> bool, k: int) -> int
    decreases s.len() - k
{
    if k >= s.len() { s.len() as int } else if !p(s[k]) { k } else { first_not(s, p, k + 1) }
}
// the longest prefix all of whose items satisfy p
pub open spec fn take_while_seq(s: Seq<u8>, p: spec_fn(u8) -> bool) -> Seq<u8> { s.subrange(0, first_not(s, p, 0)) }
impl ByteIter {
    pub uninterp spec fn items(&self) -> Seq<u8>;
    pub uninterp spec fn pos(&self) -> nat;
    // core::iter::Iterator::next
    #[verifier::external_body]
    pub fn next(&mut self) -> (r: Option<u8>)
        requires old(self).pos() <= old(self).items().len()
        ensures
            final(self).items() == old(self).items(), final(self).pos() <= final(self).items().len(),
            old(self).pos() < old(self).items().len() ==> r == Some(old(self).items()[old(self).pos() as int]) && final(self).pos() == old(self).pos() + 1,
            old(self).pos() >= old(self).items().len() ==> r is None && final(self).pos() == old(self).pos(),
    { unimplemented!() }
    // The adaptors are specified for an iterator that has not been advanced (pos() == 0: true at every use in enc.rs,
    // and checked there as a precondition); the new iterator's items() is the derived sequence.
    // core::iter::Iterator::filter: the items for which the predicate returns true, in order
    #[verifier::external_body]
    pub fn filter<F: Fn(&u8) -> bool>(self, f: F) -> (r: ByteIter)
        requires self.pos() == 0, forall|b: u8| f.requires((&b,))
        ensures r.pos() == 0,
            forall|p: spec_fn(u8) -> bool| computes(f, p) ==> r.items() == #[trigger] self.items().filter(p),
    { unimplemented!() }
    // core::iter::Iterator::take_while (by value): the longest prefix on which the predicate returns true
    #[verifier::external_body]
    pub fn take_while<F: Fn(&u8) -> bool>(self, f: F) -> (r: ByteIter)
        requires self.pos() == 0, forall|b: u8| f.requires((&b,))
        ensures r.pos() == 0,
            forall|p: spec_fn(u8) -> bool| computes(f, p) ==> r.items() == #[trigger] take_while_seq(self.items(), p),
    { unimplemented!() }
    // core::iter::Iterator::chain
    #[verifier::external_body]
    pub fn chain(self, other: ByteIter) -> (r: ByteIter)
        requires self.pos() == 0, other.pos() == 0
        ensures r.pos() == 0, r.items() == self.items() + other.items()
    { unimplemented!() }
    // itertools::Itertools::tuples::<(u8, u8)>: consecutive complete pairs; an incomplete last tuple is dropped
    #[verifier::external_body]
    pub fn tuples(self) -> (r: PairIter)
        requires self.pos() == 0
        ensures r.pairs().len() == self.items().len() / 2,
            forall|k: int| 0 <= k < r.pairs().len() ==> #[trigger] r.pairs()[k] == (self.items()[2 * k], self.items()[2 * k + 1]),
    { unimplemented!() }
}
#[verifier::external_body]
pub struct PairIter { it: Box<dyn Iterator<Item = (u8, u8)>> }
impl PairIter {
    pub uninterp spec fn pairs(&self) -> Seq<(u8, u8)>;
}
// R7 `data.iter().cloned()`: the bytes of the slice front to back
#[verifier::external_body]
fn hoist_iter_cloned(data: &[u8]) -> (r: ByteIter)
    ensures r.pos() == 0, r.items() == data@
{ unimplemented!() /* data.iter().cloned() */ }
// R7 `std::iter::once(b)`
#[verifier::external_body]
fn iter_once(b: u8) -> (r: ByteIter)
    ensures r.pos() == 0, r.items() == seq![b]
{ unimplemented!() /* std::iter::once(b) */ }
// R6 `for (i, x) in pairs.enumerate()`: (index, item) in order, collected
#[verifier::external_body]
fn hoist_enumerate_collect(pairs: PairIter) -> (r: Vec<(usize, (u8, u8))>)
    ensures r@.len() == pairs.pairs().len(),
        forall|k: int| 0 <= k < r@.len() ==> #[trigger] r@[k] == (k as usize, pairs.pairs()[k]),
{ unimplemented!() /* pairs.enumerate().collect() */ }

// R8 `stream.by_ref().take_while(f)`: core::iter::TakeWhile<&mut I, F>. The adaptor owns nothing but the predicate and
// its `flag`; every `next()` goes to the underlying iterator *through the mutable borrow*, which is passed explicitly
// here (`symbols.next()` is rewritten to `symbols.next(&mut stream)`). std's definition, which this contract transcribes:
//     if self.flag { None } else { let x = self.iter.next()?; if (self.predicate)(&x) { Some(x) } else { self.flag = true; None } }
// In particular the first item that fails the predicate IS consumed from the underlying iterator (and dropped).
pub struct TakeWhileRef<F> { pub f: F, pub done: bool, pub pred: Ghost<spec_fn(u8) -> bool> }
impl<F: Fn(&u8) -> bool> TakeWhileRef<F> {
    // `pred` is the spec predicate the closure computes (fixed at construction); stating the contract through it keeps
    // the closure's quantified specification out of the callers' loop
    #[verifier::external_body]
    pub fn next(&mut self, inner: &mut ByteIter) -> (r: Option<u8>)
        requires old(inner).pos() <= old(inner).items().len(), computes(old(self).f, old(self).pred@)
        ensures
            final(self).f == old(self).f, final(self).pred == old(self).pred,
            final(inner).items() == old(inner).items(), final(inner).pos() <= final(inner).items().len(),
            old(self).done ==> r is None && final(self).done && final(inner).pos() == old(inner).pos(),
            !old(self).done && old(inner).pos() >= old(inner).items().len() ==> r is None && !final(self).done && final(inner).pos() == old(inner).pos(),
            !old(self).done && old(inner).pos() < old(inner).items().len() ==> final(inner).pos() == old(inner).pos() + 1 && ({
                let x = old(inner).items()[old(inner).pos() as int];
                (r == Some(x) && !final(self).done && (old(self).pred@)(x))
                || (r is None && final(self).done && !(old(self).pred@)(x)) }),
    { unimplemented!() }
}
#[verifier::external_body]
fn by_ref_take_while<F: Fn(&u8) -> bool>(f: F) -> (r: TakeWhileRef<F>)
    requires forall|b: u8| f.requires((&b,))     // the adaptor calls the predicate on whatever the underlying iterator yields
    ensures r.f == f, !r.done, forall|p: spec_fn(u8) -> bool| #[trigger] computes(f, p) ==> r.pred@ == p
{ unimplemented!() }

// =====================================================================================================
// env: leaf decoders
// =====================================================================================================
// proved on the real function over all 2^40 inputs in units/enc_leaf: word_85/word_85_iso (Kani); same text as the
// stub of unit a85enc
#[verifier::external_body]
fn word_85(w: [u8; 5]) -> (r: Option<[u8; 4]>)
    ensures
        (a85_syms(w@) && a85_value(w@) <= 0xffff_ffff) ==> (r matches Some(b) && be32(b@) == a85_value(w@)),
        !(a85_syms(w@) && a85_value(w@) <= 0xffff_ffff) ==> r is None,
{ unimplemented!() }

// =====================================================================================================
// lemmas
// =====================================================================================================
pub proof fn lemma_first_from(s: Seq<u8>, c: u8, p: int)
    requires 0 <= p <= s.len()
    ensures p <= first_from(s, c, p) <= s.len(),
        forall|j: int| p <= j < first_from(s, c, p) ==> s[j] != c,
        first_from(s, c, p) < s.len() ==> s[first_from(s, c, p)] == c,
    decreases s.len() - p
{
    if p < s.len() && s[p] != c { lemma_first_from(s, c, p + 1); }
}
// any index with the two defining properties is the first occurrence
pub proof fn lemma_first_from_unique(s: Seq<u8>, c: u8, p: int, n: int)
    requires 0 <= p <= n <= s.len(), forall|j: int| p <= j < n ==> s[j] != c, n < s.len() ==> s[n] == c
    ensures first_from(s, c, p) == n
    decreases s.len() - p
{
    if p < n { lemma_first_from_unique(s, c, p + 1, n); }
}
// ---- Seq::filter (vstd: opaque, defined by recursion on drop_last)
pub proof fn lemma_filter_len(s: Seq<u8>, p: spec_fn(u8) -> bool)
    ensures s.filter(p).len() <= s.len()
    decreases s.len()
{
    reveal_with_fuel(Seq::filter, 2);
    if s.len() > 0 { lemma_filter_len(s.drop_last(), p); }
}
pub proof fn lemma_filter_all(s: Seq<u8>, p: spec_fn(u8) -> bool)
    ensures (forall|k: int| 0 <= k < s.len() ==> p(s[k])) ==> s.filter(p) == s
    decreases s.len()
{
    reveal_with_fuel(Seq::filter, 2);
    if s.len() > 0 {
        lemma_filter_all(s.drop_last(), p);
        if forall|k: int| 0 <= k < s.len() ==> p(s[k]) {
            assert(forall|k: int| 0 <= k < s.drop_last().len() ==> p(s.drop_last()[k]));
            assert(s.drop_last().push(s.last()) =~= s);
        }
    }
}
pub proof fn lemma_first_not(s: Seq<u8>, p: spec_fn(u8) -> bool, k: int)
    requires 0 <= k <= s.len()
    ensures k <= first_not(s, p, k) <= s.len()
    decreases s.len() - k
{
    if k < s.len() && p(s[k]) { lemma_first_not(s, p, k + 1); }
}
pub proof fn lemma_hex_digits_len(d: Seq<u8>)
    ensures hex_digits(d).len() <= d.len()
{
    lemma_first_not(d, not_eod_hex(), 0);
    lemma_filter_len(take_while_seq(d, not_eod_hex()), not_ws());
}
proof fn lemma_be32_digits(a: Seq<u8>)
    ensures a.len() == 4 ==> a =~= be4(be32(a)) && 0 <= be32(a) <= 0xffff_ffff
{
    if a.len() != 4 { return; }
    let n = be32(a);
    let (a0, a1, a2, a3) = (a[0] as int, a[1] as int, a[2] as int, a[3] as int);
    assert(n == ((a0 * 256 + a1) * 256 + a2) * 256 + a3) by (nonlinear_arith)
        requires n == a0 * 16777216 + a1 * 65536 + a2 * 256 + a3;
    vstd::arithmetic::div_mod::lemma_fundamental_div_mod_converse(n, 256, (a0 * 256 + a1) * 256 + a2, a3);
    vstd::arithmetic::div_mod::lemma_fundamental_div_mod_converse(n / 256, 256, a0 * 256 + a1, a2);
    vstd::arithmetic::div_mod::lemma_fundamental_div_mod_converse(n / 256 / 256, 256, a0, a1);
    vstd::arithmetic::div_mod::lemma_div_denominator(n, 256, 256);
    vstd::arithmetic::div_mod::lemma_div_denominator(n, 65536, 256);
}
// what word_85's contract means in terms of a85_word
proof fn lemma_word_85(w: Seq<u8>, r: Option<[u8; 4]>)
    ensures
        (((a85_syms(w) && a85_value(w) <= 0xffff_ffff) ==> (r matches Some(b) && be32(b@) == a85_value(w)))
          && (!(a85_syms(w) && a85_value(w) <= 0xffff_ffff) ==> r is None))
        ==> ((r is None <==> a85_word(w) is None) && (r matches Some(b) ==> a85_word(w) == Some(b@))),
{
    if let Some(b) = r { lemma_be32_digits(b@); }
}
// steps of the ASCII85 body (implication form: a violated hypothesis surfaces at the labelled invariant / postcondition,
// not at a proof step). `inv`: the bytes written so far followed by what 7.4.3 prescribes for the rest = the whole.
pub open spec fn a85_inv(s: Seq<u8>, p: int, end: int, o: Seq<u8>) -> bool { opt_cat(o, a85_body(s, p, end)) == a85_body(s, 0, end) }
proof fn lemma_a85_start(s: Seq<u8>, end: int, o: Seq<u8>)
    ensures o.len() == 0 ==> a85_inv(s, 0, end, o)
{
    if o.len() == 0 { if let Some(t) = a85_body(s, 0, end) { assert(o + t =~= t); } }
}
proof fn lemma_a85_step_z(s: Seq<u8>, p: int, end: int, o0: Seq<u8>, o1: Seq<u8>)
    ensures (0 <= p < end && s[p] == 0x7a && o1 =~= o0 + zeros(4) && a85_inv(s, p, end, o0)) ==> a85_inv(s, p + 1, end, o1)
{
    reveal_with_fuel(a85_body, 2);
    if 0 <= p < end && s[p] == 0x7a && o1 =~= o0 + zeros(4) {
        if let Some(t) = a85_body(s, p + 1, end) { assert((o0 + zeros(4)) + t =~= o0 + (zeros(4) + t)); }
    }
}
proof fn lemma_a85_step_group(s: Seq<u8>, p: int, end: int, o0: Seq<u8>, g: Seq<u8>, w: Seq<u8>, o1: Seq<u8>)
    ensures (0 <= p && p + 5 <= end && s[p] != 0x7a && g =~= a85_group_at(s, p, end) && a85_word(g) == Some(w) && o1 =~= o0 + w
             && a85_inv(s, p, end, o0)) ==> a85_inv(s, p + 5, end, o1)
{
    reveal_with_fuel(a85_body, 2);
    if 0 <= p && p + 5 <= end && s[p] != 0x7a && g =~= a85_group_at(s, p, end) && a85_word(g) == Some(w) && o1 =~= o0 + w {
        if let Some(t) = a85_body(s, p + 5, end) { assert((o0 + w) + t =~= o0 + (w + t)); }
    }
}
// a group (full or partial) that is not a valid word makes the whole data invalid
proof fn lemma_a85_group_err(s: Seq<u8>, p: int, end: int, o0: Seq<u8>, g: Seq<u8>)
    ensures (0 <= p < end && s[p] != 0x7a && g =~= a85_group_at(s, p, end) && a85_word(g) is None && a85_inv(s, p, end, o0))
        ==> a85_body(s, 0, end) is None
{
    reveal_with_fuel(a85_body, 2);
}
proof fn lemma_a85_tail(s: Seq<u8>, p: int, end: int, o0: Seq<u8>, g: Seq<u8>, w: Seq<u8>, o1: Seq<u8>)
    ensures (0 <= p && 1 <= end - p <= 4 && s[p] != 0x7a && g =~= a85_group_at(s, p, end) && a85_word(g) == Some(w)
             && o1 =~= o0 + w.subrange(0, end - p - 1) && a85_inv(s, p, end, o0))
        ==> a85_body(s, 0, end) == Some(o1)
{
    reveal_with_fuel(a85_body, 2);
    if end - p == 1 { assert(o0 + Seq::<u8>::empty() =~= o0); assert(w.subrange(0, 0) =~= Seq::<u8>::empty()); }
}
proof fn lemma_a85_done(s: Seq<u8>, p: int, end: int, o0: Seq<u8>)
    ensures (p == end && a85_inv(s, p, end, o0)) ==> a85_body(s, 0, end) == Some(o0)
{
    reveal_with_fuel(a85_body, 2);
    assert(o0 + Seq::<u8>::empty() =~= o0);
}

// =====================================================================================================
// spec: the ISO encoders (same text as unit a85enc, where encode_85 / encode_hex are proved to compute them)
// =====================================================================================================
pub open spec fn a85_group_rel(c: Seq<u8>, e: Seq<u8>) -> bool {
    c.len() == 4 && e.len() == 5 && a85_syms(e) && a85_value(e) == be32(c)
}
#[verifier::opaque]
pub open spec fn a85_group(c: Seq<u8>) -> Seq<u8> {
    let n = be32(c);
    seq![((n / 52200625) % 85 + 33) as u8, ((n / 614125) % 85 + 33) as u8, ((n / 7225) % 85 + 33) as u8,
         ((n / 85) % 85 + 33) as u8, (n % 85 + 33) as u8]
}
pub open spec fn zero_group(c: Seq<u8>) -> bool { c[0] == 0 && c[1] == 0 && c[2] == 0 && c[3] == 0 }
pub open spec fn a85_eod() -> Seq<u8> { seq![0x7eu8, 0x3eu8] }      // "~>"
pub open spec fn enc85_spec(d: Seq<u8>) -> Seq<u8>
    decreases d.len()
{
    if d.len() >= 4 {
        let g = d.subrange(0, 4);
        (if zero_group(g) { seq![0x7au8] } else { a85_group(g) }) + enc85_spec(d.subrange(4, d.len() as int))
    } else if d.len() == 0 {
        a85_eod()
    } else {
        a85_group(d + zeros(4 - d.len())).subrange(0, d.len() as int + 1) + a85_eod()
    }
}
pub open spec fn hexdigit(n: int) -> u8 { if n < 10 { (0x30 + n) as u8 } else { (0x61 + n - 10) as u8 } }
pub open spec fn enchex_spec(d: Seq<u8>) -> Seq<u8> {
    Seq::new(2 * d.len(), |k: int| if k % 2 == 0 { hexdigit(d[k / 2] as int / 16) } else { hexdigit(d[k / 2] as int % 16) })
}

// =====================================================================================================
// C16: the decoders' specifications invert the encoders' specifications (pure spec-level lemmas)
// =====================================================================================================
pub proof fn lemma_first_not_all(s: Seq<u8>, p: spec_fn(u8) -> bool, k: int)
    requires 0 <= k <= s.len(), forall|j: int| k <= j < s.len() ==> p(s[j])
    ensures first_not(s, p, k) == s.len()
    decreases s.len() - k
{
    if k < s.len() { lemma_first_not_all(s, p, k + 1); }
}
pub proof fn lemma_hex_inverse(x: Seq<u8>)
    ensures hex_decode_spec(enchex_spec(x)) == Some(x)
{
    let e = enchex_spec(x);
    assert forall|k: int| 0 <= k < e.len() implies is_hex(#[trigger] e[k]) && !is_ws(e[k]) && e[k] != 0x3e
        && hexval(e[k]) == (if k % 2 == 0 { x[k / 2] as int / 16 } else { x[k / 2] as int % 16 }) by {
        let b = x[k / 2] as int;
        assert(0 <= b / 16 < 16 && 0 <= b % 16 < 16);
    }
    assert forall|j: int| 0 <= j < e.len() implies not_eod_hex()(e[j]) by {}
    lemma_first_not_all(e, not_eod_hex(), 0);
    assert(take_while_seq(e, not_eod_hex()) =~= e);
    assert forall|j: int| 0 <= j < e.len() implies not_ws()(e[j]) by {}
    lemma_filter_all(e, not_ws());
    assert(hex_digits(e) == e);
    assert(all_hex(e));
    assert forall|k: int| 0 <= k < x.len() implies hex_bytes(e)[k] == x[k] by {
        let b = x[k] as int;
        assert((2 * k) / 2 == k && (2 * k) % 2 == 0 && (2 * k + 1) / 2 == k && (2 * k + 1) % 2 == 1);
        assert(16 * (b / 16) + b % 16 == b);
    }
    assert(hex_bytes(e) =~= x);
}

// the positional base-85 digits solve the ISO group relation (existence; uniqueness is lemma_a85_group_unique of a85enc)
pub proof fn lemma_a85_group_rel(c: Seq<u8>)
    requires c.len() == 4
    ensures a85_group_rel(c, a85_group(c))
{
    reveal(a85_group);
    let n = be32(c);
    assert(0 <= n <= 0xffff_ffff);
    vstd::arithmetic::div_mod::lemma_div_denominator(n, 85, 85);
    vstd::arithmetic::div_mod::lemma_div_denominator(n, 7225, 85);
    vstd::arithmetic::div_mod::lemma_div_denominator(n, 614125, 85);
    let q1 = n / 85; let q2 = n / 7225; let q3 = n / 614125; let q4 = n / 52200625;
    assert(q2 == q1 / 85 && q3 == q2 / 85 && q4 == q3 / 85);
    vstd::arithmetic::div_mod::lemma_fundamental_div_mod(n, 85);
    vstd::arithmetic::div_mod::lemma_fundamental_div_mod(q1, 85);
    vstd::arithmetic::div_mod::lemma_fundamental_div_mod(q2, 85);
    vstd::arithmetic::div_mod::lemma_fundamental_div_mod(q3, 85);
    assert(0 <= q4 < 85);
    assert(q4 % 85 == q4);
    let e = a85_group(c);
    assert(e[0] - 33 == q4 && e[1] - 33 == q3 % 85 && e[2] - 33 == q2 % 85 && e[3] - 33 == q1 % 85 && e[4] - 33 == n % 85);
}
pub open spec fn off(s: Seq<u8>, p: int, k: int) -> u8 { s[p + k] }
// a85_body looks at s[p..end) only
pub proof fn lemma_a85_body_shift(s1: Seq<u8>, p1: int, s2: Seq<u8>, p2: int, n: int)
    requires 0 <= p1, 0 <= p2, 0 <= n, p1 + n <= s1.len(), p2 + n <= s2.len(),
        forall|k: int| 0 <= k < n ==> #[trigger] off(s1, p1, k) == off(s2, p2, k)
    ensures a85_body(s1, p1, p1 + n) == a85_body(s2, p2, p2 + n)
    decreases n
{
    reveal_with_fuel(a85_body, 2);
    if n > 0 {
        assert(off(s1, p1, 0) == off(s2, p2, 0));
        if s1[p1] == 0x7a {
            assert forall|k: int| 0 <= k < n - 1 implies #[trigger] off(s1, p1 + 1, k) == off(s2, p2 + 1, k) by { assert(off(s1, p1, k + 1) == off(s2, p2, k + 1)); }
            lemma_a85_body_shift(s1, p1 + 1, s2, p2 + 1, n - 1);
        } else {
            assert(a85_group_at(s1, p1, p1 + n) =~= a85_group_at(s2, p2, p2 + n)) by {
                assert(n > 1 ==> off(s1, p1, 1) == off(s2, p2, 1)); assert(n > 2 ==> off(s1, p1, 2) == off(s2, p2, 2));
                assert(n > 3 ==> off(s1, p1, 3) == off(s2, p2, 3)); assert(n > 4 ==> off(s1, p1, 4) == off(s2, p2, 4));
            }
            if n >= 5 {
                assert forall|k: int| 0 <= k < n - 5 implies #[trigger] off(s1, p1 + 5, k) == off(s2, p2 + 5, k) by { assert(off(s1, p1, k + 5) == off(s2, p2, k + 5)); }
                lemma_a85_body_shift(s1, p1 + 5, s2, p2 + 5, n - 5);
            }
        }
    }
}
// a final partial group: the first n+1 digits of the zero-padded group, completed with the largest digit, denote a value
// whose first n bytes are the n data bytes (pure integer statement first)
pub proof fn lemma_partial_arith(n: int, x0: int, x1: int, x2: int, d0: int, d1: int, d2: int, d3: int, d4: int, v1: int)
    requires 1 <= n <= 3, 0 <= x0 < 256, 0 <= x1 < 256, 0 <= x2 < 256, n < 2 ==> x1 == 0, n < 3 ==> x2 == 0,
        0 <= d0 < 85, 0 <= d1 < 85, 0 <= d2 < 85, 0 <= d3 < 85, 0 <= d4 < 85,
        x0 * 16777216 + x1 * 65536 + x2 * 256 == d0 * 52200625 + d1 * 614125 + d2 * 7225 + d3 * 85 + d4,
        v1 == d0 * 52200625 + d1 * 614125 + (if n >= 2 { d2 } else { 84 }) * 7225 + (if n >= 3 { d3 } else { 84 }) * 85 + 84,
    ensures 0 <= v1 <= 0xffff_ffff, v1 / 16777216 == x0, n >= 2 ==> v1 / 65536 % 256 == x1, n >= 3 ==> v1 / 256 % 256 == x2
{
    let v0 = x0 * 16777216 + x1 * 65536 + x2 * 256;
    let dl = v1 - v0;
    if n == 1 {
        assert(0 <= dl < 614125);
        vstd::arithmetic::div_mod::lemma_fundamental_div_mod_converse(v1, 16777216, x0, dl);
    } else if n == 2 {
        assert(0 <= dl < 7225);
        vstd::arithmetic::div_mod::lemma_fundamental_div_mod_converse(v1, 16777216, x0, x1 * 65536 + dl);
        vstd::arithmetic::div_mod::lemma_fundamental_div_mod_converse(v1, 65536, x0 * 256 + x1, dl);
        vstd::arithmetic::div_mod::lemma_fundamental_div_mod_converse(x0 * 256 + x1, 256, x0, x1);
    } else {
        assert(0 <= dl < 85);
        vstd::arithmetic::div_mod::lemma_fundamental_div_mod_converse(v1, 16777216, x0, x1 * 65536 + x2 * 256 + dl);
        vstd::arithmetic::div_mod::lemma_fundamental_div_mod_converse(v1, 65536, x0 * 256 + x1, x2 * 256 + dl);
        vstd::arithmetic::div_mod::lemma_fundamental_div_mod_converse(x0 * 256 + x1, 256, x0, x1);
        vstd::arithmetic::div_mod::lemma_fundamental_div_mod_converse(v1, 256, x0 * 65536 + x1 * 256 + x2, dl);
        vstd::arithmetic::div_mod::lemma_fundamental_div_mod_converse(x0 * 65536 + x1 * 256 + x2, 256, x0 * 256 + x1, x2);
    }
}
pub proof fn lemma_a85_partial(x: Seq<u8>, gu: Seq<u8>)
    requires 1 <= x.len() <= 3, gu.len() == 5,
        forall|k: int| 0 <= k <= x.len() ==> gu[k] == a85_group(x + zeros(4 - x.len()))[k],
        forall|k: int| x.len() < k < 5 ==> gu[k] == 0x75u8,
    ensures a85_word(gu) matches Some(w) && w.subrange(0, x.len() as int) == x
{
    let c = x + zeros(4 - x.len());
    let g = a85_group(c);
    lemma_a85_group_rel(c);
    let n = x.len() as int;
    let x0 = c[0] as int; let x1 = c[1] as int; let x2 = c[2] as int;
    assert(c[3] == 0u8 && (n < 3 ==> c[2] == 0u8) && (n < 2 ==> c[1] == 0u8));
    assert(x0 == x[0] as int && (n >= 2 ==> x1 == x[1] as int) && (n >= 3 ==> x2 == x[2] as int));
    let d0 = g[0] - 33; let d1 = g[1] - 33; let d2 = g[2] - 33; let d3 = g[3] - 33; let d4 = g[4] - 33;
    assert(gu[0] == g[0] && gu[1] == g[1] && (n >= 2 ==> gu[2] == g[2]) && (n >= 3 ==> gu[3] == g[3]));
    assert((n < 2 ==> gu[2] == 0x75u8) && (n < 3 ==> gu[3] == 0x75u8) && gu[4] == 0x75u8);
    let v1 = a85_value(gu);
    lemma_partial_arith(n, x0, x1, x2, d0, d1, d2, d3, d4, v1);
    assert(a85_syms(gu));
    assert(be4(v1).subrange(0, n) =~= x);
}
pub open spec fn a85_data_char(b: u8) -> bool { a85_sym(b) || b == 0x7au8 }
// one unfolding of a85_body per kind of group
pub proof fn lemma_body_unfold(s: Seq<u8>, p: int, end: int)
    ensures
        p >= end ==> a85_body(s, p, end) == Some(Seq::<u8>::empty()),
        p < end && s[p] == 0x7au8 ==> a85_body(s, p, end) == opt_cat(zeros(4), a85_body(s, p + 1, end)),
        p + 5 <= end && s[p] != 0x7au8 ==> a85_body(s, p, end) == (match a85_word(a85_group_at(s, p, end)) {
            None => None, Some(w) => opt_cat(w, a85_body(s, p + 5, end)) }),
        2 <= end - p <= 4 && s[p] != 0x7au8 ==> a85_body(s, p, end) == (match a85_word(a85_group_at(s, p, end)) {
            None => None, Some(w) => Some(w.subrange(0, end - p - 1)) }),
{
    reveal_with_fuel(a85_body, 2);
}
// the shape of the ISO encoder's output and what the ISO decoder makes of its data part
pub open spec fn enc85_shape(x: Seq<u8>, e: Seq<u8>) -> bool {
    let n = e.len() as int;
    n >= 2 && e[n - 2] == 0x7eu8 && e[n - 1] == 0x3eu8
    && (forall|k: int| 0 <= k < n - 2 ==> a85_data_char(#[trigger] e[k]))
    && a85_body(e, 0, n - 2) == Some(x)
}
proof fn lemma_shape_full(x: Seq<u8>, er: Seq<u8>)
    requires x.len() >= 4, enc85_shape(x.subrange(4, x.len() as int), er)
    ensures enc85_shape(x, (if zero_group(x.subrange(0, 4)) { seq![0x7au8] } else { a85_group(x.subrange(0, 4)) }) + er)
{
    let g = x.subrange(0, 4);
    let rest = x.subrange(4, x.len() as int);
    lemma_a85_group_rel(g);
    let h = if zero_group(g) { seq![0x7au8] } else { a85_group(g) };
    let e = h + er;
    let hl = h.len() as int;
    let m = er.len() as int - 2;
    assert forall|k: int| 0 <= k < m implies #[trigger] off(e, hl, k) == off(er, 0, k) by {}
    lemma_a85_body_shift(e, hl, er, 0, m);
    assert(a85_body(e, hl, hl + m) == Some(rest));
    assert(e.len() - 2 == hl + m);
    lemma_body_unfold(e, 0, hl + m);
    assert forall|k: int| 0 <= k < hl + m implies a85_data_char(#[trigger] e[k]) by {
        if k < hl { assert(e[k] == h[k]); } else { assert(e[k] == er[k - hl]); }
    }
    if zero_group(g) {
        assert(e[0] == 0x7au8);
        assert(zeros(4) + rest =~= x);
    } else {
        assert(e[0] == h[0] && a85_sym(h[0]));
        assert(a85_group_at(e, 0, hl + m) =~= h);
        lemma_be32_digits(g);
        assert(a85_word(h) == Some(g));
        assert(g + rest =~= x);
    }
}
proof fn lemma_shape_partial(x: Seq<u8>)
    requires 1 <= x.len() <= 3
    ensures enc85_shape(x, a85_group(x + zeros(4 - x.len())).subrange(0, x.len() as int + 1) + a85_eod())
{
    let n = x.len() as int;
    let c = x + zeros(4 - x.len());
    lemma_a85_group_rel(c);
    let h = a85_group(c).subrange(0, n + 1);
    let e = h + a85_eod();
    let gu = a85_group_at(e, 0, n + 1);
    assert forall|k: int| 0 <= k <= n implies gu[k] == a85_group(c)[k] by { assert(e[k] == h[k]); }
    lemma_a85_partial(x, gu);
    assert(e[0] == a85_group(c)[0] && a85_sym(e[0]));
    assert forall|k: int| 0 <= k < n + 1 implies a85_data_char(#[trigger] e[k]) by { assert(e[k] == a85_group(c)[k]); }
    lemma_body_unfold(e, 0, n + 1);
}
pub proof fn lemma_enc85_shape(x: Seq<u8>)
    ensures enc85_shape(x, enc85_spec(x))
    decreases x.len()
{
    if x.len() >= 4 {
        lemma_enc85_shape(x.subrange(4, x.len() as int));
        lemma_shape_full(x, enc85_spec(x.subrange(4, x.len() as int)));
    } else if x.len() == 0 {
        lemma_body_unfold(a85_eod(), 0, 0);
        assert(x =~= Seq::<u8>::empty());
    } else {
        lemma_shape_partial(x);
    }
}
pub proof fn lemma_a85_inverse(x: Seq<u8>)
    ensures a85_decode_spec(enc85_spec(x)) == Some(x)
{
    let e = enc85_spec(x);
    let n = e.len() as int;
    lemma_enc85_shape(x);
    assert forall|k: int| 0 <= k < n implies not_ws()(e[k]) by { if k < n - 2 { assert(a85_data_char(e[k])); } }
    lemma_filter_all(e, not_ws());
    assert(strip_ws(e) == e);
    assert forall|j: int| 0 <= j < n - 2 implies e[j] != 0x7eu8 by { assert(a85_data_char(e[j])); }
    lemma_first_from_unique(e, 0x7eu8, 0, n - 2);
}

// =====================================================================================================
// env: libflate / weezl as typestate models. What the compressors compute is uninterpreted; the contracts say which
// CONFIGURATION a value was built with and WHEN bytes reach the sink.
// =====================================================================================================
// RFC 1950 (zlib framing) / RFC 1951 (raw deflate): what a conforming inflater makes of the bytes
pub uninterp spec fn zlib_inflated(data: Seq<u8>) -> Option<Seq<u8>>;
pub uninterp spec fn raw_inflated(data: Seq<u8>) -> Option<Seq<u8>>;
// what flate_decode computes before the predictor stage (same text as unit flate): zlib first, raw deflate as fallback
pub open spec fn inflated(data: Seq<u8>) -> Option<Seq<u8>> {
    if zlib_inflated(data) is Some { zlib_inflated(data) } else { raw_inflated(data) }
}
#[derive(Debug)]
pub struct IoError;
pub mod libflate {
    use vstd::prelude::*;
    use super::*;
    pub mod finish {
        use vstd::prelude::*;
        use super::super::*;
        // libflate::finish::Finish<T, io::Error>: the sink handed back by `finish()`
        #[verifier::external_body]
        #[verifier::reject_recursive_types(W)]
        pub struct Finish<W> { w: W }
        impl Finish<Vec<u8>> {
            pub uninterp spec fn sink(&self) -> Seq<u8>;
            // [A] writing into a Vec<u8> cannot fail
            #[verifier::external_body]
            pub fn into_result(self) -> (r: Result<Vec<u8>, IoError>)
                ensures r matches Ok(v) && v@ == self.sink()
            { unimplemented!() }
        }
    }
    // Both encoders buffer the data of the current block; the last block, its end-of-block/final markers (and for zlib
    // the Adler-32 trailer) are written by `finish()` ONLY. Before `finish()` nothing is known about the sink: for short
    // inputs it is still empty, for long ones it holds an unterminated prefix. There is no Drop impl that would flush.
    // `Encoder<W>` is generic in the sink, but only an OWNED Vec<u8> sink can be finished in this model.
    pub mod deflate {
        use vstd::prelude::*;
        use super::super::*;
        use super::finish::Finish;
        #[verifier::external_body]
        #[verifier::reject_recursive_types(W)]
        pub struct Encoder<W> { w: W }
        impl<W> Encoder<W> {
            pub uninterp spec fn input(&self) -> Seq<u8>;      // bytes accepted so far
            #[verifier::external_body]
            pub fn new(w: W) -> (r: Encoder<W>) ensures r.input() == Seq::<u8>::empty() { unimplemented!() }
            // std::io::Write::write_all. [A] cannot fail on a Vec<u8> sink
            #[verifier::external_body]
            pub fn write_all(&mut self, data: &[u8]) -> (r: Result<(), IoError>)
                ensures r is Ok, final(self).input() == old(self).input() + data@
            { unimplemented!() }
        }
        impl Encoder<Vec<u8>> {
            // [A: libflate] the finished sink is a raw deflate stream (RFC 1951) of everything written
            #[verifier::external_body]
            pub fn finish(self) -> (r: Finish<Vec<u8>>) ensures raw_inflated(r.sink()) == Some(self.input()) { unimplemented!() }
        }
    }
    pub mod zlib {
        use vstd::prelude::*;
        use super::super::*;
        use super::finish::Finish;
        #[verifier::external_body]
        #[verifier::reject_recursive_types(W)]
        pub struct Encoder<W> { w: W }
        impl<W> Encoder<W> {
            pub uninterp spec fn input(&self) -> Seq<u8>;
            // writes the 2-byte zlib header; [A] cannot fail on a Vec<u8> sink
            #[verifier::external_body]
            pub fn new(w: W) -> (r: Result<Encoder<W>, IoError>) ensures r matches Ok(e) && e.input() == Seq::<u8>::empty() { unimplemented!() }
            #[verifier::external_body]
            pub fn write_all(&mut self, data: &[u8]) -> (r: Result<(), IoError>)
                ensures r is Ok, final(self).input() == old(self).input() + data@
            { unimplemented!() }
        }
        impl Encoder<Vec<u8>> {
            // [A: libflate] the finished sink is a zlib stream (RFC 1950) of everything written
            #[verifier::external_body]
            pub fn finish(self) -> (r: Finish<Vec<u8>>) ensures zlib_inflated(r.sink()) == Some(self.input()) { unimplemented!() }
        }
    }
}
// ---- weezl. A coder is fixed by three things (weezl docs): the bit order, the `size` argument = number of bits of a data
// symbol ("minimum code size": clear code = 1 << size, first codes are size + 1 bits wide), and the code-width switch
// variant (`with_tiff_size_switch` = one code early = what ISO 32000-1 calls EarlyChange 1).
pub struct LzwCfg { pub msb_first: bool, pub symbol_bits: u8, pub early: bool }
// what the LZW expander of that configuration makes of the bytes (None: not a complete stream)
pub uninterp spec fn lzw_expand(cfg: LzwCfg, code: Seq<u8>) -> Option<Seq<u8>>;
// ISO 32000-1 7.4.4.2: data bytes 0..255, clear-table = 256, EOD = 257, codes 9 to 12 bits, "packed into a continuous
// bit stream, high-order bit first"; Table 8 EarlyChange: 0 = code length increases postponed as long as possible, 1 = one code early
pub open spec fn pdf_lzw_cfg(early_change: int) -> LzwCfg { LzwCfg { msb_first: true, symbol_bits: 8, early: early_change != 0 } }
pub mod weezl {
    use vstd::prelude::*;
    use super::*;
    pub enum BitOrder { Msb, Lsb }
    pub mod decode {
        use vstd::prelude::*;
        use super::super::*;
        use super::BitOrder;
        pub struct Decoder { pub cfg: Ghost<LzwCfg> }
        impl Decoder {
            #[verifier::external_body]
            pub fn new(order: BitOrder, size: u8) -> (r: Decoder)
                requires size <= 12                          // weezl::assert_decode_size panics otherwise
                ensures r.cfg@ == (LzwCfg { msb_first: order is Msb, symbol_bits: size, early: false })
            { unimplemented!() }
            #[verifier::external_body]
            pub fn with_tiff_size_switch(order: BitOrder, size: u8) -> (r: Decoder)
                requires size <= 12
                ensures r.cfg@ == (LzwCfg { msb_first: order is Msb, symbol_bits: size, early: true })
            { unimplemented!() }
        }
    }
    pub mod encode {
        use vstd::prelude::*;
        use super::super::*;
        use super::BitOrder;
        pub struct Encoder { pub cfg: Ghost<LzwCfg> }
        impl Encoder {
            #[verifier::external_body]
            pub fn new(order: BitOrder, size: u8) -> (r: Encoder)
                requires 2 <= size <= 12                     // weezl::assert_encode_size panics otherwise
                ensures r.cfg@ == (LzwCfg { msb_first: order is Msb, symbol_bits: size, early: false })
            { unimplemented!() }
            #[verifier::external_body]
            pub fn with_tiff_size_switch(order: BitOrder, size: u8) -> (r: Encoder)
                requires 2 <= size <= 12
                ensures r.cfg@ == (LzwCfg { msb_first: order is Msb, symbol_bits: size, early: true })
            { unimplemented!() }
        }
    }
}
// R7 `DEC.into_stream(&mut OUT).decode_all(DATA).status` (io::Error -> PdfError by the `?` that stays at the call site).
// `decode_all` runs to the end code or to the end of the data.
#[verifier::external_body]
fn weezl_decode_all(decoder: &mut weezl::decode::Decoder, out: &mut Vec<u8>, data: &[u8]) -> (r: Result<()>)
    requires old(out)@.len() == 0
    ensures r is Ok ==> lzw_expand(old(decoder).cfg@, data@) == Some(final(out)@),
            r is Err ==> lzw_expand(old(decoder).cfg@, data@) is None,
{ unimplemented!() }
// R7 `ENC.into_stream(&mut OUT).encode_all(DATA).status`. `encode_all` finishes the stream (writes the end code and
// flushes the bit buffer), so nothing is left behind in the encoder. [A: weezl] the output is expanded to the input by
// the expander of the SAME configuration (bit order, symbol size, switch variant); [A] cannot fail on a Vec<u8> sink.
#[verifier::external_body]
fn weezl_encode_all(encoder: &mut weezl::encode::Encoder, out: &mut Vec<u8>, data: &[u8]) -> (r: Result<()>)
    requires old(out)@.len() == 0
    ensures r is Ok, lzw_expand(old(encoder).cfg@, final(out)@) == Some(data@),
{ unimplemented!() }

// ---- the other filter parameter structs (opaque) and callees proved elsewhere
#[verifier::external_body] pub struct DCTDecodeParams { _p: () }
#[verifier::external_body] pub struct CCITTFaxDecodeParams { _p: () }
#[verifier::external_body] pub struct JBIG2DecodeParams { _p: () }
// proved in units/a85enc: encode_hex/enchex_two_digits_per_byte_high_first
#[verifier::external_body]
fn encode_hex(data: &[u8]) -> (r: Vec<u8>)
    requires data@.len() <= isize::MAX
    ensures r@ =~= enchex_spec(data@)
{ unimplemented!() }
// proved in units/a85enc: encode_85/enc85_is_iso_encoder
#[verifier::external_body]
fn encode_85(data: &[u8]) -> (res: Vec<u8>)
    requires data@.len() <= isize::MAX
    ensures res@ =~= enc85_spec(data@)
{ unimplemented!() }
// proved in units/flate: flate_decode/inflate_err, flate_decode/no_predictor
#[verifier::external_body]
fn flate_decode(data: &[u8], params: &LZWFlateParams) -> (r: Result<Vec<u8>>)
    ensures inflated(data@) is None ==> r is Err,
        inflated(data@) is Some && params.predictor == 1 ==> (r matches Ok(v) && v@ == inflated(data@).unwrap()),
{ unimplemented!() }
// [A: Rust] allocation limit: no Vec<u8> holds more than isize::MAX bytes
#[verifier::external_body]
proof fn axiom_vec_u8_len(v: &Vec<u8>)
    ensures v@.len() <= isize::MAX
{}

// =====================================================================================================
// extracted code
// =====================================================================================================
//@@ decode_nibble
//@@ decode_hex
//@@ decode_85

//@@ struct LZWFlateParams
//@@ enum StreamFilter
//@@ flate_encode
//@@ lzw_decode
//@@ lzw_encode
//@@ encode

// =====================================================================================================
// C16 compositions (hand-written, callees seen through their contracts only): decode(encode(x)) == Ok(x)
// =====================================================================================================
fn hex_roundtrip(x: &[u8]) -> (r: Result<Vec<u8>>)
    requires x@.len() <= isize::MAX
    ensures r matches Ok(v) && v@ == x@
{
    let e = encode_hex(x);
    proof { axiom_vec_u8_len(&e); lemma_hex_inverse(x@); }
    decode_hex(&e)
}
fn a85_roundtrip(x: &[u8]) -> (r: Result<Vec<u8>>)
    requires x@.len() <= isize::MAX
    ensures r matches Ok(v) && v@ == x@
{
    let e = encode_85(x);
    proof { axiom_vec_u8_len(&e); lemma_a85_inverse(x@); }
    decode_85(&e)
}
fn flate_roundtrip(x: &[u8], p: &LZWFlateParams) -> (r: Result<Vec<u8>>)
    requires p.predictor == 1
    ensures r matches Ok(v) && v@ == x@
{
    let e = flate_encode(x);
    flate_decode(&e, p)
}
fn lzw_roundtrip(x: &[u8], p: &LZWFlateParams) -> (r: Result<Vec<u8>>)
    requires p.predictor == 1, p.early_change == 0 || p.early_change == 1
    ensures r matches Ok(v) && v@ == x@
{
    match lzw_encode(x, p) {
        Ok(e) => lzw_decode(&e, p),
        Err(e) => Err(e),
    }
}

}
fn main(){}
