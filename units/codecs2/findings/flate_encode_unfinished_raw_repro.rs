// Drop into pdf/src/enc.rs of a scratch copy (append at the end of the file), then
//   CARGO_TARGET_DIR=/tmp/<you>_target cargo test --offline -p pdf --lib codecs2_flate_encode
#[cfg(test)]
mod codecs2_flate_encode {
    use super::*;

    // C16, first sentence: decode(encode(x)) == x
    #[test]
    fn flate_encode_is_inverted_by_flate_decode() {
        let big: Vec<u8> = (0..3_000_000u32).map(|i| (i.wrapping_mul(2654435761) >> 13) as u8).collect();
        for x in [&b""[..], &b"a"[..], &b"hello world! hello world!"[..], &[0u8; 100_000][..], &big[..]] {
            let e = encode(x, &StreamFilter::FlateDecode(LZWFlateParams::default())).unwrap();
            assert!(!e.is_empty(), "flate_encode({} bytes) produced no output at all", x.len());
            let d = decode(&e, &StreamFilter::FlateDecode(LZWFlateParams::default()));
            assert_eq!(d.ok().as_deref(), Some(x), "flate_decode(flate_encode(x)) != x for |x| = {}", x.len());
        }
    }

    // C16, second sentence: the output is the standard format. ISO 32000-1 7.4.4.1: FlateDecode data is a zlib stream
    // (RFC 1950); `inflate_bytes_zlib` is libflate's RFC 1950 reader, which shares no code path with the encoder used.
    #[test]
    fn flate_encode_emits_a_zlib_stream() {
        let x = &b"hello world! hello world!"[..];
        let e = flate_encode(x);
        assert_eq!(inflate_bytes_zlib(&e).ok().as_deref(), Some(x), "output {:02x?} is not an RFC 1950 stream of x", &e[..e.len().min(8)]);
    }
}
