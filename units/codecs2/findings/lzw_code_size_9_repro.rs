// Drop into pdf/src/enc.rs of a scratch copy (append at the end of the file), then
//   CARGO_TARGET_DIR=/tmp/<you>_target cargo test --offline -p pdf --lib codecs2_lzw
#[cfg(test)]
mod codecs2_lzw {
    use super::*;

    // ISO 32000-1 7.4.4.2 EXAMPLE 2: the 10 bytes below are encoded as the codes 256 45 258 258 65 259 66 257,
    // 9 bits each, high-order bit first = 80 0B 60 50 22 0C 0C 85 01
    const PLAIN: [u8; 10] = [45, 45, 45, 45, 45, 65, 45, 45, 45, 66];
    const ISO: [u8; 9] = [0x80, 0x0B, 0x60, 0x50, 0x22, 0x0C, 0x0C, 0x85, 0x01];

    // C05: the decoder reads what a specification-conforming encoder writes
    #[test]
    fn lzw_decode_reads_the_iso_example() {
        for ec in [1, 0] {
            let p = LZWFlateParams { early_change: ec, ..LZWFlateParams::default() };
            let d = lzw_decode(&ISO, &p);
            assert_eq!(d.as_ref().ok().map(|v| &v[..]), Some(&PLAIN[..]), "early_change = {ec}: {:?}", d.as_ref().map_err(|e| format!("{e}")));
        }
    }

    // C16: the encoder writes the standard format. This short input never fills the table, so there is exactly one
    // conforming code sequence: the output must be the ISO example byte for byte (9-bit clear-table code 256 first).
    #[test]
    fn lzw_encode_writes_the_iso_example() {
        let p = LZWFlateParams { early_change: 0, ..LZWFlateParams::default() };
        let e = lzw_encode(&PLAIN, &p).unwrap();
        assert_eq!(&e[..], &ISO[..], "first 10 bits = {:010b} (512 = weezl's clear code for 9-bit symbols)", ((e[0] as u16) << 2) | (e[1] as u16 >> 6));
    }

    // C16 / DESIGN 6 "expected": encode() must accept the filter's default parameters (EarlyChange defaults to 1)
    #[test]
    fn encode_accepts_default_lzw_parameters() {
        let f = StreamFilter::LZWDecode(LZWFlateParams::default());
        let e = encode(&PLAIN, &f);
        assert!(e.is_ok(), "encode(.., LZWDecode(default)) = {:?}", e.map_err(|e| format!("{e}")));
        assert_eq!(decode(&e.unwrap(), &f).ok().as_deref(), Some(&PLAIN[..]));
    }
}
