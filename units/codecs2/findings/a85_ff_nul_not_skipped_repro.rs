// Drop into pdf/src/enc.rs of a scratch copy (append at the end of the file), then
//   CARGO_TARGET_DIR=/tmp/<you>_target cargo test --offline -p pdf --lib codecs2_a85_ws
#[cfg(test)]
mod codecs2_a85_ws {
    use super::*;

    // ISO 32000-1 7.4.3: "All white-space characters shall be ignored"; Table 1: NUL, HT, LF, FF, CR, SP
    #[test]
    fn decode_85_ignores_every_white_space_character() {
        for ws in [0u8, 9, 10, 12, 13, 32] {
            let mut enc = b"87cUR".to_vec();
            enc.push(ws);
            enc.extend_from_slice(b"D]i~>");
            let d = decode_85(&enc);
            assert_eq!(d.as_ref().ok().map(|v| &v[..]), Some(&b"Hello "[..]), "white-space byte {ws}: {:?}", d.as_ref().map_err(|e| format!("{e}")));
        }
    }
}
