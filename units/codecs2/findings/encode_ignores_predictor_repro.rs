// Drop into pdf/src/enc.rs of a scratch copy (append at the end of the file), then
//   CARGO_TARGET_DIR=/tmp/<you>_target cargo test --offline -p pdf --lib codecs2_predictor
#[cfg(test)]
mod codecs2_predictor {
    use super::*;

    // C16: "for every filter the encoder supports, decoding the encoder's output with the same filter returns the input":
    // either encode() refuses parameters it cannot honour, or the round trip holds.
    #[test]
    fn encode_with_predictor_roundtrips_or_refuses() {
        let x: Vec<u8> = (0u8..40).collect();
        let p = LZWFlateParams { predictor: 12, columns: 4, ..LZWFlateParams::default() };
        for f in [StreamFilter::FlateDecode(p.clone()), StreamFilter::LZWDecode(LZWFlateParams { early_change: 0, ..p.clone() })] {
            match encode(&x, &f) {
                Err(_) => {}
                Ok(e) => assert_eq!(decode(&e, &f).ok().as_deref(), Some(&x[..]), "{f:?}: accepted by encode(), but decode(encode(x)) != x"),
            }
        }
    }
}
