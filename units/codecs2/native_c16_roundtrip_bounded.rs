// BOUNDED native stand-in of unit `codecs2` for C16: runs the REAL crate through its public API
// (`pdf::enc::{encode, decode, StreamFilter, LZWFlateParams}`). Reported under bounded_checks, never as a proof.
//
// Why it exists: the Verus reading of flate_encode / lzw_encode / lzw_decode sees libflate and weezl only through trusted
// typestate stubs ("the encoder output expands to the input under the same configuration"). This harness runs the real
// libraries behind the real dispatchers `encode` / `decode` on an enumerated universe that hits the format's corner cases.
//
// Universe (the bound):
//   filters   ASCIIHexDecode, ASCII85Decode, FlateDecode{defaults}, FlateDecode{Predictor 1, Colors 3, BPC 4, Columns 7},
//             LZWDecode{defaults = EarlyChange 1}, LZWDecode{EarlyChange 0}, LZWDecode{EarlyChange 1, Colors 3, Columns 7}
//             -- every filter `encode` accepts; RunLengthDecode has NO encoder in the crate (checked below: `encode` refuses it)
//   inputs    U1 all 65 793 byte strings of length <= 2 (for the five filters with distinct code paths: hex, 85, Flate{defaults}, LZW{EarlyChange 1},
//                LZW{EarlyChange 0}; the two parameter variants, which `encode`/`decode` route to the same functions, take U2-U4 only);
//             U2 all 512 strings of length 3 over {00, 01, 7e '~', 3e '>', 7a 'z', ff, 80, 20 ' '};
//             U3 lengths {4,5,8,127,128,129,255,256,257,4095,4096,4097} x {constant 00, constant 'A', constant ff, alternating 00/ff,
//                ramp i mod 256, ramp i mod 251 shifted, LCG bytes, LCG over a 4-letter alphabet} (96 strings): ASCII85 `z` groups and
//                partial final groups of 1..3 bytes, the 128 boundary, LZW code width switches 9->10->11->12;
//             U4 20 000 LCG bytes over a 16-letter alphabet, 20 000 LCG bytes, 24 000 bytes of a 3-letter alphabet: force the LZW
//                table to fill (4096 entries) and be reset -- the reference decoder below COUNTS the clear codes and the test
//                demands at least 2 (the initial one and a reset) for the first two.
// Statement checked for every (filter, input):
//   T1 encode returns Ok(e) and nothing panics;
//   T2 decode(e, same filter) == Ok(input);
//   T3 (C16, second sentence; ASCIIHex, ASCII85, LZW) an INDEPENDENT reference decoder written here from ISO 32000-1 7.4.2 / 7.4.3 /
//      7.4.4.2 (+ Table 8 EarlyChange) reads e back to the input. Flate: no reference inflater here; instead e must carry the zlib framing of
//      RFC 1950: a valid CMF/FLG header and, as its last four bytes, the Adler-32 of the input.
// and for every filter value the encoder cannot invert (test `encode_refuses_what_it_cannot_invert`):
//   T4 LZW / Flate with Predictor 2, 10..15, and RunLength, DCT, JPX, CCITTFax, JBIG2, Crypt: `encode` returns Err -- no bytes, no panic;
//      any other parameter value (Predictor 0, -1, 3, 9, 16; odd EarlyChange values): Err, or Ok(e) with decode(e) == Ok(input).
use pdf::enc::{decode, encode, CCITTFaxDecodeParams, DCTDecodeParams, JBIG2DecodeParams, LZWFlateParams, StreamFilter};
use std::panic::{catch_unwind, AssertUnwindSafe};

fn params(predictor: i32, n_components: i32, bits_per_component: i32, columns: i32, early_change: i32) -> LZWFlateParams {
    LZWFlateParams { predictor, n_components, bits_per_component, columns, early_change }
}
#[derive(Clone, Copy, PartialEq)]
enum Ref { Hex, A85, Lzw(bool), ZlibFrame }
fn supported() -> Vec<(&'static str, StreamFilter, Ref)> {
    vec![
        ("ASCIIHexDecode", StreamFilter::ASCIIHexDecode, Ref::Hex),
        ("ASCII85Decode", StreamFilter::ASCII85Decode, Ref::A85),
        ("FlateDecode{defaults}", StreamFilter::FlateDecode(LZWFlateParams::default()), Ref::ZlibFrame),
        ("FlateDecode{Predictor 1, Colors 3, BPC 4, Columns 7}", StreamFilter::FlateDecode(params(1, 3, 4, 7, 1)), Ref::ZlibFrame),
        ("LZWDecode{defaults}", StreamFilter::LZWDecode(LZWFlateParams::default()), Ref::Lzw(true)),
        ("LZWDecode{EarlyChange 0}", StreamFilter::LZWDecode(params(1, 1, 8, 1, 0)), Ref::Lzw(false)),
        ("LZWDecode{EarlyChange 1, Colors 3, Columns 7}", StreamFilter::LZWDecode(params(1, 3, 8, 7, 1)), Ref::Lzw(true)),
    ]
}

// ------------------------------------------------------------------------------------------ reference decoders (ISO 32000-1)
fn is_ws(b: u8) -> bool { matches!(b, 0 | 9 | 10 | 12 | 13 | 32) }
/// 7.4.2: pairs of hex digits, white-space ignored, `>` = EOD, odd final digit followed by an implied 0.
fn ref_hex(d: &[u8]) -> Option<Vec<u8>> {
    let mut digits = vec![];
    for &c in d {
        if c == b'>' { break; }
        if is_ws(c) { continue; }
        digits.push(match c { b'0'..=b'9' => c - b'0', b'a'..=b'f' => c - b'a' + 10, b'A'..=b'F' => c - b'A' + 10, _ => return None });
    }
    if digits.len() % 2 == 1 { digits.push(0); }
    Some(digits.chunks(2).map(|p| p[0] * 16 + p[1]).collect())
}
/// 7.4.3: groups of 5 characters `!`..`u` = 4 bytes big-endian base 85, `z` = 4 zero bytes, a final group of n+1 characters = n bytes, `~>` = EOD.
fn ref_a85(d: &[u8]) -> Option<Vec<u8>> {
    let s: Vec<u8> = d.iter().cloned().filter(|&b| !is_ws(b)).collect();
    let end = s.windows(2).position(|w| w == b"~>")?;
    if end + 2 != s.len() { return None; }
    let mut out = vec![];
    let mut p = 0;
    while p < end {
        if s[p] == b'z' { out.extend_from_slice(&[0; 4]); p += 1; continue; }
        let n = (end - p).min(5);
        if n == 1 { return None; }
        let mut v: u64 = 0;
        for k in 0..5 {
            let c = if k < n { s[p + k] } else { b'u' };
            if !(b'!'..=b'u').contains(&c) { return None; }
            v = v * 85 + (c - b'!') as u64;
        }
        if v > 0xffff_ffff { return None; }
        out.extend_from_slice(&(v as u32).to_be_bytes()[..n - 1]);
        p += n;
    }
    Some(out)
}
/// 7.4.4.2: codes of 9..12 bits, high-order bit first, 0-255 bytes, 256 clear-table, 257 EOD, 258.. table entries; Table 8: with EarlyChange 1
/// the code length increases one code early. Returns the data and the number of clear-table codes seen. None = not a valid LZW stream.
fn ref_lzw(d: &[u8], early: bool) -> Option<(Vec<u8>, usize)> {
    let mut table: Vec<Vec<u8>> = Vec::new();
    let reset = |t: &mut Vec<Vec<u8>>| { t.clear(); for b in 0..=255u8 { t.push(vec![b]); } t.push(vec![]); t.push(vec![]); };
    reset(&mut table);
    let (mut width, mut bitpos, mut prev, mut clears, mut out) = (9usize, 0usize, None::<usize>, 0usize, Vec::new());
    loop {
        if bitpos + width > d.len() * 8 { return None; }                        // EOD missing
        let mut code = 0usize;
        for k in 0..width { let i = bitpos + k; code = code << 1 | ((d[i / 8] >> (7 - i % 8)) & 1) as usize; }
        bitpos += width;
        if code == 256 { reset(&mut table); width = 9; prev = None; clears += 1; continue; }
        if code == 257 { break; }
        let entry = if code < table.len() { table[code].clone() }
            else if code == table.len() && prev.is_some() { let mut e = table[prev.unwrap()].clone(); e.push(e[0]); e }
            else { return None };
        out.extend_from_slice(&entry);
        if let Some(p) = prev {
            if table.len() < 4096 { let mut n = table[p].clone(); n.push(entry[0]); table.push(n); }
        }
        prev = Some(code);
        let next = table.len() + early as usize;
        if next >= 2048 { width = 12 } else if next >= 1024 { width = 11 } else if next >= 512 { width = 10 }
    }
    if (d.len() * 8 - bitpos) >= 8 { return None; }                               // more than padding after EOD
    Some((out, clears))
}

fn adler32(x: &[u8]) -> u32 { let (mut a, mut b) = (1u32, 0u32); for &c in x { a = (a + c as u32) % 65521; b = (b + a) % 65521; } b << 16 | a }

// ---------------------------------------------------------------------------------------------------------------- universe
struct Lcg(u64);
impl Lcg { fn next(&mut self) -> u8 { self.0 = self.0.wrapping_mul(6364136223846793005).wrapping_add(1442695040888963407); (self.0 >> 33) as u8 } }
const LENGTHS: [usize; 12] = [4, 5, 8, 127, 128, 129, 255, 256, 257, 4095, 4096, 4097];
fn shaped(n: usize) -> Vec<(String, Vec<u8>)> {
    let mut l1 = Lcg(0x5eed_0000 + n as u64);
    let mut l2 = Lcg(0xabcd_0000 + n as u64);
    vec![
        (format!("constant 00 x {}", n), vec![0u8; n]),
        (format!("constant 41 x {}", n), vec![0x41u8; n]),
        (format!("constant ff x {}", n), vec![0xffu8; n]),
        (format!("alternating 00 ff x {}", n), (0..n).map(|i| if i % 2 == 0 { 0 } else { 0xff }).collect()),
        (format!("ramp i%256 x {}", n), (0..n).map(|i| i as u8).collect()),
        (format!("ramp 255-(i%251) x {}", n), (0..n).map(|i| 255 - (i % 251) as u8).collect()),
        (format!("LCG(seed 0x5eed0000+n) bytes x {}", n), (0..n).map(|_| l1.next()).collect()),
        (format!("LCG(seed 0xabcd0000+n) over {{00,7a,7e,ff}} x {}", n), (0..n).map(|_| [0u8, 0x7a, 0x7e, 0xff][(l2.next() & 3) as usize]).collect()),
    ]
}
fn big() -> Vec<(String, Vec<u8>, usize)> {
    let mut a = Lcg(1); let mut b = Lcg(2); let mut c = Lcg(3);
    vec![
        ("LCG(seed 1) over 16 letters x 20000".into(), (0..20000).map(|_| 0x40 + (a.next() & 15)).collect(), 2),
        ("LCG(seed 2) bytes x 20000".into(), (0..20000).map(|_| b.next()).collect(), 2),
        ("LCG(seed 3) over 3 letters x 24000".into(), (0..24000).map(|_| b"abz"[(c.next() % 3) as usize]).collect(), 1),
    ]
}
fn show(x: &[u8]) -> String {
    let h: Vec<String> = x.iter().take(48).map(|b| format!("{:02x}", b)).collect();
    format!("{} bytes [{}{}]", x.len(), h.join(" "), if x.len() > 48 { " .." } else { "" })
}

/// T1-T3 for one (filter, input); returns the number of LZW clear codes the reference decoder saw (0 for other filters).
fn check(name: &str, f: &StreamFilter, r: Ref, what: &str, x: &[u8]) -> usize {
    let e = match catch_unwind(AssertUnwindSafe(|| encode(x, f))) {
        Err(_) => panic!("T1 encode PANICKED: filter {} input {} {}", name, what, show(x)),
        Ok(Err(err)) => panic!("T1 encode refused a supported filter: {:?}: filter {} input {} {}", err, name, what, show(x)),
        Ok(Ok(e)) => e,
    };
    match catch_unwind(AssertUnwindSafe(|| decode(&e, f))) {
        Err(_) => panic!("T2 decode PANICKED on encoder output: filter {} input {} {} encoded {}", name, what, show(x), show(&e)),
        Ok(Err(err)) => panic!("T2 decode(encode(x)) = Err({:?}): filter {} input {} {} encoded {}", err, name, what, show(x), show(&e)),
        Ok(Ok(d)) => if d != x { panic!("T2 decode(encode(x)) != x: filter {} input {} {} encoded {} decoded {}", name, what, show(x), show(&e), show(&d)) },
    }
    let (back, clears) = match r {
        Ref::Hex => (ref_hex(&e), 0),
        Ref::A85 => (ref_a85(&e), 0),
        Ref::Lzw(early) => match ref_lzw(&e, early) { Some((v, c)) => (Some(v), c), None => (None, 0) },
        Ref::ZlibFrame => {
            // RFC 1950: CMF (CM = 8 deflate, CINFO <= 7), FLG (FCHECK makes CMF*256+FLG a multiple of 31, no preset dictionary), .. , ADLER32 of the plaintext
            let ok = e.len() >= 6 && e[0] & 0x0f == 8 && e[0] >> 4 <= 7 && (e[0] as u32 * 256 + e[1] as u32) % 31 == 0 && e[1] & 0x20 == 0
                && e[e.len() - 4..] == adler32(x).to_be_bytes();
            if !ok { panic!("T3 not the zlib framing of RFC 1950 (header / Adler-32 of the input): filter {} input {} {} encoded {}", name, what, show(x), show(&e)); }
            return 0;
        }
    };
    if back.as_deref() != Some(x) {
        panic!("T3 reference decoder disagrees: filter {} input {} {} encoded {} reference {:?}", name, what, show(x), show(&e), back.map(|v| show(&v)));
    }
    clears
}

/// U1 for filter number `fi` of U1_FILTERS and first bytes `lo..=hi` (the empty string and the 1-byte strings ride with their first byte).
/// Split into 20 test functions only so that the test harness runs them on all cores (debug build: ~3 ms per libflate / weezl encoder).
const U1_FILTERS: [usize; 5] = [0, 1, 2, 4, 5];       // hex, 85, Flate{defaults}, LZW{EarlyChange 1}, LZW{EarlyChange 0}
fn u1(fi: usize, lo: u8, hi: u8) {
    let (name, f, r) = supported().swap_remove(U1_FILTERS[fi]);
    if lo == 0 { check(name, &f, r, "U1", &[]); }
    for a in lo..=hi {
        check(name, &f, r, "U1", &[a]);
        for b in 0..=255u8 { check(name, &f, r, "U1", &[a, b]); }
    }
}
macro_rules! u1_tests { ($($n:ident: $fi:expr, $lo:expr, $hi:expr;)*) => { $(#[test] fn $n() { u1($fi, $lo, $hi); })* } }
u1_tests! {
    roundtrip_all_inputs_up_to_2_bytes_hex_00_3f: 0, 0x00, 0x3f;    roundtrip_all_inputs_up_to_2_bytes_hex_40_7f: 0, 0x40, 0x7f;
    roundtrip_all_inputs_up_to_2_bytes_hex_80_bf: 0, 0x80, 0xbf;    roundtrip_all_inputs_up_to_2_bytes_hex_c0_ff: 0, 0xc0, 0xff;
    roundtrip_all_inputs_up_to_2_bytes_a85_00_3f: 1, 0x00, 0x3f;    roundtrip_all_inputs_up_to_2_bytes_a85_40_7f: 1, 0x40, 0x7f;
    roundtrip_all_inputs_up_to_2_bytes_a85_80_bf: 1, 0x80, 0xbf;    roundtrip_all_inputs_up_to_2_bytes_a85_c0_ff: 1, 0xc0, 0xff;
    roundtrip_all_inputs_up_to_2_bytes_flate_00_3f: 2, 0x00, 0x3f;  roundtrip_all_inputs_up_to_2_bytes_flate_40_7f: 2, 0x40, 0x7f;
    roundtrip_all_inputs_up_to_2_bytes_flate_80_bf: 2, 0x80, 0xbf;  roundtrip_all_inputs_up_to_2_bytes_flate_c0_ff: 2, 0xc0, 0xff;
    roundtrip_all_inputs_up_to_2_bytes_lzw1_00_3f: 3, 0x00, 0x3f;   roundtrip_all_inputs_up_to_2_bytes_lzw1_40_7f: 3, 0x40, 0x7f;
    roundtrip_all_inputs_up_to_2_bytes_lzw1_80_bf: 3, 0x80, 0xbf;   roundtrip_all_inputs_up_to_2_bytes_lzw1_c0_ff: 3, 0xc0, 0xff;
    roundtrip_all_inputs_up_to_2_bytes_lzw0_00_3f: 4, 0x00, 0x3f;   roundtrip_all_inputs_up_to_2_bytes_lzw0_40_7f: 4, 0x40, 0x7f;
    roundtrip_all_inputs_up_to_2_bytes_lzw0_80_bf: 4, 0x80, 0xbf;   roundtrip_all_inputs_up_to_2_bytes_lzw0_c0_ff: 4, 0xc0, 0xff;
}

#[test]
fn roundtrip_length_3_over_special_alphabet() {
    const A: [u8; 8] = [0x00, 0x01, 0x7e, 0x3e, 0x7a, 0xff, 0x80, 0x20];
    for (name, f, r) in &supported() {
        for &a in &A { for &b in &A { for &c in &A { check(name, f, *r, "U2", &[a, b, c]); } } }
    }
}

#[test]
fn roundtrip_boundary_lengths_and_shapes() {
    for (name, f, r) in &supported() {
        for &n in &LENGTHS {
            for (what, x) in shaped(n) { check(name, f, *r, &what, &x); }
        }
    }
}

#[test]
fn roundtrip_large_inputs_forcing_an_lzw_table_reset() {
    for (name, f, r) in &supported() {
        for (what, x, min_clears) in big() {
            let clears = check(name, f, *r, &what, &x);
            if let Ref::Lzw(_) = r {
                assert!(clears >= min_clears, "universe does not reach the LZW table reset: {} clear codes for {} ({})", clears, what, name);
            }
        }
    }
}

#[test]
fn encode_refuses_what_it_cannot_invert() {
    let samples: Vec<Vec<u8>> = vec![vec![], vec![0], b"abc".to_vec(), vec![1, 2, 3, 4, 5, 6, 7, 8, 9, 10, 11, 12], (0..=255u8).collect()];
    let mut must_refuse: Vec<(String, StreamFilter)> = vec![
        ("RunLengthDecode".into(), StreamFilter::RunLengthDecode),
        ("DCTDecode".into(), StreamFilter::DCTDecode(DCTDecodeParams { color_transform: None })),
        ("JPXDecode".into(), StreamFilter::JPXDecode),
        ("CCITTFaxDecode{K -1, Columns 8}".into(), StreamFilter::CCITTFaxDecode(CCITTFaxDecodeParams {
            k: -1, end_of_line: false, encoded_byte_align: false, columns: 8, rows: 0, end_of_block: true, black_is_1: false, damaged_rows_before_error: 0 })),
        ("JBIG2Decode".into(), StreamFilter::JBIG2Decode(JBIG2DecodeParams { globals: None })),
        ("Crypt".into(), StreamFilter::Crypt),
    ];
    let mut may_refuse: Vec<(String, StreamFilter)> = vec![];
    for &(colors, bpc, columns) in &[(1, 8, 1), (1, 8, 4), (3, 8, 2), (1, 1, 5), (1, 4, 3), (1, 16, 2)] {
        for ec in [1, 0] {
            for p in [2, 10, 11, 12, 13, 14, 15] {
                must_refuse.push((format!("FlateDecode{{Predictor {}, Colors {}, BPC {}, Columns {}}}", p, colors, bpc, columns), StreamFilter::FlateDecode(params(p, colors, bpc, columns, ec))));
                must_refuse.push((format!("LZWDecode{{Predictor {}, Colors {}, BPC {}, Columns {}, EarlyChange {}}}", p, colors, bpc, columns, ec), StreamFilter::LZWDecode(params(p, colors, bpc, columns, ec))));
            }
            for p in [0, -1, 3, 9, 16, i32::MAX, i32::MIN] {
                may_refuse.push((format!("FlateDecode{{Predictor {}, Colors {}, BPC {}, Columns {}}}", p, colors, bpc, columns), StreamFilter::FlateDecode(params(p, colors, bpc, columns, ec))));
                may_refuse.push((format!("LZWDecode{{Predictor {}, Colors {}, BPC {}, Columns {}, EarlyChange {}}}", p, colors, bpc, columns, ec), StreamFilter::LZWDecode(params(p, colors, bpc, columns, ec))));
            }
        }
    }
    for ec in [2, -1, 255, i32::MAX, i32::MIN] {
        may_refuse.push((format!("LZWDecode{{EarlyChange {}}}", ec), StreamFilter::LZWDecode(params(1, 1, 8, 1, ec))));
    }
    for (name, f) in &must_refuse {
        for x in &samples {
            match catch_unwind(AssertUnwindSafe(|| encode(x, f))) {
                Err(_) => panic!("T4 encode PANICKED instead of returning Err: filter {} input {}", name, show(x)),
                Ok(Ok(e)) => panic!("T4 encode produced bytes for a filter it cannot invert: filter {} input {} encoded {} decode = {:?}",
                                    name, show(x), show(&e), catch_unwind(AssertUnwindSafe(|| decode(&e, f).ok().map(|d| show(&d)))).ok()),
                Ok(Err(_)) => {}
            }
        }
    }
    for (name, f) in &may_refuse {
        for x in &samples {
            match catch_unwind(AssertUnwindSafe(|| encode(x, f))) {
                Err(_) => panic!("T4 encode PANICKED: filter {} input {}", name, show(x)),
                Ok(Err(_)) => {}
                Ok(Ok(e)) => match catch_unwind(AssertUnwindSafe(|| decode(&e, f))) {
                    Ok(Ok(d)) if d == *x => {}
                    other => panic!("T4 encode accepted a filter whose output decode does not read back: filter {} input {} encoded {} decode = {:?}",
                                    name, show(x), show(&e), other.ok().map(|r| r.ok().map(|d| show(&d)))),
                },
            }
        }
    }
}
