// BOUNDED native differential harness (no Kani): the Rust transcription of the unit's spec functions `a85_decode_spec` /
// `hex_decode_spec` (unit.rs, tolerances on) against the real `decode_85` / `decode_hex`, exhaustively over every string
// of length <= 6 (ASCII85) resp. <= 6 (hex) over a small alphabet that contains every character class the specification
// distinguishes, plus the encoder round trips over all inputs of length <= 2 and 200k pseudo-random ones of length <= 9.
// Purpose: an independent check that the env ITERATOR MODEL of unit.rs (filter / by_ref().take_while consuming the `~` /
// tuples / chain(once)) describes what std and itertools really do on these shapes -- the Verus proof assumes it.
// Append to pdf/src/enc.rs of a scratch copy;  CARGO_TARGET_DIR=/tmp/<you>_target cargo test --offline --release -p pdf --lib codecs2_native_diff
#[cfg(test)]
mod codecs2_native_diff {
    use super::*;

    fn is_ws(b: u8) -> bool { matches!(b, 0 | 9 | 10 | 12 | 13 | 32) }
    fn a85_word(w: [u8; 5]) -> Option<[u8; 4]> {
        if !w.iter().all(|&c| (0x21..=0x75).contains(&c)) { return None; }
        let v = w.iter().fold(0u64, |v, &c| v * 85 + (c - 33) as u64);
        if v > 0xffff_ffff { None } else { Some((v as u32).to_be_bytes()) }
    }
    fn a85_body(s: &[u8], mut p: usize, end: usize) -> Option<Vec<u8>> {
        let mut out = vec![];
        loop {
            if p >= end { return Some(out); }
            if s[p] == b'z' { out.extend_from_slice(&[0; 4]); p += 1; continue; }
            let mut g = [b'u'; 5];
            for k in 0..5 { if p + k < end { g[k] = s[p + k]; } }
            if end - p == 1 { return a85_word(g).map(|_| out); }               // TOL_A85_LONE_FINAL_CHAR
            let w = a85_word(g)?;
            if p + 5 <= end { out.extend_from_slice(&w); p += 5; } else { out.extend_from_slice(&w[..end - p - 1]); return Some(out); }
        }
    }
    fn a85_spec(d: &[u8]) -> Option<Vec<u8>> {
        let s: Vec<u8> = d.iter().cloned().filter(|&b| !is_ws(b)).collect();
        let i = s.iter().position(|&b| b == b'~').unwrap_or(s.len());
        if i + 1 < s.len() && s[i + 1] == b'>' && i + 2 == s.len() { a85_body(&s, 0, i) } else { None }   // TOL_A85_DATA_AFTER_EOD_IS_ERROR
    }
    fn hexval(c: u8) -> Option<u8> {
        match c { b'0'..=b'9' => Some(c - b'0'), b'a'..=b'f' => Some(c - b'a' + 10), b'A'..=b'F' => Some(c - b'A' + 10), _ => None }
    }
    // None = error, Some(None) = nothing demanded (TOL_HEX_GH_ARE_DIGITS)
    fn hex_spec(d: &[u8]) -> Option<Option<Vec<u8>>> {
        let n = d.iter().position(|&b| b == b'>').unwrap_or(d.len());
        let s: Vec<u8> = d[..n].iter().cloned().filter(|&b| !is_ws(b)).collect();
        if s.iter().all(|&c| hexval(c).is_some()) {
            Some(Some((0..(s.len() + 1) / 2).map(|k| 16 * hexval(s[2 * k]).unwrap() + if 2 * k + 1 < s.len() { hexval(s[2 * k + 1]).unwrap() } else { 0 }).collect()))
        } else if s.iter().any(|c| b"ghGH".contains(c)) { Some(None) } else { None }
    }
    fn all_strings(alpha: &[u8], max: usize, mut f: impl FnMut(&[u8])) {
        let mut idx = vec![];
        loop {
            let s: Vec<u8> = idx.iter().map(|&i| alpha[i]).collect();
            f(&s);
            let mut k = idx.len();
            loop {
                if k == 0 { if idx.len() == max { return; } idx = vec![0; idx.len() + 1]; break; }
                k -= 1;
                if idx[k] + 1 < alpha.len() { idx[k] += 1; for j in k + 1..idx.len() { idx[j] = 0; } break; }
            }
        }
    }

    #[test]
    fn decode_85_equals_spec_on_small_strings() {
        let mut n = 0u64; let mut oks = 0u64;
        all_strings(b"!5uz~> \x0cv", 6, |s| {
            let r = decode_85(s).ok(); let e = a85_spec(s);
            assert_eq!(r, e, "input {:?}", String::from_utf8_lossy(s));
            n += 1; if e.is_some() { oks += 1; }
        });
        eprintln!("decode_85: {n} inputs, {oks} of them valid");
        assert!(oks > 1000);
    }
    #[test]
    fn decode_hex_equals_spec_on_small_strings() {
        let mut n = 0u64;
        all_strings(b"09aFg> \x00x", 6, |s| {
            match hex_spec(s) {
                None => assert!(decode_hex(s).is_err(), "input {:?}", String::from_utf8_lossy(s)),
                Some(None) => { let _ = decode_hex(s); }
                Some(Some(v)) => assert_eq!(decode_hex(s).ok(), Some(v), "input {:?}", String::from_utf8_lossy(s)),
            }
            n += 1;
        });
        eprintln!("decode_hex: {n} inputs");
    }
    #[test]
    fn roundtrips() {
        let check = |x: &[u8]| {
            assert_eq!(decode_85(&encode_85(x)).ok().as_deref(), Some(x));
            assert_eq!(a85_spec(&encode_85(x)).as_deref(), Some(x));
            assert_eq!(decode_hex(&encode_hex(x)).ok().as_deref(), Some(x));
        };
        check(&[]);
        for a in 0..=255u8 { check(&[a]); for b in 0..=255u8 { check(&[a, b]); } }
        let mut st = 0x2545F4914F6CDD1Du64;
        for _ in 0..200_000 {
            st ^= st << 13; st ^= st >> 7; st ^= st << 17;
            let len = (st % 10) as usize;
            let x: Vec<u8> = (0..len).map(|k| { let v = (st >> (8 * (k % 8))) as u8; if k % 3 == 0 { v & 0x81 } else { v } }).collect();
            check(&x);
        }
    }
}
