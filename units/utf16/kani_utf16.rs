// Kani harnesses on the REAL UTF-16BE helpers of pdf/src/font.rs (appended as a #[cfg(kani)] module): the iterator chain
//   char::decode_utf16(data.chunks_exact(2).map(|w| u16::from_be_bytes([w[0], w[1]])))
// is executed symbolically INCLUDING std's DecodeUtf16, so nothing about std is assumed within the bound.
// Spec: Unicode Standard 3.9, D91 (UTF-16 encoding form), Table 3-5; big-endian byte pairs (UTF-16BE, D96).

// one step of the D91 decoder at position i of the code-unit sequence u:
//   a non-surrogate unit is the scalar value itself; a high surrogate followed by a low surrogate is
//   0x10000 + (hi - 0xD800) * 0x400 + (lo - 0xDC00); anything else (lone low, high not followed by a low, high at the end)
//   is ill-formed: that ONE unit is the error and decoding resumes at the next unit
fn d91_step(u: &[u16], i: usize) -> (Result<u32, u16>, usize) {
    let a = u[i];
    if a < 0xD800 || a > 0xDFFF { (Ok(a as u32), 1) }
    else if a <= 0xDBFF && i + 1 < u.len() && u[i + 1] >= 0xDC00 && u[i + 1] <= 0xDFFF {
        (Ok(0x10000 + (a as u32 - 0xD800) * 0x400 + (u[i + 1] as u32 - 0xDC00)), 2)
    } else { (Err(a), 1) }
}
fn be_units<const N: usize>(data: &[u8]) -> ([u16; N], usize) {
    let n = data.len() / 2;           // an odd trailing byte is not a code unit
    let mut units = [0u16; N];
    let mut k = 0;
    while k < n { units[k] = data[2 * k] as u16 * 256 + data[2 * k + 1] as u16; k += 1; }
    (units, n)
}

// every item the iterator yields, in order, for EVERY byte string of 0..=7 bytes (0..=3 code units + an odd byte):
// covers BMP, pairs, lone low, high+non-low (the buffered unit is decoded next), high at the end, high high low
#[kani::proof]
#[kani::unwind(5)]
fn utf16be_to_char_is_d91() {
    let bytes: [u8; 7] = kani::any();
    let len: usize = kani::any();
    kani::assume(len <= 7);
    let data = &bytes[..len];
    let (units, n) = be_units::<3>(data);
    let mut it = utf16be_to_char(data);
    let mut i = 0;
    while i < n {
        let (want, adv) = d91_step(&units[..n], i);
        match (it.next(), want) {
            (Some(Ok(c)), Ok(w)) => assert!(c as u32 == w),
            (Some(Err(e)), Err(w)) => assert!(e.unpaired_surrogate() == w),
            _ => assert!(false),
        }
        i += adv;
    }
    assert!(it.next().is_none());
    kani::cover!(n == 3 && units[0] >= 0xD800 && units[0] <= 0xDBFF && units[1] >= 0xD800 && units[1] <= 0xDBFF && units[2] >= 0xDC00 && units[2] <= 0xDFFF);
    kani::cover!(len == 7);
}

// NOT here: harnesses on utf16be_to_string / utf16be_to_string_lossy (the same items collected into Result<SmallString> / String).
// Tried with every byte string of <= 5 and of <= 3 bytes: CBMC does not finish within the 5 minute cap (String/SmallString growth and
// UTF-8 re-encoding inside the solver), so they were dropped rather than left as harnesses nobody can run. What they would add to
// `utf16be_to_char_is_d91` is only `Iterator::map` + `collect` (first Err wins / U+FFFD substituted), which stays trusted (see NOTES.md).
