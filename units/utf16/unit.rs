// Unit `utf16` (C19, C15): text strings.  Verus part: PdfString::to_string / to_string_lossy (pdf/src/primitive.rs) -- the BOM
// dispatch of ISO 32000-1 7.9.2.2; the UTF-16BE helpers of pdf/src/font.rs they call are pure std iterator chains and are
// checked on the REAL code by the Kani harnesses of kani_utf16.rs (their contracts are restated as env stubs here).
use vstd::prelude::*;
//@@ INCLUDE _common/error_macros.rs
verus! {
global size_of usize == 8;

//@@ PDFERROR
//@@ DEVIATIONS

// ---- specification: UTF-16 (Unicode Standard 3.9, D91): is_high, is_low, units_of, text_of, utf16be_text -- shared with units/cmap ----
//@@ INCLUDE utf16/utf16_spec.rs
// lossy: U+FFFD REPLACEMENT CHARACTER for every ill-formed unit, decoding resumes at the next unit
pub open spec fn lossy_of(u: Seq<u16>) -> Seq<char> decreases u.len() {
    if u.len() == 0 { Seq::empty() }
    else if !is_high(u[0] as int) && !is_low(u[0] as int) { seq![(u[0] as int) as char] + lossy_of(u.skip(1)) }
    else if is_high(u[0] as int) && u.len() >= 2 && is_low(u[1] as int) {
        seq![(0x10000 + (u[0] as int - 0xD800) * 0x400 + (u[1] as int - 0xDC00)) as char] + lossy_of(u.skip(2))
    } else { seq!['\u{FFFD}'] + lossy_of(u.skip(1)) }
}
pub open spec fn utf16be_lossy(b: Seq<u8>) -> Seq<char> { lossy_of(units_of(b)) }
// the lossy reading of well-formed UTF-16 is its strict reading
pub proof fn lemma_lossy_extends_strict(u: Seq<u16>)
    ensures text_of(u) matches Some(t) ==> lossy_of(u) == t
    decreases u.len()
{
    if u.len() > 0 {
        if !is_high(u[0] as int) && !is_low(u[0] as int) { lemma_lossy_extends_strict(u.skip(1)); }
        else if is_high(u[0] as int) && u.len() >= 2 && is_low(u[1] as int) { lemma_lossy_extends_strict(u.skip(2)); }
    }
}

// ---- specification: UTF-8 (trusted L0: std's from_utf8 / from_utf8_lossy / str::as_bytes are the UTF-8 of the Unicode Standard, D92)
pub uninterp spec fn utf8_enc(s: Seq<char>) -> Seq<u8>;
pub uninterp spec fn utf8_dec(b: Seq<u8>) -> Option<Seq<char>>;
pub uninterp spec fn utf8_lossy(b: Seq<u8>) -> Seq<char>;
#[verifier::external_body]
pub broadcast proof fn axiom_utf8_dec_enc(s: Seq<char>)
    ensures #[trigger] utf8_dec(utf8_enc(s)) == Some(s)
{}
// ASCII is its own UTF-8 (D92, first row of Table 3-6)
pub open spec fn ascii_text(b: Seq<u8>) -> Seq<char> { Seq::new(b.len(), |i: int| b[i] as char) }
pub open spec fn all_ascii(b: Seq<u8>) -> bool { forall|i: int| 0 <= i < b.len() ==> #[trigger] b[i] < 0x80 }
#[verifier::external_body]
pub proof fn axiom_utf8_ascii(b: Seq<u8>)
    ensures all_ascii(b) ==> utf8_dec(b) == Some(ascii_text(b))
{}
#[verifier::external_body]
pub proof fn axiom_utf8_lossy_extends_strict(b: Seq<u8>)
    ensures utf8_dec(b) matches Some(t) ==> utf8_lossy(b) == t
{}

// ---- specification: ISO 32000-1 7.9.2.2 "Text String Type" ------------------------------------------------------------------
//   "... encoded in either PDFDocEncoding or the UTF-16BE Unicode character encoding scheme. ... For text strings encoded in
//    Unicode, the first two bytes shall be 254 followed by 255. These two bytes represent the Unicode byte order marker, U+FEFF,
//    indicating that the string is encoded in the UTF-16BE (big-endian) encoding scheme"
//   (ISO 32000-2 adds UTF-8 behind the marker EF BB BF.)  A string WITHOUT the marker is PDFDocEncoding (Annex D.2), NOT UTF-8.
pub open spec fn has_bom(b: Seq<u8>) -> bool { b.len() >= 2 && b[0] == 0xfe && b[1] == 0xff }
// Annex D.2: PDFDocEncoding agrees with ASCII on 0x20..=0x7E and on the controls HT LF CR; 0x18..=0x1F are diacritics,
// 0x7F and 0x9F 0xAD are undefined, 0x80..=0xFF is its own table (0xA1..=0xFF = Latin-1 except 0xAD)
pub open spec fn pdfdoc_is_ascii(c: u8) -> bool { (0x20 <= c && c <= 0x7e) || c == 9 || c == 10 || c == 13 }
pub uninterp spec fn pdfdoc_other(c: u8) -> char;
pub open spec fn pdfdoc_char(c: u8) -> char { if pdfdoc_is_ascii(c) { c as char } else { pdfdoc_other(c) } }
pub open spec fn pdfdoc_text(b: Seq<u8>) -> Seq<char> { Seq::new(b.len(), |i: int| pdfdoc_char(b[i])) }
pub open spec fn all_pdfdoc_ascii(b: Seq<u8>) -> bool { forall|i: int| 0 <= i < b.len() ==> pdfdoc_is_ascii(#[trigger] b[i]) }
// what ISO demands
pub open spec fn iso_text_string(b: Seq<u8>) -> Option<Seq<char>> {
    if has_bom(b) { utf16be_text(b.skip(2)) } else { Some(pdfdoc_text(b)) }
}
// what the functions are documented to do ("only works for valid UTF-8, UTF-16BE and ASCII"): TOL_TEXT_STRING_UTF8
pub open spec fn text_string(b: Seq<u8>) -> Option<Seq<char>> {
    if has_bom(b) { utf16be_text(b.skip(2)) } else if TOL_TEXT_STRING_UTF8() { utf8_dec(b) } else { Some(pdfdoc_text(b)) }
}
pub open spec fn text_string_lossy(b: Seq<u8>) -> Seq<char> {
    if has_bom(b) { utf16be_lossy(b.skip(2)) } else if TOL_TEXT_STRING_UTF8() { utf8_lossy(b) } else { pdfdoc_text(b) }
}
// where the two readings of a marker-less string coincide: every byte in the ASCII part of PDFDocEncoding
pub proof fn lemma_ascii_is_pdfdoc(b: Seq<u8>)
    ensures (!has_bom(b) && all_pdfdoc_ascii(b)) ==> text_string(b) == iso_text_string(b)
{
    if !has_bom(b) && all_pdfdoc_ascii(b) {
        assert forall|i: int| 0 <= i < b.len() implies #[trigger] b[i] < 0x80 by { assert(pdfdoc_is_ascii(b[i])); }
        axiom_utf8_ascii(b);
        assert(ascii_text(b) =~= pdfdoc_text(b)) by {
            assert forall|i: int| 0 <= i < b.len() implies ascii_text(b)[i] == pdfdoc_text(b)[i] by { assert(pdfdoc_is_ascii(b[i])); }
        }
    }
}

// ---- env -----------------------------------------------------------------------------------------------------------------------
pub struct SmallString { pub chars: Ghost<Seq<char>> }
impl SmallString {
    pub open spec fn view(&self) -> Seq<char> { self.chars@ }
    // istring: the UTF-8 bytes of the text
    #[verifier::external_body]
    pub fn as_bytes(&self) -> (r: &[u8]) ensures r@ == utf8_enc(self@) { unimplemented!() }
}
pub mod font {
    use super::*;
    // `utf16be_to_string`: the stub text is shared with units/cmap (same contract, one file)
    //@@ INCLUDE utf16/utf16_stub.rs
    // pdf/src/font.rs:535  `utf16be_to_char(data).map(|r| r.unwrap_or(REPLACEMENT_CHARACTER)).collect()`: items by Kani as above,
    // `map` + `collect::<String>()` trusted std
    #[verifier::external_body]
    pub fn utf16be_to_string_lossy(data: &[u8]) -> (r: String)
        ensures r@ == utf16be_lossy(data@)
    { unimplemented!() }
}
// the crate's `IBytes` payload is modelled as a byte vector
pub struct PdfString { pub data: Vec<u8> }

// ---- R7 helpers (trusted L0 contracts from the std documentation) -----------------------------------------------------------
// `self.data.starts_with(&[0xfe, 0xff])`
#[verifier::external_body]
fn hoist_starts_with(data: &Vec<u8>, pat: &[u8; 2]) -> (r: bool)
    ensures r == (data@.len() >= 2 && data@[0] == pat@[0] && data@[1] == pat@[1])
{ data.starts_with(pat) }
// `&self.data[2..]`: panics unless 2 <= len
#[verifier::external_body]
fn hoist_tail(data: &Vec<u8>, from: usize) -> (r: &[u8])
    requires from <= data@.len()
    ensures r@ == data@.skip(from as int)
{ &data[from..] }
// `String::from_utf8_lossy(&self.data).into()`
#[verifier::external_body]
fn hoist_from_utf8_lossy(data: &Vec<u8>) -> (r: String) ensures r@ == utf8_lossy(data@) { String::from_utf8_lossy(data).into() }
// `std::str::from_utf8(X).map_err(|_| PdfError::Utf8Decode)?`
#[verifier::external_body]
fn hoist_from_utf8(b: &[u8]) -> (r: Result<&str>)
    ensures utf8_dec(b@) matches Some(t) ==> (r matches Ok(s) && s@ == t),
            utf8_dec(b@) is None ==> r == Err::<&str, PdfError>(PdfError::Utf8Decode),
{ unimplemented!() }
// `String::from(s)`
#[verifier::external_body]
fn hoist_string_from(s: &str) -> (r: String) ensures r@ == s@ { String::from(s) }

impl PdfString {
//@@ PdfString::to_string_lossy
//@@ PdfString::to_string
}

}
fn main(){}
