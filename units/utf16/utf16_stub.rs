// Shared env stub of pdf/src/font.rs `utf16be_to_string` (INCLUDE file: `//@@ INCLUDE utf16/utf16_stub.rs`), ONE text for units
// `utf16` (inside its `pub mod font`) and `cmap`. Needs in scope: `utf16be_text` (utf16/utf16_spec.rs), the `PdfError` twin + `Result`
// alias (`//@@ PDFERROR`) and an env type `SmallString` with `spec fn view(&self) -> Seq<char>`.
//
// pdf/src/font.rs:541  `utf16be_to_char(data).map(|r| r.map_err(|_| PdfError::Utf16Decode)).collect()`
// checked in units/utf16: utf16be_to_char_is_d91 (Kani on the REAL chain incl. std's DecodeUtf16; BOUNDED: every byte string of 0..=7
// bytes, item by item: Ok(scalar) / Err(unit) exactly as `text_of(units_of(data))` reads the units, then None, never panics).
// What this contract adds to that obligation stays trusted std: `Iterator::map` + `collect::<Result<SmallString, _>>()`
// (all items Ok: the chars in order; else the FIRST Err, here always `PdfError::Utf16Decode`), and lengths beyond the bound.
#[verifier::external_body]
pub fn utf16be_to_string(data: &[u8]) -> (r: Result<SmallString>)
    ensures utf16be_text(data@) matches Some(t) ==> (r matches Ok(s) && s@ == t),
            utf16be_text(data@) is None ==> r == Err::<SmallString, PdfError>(PdfError::Utf16Decode),
{ unimplemented!() }
