// Shared UTF-16 specification (INCLUDE file: `//@@ INCLUDE utf16/utf16_spec.rs`, inside `verus! { }`), Unicode Standard 3.9 D91 / D96.
// Included by units `utf16` (which checks the real `utf16be_to_char` of pdf/src/font.rs against it) and `cmap` (ToUnicode maps).
// Only `spec fn`s: nothing in this file is trusted.
pub open spec fn is_high(u: int) -> bool { 0xD800 <= u <= 0xDBFF }
pub open spec fn is_low(u: int) -> bool { 0xDC00 <= u <= 0xDFFF }
// big-endian byte pairs -> code units (an odd trailing byte is not a code unit: `chunks_exact(2)` drops it)
pub open spec fn units_of(b: Seq<u8>) -> Seq<u16> decreases b.len() {
    if b.len() < 2 { Seq::empty() } else { seq![(b[0] as int * 256 + b[1] as int) as u16] + units_of(b.skip(2)) }
}
// strict: None as soon as one unit is ill-formed (lone low, high not followed by a low, high at the end)
pub open spec fn text_of(u: Seq<u16>) -> Option<Seq<char>> decreases u.len() {
    if u.len() == 0 { Some(Seq::empty()) }
    else if !is_high(u[0] as int) && !is_low(u[0] as int) {
        match text_of(u.skip(1)) { Some(t) => Some(seq![(u[0] as int) as char] + t), None => None }
    } else if is_high(u[0] as int) && u.len() >= 2 && is_low(u[1] as int) {
        match text_of(u.skip(2)) { Some(t) => Some(seq![(0x10000 + (u[0] as int - 0xD800) * 0x400 + (u[1] as int - 0xDC00)) as char] + t), None => None }
    } else { None }
}
pub open spec fn utf16be_text(b: Seq<u8>) -> Option<Seq<char>> { text_of(units_of(b)) }
