"""Unit `utf16` (C19, C15): UTF-16BE helpers of font.rs (Kani, on the real std iterator chain) and the text-string readers
PdfString::to_string / to_string_lossy of primitive.rs (Verus): BOM dispatch of ISO 32000-1 7.9.2.2."""
F = 'pdf/src/font.rs'
P = 'pdf/src/primitive.rs'
PR = ['C19', 'C15']
COMMON = [
    {'rule': 'R7', 'regex': r'self\.data\.starts_with\((&\[[^\]]*\])\)', 'replace': r'hoist_starts_with(&self.data, \1)'},
    {'rule': 'R7', 'regex': r'&self\.data\[(\d+)\.\.\]', 'replace': r'hoist_tail(&self.data, \1)'},
]
UNIT = {
 'name': 'utf16',
 'doc': 'utf16be_to_char/_string/_lossy == Unicode D91 over big-endian pairs (Kani, real chain); PdfString::to_string(_lossy): FE FF => UTF-16BE, else UTF-8 (ISO: PDFDocEncoding)',
 'timeout': 300,
 'tolerances': {
   'TOL_TEXT_STRING_UTF8': 'A text string without the FE FF marker is PDFDocEncoding by ISO 32000-1 7.9.2.2; the functions are documented to read it '
                           'as UTF-8 ("only works for valid UTF-8, UTF-16BE and ASCII"). Neither C19 nor C15 constrains it; the two readings '
                           'coincide on the ASCII part of PDFDocEncoding (lemma_ascii_is_pdfdoc, obligation ts_ascii_is_iso).',
 },
 'items': {
  'PdfString::to_string_lossy': {'kind': 'fn', 'file': P, 'container': r'^impl PdfString$', 'name': 'to_string_lossy', 'props': PR + ['C01'],
      'ensures': [('lossy_value', 'r@ == text_string_lossy(self.data@)'),
                  ('lossy_extends_strict', 'text_string(self.data@) matches Some(t) ==> r@ == t')],
      'rewrites': COMMON + [
          {'rule': 'R7', 'find': 'String::from_utf8_lossy(&self.data).into()', 'replace': 'hoist_from_utf8_lossy(&self.data)'},
          {'rule': 'R1', 'find': 'if hoist_starts_with(', 'replace': 'proof { lemma_lossy_extends_strict(units_of(self.data@.skip(2))); axiom_utf8_lossy_extends_strict(self.data@); } if hoist_starts_with('},
      ]},
  'PdfString::to_string': {'kind': 'fn', 'file': P, 'container': r'^impl PdfString$', 'name': 'to_string', 'props': PR + ['C01'],
      'ensures': [('ts_ok', 'text_string(self.data@) matches Some(t) ==> (r matches Ok(s) && s@ == t)'),
                  ('ts_err', 'text_string(self.data@) is None ==> r is Err'),
                  ('ts_ascii_is_iso', '(!has_bom(self.data@) && all_pdfdoc_ascii(self.data@)) ==> (r matches Ok(s) && Some(s@) == iso_text_string(self.data@))'),
                  ('ts_bom_is_iso', 'has_bom(self.data@) ==> (match iso_text_string(self.data@) { Some(t) => r matches Ok(s) && s@ == t, None => r is Err })')],
      'rewrites': COMMON + [
          {'rule': 'R7', 'regex': r'std::str::from_utf8\(((?:[^()]|\((?:[^()]|\([^()]*\))*\))*)\)\s*\.map_err\(\|_\| PdfError::Utf8Decode\)\?', 'count': 2,
           'replace': r'hoist_from_utf8(\1)?'},
          {'rule': 'R7', 'regex': r'\bString::from\(', 'count': 2, 'replace': 'hoist_string_from('},
          {'rule': 'R1', 'find': 'if hoist_starts_with(', 'replace': 'broadcast use axiom_utf8_dec_enc; proof { lemma_ascii_is_pdfdoc(self.data@); } if hoist_starts_with('},
      ]},
 },
 'kani': {
   'modules': [{'file': F, 'code': 'kani_utf16.rs'}],
   'harnesses': [
     {'name': 'utf16be_to_char_is_d91', 'fn': 'utf16be_to_char', 'file': F, 'props': PR + ['C01'], 'kind': 'bounded',
      'bound': 'every byte string of 0..=7 bytes (0..=3 code units + odd trailing byte), unwind 5', 'tier': 'quick', 'covers': True,
      'contract': 'the iterator yields exactly the D91 steps over the big-endian pairs: Ok(scalar) for a non-surrogate or a high+low pair '
                  '(0x10000 + (hi-0xD800)*0x400 + (lo-0xDC00)), Err(unit) for every other unit, then None; an odd last byte is ignored; never panics'},
   ],
   'jobs': 3, 'timeout': 900,
 },
}
