// Unit `hwpairs2` (C15, + C14/C01 for the readers on hostile values): the remaining HAND-WRITTEN reader/writer pairs
//   Date (primitive.rs), Encoding (encoding.rs), NumberTree (object/types.rs), Matrix (content.rs), Dest / MaybeNamedDest /
//   Action (object/types.rs).
// Contract shape (as in units/expansions_hw): every reader is proved equal to a whole-value model `*_reads(p, store)`,
// every writer to a model of the primitive it emits; the lemmas prove, from the models alone, read(write(x)) == Ok(x)
// (hence write-read-write identity) and, for Date, the meaning of every optional-suffix form of ISO 32000-1 7.9.4.
use vstd::prelude::*;
use core::ops::Range;
use std::collections::HashMap;
//@@ INCLUDE _common/error_macros.rs
// R4: `unexpected_primitive!` of pdf/src/error.rs, same control flow (it `return`s the error)
macro_rules! unexpected_primitive {
    ($expected:ident, $found:expr) => ( return Err(PdfError::UnexpectedPrimitive { expected: stringify!($expected), found: $found }) )
}
verus! {
global size_of usize == 8;
broadcast use vstd::std_specs::hash::group_hash_axioms;

//@@ PDFERROR
//@@ DEVIATIONS

// ---- env types (not under proof) ---------------------------------------------------------------------------------
pub struct SmallString { pub chars: Ghost<Seq<char>> }
impl SmallString {
    pub open spec fn view(&self) -> Seq<char> { self.chars@ }
    #[verifier::external_body]
    pub fn as_str(&self) -> (r: &str) ensures r@ == self@ { unimplemented!() }
}
impl Clone for SmallString {
    #[verifier::external_body]
    fn clone(&self) -> (r: SmallString) ensures r == *self { unimplemented!() }
}
impl From<&str> for SmallString {
    #[verifier::external_body]
    fn from(s: &str) -> (r: SmallString) ensures r == (SmallString { chars: Ghost(s@) }) { unimplemented!() }
}
pub open spec fn sstr(s: &str) -> SmallString { SmallString { chars: Ghost(s@) } }
// the crate's `IBytes` payload is modelled as a byte vector
pub struct PdfString { pub data: Vec<u8> }
impl Clone for PdfString {
    #[verifier::external_body]
    fn clone(&self) -> (r: PdfString) ensures r == *self { unimplemented!() }
}
pub struct PdfStream { pub info: Dictionary, pub data: Ghost<Seq<u8>> }
pub type ObjNr = u64;
pub type GenNr = u64;
#[derive(Clone, Copy)]
pub struct PlainRef { pub id: ObjNr, pub gen: GenNr }
//@@ struct Name
pub enum Primitive {
    Null,
    Integer(i32),
    Number(f32),
    Boolean(bool),
    String(PdfString),
    Stream(PdfStream),
    Dictionary(Dictionary),
    Array(Vec<Primitive>),
    Reference(PlainRef),
    Name(SmallString),
}
impl Clone for Primitive {
    #[verifier::external_body]
    fn clone(&self) -> (r: Primitive) ensures r == *self { unimplemented!() }
}
// what a `Resolve` can see: the stored object behind every reference (or the error of looking it up)
pub struct Store { pub objs: Map<PlainRef, Result<Primitive>> }
impl Store {
    pub open spec fn get(self, r: PlainRef) -> Result<Primitive> { self.objs[r] }
}
pub trait Resolve {
    spec fn store(&self) -> Store;
    // `res == store.get(r)`; and resolve never hands out a Reference (it follows reference-valued objects within its
    // depth budget): proved in units/guard, StorageResolver::resolve_flags/never_a_reference
    fn resolve(&self, r: PlainRef) -> (res: Result<Primitive>)
        ensures res == self.store().get(r), res matches Ok(p) ==> !(p is Reference);
}
pub trait Updater: Sized {
    spec fn created(&self) -> Map<PlainRef, Primitive>;
}

// ---- abstract Dictionary: ghost Map<Name, Primitive> with IndexMap semantics (trusted; entry order not modelled) -------
pub type DMap = Map<Seq<char>, Primitive>;
pub struct Dictionary { pub m: Ghost<DMap> }
pub open spec fn dget(m: DMap, key: Seq<char>) -> Option<Primitive> {
    if m.dom().contains(key) { Some(m[key]) } else { None::<Primitive> }
}
impl Dictionary {
    pub open spec fn view(&self) -> DMap { self.m@ }
    #[verifier::external_body]
    pub fn new() -> (r: Dictionary) ensures r@ == Map::<Seq<char>, Primitive>::empty() { unimplemented!() }
    // the crate's `insert(&mut self, key: impl Into<Name>, val: impl Into<Primitive>)`; the `Into` conversions of the values
    // are made explicit at the call sites (R7) so that the value inserted is visible
    #[verifier::external_body]
    pub fn insert(&mut self, key: &str, val: Primitive) -> (r: Option<Primitive>)
        ensures final(self)@ == old(self)@.insert(key@, val), r == dget(old(self)@, key@)
    { unimplemented!() }
    #[verifier::external_body]
    pub fn remove(&mut self, key: &str) -> (r: Option<Primitive>)
        ensures final(self)@ == old(self)@.remove(key@), r == dget(old(self)@, key@)
    { unimplemented!() }
    #[verifier::external_body]
    pub fn get(&self, key: &str) -> (r: Option<&Primitive>)
        ensures r == (if self@.dom().contains(key@) { Some(&self@[key@]) } else { None::<&Primitive> })
    { unimplemented!() }
    // primitive.rs:235  `self.remove(key).ok_or(MissingEntry{typ, field})`
    #[verifier::external_body]
    pub fn require(&mut self, typ: &'static str, key: &str) -> (r: Result<Primitive>)
        ensures final(self)@ == old(self)@.remove(key@),
            r == (match dget(old(self)@, key@) { Some(p) => Ok::<Primitive, PdfError>(p), None => Err::<Primitive, PdfError>(PdfError::MissingEntry { typ: typ }) })
    { unimplemented!() }
}
impl Clone for Dictionary {
    #[verifier::external_body]
    fn clone(&self) -> (r: Dictionary) ensures r == *self { unimplemented!() }
}

// ---- specs: Primitive accessors (proved in units/expansions_hw for the real text; restated as env stubs here) ---------
pub open spec fn debug_name(p: Primitive) -> &'static str {
    match p {
        Primitive::Null => "Null", Primitive::Integer(..) => "Integer", Primitive::Number(..) => "Number",
        Primitive::Boolean(..) => "Boolean", Primitive::String(..) => "String", Primitive::Stream(..) => "Stream",
        Primitive::Dictionary(..) => "Dictionary", Primitive::Array(..) => "Array",
        Primitive::Reference(..) => "Reference", Primitive::Name(..) => "Name",
    }
}
pub open spec fn unexpected<T>(expected: &'static str, p: Primitive) -> Result<T> {
    Err(PdfError::UnexpectedPrimitive { expected: expected, found: debug_name(p) })
}
pub open spec fn deref1(p: Primitive, st: Store) -> Result<Primitive> {
    match p { Primitive::Reference(id) => st.get(id), _ => Ok(p) }
}
pub open spec fn int_of(p: Primitive) -> Result<i32> { match p { Primitive::Integer(n) => Ok(n), _ => unexpected("Integer", p) } }
pub uninterp spec fn f32_of_i32(n: i32) -> f32;
pub open spec fn number_of(p: Primitive) -> Result<f32> {
    match p { Primitive::Integer(n) => Ok(f32_of_i32(n)), Primitive::Number(f) => Ok(f), _ => unexpected("Number", p) }
}
pub open spec fn then<A, B>(x: Result<A>, f: spec_fn(A) -> Result<B>) -> Result<B> { match x { Ok(v) => f(v), Err(e) => Err(e) } }
// `t!(e)` wraps the error of e
pub open spec fn wrap<A>(x: Result<A>) -> Result<A> { match x { Ok(v) => Ok(v), Err(e) => Err(PdfError::Try { source: Box::new(e) }) } }

impl Primitive {
    // proved in units/expansions_hw: Primitive::get_debug_name/spec
    #[verifier::external_body]
    pub fn get_debug_name(&self) -> (r: &'static str) ensures r == debug_name(*self) { unimplemented!() }
    // proved in units/expansions_hw: Primitive::resolve/spec
    #[verifier::external_body]
    pub fn resolve<R: Resolve>(self, r_: &R) -> (r: Result<Primitive>) ensures r == deref1(self, r_.store()) { unimplemented!() }
    // proved in units/expansions_hw: Primitive::as_integer/spec
    #[verifier::external_body]
    pub fn as_integer(&self) -> (r: Result<i32>) ensures r == int_of(*self) { unimplemented!() }
    // proved in units/expansions_hw: Primitive::as_number/spec
    #[verifier::external_body]
    pub fn as_number(&self) -> (r: Result<f32>) ensures r == number_of(*self) { unimplemented!() }
    // proved in units/expansions_hw: Primitive::into_array/spec
    #[verifier::external_body]
    pub fn into_array(self) -> (r: Result<Vec<Primitive>>)
        ensures r == (match self { Primitive::Array(v) => Ok::<Vec<Primitive>, PdfError>(v), _ => unexpected("Array", self) })
    { unimplemented!() }
    // primitive.rs:586 (same shape as into_array; not under proof anywhere: trusted)
    #[verifier::external_body]
    pub fn into_dictionary(self) -> (r: Result<Dictionary>)
        ensures r == (match self { Primitive::Dictionary(d) => Ok::<Dictionary, PdfError>(d), _ => unexpected("Dictionary", self) })
    { unimplemented!() }
    // primitive.rs:598
    #[verifier::external_body]
    pub fn into_string(self) -> (r: Result<PdfString>)
        ensures r == (match self { Primitive::String(d) => Ok::<PdfString, PdfError>(d), _ => unexpected("String", self) })
    { unimplemented!() }
    // primitive.rs:556 (borrowed result)
    #[verifier::external_body]
    pub fn as_name(&self) -> (r: Result<&str>)
        ensures (self matches Primitive::Name(s) ==> (r matches Ok(t) && t@ == s@)),
            !(self is Name) ==> r == unexpected::<&str>("Name", *self)
    { unimplemented!() }
    // primitive.rs:568 (borrowed result)
    #[verifier::external_body]
    pub fn as_array(&self) -> (r: Result<&[Primitive]>)
        ensures (self matches Primitive::Array(v) ==> (r matches Ok(t) && t@ == v@)),
            !(self is Array) ==> r == unexpected::<&[Primitive]>("Array", *self)
    { unimplemented!() }
}

// =====================================================================================================================
// Date  (ISO 32000-1 7.9.4:  D:YYYYMMDDHHmmSSOHH'mm  -- everything after YYYY optional, defaults MM=01 DD=01 rest 0,
//        O one of + - Z, the apostrophe after mm part of the PDF 1.7 syntax)
// =====================================================================================================================
//@@ enum TimeRel
//@@ struct Date

// ---- byte-level model of `str` (Rust: a str is valid UTF-8; ranges are byte ranges that must fall on char boundaries) --
pub uninterp spec fn str_bytes(s: &str) -> Seq<u8>;
pub uninterp spec fn string_bytes(s: String) -> Seq<u8>;
pub uninterp spec fn valid_utf8(b: Seq<u8>) -> bool;
pub open spec fn is_cont(b: u8) -> bool { 0x80 <= b && b < 0xC0 }
// core::str::is_char_boundary: index 0, index len, or a byte that is not a continuation byte
pub open spec fn boundary(b: Seq<u8>, i: int) -> bool { i == 0 || i == b.len() || (0 < i < b.len() && !is_cont(b[i])) }
pub open spec fn all_ascii(b: Seq<u8>) -> bool { forall|i: int| 0 <= i < b.len() ==> #[trigger] b[i] < 0x80 }
// str::get(a..e)
pub open spec fn sget(b: Seq<u8>, a: int, e: int) -> Option<Seq<u8>> {
    if 0 <= a <= e && e <= b.len() && boundary(b, a) && boundary(b, e) { Some(b.subrange(a, e)) } else { None::<Seq<u8>> }
}
// trusted facts about UTF-8 (L0): ASCII text is its own encoding
#[verifier::external_body]
pub proof fn axiom_ascii_bytes(s: &str)
    ensures s.is_ascii() ==> str_bytes(s) == Seq::new(s@.len(), |i: int| s@[i] as u8)
{}
#[verifier::external_body]
pub proof fn axiom_ascii_is_utf8(b: Seq<u8>)
    ensures all_ascii(b) ==> valid_utf8(b)
{}

// <uN as FromStr>::from_str: optional '+', one or more ASCII digits, value in range
pub open spec fn is_digit(b: u8) -> bool { 48 <= b && b <= 57 }
pub open spec fn all_digits(t: Seq<u8>) -> bool { forall|i: int| 0 <= i < t.len() ==> is_digit(#[trigger] t[i]) }
pub open spec fn digits_val(t: Seq<u8>) -> int
    decreases t.len()
{
    if t.len() == 0 { 0 } else { 10 * digits_val(t.drop_last()) + (t.last() - 48) }
}
pub open spec fn parse_dec(t: Seq<u8>, max: int) -> Option<int> {
    let u = if t.len() > 0 && t[0] == 43 { t.subrange(1, t.len() as int) } else { t };
    if u.len() > 0 && all_digits(u) && digits_val(u) <= max { Some(digits_val(u)) } else { None::<int> }
}
// format!("{n:0w}") for an unsigned n: decimal digits, zero-padded on the left to AT LEAST w characters
pub open spec fn dec(n: int) -> Seq<u8>
    decreases n
{
    if n < 10 { seq![(48 + n) as u8] } else { dec(n / 10).push((48 + n % 10) as u8) }
}
pub open spec fn zeros(k: int) -> Seq<u8> { Seq::new(if k > 0 { k as nat } else { 0 }, |i: int| 48u8) }
pub open spec fn pad(n: int, w: int) -> Seq<u8> { zeros(w - dec(n).len()) + dec(n) }

// ---- R7 helpers (trusted, L0 contracts from the std documentation) ---------------------------------------------------
// `str::from_utf8(&data)?`  (Utf8Error -> PdfError::Encoding by error.rs:303)
#[verifier::external_body]
fn hoist_from_utf8(data: &[u8]) -> (r: Result<&str>)
    ensures
        valid_utf8(data@) ==> (r matches Ok(s) && str_bytes(s) == data@),
        !valid_utf8(data@) ==> r == Err::<&str, PdfError>(PdfError::Encoding),
{ unimplemented!() }
// `s.starts_with("D:")`
#[verifier::external_body]
fn hoist_starts_with(s: &str, pat: &str) -> (r: bool)
    ensures r == starts_with(str_bytes(s), str_bytes(pat))
{ s.starts_with(pat) }
// `s.get(a..e)`
#[verifier::external_body]
fn hoist_str_get<'a>(s: &'a str, range: Range<usize>) -> (r: Option<&'a str>)
    ensures
        r is Some <==> sget(str_bytes(s), range.start as int, range.end as int) is Some,
        r matches Some(t) ==> Some(str_bytes(t)) == sget(str_bytes(s), range.start as int, range.end as int),
{ s.get(range) }
// `&s[a..e]`, `&s[..e]`, `&s[a..]`: panic unless the range is in bounds and on char boundaries
#[verifier::external_body]
fn hoist_str_slice<'a>(s: &'a str, a: usize, e: usize) -> (r: &'a str)
    requires sget(str_bytes(s), a as int, e as int) is Some
    ensures str_bytes(r) == str_bytes(s).subrange(a as int, e as int)
{ &s[a..e] }
#[verifier::external_body]
fn hoist_str_to<'a>(s: &'a str, e: usize) -> (r: &'a str)
    requires sget(str_bytes(s), 0, e as int) is Some
    ensures str_bytes(r) == str_bytes(s).subrange(0, e as int)
{ &s[..e] }
#[verifier::external_body]
fn hoist_str_from<'a>(s: &'a str, a: usize) -> (r: &'a str)
    requires sget(str_bytes(s), a as int, str_bytes(s).len() as int) is Some
    ensures str_bytes(r) == str_bytes(s).subrange(a as int, str_bytes(s).len() as int)
{ &s[a..] }
// `s.find([c0, c1, c2])` for ASCII chars: byte index of the first occurrence; an ASCII byte never occurs inside a
// multi-byte sequence, so the match is the byte itself and p, p+1 are char boundaries
#[verifier::external_body]
fn hoist_find3(s: &str, pat: [char; 3]) -> (r: Option<usize>)
    requires (pat[0] as u32) < 128, (pat[1] as u32) < 128, (pat[2] as u32) < 128
    ensures
        r matches Some(p) ==> p < str_bytes(s).len() && is_one_of3(str_bytes(s)[p as int], pat)
            && (forall|j: int| 0 <= j < p ==> !is_one_of3(#[trigger] str_bytes(s)[j], pat))
            && boundary(str_bytes(s), p as int) && boundary(str_bytes(s), p + 1),
        r is None ==> forall|j: int| 0 <= j < str_bytes(s).len() ==> !is_one_of3(#[trigger] str_bytes(s)[j], pat),
{ s.find(pat) }
pub open spec fn is_one_of3(b: u8, pat: [char; 3]) -> bool { b as u32 == pat[0] as u32 || b as u32 == pat[1] as u32 || b as u32 == pat[2] as u32 }
// `str::parse::<u16>(year)?`  (ParseIntError -> PdfError::Parse by error.rs:305)
#[verifier::external_body]
fn hoist_parse_u16(s: &str) -> (r: Result<u16>)
    ensures r == (match parse_dec(str_bytes(s), 65535) { Some(v) => Ok::<u16, PdfError>(v as u16), None => Err::<u16, PdfError>(PdfError::Parse) })
{ unimplemented!() }
// `str::parse::<T>(s).unwrap_or_else(|_| default.clone())` at T = u8 (every call site of parse_or is a u8 field of Date)
#[verifier::external_body]
fn hoist_parse_u8_or(s: &str, default: u8) -> (r: u8)
    ensures r == parsed_or(str_bytes(s), default)
{ str::parse::<u8>(s).unwrap_or_else(|_| default.clone()) }
pub open spec fn parsed_or(t: Seq<u8>, default: u8) -> u8 { match parse_dec(t, 255) { Some(v) => v as u8, None => default } }
// `a == b` on str (R9)
#[verifier::external_body]
fn str_eq(a: &str, b: &str) -> (r: bool) ensures r == (str_bytes(a) == str_bytes(b)) { a == b }
// the writer's `format!("D:{year:04}{month:02}{day:02}{hour:02}{minute:02}{second:02}{o}{tz_hour:02}'{tz_minute:02}")`
#[verifier::external_body]
fn hoist_format_date(year: u16, month: u8, day: u8, hour: u8, minute: u8, second: u8, o: &str, tz_hour: u8, tz_minute: u8) -> (r: String)
    ensures string_bytes(r) == fmt_text(year, month, day, hour, minute, second, str_bytes(o), tz_hour, tz_minute)
{ format!("D:{year:04}{month:02}{day:02}{hour:02}{minute:02}{second:02}{o}{tz_hour:02}'{tz_minute:02}") }
pub open spec fn fmt_text(year: u16, month: u8, day: u8, hour: u8, minute: u8, second: u8, o: Seq<u8>, tz_hour: u8, tz_minute: u8) -> Seq<u8> {
    seq![68u8, 58u8] + pad(year as int, 4) + pad(month as int, 2) + pad(day as int, 2) + pad(hour as int, 2) + pad(minute as int, 2)
        + pad(second as int, 2) + o + pad(tz_hour as int, 2) + seq![39u8] + pad(tz_minute as int, 2)
}
// `s.into()` : String -> IBytes (the bytes of the string)
#[verifier::external_body]
fn hoist_string_into_bytes(s: String) -> (r: Vec<u8>) ensures r@ == string_bytes(s) { s.into_bytes() }

// ---- Date: the reader model -----------------------------------------------------------------------------------------------
pub open spec fn starts_with(b: Seq<u8>, p: Seq<u8>) -> bool { p.len() <= b.len() && b.subrange(0, p.len() as int) == p }
pub open spec fn is_zone_char(b: u8) -> bool { b == 43 || b == 45 || b == 90 }   // + - Z
pub open spec fn first_zone_from(b: Seq<u8>, i: int) -> int
    decreases b.len() - i
{
    if i < 0 || i >= b.len() { b.len() as int } else if is_zone_char(b[i]) { i } else { first_zone_from(b, i + 1) }
}
// a two-digit field at [a, e) of `part`; absent or not a number: the default (7.9.4: "default values")
pub open spec fn field(part: Seq<u8>, a: int, e: int, default: u8) -> u8 {
    match sget(part, a, e) { Some(t) => parsed_or(t, default), None => default }
}
pub open spec fn date_of_bytes(b: Seq<u8>) -> Result<Date> {
    if !valid_utf8(b) { Err(PdfError::Encoding) }
    else if !starts_with(b, seq![68u8, 58u8]) { Err(PdfError::Other) }
    else {
        match sget(b, 2, 6) {
            None => Err(PdfError::Other),
            Some(y) => match parse_dec(y, 65535) {
                None => Err(PdfError::Parse),
                Some(year) => {
                    let p = first_zone_from(b, 0);
                    let time = if p < b.len() { b.subrange(0, p) } else { b };
                    let zone = if p < b.len() { b.subrange(p + 1, b.len() as int) } else { Seq::<u8>::empty() };
                    let rel = if p < b.len() { if b[p] == 45 { TimeRel::Earlier } else if b[p] == 43 { TimeRel::Later } else { TimeRel::Universal } } else { TimeRel::Universal };
                    Ok(Date {
                        year: year as u16, month: field(time, 6, 8, 1), day: field(time, 8, 10, 1),
                        hour: field(time, 10, 12, 0), minute: field(time, 12, 14, 0), second: field(time, 14, 16, 0),
                        rel: rel, tz_hour: field(zone, 0, 2, 0), tz_minute: field(zone, 3, 5, 0),
                    })
                }
            }
        }
    }
}
pub open spec fn date_reads(p: Primitive, st: Store) -> Result<Date> {
    then(deref1(p, st), |q: Primitive| match q { Primitive::String(ps) => date_of_bytes(ps.data@), _ => unexpected("String", q) })
}
// ---- Date: the writer model (7.9.4: every field has a FIXED width) ----------------------------------------------------
pub open spec fn dg(n: int, p: int) -> u8 { (48 + (n / p) % 10) as u8 }
pub open spec fn rel_byte(r: TimeRel) -> u8 { match r { TimeRel::Earlier => 45u8, TimeRel::Later => 43u8, TimeRel::Universal => 90u8 } }
pub open spec fn date_fits(d: Date) -> bool {
    d.year <= 9999 && d.month <= 99 && d.day <= 99 && d.hour <= 99 && d.minute <= 99 && d.second <= 99 && d.tz_hour <= 99 && d.tz_minute <= 99
}
pub open spec fn date_valid(d: Date) -> bool {
    d.year <= 9999 && 1 <= d.month <= 12 && 1 <= d.day <= 31 && d.hour <= 23 && d.minute <= 59 && d.second <= 59 && d.tz_hour <= 23 && d.tz_minute <= 59
}
pub open spec fn fix2(n: int) -> Seq<u8> { seq![dg(n, 10), dg(n, 1)] }
pub open spec fn fix4(n: int) -> Seq<u8> { seq![dg(n, 1000), dg(n, 100), dg(n, 10), dg(n, 1)] }
pub open spec fn iso_text(d: Date) -> Seq<u8> {
    seq![68u8, 58u8] + fix4(d.year as int) + fix2(d.month as int) + fix2(d.day as int) + fix2(d.hour as int) + fix2(d.minute as int)
        + fix2(d.second as int) + seq![rel_byte(d.rel)] + fix2(d.tz_hour as int) + seq![39u8] + fix2(d.tz_minute as int)
}
// the same text, byte by byte
pub open spec fn iso_text22(d: Date) -> Seq<u8> {
    seq![68u8, 58u8, dg(d.year as int, 1000), dg(d.year as int, 100), dg(d.year as int, 10), dg(d.year as int, 1),
         dg(d.month as int, 10), dg(d.month as int, 1), dg(d.day as int, 10), dg(d.day as int, 1),
         dg(d.hour as int, 10), dg(d.hour as int, 1), dg(d.minute as int, 10), dg(d.minute as int, 1),
         dg(d.second as int, 10), dg(d.second as int, 1), rel_byte(d.rel),
         dg(d.tz_hour as int, 10), dg(d.tz_hour as int, 1), 39u8, dg(d.tz_minute as int, 10), dg(d.tz_minute as int, 1)]
}

// ---- Date: proof hints used inside the extracted bodies (no `requires`: implications only) ----------------------------
pub proof fn lemma_date_literals()
    ensures str_bytes("D:") == seq![68u8, 58u8], str_bytes("-") == seq![45u8], str_bytes("+") == seq![43u8], str_bytes("Z") == seq![90u8],
        str_bytes("") == Seq::<u8>::empty(),
{
    reveal_strlit("D:"); reveal_strlit("-"); reveal_strlit("+"); reveal_strlit("Z"); reveal_strlit("");
    axiom_ascii_bytes("D:"); axiom_ascii_bytes("-"); axiom_ascii_bytes("+"); axiom_ascii_bytes("Z"); axiom_ascii_bytes("");
    assert(str_bytes("D:") =~= seq![68u8, 58u8]);
    assert(str_bytes("-") =~= seq![45u8]);
    assert(str_bytes("+") =~= seq![43u8]);
    assert(str_bytes("Z") =~= seq![90u8]);
    assert(str_bytes("") =~= Seq::<u8>::empty());
}
pub proof fn lemma_zone_pattern()
    ensures forall|b: u8| is_one_of3(b, ['+', '-', 'Z']) == is_zone_char(b)
{}
pub proof fn lemma_sub1(b: Seq<u8>, p: int)
    ensures 0 <= p < b.len() ==> b.subrange(p, p + 1) == seq![b[p]] && forall|y: u8| (b.subrange(p, p + 1) == #[trigger] seq![y]) == (b[p] == y)
{
    if 0 <= p < b.len() {
        assert(b.subrange(p, p + 1) =~= seq![b[p]]);
        assert forall|y: u8| (b.subrange(p, p + 1) == #[trigger] seq![y]) == (b[p] == y) by {
            if b.subrange(p, p + 1) == seq![y] { assert(seq![b[p]][0] == seq![y][0]); }
        }
    }
}
pub proof fn lemma_first_zone(b: Seq<u8>, i: int, p: int)
    ensures (0 <= i <= p <= b.len() && (forall|j: int| i <= j < p ==> !is_zone_char(#[trigger] b[j])) && (p == b.len() || is_zone_char(b[p])))
        ==> first_zone_from(b, i) == p
    decreases b.len() - i
{
    if 0 <= i <= p <= b.len() && (forall|j: int| i <= j < p ==> !is_zone_char(#[trigger] b[j])) && (p == b.len() || is_zone_char(b[p])) {
        if i < p { assert(!is_zone_char(b[i])); lemma_first_zone(b, i + 1, p); }
    }
}
pub proof fn lemma_pad2(n: int)
    ensures 0 <= n <= 99 ==> pad(n, 2) == seq![dg(n, 10), dg(n, 1)]
{
    if 0 <= n <= 99 {
        if n < 10 { assert(dec(n) =~= seq![(48 + n) as u8]); assert(zeros(1) =~= seq![48u8]); assert(pad(n, 2) =~= seq![dg(n, 10), dg(n, 1)]); }
        else { assert(dec(n / 10) =~= seq![(48 + n / 10) as u8]); assert(dec(n) =~= seq![(48 + n / 10) as u8, (48 + n % 10) as u8]);
               assert(zeros(0) =~= Seq::<u8>::empty()); assert(pad(n, 2) =~= seq![dg(n, 10), dg(n, 1)]); }
    }
}
pub proof fn lemma_pad4(n: int)
    ensures 0 <= n <= 9999 ==> pad(n, 4) == seq![dg(n, 1000), dg(n, 100), dg(n, 10), dg(n, 1)]
{
    if 0 <= n <= 9999 {
        let t = seq![dg(n, 1000), dg(n, 100), dg(n, 10), dg(n, 1)];
        if n < 10 { assert(dec(n) =~= seq![(48 + n) as u8]); assert(zeros(3) =~= seq![48u8, 48u8, 48u8]); assert(pad(n, 4) =~= t); }
        else if n < 100 {
            assert(dec(n / 10) =~= seq![(48 + n / 10) as u8]); assert(dec(n) =~= seq![(48 + n / 10) as u8, (48 + n % 10) as u8]);
            assert(zeros(2) =~= seq![48u8, 48u8]); assert(pad(n, 4) =~= t);
        } else if n < 1000 {
            let m = n / 10;
            assert(dec(m / 10) =~= seq![(48 + m / 10) as u8]); assert(dec(m) =~= seq![(48 + m / 10) as u8, (48 + m % 10) as u8]);
            assert(dec(n) =~= seq![(48 + m / 10) as u8, (48 + m % 10) as u8, (48 + n % 10) as u8]);
            assert(zeros(1) =~= seq![48u8]); assert(pad(n, 4) =~= t);
        } else {
            let m = n / 10; let k = m / 10;
            assert(dec(k / 10) =~= seq![(48 + k / 10) as u8]); assert(dec(k) =~= seq![(48 + k / 10) as u8, (48 + k % 10) as u8]);
            assert(dec(m) =~= seq![(48 + k / 10) as u8, (48 + k % 10) as u8, (48 + m % 10) as u8]);
            assert(dec(n) =~= seq![(48 + k / 10) as u8, (48 + k % 10) as u8, (48 + m % 10) as u8, (48 + n % 10) as u8]);
            assert(zeros(0) =~= Seq::<u8>::empty()); assert(pad(n, 4) =~= t);
        }
    }
}
// what format! produced is the fixed-width ISO text, provided every field fits its width
pub proof fn lemma_fmt_is_iso(d: Date)
    ensures date_fits(d) ==> fmt_text(d.year, d.month, d.day, d.hour, d.minute, d.second, seq![rel_byte(d.rel)], d.tz_hour, d.tz_minute) == iso_text(d)
{
    if date_fits(d) {
        lemma_pad4(d.year as int); lemma_pad2(d.month as int); lemma_pad2(d.day as int); lemma_pad2(d.hour as int);
        lemma_pad2(d.minute as int); lemma_pad2(d.second as int); lemma_pad2(d.tz_hour as int); lemma_pad2(d.tz_minute as int);
    }
}

// ---- Date: C15 lemmas, from the models alone ---------------------------------------------------------------------------
pub open spec fn d2(b: Seq<u8>, i: int) -> int { (b[i] - 48) * 10 + (b[i + 1] - 48) }
pub open spec fn d4(b: Seq<u8>, i: int) -> int { (b[i] - 48) * 1000 + (b[i + 1] - 48) * 100 + (b[i + 2] - 48) * 10 + (b[i + 3] - 48) }
pub open spec fn rel_of(c: u8) -> TimeRel { if c == 45 { TimeRel::Earlier } else if c == 43 { TimeRel::Later } else { TimeRel::Universal } }
pub open spec fn zone_len(z: int) -> int { if z == 0 { 0 } else if z == 1 { 1 } else if z == 2 { 3 } else if z == 3 { 4 } else if z == 4 { 6 } else { 7 } }
// ISO 32000-1 7.9.4: "D:YYYY" then k in 0..=5 of the two-digit fields MM DD HH mm SS, then the zone in one of the forms
// z = 0: nothing, 1: O, 2: OHH, 3: OHH', 4: OHH'mm, 5: OHH'mm'   (O one of + - Z)
pub open spec fn iso_date_string(b: Seq<u8>, k: int, z: int) -> bool {
    let n = 6 + 2 * k;
    0 <= k <= 5 && 0 <= z <= 5 && b.len() == n + zone_len(z) && b[0] == 68 && b[1] == 58
    && (forall|i: int| 2 <= i < n ==> is_digit(#[trigger] b[i]))
    && (z >= 1 ==> is_zone_char(b[n]))
    && (z >= 2 ==> is_digit(b[n + 1]) && is_digit(b[n + 2])) && (z >= 3 ==> b[n + 3] == 39)
    && (z >= 4 ==> is_digit(b[n + 4]) && is_digit(b[n + 5])) && (z >= 5 ==> b[n + 6] == 39)
}
pub open spec fn iso_date_meaning(b: Seq<u8>, k: int, z: int) -> Date {
    let n = 6 + 2 * k;
    Date {
        year: d4(b, 2) as u16,
        month: if k >= 1 { d2(b, 6) as u8 } else { 1 }, day: if k >= 2 { d2(b, 8) as u8 } else { 1 },
        hour: if k >= 3 { d2(b, 10) as u8 } else { 0 }, minute: if k >= 4 { d2(b, 12) as u8 } else { 0 }, second: if k >= 5 { d2(b, 14) as u8 } else { 0 },
        rel: if z >= 1 { rel_of(b[n]) } else { TimeRel::Universal },
        tz_hour: if z >= 2 { d2(b, n + 1) as u8 } else { 0 }, tz_minute: if z >= 4 { d2(b, n + 4) as u8 } else { 0 },
    }
}
pub proof fn lemma_parse2(t: Seq<u8>, max: int)
    requires t.len() == 2, is_digit(t[0]), is_digit(t[1]), max >= 99
    ensures parse_dec(t, max) == Some(d2(t, 0))
{
    let t1 = t.drop_last();
    assert(t1.len() == 1 && t1.last() == t[0]);
    assert(t1.drop_last().len() == 0);
    assert(digits_val(t1.drop_last()) == 0);
    assert(digits_val(t1) == t[0] - 48);
    assert(digits_val(t) == 10 * digits_val(t1) + (t[1] - 48));
}
pub proof fn lemma_parse4(t: Seq<u8>, max: int)
    requires t.len() == 4, is_digit(t[0]), is_digit(t[1]), is_digit(t[2]), is_digit(t[3]), max >= 9999
    ensures parse_dec(t, max) == Some(d4(t, 0))
{
    let t3 = t.drop_last(); let t2 = t3.drop_last(); let t1 = t2.drop_last();
    assert(t3.len() == 3 && t3.last() == t[2]);
    assert(t2.len() == 2 && t2.last() == t[1]);
    assert(t1.len() == 1 && t1.last() == t[0]);
    assert(t1.drop_last().len() == 0);
    assert(digits_val(t1.drop_last()) == 0);
    assert(digits_val(t1) == t[0] - 48);
    assert(digits_val(t2) == 10 * digits_val(t1) + (t[1] - 48));
    assert(digits_val(t3) == 10 * digits_val(t2) + (t[2] - 48));
    assert(digits_val(t) == 10 * digits_val(t3) + (t[3] - 48));
}
pub proof fn lemma_field_present(part: Seq<u8>, a: int, dflt: u8)
    requires 0 <= a, a + 2 <= part.len(), is_digit(part[a]), is_digit(part[a + 1]), a + 2 < part.len() ==> part[a + 2] < 128
    ensures field(part, a, a + 2, dflt) == d2(part, a) as u8, 0 <= d2(part, a) <= 99
{
    let t = part.subrange(a, a + 2);
    assert(t[0] == part[a] && t[1] == part[a + 1]);
    lemma_parse2(t, 255);
}
pub proof fn lemma_iso_date_forms(b: Seq<u8>, k: int, z: int)
    requires iso_date_string(b, k, z)
    ensures date_of_bytes(b) == Ok::<Date, PdfError>(iso_date_meaning(b, k, z))
{
    let n = 6 + 2 * k;
    assert forall|i: int| 0 <= i < b.len() implies #[trigger] b[i] < 0x80 by {
        if 2 <= i < n { assert(is_digit(b[i])); }
    }
    axiom_ascii_is_utf8(b);
    assert(b.subrange(0, 2) =~= seq![68u8, 58u8]);
    let y = b.subrange(2, 6);
    assert(is_digit(b[2]) && is_digit(b[3]) && is_digit(b[4]) && is_digit(b[5]));
    assert(y[0] == b[2] && y[1] == b[3] && y[2] == b[4] && y[3] == b[5]);
    lemma_parse4(y, 65535);
    assert(sget(b, 2, 6) == Some(y));
    assert forall|j: int| 0 <= j < n implies !is_zone_char(#[trigger] b[j]) by {
        if 2 <= j { assert(is_digit(b[j])); }
    }
    lemma_first_zone(b, 0, n);
    let p = first_zone_from(b, 0);
    assert(p == n);
    let time = if p < b.len() { b.subrange(0, p) } else { b };
    assert(time =~= b.subrange(0, n));
    let zone = if p < b.len() { b.subrange(p + 1, b.len() as int) } else { Seq::<u8>::empty() };
    if k >= 1 { assert(is_digit(b[6]) && is_digit(b[7])); lemma_field_present(time, 6, 1); }
    if k >= 2 { assert(is_digit(b[8]) && is_digit(b[9])); lemma_field_present(time, 8, 1); }
    if k >= 3 { assert(is_digit(b[10]) && is_digit(b[11])); lemma_field_present(time, 10, 0); }
    if k >= 4 { assert(is_digit(b[12]) && is_digit(b[13])); lemma_field_present(time, 12, 0); }
    if k >= 5 { assert(is_digit(b[14]) && is_digit(b[15])); lemma_field_present(time, 14, 0); }
    if z >= 2 { assert(zone[0] == b[n + 1] && zone[1] == b[n + 2]); if z >= 3 { assert(zone[2] == b[n + 3]); } lemma_field_present(zone, 0, 0); }
    if z >= 4 { assert(zone[3] == b[n + 4] && zone[4] == b[n + 5]); if z >= 5 { assert(zone[5] == b[n + 6]); } lemma_field_present(zone, 3, 0); }
    assert(0 <= d4(y, 0) <= 9999);
}
// read(write(d)) == Ok(d) for every Date the writer emits (all fields within their widths), hence write-read-write identity
pub proof fn lemma_dg_digit(n: int, p: int)
    ensures 0 <= n && p > 0 ==> is_digit(dg(n, p))
{
    if 0 <= n && p > 0 { assert(0 <= (n / p) % 10 <= 9) by (nonlinear_arith) requires 0 <= n, p > 0; }
}
pub proof fn lemma_iso_text22(d: Date)
    ensures iso_text(d) == iso_text22(d)
{
    let p0 = seq![68u8, 58u8];
    let p1 = p0 + fix4(d.year as int);
    assert(p1 =~= seq![68u8, 58u8, dg(d.year as int, 1000), dg(d.year as int, 100), dg(d.year as int, 10), dg(d.year as int, 1)]);
    let p2 = p1 + fix2(d.month as int);
    assert(p2 =~= seq![68u8, 58u8, dg(d.year as int, 1000), dg(d.year as int, 100), dg(d.year as int, 10), dg(d.year as int, 1), dg(d.month as int, 10), dg(d.month as int, 1)]);
    let p3 = p2 + fix2(d.day as int);
    assert(p3 =~= seq![68u8, 58u8, dg(d.year as int, 1000), dg(d.year as int, 100), dg(d.year as int, 10), dg(d.year as int, 1), dg(d.month as int, 10), dg(d.month as int, 1), dg(d.day as int, 10), dg(d.day as int, 1)]);
    let p4 = p3 + fix2(d.hour as int);
    assert(p4 =~= seq![68u8, 58u8, dg(d.year as int, 1000), dg(d.year as int, 100), dg(d.year as int, 10), dg(d.year as int, 1), dg(d.month as int, 10), dg(d.month as int, 1), dg(d.day as int, 10), dg(d.day as int, 1), dg(d.hour as int, 10), dg(d.hour as int, 1)]);
    let p5 = p4 + fix2(d.minute as int);
    assert(p5 =~= seq![68u8, 58u8, dg(d.year as int, 1000), dg(d.year as int, 100), dg(d.year as int, 10), dg(d.year as int, 1), dg(d.month as int, 10), dg(d.month as int, 1), dg(d.day as int, 10), dg(d.day as int, 1), dg(d.hour as int, 10), dg(d.hour as int, 1), dg(d.minute as int, 10), dg(d.minute as int, 1)]);
    let p6 = p5 + fix2(d.second as int);
    assert(p6 =~= seq![68u8, 58u8, dg(d.year as int, 1000), dg(d.year as int, 100), dg(d.year as int, 10), dg(d.year as int, 1), dg(d.month as int, 10), dg(d.month as int, 1), dg(d.day as int, 10), dg(d.day as int, 1), dg(d.hour as int, 10), dg(d.hour as int, 1), dg(d.minute as int, 10), dg(d.minute as int, 1), dg(d.second as int, 10), dg(d.second as int, 1)]);
    let p7 = p6 + seq![rel_byte(d.rel)];
    assert(p7 =~= seq![68u8, 58u8, dg(d.year as int, 1000), dg(d.year as int, 100), dg(d.year as int, 10), dg(d.year as int, 1), dg(d.month as int, 10), dg(d.month as int, 1), dg(d.day as int, 10), dg(d.day as int, 1), dg(d.hour as int, 10), dg(d.hour as int, 1), dg(d.minute as int, 10), dg(d.minute as int, 1), dg(d.second as int, 10), dg(d.second as int, 1), rel_byte(d.rel)]);
    let p8 = p7 + fix2(d.tz_hour as int);
    assert(p8 =~= seq![68u8, 58u8, dg(d.year as int, 1000), dg(d.year as int, 100), dg(d.year as int, 10), dg(d.year as int, 1), dg(d.month as int, 10), dg(d.month as int, 1), dg(d.day as int, 10), dg(d.day as int, 1), dg(d.hour as int, 10), dg(d.hour as int, 1), dg(d.minute as int, 10), dg(d.minute as int, 1), dg(d.second as int, 10), dg(d.second as int, 1), rel_byte(d.rel), dg(d.tz_hour as int, 10), dg(d.tz_hour as int, 1)]);
    let p9 = p8 + seq![39u8];
    assert(p9 =~= seq![68u8, 58u8, dg(d.year as int, 1000), dg(d.year as int, 100), dg(d.year as int, 10), dg(d.year as int, 1), dg(d.month as int, 10), dg(d.month as int, 1), dg(d.day as int, 10), dg(d.day as int, 1), dg(d.hour as int, 10), dg(d.hour as int, 1), dg(d.minute as int, 10), dg(d.minute as int, 1), dg(d.second as int, 10), dg(d.second as int, 1), rel_byte(d.rel), dg(d.tz_hour as int, 10), dg(d.tz_hour as int, 1), 39u8]);
    let p10 = p9 + fix2(d.tz_minute as int);
    assert(p10 =~= seq![68u8, 58u8, dg(d.year as int, 1000), dg(d.year as int, 100), dg(d.year as int, 10), dg(d.year as int, 1), dg(d.month as int, 10), dg(d.month as int, 1), dg(d.day as int, 10), dg(d.day as int, 1), dg(d.hour as int, 10), dg(d.hour as int, 1), dg(d.minute as int, 10), dg(d.minute as int, 1), dg(d.second as int, 10), dg(d.second as int, 1), rel_byte(d.rel), dg(d.tz_hour as int, 10), dg(d.tz_hour as int, 1), 39u8, dg(d.tz_minute as int, 10), dg(d.tz_minute as int, 1)]);
    assert(iso_text(d) == p10);
}
pub proof fn lemma_iso_text_is_iso_string(d: Date)
    ensures iso_date_string(iso_text22(d), 5, 4)
{
    let b = iso_text22(d);
    let y = d.year as int;
    lemma_dg_digit(y, 1000); lemma_dg_digit(y, 100); lemma_dg_digit(y, 10); lemma_dg_digit(y, 1);
    lemma_dg_digit(d.month as int, 10); lemma_dg_digit(d.month as int, 1); lemma_dg_digit(d.day as int, 10); lemma_dg_digit(d.day as int, 1);
    lemma_dg_digit(d.hour as int, 10); lemma_dg_digit(d.hour as int, 1); lemma_dg_digit(d.minute as int, 10); lemma_dg_digit(d.minute as int, 1);
    lemma_dg_digit(d.second as int, 10); lemma_dg_digit(d.second as int, 1);
    lemma_dg_digit(d.tz_hour as int, 10); lemma_dg_digit(d.tz_hour as int, 1); lemma_dg_digit(d.tz_minute as int, 10); lemma_dg_digit(d.tz_minute as int, 1);
    assert(b.len() == 22);
    assert forall|i: int| 2 <= i < 16 implies is_digit(#[trigger] b[i]) by {
        if i == 2 {} else if i == 3 {} else if i == 4 {} else if i == 5 {} else if i == 6 {} else if i == 7 {} else if i == 8 {}
        else if i == 9 {} else if i == 10 {} else if i == 11 {} else if i == 12 {} else if i == 13 {} else if i == 14 {} else {}
    }
}
pub proof fn lemma_iso_meaning_of_text(d: Date)
    ensures date_fits(d) ==> iso_date_meaning(iso_text22(d), 5, 4) == d
{
    if date_fits(d) {
        let b = iso_text22(d);
        assert(d4(b, 2) == d.year) by {
            let n = d.year as int;
            assert((n / 1000) % 10 * 1000 + (n / 100) % 10 * 100 + (n / 10) % 10 * 10 + (n / 1) % 10 == n) by (nonlinear_arith) requires 0 <= n <= 9999;
        }
        lemma_d2_dg(d.month as int); lemma_d2_dg(d.day as int); lemma_d2_dg(d.hour as int); lemma_d2_dg(d.minute as int);
        lemma_d2_dg(d.second as int); lemma_d2_dg(d.tz_hour as int); lemma_d2_dg(d.tz_minute as int);
        let m = iso_date_meaning(b, 5, 4);
        assert(m.rel == d.rel);
        assert(m.month == d.month && m.day == d.day && m.hour == d.hour && m.minute == d.minute && m.second == d.second);
        assert(m.tz_hour == d.tz_hour && m.tz_minute == d.tz_minute && m.year == d.year);
    }
}
// read(write(d)) == Ok(d) for every Date the writer emits (all fields within their widths), hence write-read-write identity
pub proof fn lemma_date_roundtrip(d: Date, ps: PdfString, st: Store)
    requires date_fits(d), ps.data@ == iso_text(d)
    ensures date_reads(Primitive::String(ps), st) == Ok::<Date, PdfError>(d)
{
    lemma_iso_text22(d);
    lemma_iso_text_is_iso_string(d);
    lemma_iso_date_forms(iso_text22(d), 5, 4);
    lemma_iso_meaning_of_text(d);
    assert(deref1(Primitive::String(ps), st) == Ok::<Primitive, PdfError>(Primitive::String(ps)));
}
pub proof fn lemma_d2_dg(n: int)
    ensures 0 <= n <= 99 ==> (dg(n, 10) - 48) * 10 + (dg(n, 1) - 48) == n
{
    if 0 <= n <= 99 { assert((n / 10) % 10 * 10 + (n / 1) % 10 == n) by (nonlinear_arith) requires 0 <= n <= 99; }
}

//@@ parse_or
//@@ date_from_primitive
//@@ date_to_primitive

// =====================================================================================================================
// Encoding  (ISO 32000-1 9.6.6.1, Table 114: /BaseEncoding name, /Differences [code name name ... code name ...]:
//            "each code is the first index in a sequence of character codes to be changed; the names that follow are
//             assigned to consecutive codes until the next code appears")
// =====================================================================================================================
//@@ enum BaseEncoding
//@@ struct Encoding
// BaseEncoding's codec is DERIVED (name enum with `#[pdf(other)]`): abstract here, a function of its input
pub uninterp spec fn base_reads(p: Primitive, st: Store) -> Result<BaseEncoding>;
pub uninterp spec fn base_writes(b: BaseEncoding) -> Primitive;
impl BaseEncoding {
    #[verifier::external_body]
    pub fn from_primitive<R: Resolve>(p: Primitive, resolve: &R) -> (r: Result<BaseEncoding>) ensures r == base_reads(p, resolve.store()) { unimplemented!() }
    #[verifier::external_body]
    pub fn to_primitive<U: Updater>(&self, update: &mut U) -> (r: Result<Primitive>) ensures r == Ok::<Primitive, PdfError>(base_writes(*self)) { unimplemented!() }
}
pub type DiffMap = Map<u32, SmallString>;
pub struct EncModel { pub base: BaseEncoding, pub diffs: DiffMap }
// the Differences array read left to right: (next code, assignments so far)
pub open spec fn diff_fold(v: Seq<Primitive>, n: int) -> Result<(u32, DiffMap)>
    decreases n
{
    if n <= 0 { Ok((0u32, Map::<u32, SmallString>::empty())) } else {
        match diff_fold(v, n - 1) {
            Err(e) => Err(e),
            Ok((gid, m)) => match v[n - 1] {
                Primitive::Integer(code) => Ok((code as u32, m)),
                // a name after code 2^32-1 has no successor code: an error (hostile input, C14)
                Primitive::Name(name) => if gid == u32::MAX { Err(PdfError::Other) } else { Ok(((gid + 1) as u32, m.insert(gid, name))) },
                _ => Err(PdfError::Other),
            }
        }
    }
}
pub proof fn lemma_fold_err_sticks(v: Seq<Primitive>, i: int, n: int)
    ensures (0 <= i <= n && diff_fold(v, i) is Err) ==> diff_fold(v, n) == diff_fold(v, i)
    decreases n - i
{
    if 0 <= i < n && diff_fold(v, i) is Err { lemma_fold_err_sticks(v, i, n - 1); }
}
pub open spec fn enc_of_dict(m: DMap, st: Store) -> Result<EncModel> {
    let base = match dget(m, "BaseEncoding"@) { Some(p) => base_reads(p, st), None => Ok(BaseEncoding::None) };
    match base {
        Err(e) => Err(e),
        Ok(base) => match dget(m, "Differences"@) {
            None => Ok(EncModel { base: base, diffs: Map::<u32, SmallString>::empty() }),
            Some(p) => match deref1(p, st) {
                Err(e) => Err(e),
                Ok(Primitive::Array(v)) => match diff_fold(v@, v@.len() as int) { Err(e) => Err(e), Ok((gid, d)) => Ok(EncModel { base: base, diffs: d }) },
                Ok(q) => unexpected("Array", q),
            }
        }
    }
}
// a name (the base encoding alone), an encoding dictionary, or a stream (its dictionary)
pub open spec fn enc_of_direct(p: Primitive, st: Store) -> Result<EncModel> {
    match p {
        Primitive::Name(_) => match base_reads(p, st) { Ok(b) => Ok(EncModel { base: b, diffs: Map::<u32, SmallString>::empty() }), Err(e) => Err(e) },
        Primitive::Dictionary(d) => enc_of_dict(d@, st),
        Primitive::Stream(s) => enc_of_dict(s.info@, st),
        _ => Err(PdfError::Other),
    }
}
// one level of indirection, as everywhere in the crate (a reference to a reference is an error)
pub open spec fn encoding_reads(p: Primitive, st: Store) -> Result<EncModel> {
    match p {
        Primitive::Reference(id) => match st.get(id) { Err(e) => Err(e), Ok(q) => enc_of_direct(q, st) },
        _ => enc_of_direct(p, st),
    }
}
pub open spec fn enc_agrees(r: Result<Encoding>, m: Result<EncModel>) -> bool {
    match (r, m) { (Ok(e), Ok(x)) => e.base == x.base && e.differences@ == x.diffs, (Err(a), Err(b)) => a == b, _ => false }
}
pub open spec fn enc_rank(p: Primitive) -> nat { match p { Primitive::Reference(_) => 2, Primitive::Stream(_) => 1, _ => 0 } }
pub proof fn lemma_enc_keys()
    ensures "BaseEncoding"@ != "Differences"@
{
    reveal_strlit("BaseEncoding"); reveal_strlit("Differences");
    assert("BaseEncoding"@.len() != "Differences"@.len());
}
// ---- writer model: entries in ascending code order, a code in front of every run of consecutive codes ---------------
pub open spec fn is_sorted_entries(m: DiffMap, e: Seq<(u32, SmallString)>) -> bool {
    (forall|i: int| 0 <= i < e.len() ==> m.dom().contains((#[trigger] e[i]).0) && m[e[i].0] == e[i].1)
    && (forall|k: u32| m.dom().contains(k) ==> exists|i: int| 0 <= i < e.len() && (#[trigger] e[i]).0 == k)
    && (forall|i: int, j: int| 0 <= i < j < e.len() ==> (#[trigger] e[i]).0 < (#[trigger] e[j]).0)
}
pub open spec fn diff_array(e: Seq<(u32, SmallString)>, n: int) -> Seq<Primitive>
    decreases n
{
    if n <= 0 { Seq::<Primitive>::empty() } else {
        let prev = diff_array(e, n - 1);
        if n >= 2 && e[n - 2].0 + 1 == e[n - 1].0 { prev.push(Primitive::Name(e[n - 1].1)) }
        else { prev.push(Primitive::Integer(e[n - 1].0 as i32)).push(Primitive::Name(e[n - 1].1)) }
    }
}
pub open spec fn enc_dict(base: Primitive, list: Seq<Primitive>, p: Primitive) -> bool {
    p matches Primitive::Dictionary(d) && d@.dom() =~= set!["BaseEncoding"@, "Differences"@] && d@["BaseEncoding"@] == base
        && (d@["Differences"@] matches Primitive::Array(v) && v@ == list)
}
pub open spec fn encoding_writes(x: EncModel, p: Primitive) -> bool {
    if x.diffs.len() == 0 { p == base_writes(x.base) }
    else { exists|e: Seq<(u32, SmallString)>| is_sorted_entries(x.diffs, e) && enc_dict(base_writes(x.base), #[trigger] diff_array(e, e.len() as int), p) }
}
// R6: `let mut diff_list: Vec<_> = self.differences.iter().collect(); diff_list.sort();` -- exactly the entries of the
// map, each once, in ascending (code, name) order = ascending code order (codes are unique)
pub open spec fn entries_view(v: Seq<(&u32, &SmallString)>) -> Seq<(u32, SmallString)> { Seq::new(v.len(), |i: int| (*v[i].0, *v[i].1)) }
#[verifier::external_body]
fn hoist_sorted_entries<'a>(m: &'a HashMap<u32, SmallString>) -> (r: Vec<(&'a u32, &'a SmallString)>)
    ensures is_sorted_entries(m@, entries_view(r@))
{ let mut diff_list: Vec<_> = m.iter().collect(); diff_list.sort_by_key(|e| *e.0); diff_list }

// ---- Encoding: C15 lemma, from the models alone --------------------------------------------------------------------------
pub open spec fn entries_map(e: Seq<(u32, SmallString)>, n: int) -> DiffMap
    decreases n
{
    if n <= 0 { Map::<u32, SmallString>::empty() } else { entries_map(e, n - 1).insert(e[n - 1].0, e[n - 1].1) }
}
pub open spec fn strictly_ascending(e: Seq<(u32, SmallString)>) -> bool {
    forall|i: int, j: int| 0 <= i < j < e.len() ==> (#[trigger] e[i]).0 < (#[trigger] e[j]).0
}
pub proof fn lemma_fold_prefix(v: Seq<Primitive>, w: Seq<Primitive>, k: int)
    requires 0 <= k <= v.len(), k <= w.len(), forall|i: int| 0 <= i < k ==> v[i] == w[i]
    ensures diff_fold(v, k) == diff_fold(w, k)
    decreases k
{
    if k > 0 { lemma_fold_prefix(v, w, k - 1); }
}
pub proof fn lemma_diff_array_len(e: Seq<(u32, SmallString)>, n: int)
    requires 0 <= n <= e.len()
    ensures n <= diff_array(e, n).len() <= 2 * n
    decreases n
{
    if n > 0 { lemma_diff_array_len(e, n - 1); }
}
// reading the array the writer made from the first n entries gives those n assignments (codes within i32: see NOTES)
pub proof fn lemma_diff_roundtrip(e: Seq<(u32, SmallString)>, n: int)
    requires strictly_ascending(e), 0 <= n <= e.len(), forall|i: int| 0 <= i < e.len() ==> (#[trigger] e[i]).0 <= i32::MAX
    ensures
        n == 0 ==> diff_fold(diff_array(e, n), diff_array(e, n).len() as int) == Ok::<(u32, DiffMap), PdfError>((0u32, entries_map(e, 0))),
        n > 0 ==> diff_fold(diff_array(e, n), diff_array(e, n).len() as int) == Ok::<(u32, DiffMap), PdfError>(((e[n - 1].0 + 1) as u32, entries_map(e, n))),
    decreases n
{
    if n > 0 {
        lemma_diff_roundtrip(e, n - 1);
        let prev = diff_array(e, n - 1);
        let cur = diff_array(e, n);
        let k = prev.len() as int;
        let g = e[n - 1].0;
        assert(g <= i32::MAX);
        assert(forall|i: int| 0 <= i < k ==> cur[i] == prev[i]);
        lemma_fold_prefix(cur, prev, k);
        if n >= 2 && e[n - 2].0 + 1 == g {
            assert(cur == prev.push(Primitive::Name(e[n - 1].1)));
            assert(cur.len() == k + 1 && cur[k] == Primitive::Name(e[n - 1].1));
            assert(diff_fold(cur, k) == Ok::<(u32, DiffMap), PdfError>((g, entries_map(e, n - 1))));
        } else {
            assert(cur == prev.push(Primitive::Integer(g as i32)).push(Primitive::Name(e[n - 1].1)));
            assert(cur.len() == k + 2 && cur[k] == Primitive::Integer(g as i32) && cur[k + 1] == Primitive::Name(e[n - 1].1));
            assert((g as i32) as u32 == g);
            assert(diff_fold(cur, k) is Ok);
            assert(diff_fold(cur, k + 1) == Ok::<(u32, DiffMap), PdfError>((g, entries_map(e, n - 1))));
        }
    }
}
pub proof fn lemma_entries_map(e: Seq<(u32, SmallString)>, n: int)
    requires strictly_ascending(e), 0 <= n <= e.len()
    ensures
        forall|i: int| 0 <= i < n ==> entries_map(e, n).dom().contains((#[trigger] e[i]).0) && entries_map(e, n)[e[i].0] == e[i].1,
        forall|k: u32| entries_map(e, n).dom().contains(k) ==> exists|i: int| 0 <= i < n && (#[trigger] e[i]).0 == k,
    decreases n
{
    if n > 0 {
        lemma_entries_map(e, n - 1);
        let m0 = entries_map(e, n - 1);
        let m1 = entries_map(e, n);
        assert forall|i: int| 0 <= i < n implies m1.dom().contains((#[trigger] e[i]).0) && m1[e[i].0] == e[i].1 by {
            if i < n - 1 { assert(e[i].0 < e[n - 1].0); }
        }
        assert forall|k: u32| m1.dom().contains(k) implies exists|i: int| 0 <= i < n && (#[trigger] e[i]).0 == k by {
            if k == e[n - 1].0 { assert(e[n - 1].0 == k); } else { assert(m0.dom().contains(k)); let i = choose|i: int| 0 <= i < n - 1 && (#[trigger] e[i]).0 == k; assert(e[i].0 == k); }
        }
    }
}
// reading what the writer emitted gives back the differences map and a base that writes identically
// (hypothesis on the DERIVED BaseEncoding codec: it writes a name, and write-read-write is the identity -- units/expansions)
pub proof fn lemma_encoding_roundtrip(x: EncModel, p: Primitive, st: Store, b2: BaseEncoding)
    requires
        encoding_writes(x, p), x.diffs.dom().finite(),
        base_writes(x.base) is Name, base_reads(base_writes(x.base), st) == Ok::<BaseEncoding, PdfError>(b2), base_writes(b2) == base_writes(x.base),
        forall|k: u32| x.diffs.dom().contains(k) ==> k <= i32::MAX,
    ensures
        encoding_reads(p, st) == Ok::<EncModel, PdfError>(EncModel { base: b2, diffs: x.diffs }),
        encoding_writes(EncModel { base: b2, diffs: x.diffs }, p),
{
    lemma_enc_keys();
    if x.diffs.len() == 0 {
        assert(x.diffs.dom().len() == 0);
        assert(x.diffs.dom() =~= Set::<u32>::empty());
        assert(x.diffs =~= Map::<u32, SmallString>::empty());
    } else {
        let e = choose|e: Seq<(u32, SmallString)>| is_sorted_entries(x.diffs, e) && enc_dict(base_writes(x.base), #[trigger] diff_array(e, e.len() as int), p);
        let n = e.len() as int;
        assert(strictly_ascending(e));
        assert forall|i: int| 0 <= i < e.len() implies (#[trigger] e[i]).0 <= i32::MAX by { assert(x.diffs.dom().contains(e[i].0)); }
        lemma_diff_roundtrip(e, n);
        lemma_entries_map(e, n);
        let m = entries_map(e, n);
        assert(m =~= x.diffs) by {
            assert forall|k: u32| m.dom().contains(k) == x.diffs.dom().contains(k) by {
                if m.dom().contains(k) { let i = choose|i: int| 0 <= i < n && (#[trigger] e[i]).0 == k; assert(x.diffs.dom().contains(e[i].0)); }
                if x.diffs.dom().contains(k) { let i = choose|i: int| 0 <= i < e.len() && (#[trigger] e[i]).0 == k; assert(m.dom().contains(e[i].0)); }
            }
            assert forall|k: u32| m.dom().contains(k) implies m[k] == x.diffs[k] by {
                let i = choose|i: int| 0 <= i < n && (#[trigger] e[i]).0 == k; assert(m[e[i].0] == e[i].1 && x.diffs[e[i].0] == e[i].1);
            }
        }
        let d = p->Dictionary_0;
        assert(dget(d@, "BaseEncoding"@) == Some(base_writes(x.base)));
        let arr = d@["Differences"@];
        assert(dget(d@, "Differences"@) == Some(arr));
        assert(deref1(arr, st) == Ok::<Primitive, PdfError>(arr));
    }
}

//@@ encoding_from_primitive
//@@ encoding_to_primitive

// =====================================================================================================================
// generic element codecs (as in units/expansions_hw), Ref<T>, conversions
// =====================================================================================================================
pub trait Object: Sized {
    spec fn reads(p: Primitive, st: Store) -> Result<Self>;
    fn from_primitive<R: Resolve>(p: Primitive, resolve: &R) -> (r: Result<Self>)
        ensures r == Self::reads(p, resolve.store());
}
pub trait ObjectWrite: Sized {
    spec fn writes(&self) -> Primitive;
    spec fn wfail(&self) -> bool;
    fn to_primitive<U: Updater>(&self, update: &mut U) -> (r: Result<Primitive>)
        ensures
            r matches Ok(p) ==> p == self.writes(),
            r is Err ==> self.wfail();
}
// object/mod.rs:170  `struct Ref<T> { inner: PlainRef, _marker: PhantomData<T> }`
#[verifier::external_body]
#[verifier::accept_recursive_types(T)]
pub struct Ref<T> { inner: PlainRef, _marker: core::marker::PhantomData<T> }
impl<T> Ref<T> {
    pub uninterp spec fn id(&self) -> PlainRef;
    // object/mod.rs:194
    #[verifier::external_body]
    pub fn get_inner(&self) -> (r: PlainRef) ensures r == self.id() { unimplemented!() }
}
pub open spec fn ref_ids<T>(k: Seq<Ref<T>>) -> Seq<PlainRef> { Seq::new(k.len(), |i: int| k[i].id()) }
// From<i32> / From<Vec<Primitive>> / From<Dictionary> for Primitive (primitive.rs:620-659), spelled `.into()` in the source
#[verifier::external_body]
fn hoist_i32_into(x: i32) -> (r: Primitive) ensures r == Primitive::Integer(x) { unimplemented!() }
#[verifier::external_body]
fn hoist_vec_into(x: Vec<Primitive>) -> (r: Primitive) ensures r == Primitive::Array(x) { unimplemented!() }
#[verifier::external_body]
fn hoist_dict_into(x: Dictionary) -> (r: Primitive) ensures r == Primitive::Dictionary(x) { unimplemented!() }
// `vec![a.into(), b.into()]` at i32
#[verifier::external_body]
fn hoist_int_pair(a: i32, b: i32) -> (r: Vec<Primitive>) ensures r@ == seq![Primitive::Integer(a), Primitive::Integer(b)] { unimplemented!() }
// `a == b` on str, as text (R9)
#[verifier::external_body]
fn name_eq(a: &str, b: &str) -> (r: bool) ensures r == (a@ == b@) { a == b }
// [A: Rust] an allocation holds at most isize::MAX bytes and (i32, T) occupies at least 4
#[verifier::external_body]
pub proof fn axiom_vec_len_bound<T>(v: &Vec<(i32, T)>)
    ensures v@.len() <= 0x1fff_ffff_ffff_ffff
{}

// =====================================================================================================================
// Matrix  (ISO 32000-1 8.3.3: a transformation matrix is written as the array [a b c d e f])
// =====================================================================================================================
//@@ struct Matrix
// the operand source of content.rs (R6, as in units/ops): a vector consumed front to back
pub struct Args { pub v: Vec<Primitive>, pub i: usize }
impl Args {
    pub open spec fn wf(&self) -> bool { self.i <= self.v@.len() }
    pub open spec fn avail(&self) -> int { self.v@.len() - self.i }
    pub open spec fn at(&self, k: int) -> Primitive { self.v@[self.i + k] }
    // Iterator::next
    #[verifier::external_body]
    pub fn next(&mut self) -> (r: Option<Primitive>)
        requires old(self).wf()
        ensures final(self).v == old(self).v, final(self).wf(),
            old(self).i < old(self).v@.len() ==> r == Some(old(self).v@[old(self).i as int]) && final(self).i == old(self).i + 1,
            old(self).i >= old(self).v@.len() ==> r is None && final(self).i == old(self).i,
    { unimplemented!() }
    // Vec::into_iter
    #[verifier::external_body]
    pub fn from_vec(v: Vec<Primitive>) -> (r: Args)
        ensures r.v == v, r.i == 0
    { unimplemented!() }
}
// `args.next().ok_or(PdfError::NoOpArg)?`
#[verifier::external_body]
fn hoist_ok_or_nooparg(x: Option<Primitive>) -> (r: Result<Primitive>)
    ensures r == (match x { Some(p) => Ok::<Primitive, PdfError>(p), None => Err::<Primitive, PdfError>(PdfError::NoOpArg) })
{ x.ok_or(PdfError::NoOpArg) }
pub open spec fn is_num(p: Primitive) -> bool { p is Integer || p is Number }
pub open spec fn num_of(p: Primitive) -> f32 { match p { Primitive::Integer(n) => f32_of_i32(n), Primitive::Number(f) => f, _ => 0f32 } }
// six numbers in the order a b c d e f (further elements are ignored); anything else is an error
pub open spec fn matrix_ok(p: Primitive) -> bool {
    p matches Primitive::Array(v) && v@.len() >= 6 && is_num(v@[0]) && is_num(v@[1]) && is_num(v@[2]) && is_num(v@[3]) && is_num(v@[4]) && is_num(v@[5])
}
pub open spec fn matrix_value(p: Primitive) -> Matrix {
    let v = p->Array_0@;
    Matrix { a: num_of(v[0]), b: num_of(v[1]), c: num_of(v[2]), d: num_of(v[3]), e: num_of(v[4]), f: num_of(v[5]) }
}
pub open spec fn is_numbers6(v: Seq<Primitive>, m: Matrix) -> bool {
    v.len() == 6 && v[0] == Primitive::Number(m.a) && v[1] == Primitive::Number(m.b) && v[2] == Primitive::Number(m.c)
        && v[3] == Primitive::Number(m.d) && v[4] == Primitive::Number(m.e) && v[5] == Primitive::Number(m.f)
}
// `Primitive::array::<f32, _, _, _>([a, b, c, d, e, f].iter(), update)`: maps f32::to_primitive (= Number) over the slice
// in order and never fails (primitive.rs:76-81, object/mod.rs:562-566)
#[verifier::external_body]
fn hoist_array6_f32<U: Updater>(a: f32, b: f32, c: f32, d: f32, e: f32, f: f32, update: &mut U) -> (r: Result<Primitive>)
    ensures r matches Ok(Primitive::Array(v)) && is_numbers6(v@, Matrix { a: a, b: b, c: c, d: d, e: e, f: f })
{ unimplemented!() }
//@@ number
//@@ matrix
//@@ matrix_from_primitive
//@@ matrix_to_primitive
pub proof fn lemma_matrix_roundtrip(x: Matrix, v: Vec<Primitive>)
    requires is_numbers6(v@, x)
    ensures matrix_ok(Primitive::Array(v)), matrix_value(Primitive::Array(v)) == x
{}

// =====================================================================================================================
// Action  (ISO 32000-1 12.6.2 Table 193: /S (required) the action type; 12.6.4.2 Table 199: a go-to action has
//          /S /GoTo and /D (required) the destination)
// =====================================================================================================================
// MaybeNamedDest / Dest codecs: abstract here (hand-written, types.rs:1343-1469 -- not reached, see NOTES)
#[verifier::external_body]
pub struct MaybeNamedDest { p: core::marker::PhantomData<()> }
pub uninterp spec fn mnd_reads(p: Primitive, st: Store) -> Result<MaybeNamedDest>;
pub uninterp spec fn mnd_writes(x: MaybeNamedDest) -> Primitive;
pub uninterp spec fn mnd_wfail(x: MaybeNamedDest) -> bool;
impl MaybeNamedDest {
    #[verifier::external_body]
    pub fn from_primitive<R: Resolve>(p: Primitive, resolve: &R) -> (r: Result<MaybeNamedDest>) ensures r == mnd_reads(p, resolve.store()) { unimplemented!() }
    #[verifier::external_body]
    pub fn to_primitive<U: Updater>(&self, update: &mut U) -> (r: Result<Primitive>)
        ensures r matches Ok(q) ==> q == mnd_writes(*self), r is Err ==> mnd_wfail(*self)
    { unimplemented!() }
}
//@@ enum Action
pub open spec fn action_of_dict(d: Dictionary, st: Store) -> Result<Action> {
    match dget(d@, "S"@) {
        None => Err(PdfError::NoneError),
        Some(Primitive::Name(s)) => if s@ == "GoTo"@ {
            match dget(d@, "D"@) {
                None => Err(PdfError::NoneError),
                Some(dp) => match mnd_reads(dp, st) { Ok(dest) => Ok(Action::Goto(dest)), Err(e) => Err(PdfError::Try { source: Box::new(e) }) },
            }
        } else { Ok(Action::Other(d)) },
        Some(x) => unexpected("Name", x),
    }
}
pub open spec fn action_reads(p: Primitive, st: Store) -> Result<Action> {
    then(deref1(p, st), |q: Primitive| match q { Primitive::Dictionary(d) => action_of_dict(d, st), _ => wrap(unexpected::<Action>("Dictionary", q)) })
}
pub open spec fn is_goto_dict(p: Primitive, dest: Primitive) -> bool {
    p matches Primitive::Dictionary(d) && d@.dom() =~= set!["S"@, "D"@] && d@["S"@] == Primitive::Name(sstr("GoTo")) && d@["D"@] == dest
}
pub proof fn lemma_action_keys()
    ensures "S"@ != "D"@
{
    reveal_strlit("S"); reveal_strlit("D");
    assert("S"@[0] != "D"@[0]);
}
//@@ action_from_primitive
//@@ action_to_primitive
// read(write(Goto(dest))) == Ok(Goto(dest')) where dest' is what the destination codec reads back
pub proof fn lemma_action_goto_roundtrip(dest: MaybeNamedDest, p: Primitive, st: Store, dest2: MaybeNamedDest)
    requires is_goto_dict(p, mnd_writes(dest)), mnd_reads(mnd_writes(dest), st) == Ok::<MaybeNamedDest, PdfError>(dest2)
    ensures action_reads(p, st) == Ok::<Action, PdfError>(Action::Goto(dest2))
{
    lemma_action_keys();
    let d = p->Dictionary_0;
    assert(dget(d@, "S"@) == Some(Primitive::Name(sstr("GoTo"))));
    assert(dget(d@, "D"@) == Some(mnd_writes(dest)));
    assert(deref1(p, st) == Ok::<Primitive, PdfError>(p));
}
// an action of another type is kept as its dictionary: read(write(Other(d))) == Ok(Other(d)) whenever d has the required /S
pub proof fn lemma_action_other_roundtrip(d: Dictionary, st: Store)
    requires dget(d@, "S"@) matches Some(Primitive::Name(s)) && s@ != "GoTo"@
    ensures action_reads(Primitive::Dictionary(d), st) == Ok::<Action, PdfError>(Action::Other(d))
{
    assert(deref1(Primitive::Dictionary(d), st) == Ok::<Primitive, PdfError>(Primitive::Dictionary(d)));
}

// =====================================================================================================================
// NumberTree<T>  (ISO 32000-1 7.9.7 Table 37: /Kids array of references (intermediate), /Nums [key1 value1 key2 value2 ...]
//                 (leaf), /Limits [least greatest])
// =====================================================================================================================
//@@ struct NumberTree
//@@ enum NumberTreeNode
pub enum NtNode<T> { Leaf(Seq<(i32, T)>), Intermediate(Seq<PlainRef>) }
pub struct NtModel<T> { pub limits: Option<(i32, i32)>, pub node: NtNode<T> }
pub open spec fn nt_view<T>(t: NumberTree<T>) -> NtModel<T> {
    NtModel { limits: t.limits, node: match t.node {
        NumberTreeNode::Leaf(items) => NtNode::Leaf(items@),
        NumberTreeNode::Intermediate(kids) => NtNode::Intermediate(ref_ids(kids@)) } }
}
pub open spec fn limits_reads(m: DMap, st: Store) -> Result<Option<(i32, i32)>> {
    match dget(m, "Limits"@) {
        None => Ok(None),
        Some(l) => match deref1(l, st) {
            Err(e) => Err(e),
            Ok(Primitive::Array(v)) => if v@.len() != 2 { Err(PdfError::Other) } else {
                match int_of(v@[0]) { Err(e) => Err(PdfError::Try { source: Box::new(e) }), Ok(a) =>
                match int_of(v@[1]) { Err(e) => Err(PdfError::Try { source: Box::new(e) }), Ok(b) => Ok(Some((a, b))) } } },
            Ok(q) => wrap(unexpected::<Option<(i32, i32)>>("Array", q)),
        }
    }
}
// every kid is an indirect reference (the first that is not: its error)
pub open spec fn refs_read(v: Seq<Primitive>, n: int) -> Result<Seq<PlainRef>>
    decreases n
{
    if n <= 0 { Ok(Seq::<PlainRef>::empty()) } else {
        match refs_read(v, n - 1) { Err(e) => Err(e), Ok(s) => match v[n - 1] { Primitive::Reference(id) => Ok(s.push(id)), q => unexpected("Reference", q) } }
    }
}
// key_i value_i pairs in order: pair i is (v[2i], v[2i+1]); a trailing odd element is ignored
pub open spec fn pairs_read<T: Object>(v: Seq<Primitive>, n: int, st: Store) -> Result<Seq<(i32, T)>>
    decreases n
{
    if n <= 0 { Ok(Seq::<(i32, T)>::empty()) } else {
        match pairs_read::<T>(v, n - 1, st) { Err(e) => Err(e), Ok(s) =>
            match int_of(v[2 * (n - 1)]) { Err(e) => Err(PdfError::Try { source: Box::new(e) }), Ok(idx) =>
            match T::reads(v[2 * (n - 1) + 1], st) { Err(e) => Err(PdfError::Try { source: Box::new(e) }), Ok(val) => Ok(s.push((idx, val))) } } }
    }
}
pub open spec fn nt_of_dict<T: Object>(m: DMap, st: Store) -> Result<NtModel<T>> {
    match limits_reads(m, st) {
        Err(e) => Err(e),
        Ok(lim) => match dget(m, "Kids"@) {
            Some(k) => match deref1(k, st) {
                Err(e) => Err(e),
                Ok(Primitive::Array(v)) => match refs_read(v@, v@.len() as int) { Err(e) => Err(PdfError::Try { source: Box::new(e) }), Ok(ids) => Ok(NtModel { limits: lim, node: NtNode::Intermediate(ids) }) },
                Ok(q) => unexpected("Array", q),
            },
            None => match dget(m, "Nums"@) {
                Some(Primitive::Array(v)) => match pairs_read::<T>(v@, v@.len() as int / 2, st) { Err(e) => Err(e), Ok(items) => Ok(NtModel { limits: lim, node: NtNode::Leaf(items) }) },
                Some(q) => unexpected("Array", q),
                None => Ok(NtModel { limits: lim, node: NtNode::Intermediate(Seq::<PlainRef>::empty()) }),
            }
        }
    }
}
pub open spec fn nt_reads<T: Object>(p: Primitive, st: Store) -> Result<NtModel<T>> {
    then(deref1(p, st), |q: Primitive| match q { Primitive::Dictionary(d) => nt_of_dict::<T>(d@, st), _ => unexpected("Dictionary", q) })
}
pub open spec fn nt_agrees<T>(r: Result<NumberTree<T>>, m: Result<NtModel<T>>) -> bool {
    match (r, m) { (Ok(t), Ok(x)) => nt_view(t) == x, (Err(a), Err(b)) => a == b, _ => false }
}
pub proof fn lemma_nt_keys()
    ensures "Limits"@ != "Kids"@, "Limits"@ != "Nums"@, "Kids"@ != "Nums"@
{
    reveal_strlit("Limits"); reveal_strlit("Kids"); reveal_strlit("Nums");
    assert("Limits"@.len() != "Kids"@.len());
    assert("Limits"@.len() != "Nums"@.len());
    assert("Kids"@[0] != "Nums"@[0]);
}
pub proof fn lemma_pairs_err_sticks<T: Object>(v: Seq<Primitive>, i: int, n: int, st: Store)
    ensures (0 <= i <= n && pairs_read::<T>(v, i, st) is Err) ==> pairs_read::<T>(v, n, st) == pairs_read::<T>(v, i, st)
    decreases n - i
{
    if 0 <= i < n && pairs_read::<T>(v, i, st) is Err { lemma_pairs_err_sticks::<T>(v, i, n - 1, st); }
}
// R7: `ARR.iter().map(|kid| Ref::<NumberTree<T>>::from_primitive(kid.clone(), resolve)).collect::<Result<Vec<_>>>()`
// Ref::from_primitive (object/mod.rs:201) is `Ok(Ref::new(p.into_reference()?))`; collect stops at the first error
#[verifier::external_body]
fn hoist_read_refs<T, R: Resolve>(arr: &Vec<Primitive>, resolve: &R) -> (r: Result<Vec<Ref<T>>>)
    ensures (match (r, refs_read(arr@, arr@.len() as int)) { (Ok(k), Ok(ids)) => ref_ids(k@) == ids, (Err(a), Err(b)) => a == b, _ => false })
{ unimplemented!() }
// R7: `kids.iter().map(|r| r.get_inner().into()).collect_vec()`
#[verifier::external_body]
fn hoist_refs_to_prims<T>(kids: &Vec<Ref<T>>) -> (r: Vec<Primitive>)
    ensures r@ == refs_prims(ref_ids(kids@))
{ unimplemented!() }
// writer model
pub open spec fn refs_prims(ids: Seq<PlainRef>) -> Seq<Primitive> { Seq::new(ids.len(), |i: int| Primitive::Reference(ids[i])) }
pub open spec fn nums_array<T: ObjectWrite>(items: Seq<(i32, T)>, n: int) -> Seq<Primitive>
    decreases n
{
    if n <= 0 { Seq::<Primitive>::empty() } else { nums_array(items, n - 1).push(Primitive::Integer(items[n - 1].0)).push(items[n - 1].1.writes()) }
}
pub open spec fn is_array_of(p: Primitive, s: Seq<Primitive>) -> bool { p matches Primitive::Array(v) && v@ == s }
pub open spec fn nt_writes<T: ObjectWrite>(x: NtModel<T>, p: Primitive) -> bool {
    p matches Primitive::Dictionary(d)
    && d@.dom() =~= (if x.limits is Some { set!["Limits"@] } else { Set::<Seq<char>>::empty() }).insert(if x.node is Leaf { "Nums"@ } else { "Kids"@ })
    && (x.limits matches Some(l) ==> is_array_of(d@["Limits"@], seq![Primitive::Integer(l.0), Primitive::Integer(l.1)]))
    && (x.node matches NtNode::Leaf(items) ==> is_array_of(d@["Nums"@], nums_array(items, items.len() as int)))
    && (x.node matches NtNode::Intermediate(ids) ==> is_array_of(d@["Kids"@], refs_prims(ids)))
}
//@@ numbertree_from_primitive
//@@ numbertree_to_primitive
// reading the /Nums array the writer made gives the same keys in the same order, each value as its own codec reads it back
pub open spec fn rt_strong<T: Object + ObjectWrite>(t: T, st: Store) -> bool { T::reads(t.writes(), st) == Ok::<T, PdfError>(t) }
pub proof fn lemma_nums_roundtrip<T: Object + ObjectWrite>(items: Seq<(i32, T)>, n: int, st: Store)
    requires 0 <= n <= items.len(), forall|i: int| 0 <= i < items.len() ==> rt_strong((#[trigger] items[i]).1, st)
    ensures nums_array(items, n).len() == 2 * n, pairs_read::<T>(nums_array(items, n), n, st) == Ok::<Seq<(i32, T)>, PdfError>(items.subrange(0, n))
    decreases n
{
    if n > 0 {
        lemma_nums_roundtrip(items, n - 1, st);
        let prev = nums_array(items, n - 1);
        let cur = nums_array(items, n);
        lemma_pairs_prefix::<T>(cur, prev, n - 1, st);
        assert(cur[2 * (n - 1)] == Primitive::Integer(items[n - 1].0));
        assert(cur[2 * (n - 1) + 1] == items[n - 1].1.writes());
        assert(rt_strong(items[n - 1].1, st));
        assert(items.subrange(0, n - 1).push(items[n - 1]) =~= items.subrange(0, n));
    } else {
        assert(items.subrange(0, 0) =~= Seq::<(i32, T)>::empty());
    }
}
pub proof fn lemma_kids_roundtrip(ids: Seq<PlainRef>, n: int)
    requires 0 <= n <= ids.len()
    ensures refs_read(refs_prims(ids), n) == Ok::<Seq<PlainRef>, PdfError>(ids.subrange(0, n))
    decreases n
{
    if n > 0 {
        lemma_kids_roundtrip(ids, n - 1);
        assert(ids.subrange(0, n - 1).push(ids[n - 1]) =~= ids.subrange(0, n));
    } else {
        assert(ids.subrange(0, 0) =~= Seq::<PlainRef>::empty());
    }
}
// whole value: what the writer emitted for x reads back as x (every leaf value round-tripping through its own codec)
pub proof fn lemma_numbertree_roundtrip<T: Object + ObjectWrite>(x: NtModel<T>, p: Primitive, st: Store)
    requires nt_writes(x, p), x.node matches NtNode::Leaf(items) ==> forall|i: int| 0 <= i < items.len() ==> rt_strong((#[trigger] items[i]).1, st)
    ensures nt_reads::<T>(p, st) == Ok::<NtModel<T>, PdfError>(x)
{
    lemma_nt_keys();
    let d = p->Dictionary_0;
    assert(deref1(p, st) == Ok::<Primitive, PdfError>(p));
    match x.limits {
        Some(l) => {
            let lp = d@["Limits"@];
            assert(dget(d@, "Limits"@) == Some(lp));
            assert(deref1(lp, st) == Ok::<Primitive, PdfError>(lp));
            let v = lp->Array_0;
            assert(int_of(v@[0]) == Ok::<i32, PdfError>(l.0) && int_of(v@[1]) == Ok::<i32, PdfError>(l.1));
            assert(limits_reads(d@, st) == Ok::<Option<(i32, i32)>, PdfError>(Some(l)));
        }
        None => { assert(dget(d@, "Limits"@) is None); }
    }
    match x.node {
        NtNode::Leaf(items) => {
            assert(dget(d@, "Kids"@) is None);
            let np = d@["Nums"@];
            assert(dget(d@, "Nums"@) == Some(np));
            let n = items.len() as int;
            lemma_nums_roundtrip(items, n, st);
            assert(items.subrange(0, n) =~= items);
            assert((2 * n) / 2 == n);
        }
        NtNode::Intermediate(ids) => {
            let kp = d@["Kids"@];
            assert(dget(d@, "Kids"@) == Some(kp));
            assert(deref1(kp, st) == Ok::<Primitive, PdfError>(kp));
            lemma_kids_roundtrip(ids, ids.len() as int);
            assert(ids.subrange(0, ids.len() as int) =~= ids);
            assert(refs_prims(ids).len() == ids.len());
        }
    }
}
pub proof fn lemma_pairs_prefix<T: Object>(v: Seq<Primitive>, w: Seq<Primitive>, k: int, st: Store)
    requires 0 <= k, 2 * k <= v.len(), 2 * k <= w.len(), forall|i: int| 0 <= i < 2 * k ==> v[i] == w[i]
    ensures pairs_read::<T>(v, k, st) == pairs_read::<T>(w, k, st)
    decreases k
{
    if k > 0 { lemma_pairs_prefix::<T>(v, w, k - 1, st); }
}

}
fn main(){}
