"""Unit `hwpairs2` (C15; C14/C01 for the readers): hand-written reader/writer pairs Date, Encoding, NumberTree, Matrix, Dest,
MaybeNamedDest, Action."""
P = 'pdf/src/primitive.rs'
T = 'pdf/src/object/types.rs'
E = 'pdf/src/encoding.rs'
C = 'pdf/src/content.rs'
RT = ['C15']
RD = ['C15', 'C14', 'C01']


def sig(find, replace, rule='R2'):
    return {'where': 'sig', 'rule': rule, 'find': find, 'replace': replace}


# R2: a trait-impl method is emitted as a free fn: `Self` spelled out, `&impl Resolve` / `&mut impl Updater` as named
# generics (Verus mistypes `impl Trait` arguments in trait-related specs), `_` parameters named
def reader(container, new, ty, ensures, generics='', extra=(), props=RD, file=T, **kw):
    rw = [{'where': 'sig', 'rule': 'R2', 'regex': r'\bfn from_primitive\(', 'replace': 'fn from_primitive<%sR__: Resolve>(' % generics},
          {'where': 'sig', 'rule': 'R2', 'regex': r'&impl Resolve', 'replace': '&R__'},
          {'where': 'sig', 'rule': 'R2', 'regex': r'Result<Self>', 'replace': 'Result<%s>' % ty}]
    d = {'kind': 'fn', 'file': file, 'container': container, 'name': 'from_primitive', 'rename': new, 'verus_name': new,
         'props': props, 'ensures': ensures, 'rewrites': rw + list(extra)}
    d.update(kw)
    return d


def writer(container, new, ty, ensures, generics='', extra=(), props=RT, file=T, **kw):
    rw = [{'where': 'sig', 'rule': 'R2', 'regex': r'\bfn to_primitive\(&self', 'replace': 'fn to_primitive<%sU__: Updater>(this: &%s' % (generics, ty)},
          {'where': 'sig', 'rule': 'R2', 'regex': r'&mut impl (pdf::object::)?Updater', 'replace': '&mut U__'}]
    d = {'kind': 'fn', 'file': file, 'container': container, 'name': 'to_primitive', 'rename': new, 'verus_name': new,
         'props': props, 'ensures': ensures, 'rewrites': rw + list(extra)}
    d.update(kw)
    return d


UNUSED_R = sig('_: &R__', 'unused_r: &R__')
SELF = lambda n=1: {'rule': 'R2', 'regex': r'\bself\b', 'replace': 'this', 'count': n}   # `&self` of the trait method is the free fn's `this`
R_PARAM = [sig('r: &R__', 'r_: &R__'), {'rule': 'R2', 'find': 'p.resolve(r)', 'replace': 'p.resolve(r_)'}]

# ---- Date ---------------------------------------------------------------------------------------------------------------
DATE_READER_RW = R_PARAM + [
    {'rule': 'R7', 'find': 'str::from_utf8(&data)?', 'replace': 'hoist_from_utf8(&data)?'},
    {'rule': 'R1', 'find': 'if s.starts_with("D:") {', 'replace': 'proof { lemma_date_literals(); } if s.starts_with("D:") {'},
    {'rule': 'R7', 'find': 's.starts_with("D:")', 'replace': 'hoist_starts_with(s, "D:")'},
    {'rule': 'R7', 'find': 's.get(2..6)', 'replace': 'hoist_str_get(s, 2..6)'},
    {'rule': 'R7', 'find': 'str::parse::<u16>(year)?', 'replace': 'hoist_parse_u16(year)?'},
    {'rule': 'R7', 'find': "s.find(['+', '-', 'Z'])", 'replace': "hoist_find3(s, ['+', '-', 'Z'])"},
    # R9: match on a str slice against literals -> if-chain over str_eq; the scrutinee is bound first
    {'rule': 'R9', 'regex': r'match &s\[p\.\.p\+1\] \{', 'replace': '{ proof { lemma_zone_pattern(); lemma_first_zone(str_bytes(s), 0, p as int); lemma_sub1(str_bytes(s), p as int); } let sign__ = &s[p..p+1]; match sign__ {'},
    {'rule': 'R7', 'find': '&s[p..p+1]', 'replace': 'hoist_str_slice(s, p, p+1)'},
    {'rule': 'R9', 'regex': r'("(?:[^"\\]|\\.)*")\s*=>\s*TimeRel', 'count': 3, 'replace': r'__ARM (str_eq(sign__, \1)) { TimeRel'},
    {'rule': 'R9', 'regex': r'match\s+sign__\s*\{\s*__ARM', 'replace': 'if'},
    {'rule': 'R9', 'regex': r'\s*,?\s*__ARM', 'count': 2, 'replace': ' } else if'},
    {'rule': 'R9', 'regex': r',\s*_\s*=>\s*unreachable!\(\)\s*\}', 'replace': ' } else { unreachable!() } }'},
    {'rule': 'R7', 'find': '&s[..p]', 'replace': 'hoist_str_to(s, p)'},
    {'rule': 'R7', 'find': '&s[p+1..]', 'replace': 'hoist_str_from(s, p+1)'},
    {'rule': 'R1', 'find': 'None => (s, TimeRel::Universal, "")', 'replace': 'None => { proof { lemma_zone_pattern(); lemma_first_zone(str_bytes(s), 0, str_bytes(s).len() as int); } (s, TimeRel::Universal, "") }'},
]
DATE_WRITER_RW = [
    SELF(1), sig('_update: &mut U__', 'update_: &mut U__'),
    # the placeholders of the format string become the arguments, in the order the source names them (a swapped
    # placeholder pair is therefore a swapped argument pair of the helper, not a lost anchor)
    {'rule': 'R7', 'regex': r"""format!\("D:\{(\w+):04\}\{(\w+):02\}\{(\w+):02\}\{(\w+):02\}\{(\w+):02\}\{(\w+):02\}\{(\w+)\}\{(\w+):02\}'\{(\w+):02\}"\)""",
     'replace': r'hoist_format_date(\1, \2, \3, \4, \5, \6, \7, \8, \9)'},
    {'rule': 'R1', 'find': 'let o = match rel {', 'replace': 'proof { lemma_date_literals(); lemma_fmt_is_iso(*this); } let o = match rel {'},
    {'rule': 'R7', 'find': 'data: s.into()', 'replace': 'data: hoist_string_into_bytes(s)'},
]

# ---- Encoding -----------------------------------------------------------------------------------------------------------
ENC_READER_RW = [
    {'rule': 'R2', 'regex': r'Self::from_primitive\(', 'count': 2, 'replace': 'encoding_from_primitive('},
    {'rule': 'R1', 'find': 'let base = match dict.remove("BaseEncoding") {', 'replace': 'proof { lemma_enc_keys(); } let ghost dict0 = dict@; let base = match dict.remove("BaseEncoding") {'},
    {'rule': 'R2', 'find': 'let mut gid = 0;', 'replace': 'let mut gid: u32 = 0;'},
    {'rule': 'R2', 'find': 'let mut differences = HashMap::new();', 'replace': 'let mut differences: HashMap<u32, SmallString> = HashMap::new();'},
    # R6: by-value `for part in <Vec>` -> index loop over the same Vec (elements taken by clone)
    {'rule': 'R6', 'regex': r'for part in (p\.resolve\(resolve\)\?\.into_array\(\)\?) \{',
     'replace': r'let parts__ = \1; let mut i__: usize = 0; while i__ < parts__.len() { let part = parts__[i__].clone(); i__ += 1; proof { lemma_fold_err_sticks(parts__@, i__ as int, parts__@.len() as int); }'},
]
ENC_READER_LOOPS = {1: {'invariant': [
    'i__ <= parts__.len()',
    ('fold_prefix', 'diff_fold(parts__@, i__ as int) == Ok::<(u32, DiffMap), PdfError>((gid, differences@))')],
    'decreases': 'parts__.len() - i__'}}
ENC_WRITER_RW = [
    SELF('*'),
    {'rule': 'R2', 'find': 'let mut list = vec![];', 'replace': 'let mut list: Vec<Primitive> = Vec::new();'},
    {'rule': 'R6', 'regex': r'let mut diff_list: Vec<_> = this\.differences\.iter\(\)\.collect\(\);\s*diff_list\.sort\(\);',
     'replace': 'let diff_list = hoist_sorted_entries(&this.differences); let ghost ents = entries_view(diff_list@);'},
    {'rule': 'R2', 'find': 'let mut last = None;', 'replace': 'let mut last: Option<u32> = None;'},
    {'rule': 'R6', 'find': 'for &(&gid, name) in diff_list.iter() {',
     'replace': 'let mut i__: usize = 0; while i__ < diff_list.len() { let e__ = &diff_list[i__]; let gid = *e__.0; let name = e__.1; proof { assert(ents[i__ as int].0 == gid && ents[i__ as int].1 == *name); } i__ += 1;'},
    {'rule': 'R1', 'regex': r'last\.map\(\|n\| (.*?)\)\.unwrap_or', 'replace': r'last.map(|n: u32| -> (b: bool) requires n < gid ensures b == (\1) { \1 }).unwrap_or'},
    {'rule': 'R1', 'find': 'let mut dict = Dictionary::new();', 'replace': 'let ghost list0 = list; let mut dict = Dictionary::new();'},
    {'rule': 'R1', 'find': 'Ok(Primitive::Dictionary(dict))', 'replace': 'proof { lemma_enc_keys(); assert(is_sorted_entries(this.differences@, ents)); assert(enc_dict(base, diff_array(ents, ents.len() as int), Primitive::Dictionary(dict))); } Ok(Primitive::Dictionary(dict))'},
]
ENC_WRITER_LOOPS = {1: {'invariant': [
    'i__ <= diff_list.len()', 'ents == entries_view(diff_list@)', 'is_sorted_entries(this.differences@, ents)',
    ('last_is_previous', 'last == (if i__ == 0 { None::<u32> } else { Some(ents[i__ - 1].0) })'),
    ('list_prefix', 'list@ == diff_array(ents, i__ as int)')],
    'decreases': 'diff_list.len() - i__'}}

# ---- Matrix -------------------------------------------------------------------------------------------------------------
ARGS_SIG = {'where': 'sig', 'rule': 'R6', 'find': 'args: &mut impl Iterator<Item=Primitive>', 'replace': 'args: &mut Args'}
NUM_FRONT = ' && '.join(['old(args).avail() >= 6'] + ['is_num(old(args).at(%d))' % i for i in range(6)])
NUM_CTOR = 'Matrix { %s }' % ', '.join('%s: num_of(old(args).at(%d))' % (n, i) for i, n in enumerate('abcdef'))
# ---- Action -------------------------------------------------------------------------------------------------------------
ACTION_READER_RW = [
    {'rule': 'R9', 'regex': r'match s \{\s*"GoTo" => \{', 'replace': 'if name_eq(s, "GoTo") {'},
    {'rule': 'R9', 'regex': r'\}\s*_ => (Ok\(Action::Other\(d\)\))\s*\}', 'replace': r'} else { \1 }'},
]
ACTION_WRITER_RW = [
    SELF(1),
    {'rule': 'R2', 'regex': r'match this \{', 'replace': 'proof { lemma_action_keys(); } match this {'},
    {'rule': 'R7', 'regex': r'"GoTo"\.into\(\)', 'count': '*', 'replace': 'SmallString::from("GoTo")'},
]

# ---- NumberTree ---------------------------------------------------------------------------------------------------------
NT_READER_RW = [
    {'rule': 'R1', 'find': 'let limits = match dict.remove("Limits") {', 'replace': 'proof { lemma_nt_keys(); } let ghost dict0 = dict@; let limits = match dict.remove("Limits") {'},
    {'rule': 'R7', 'regex': r't!\((kids\.resolve\(resolve\)\?\.into_array\(\)\?)\.iter\(\)\.map\(\|kid\|\s*Ref::<NumberTree<T>>::from_primitive\(kid\.clone\(\), resolve\)\s*\)\.collect::<Result<Vec<_>>>\(\)\)',
     'replace': r't!(hoist_read_refs::<NumberTree<T>, R__>(&\1, resolve))'},
    {'rule': 'R2', 'find': 'let mut items = Vec::with_capacity(list.len() / 2);', 'replace': 'let mut items: Vec<(i32, T)> = Vec::with_capacity(list.len() / 2);'},
    # R6: `.into_iter().tuples()` yields (list[0], list[1]), (list[2], list[3]), ... and drops an odd last element
    {'rule': 'R6', 'find': 'for (key, item) in list.into_iter().tuples() {',
     'replace': 'let mut i__: usize = 0; while list.len() - i__ >= 2 { let key = list[i__].clone(); let item = list[i__ + 1].clone(); i__ += 2; '
                'proof { lemma_pairs_err_sticks::<T>(list@, i__ as int / 2, list@.len() as int / 2, resolve.store()); }'},
    {'rule': 'R2', 'find': 'node: NumberTreeNode::Intermediate(vec![])', 'replace': 'node: NumberTreeNode::Intermediate({ let e__: Vec<Ref<NumberTree<T>>> = Vec::new(); proof { assert(ref_ids(e__@) =~= Seq::<PlainRef>::empty()); } e__ })'},
    {'rule': 'R1', 'find': 'node: NumberTreeNode::Leaf(items)', 'replace': 'node: { proof { assert(i__ as int / 2 == list@.len() as int / 2); } NumberTreeNode::Leaf(items) }'},
]
NT_READER_LOOPS = {1: {'invariant': [
    'i__ <= list.len()', 'i__ % 2 == 0',
    ('pairs_prefix', 'pairs_read::<T>(list@, i__ as int / 2, resolve.store()) == Ok::<Seq<(i32, T)>, PdfError>(items@)')],
    'decreases': 'list.len() - i__'}}
NT_WRITER_RW = [
    SELF('*'),
    {'rule': 'R1', 'find': 'let mut dict = Dictionary::new();', 'replace': 'proof { lemma_nt_keys(); } let mut dict = Dictionary::new();'},
    {'rule': 'R7', 'find': 'vec![limits.0.into(), limits.1.into()]', 'replace': 'hoist_vec_into(hoist_int_pair(limits.0, limits.1))'},
    {'rule': 'R1', 'find': 'let mut nums = Vec::with_capacity(items.len() * 2);', 'replace': 'proof { axiom_vec_len_bound(items); } let mut nums: Vec<Primitive> = Vec::with_capacity(items.len() * 2);'},
    {'rule': 'R6', 'find': 'for &(idx, ref label) in items {',
     'replace': 'let mut i__: usize = 0; while i__ < items.len() { let it__ = &items[i__]; let idx = it__.0; let label = &it__.1; i__ += 1;'},
    {'rule': 'R7', 'find': 'nums.push(idx.into());', 'replace': 'nums.push(hoist_i32_into(idx));'},
    {'rule': 'R7', 'find': 'dict.insert("Nums", nums);', 'replace': 'dict.insert("Nums", hoist_vec_into(nums));'},
    {'rule': 'R7', 'find': 'kids.iter().map(|r| r.get_inner().into()).collect_vec()', 'replace': 'hoist_vec_into(hoist_refs_to_prims(kids))'},
    {'rule': 'R7', 'find': 'Ok(dict.into())', 'replace': 'Ok(hoist_dict_into(dict))'},
]
NT_WRITER_LOOPS = {1: {'invariant': [
    'i__ <= items.len()',
    ('nums_prefix', 'nums@ == nums_array(items@, i__ as int)')],
    'decreases': 'items.len() - i__'}}

UNIT = {
 'name': 'hwpairs2',
 'doc': 'hand-written reader/writer pairs Date, Encoding, NumberTree, Matrix, Dest, Action: reads(writes(x)) == Ok(x); readers panic-free',
 'timeout': 900,
 'items': {
  'struct Name': {'kind': 'decl', 'file': P, 'header': r'^pub struct Name\('},
  'enum TimeRel': {'kind': 'decl', 'file': P, 'header': r'^pub enum TimeRel$', 'attrs': ['#[derive(Clone, Copy, PartialEq, Eq, Structural)]']},
  'struct Date': {'kind': 'decl', 'file': P, 'header': r'^pub struct Date$', 'attrs': ['#[derive(Clone, Copy)]']},
  'enum BaseEncoding': {'kind': 'decl', 'file': E, 'header': r'^pub enum BaseEncoding$'},
  'struct Encoding': {'kind': 'decl', 'file': E, 'header': r'^pub struct Encoding$'},
  'struct Matrix': {'kind': 'decl', 'file': C, 'header': r'^pub struct Matrix$', 'attrs': ['#[derive(Clone, Copy)]']},
  'enum Action': {'kind': 'decl', 'file': T, 'header': r'^pub enum Action$'},
  'struct NumberTree': {'kind': 'decl', 'file': T, 'header': r'^pub struct NumberTree<T>$'},
  'enum NumberTreeNode': {'kind': 'decl', 'file': T, 'header': r'^pub enum NumberTreeNode<T>$'},
  # ---- Date
  'parse_or': {'kind': 'fn', 'file': P, 'container': None, 'name': 'parse_or', 'props': RD,
      'ensures': [('field_or_default', 'r == field(str_bytes(buffer), range.start as int, range.end as int, default)')],
      'rewrites': [
          sig('<T: str::FromStr + Clone>', ''), sig('default: T) -> T', 'default: u8) -> u8'),
          {'rule': 'R7', 'find': 'buffer.get(range)', 'replace': 'hoist_str_get(buffer, range)'},
          {'rule': 'R7', 'find': 'str::parse::<T>(s).unwrap_or_else(|_| default.clone())', 'replace': 'hoist_parse_u8_or(s, default)'},
          {'rule': 'R1', 'regex': r'\.map\(\|s\|\s*(hoist_parse_u8_or\(s, default\))\)',
           'replace': r'.map(|s: &str| -> (o: u8) ensures o == parsed_or(str_bytes(s), default) { \1 })'},
      ]},
  'date_from_primitive': reader(r'^impl Object for Date$', 'date_from_primitive', 'Date',
      [('rd_spec', 'r == date_reads(p, r_.store())')], file=P, extra=DATE_READER_RW),
  'date_to_primitive': writer(r'^impl ObjectWrite for Date$', 'date_to_primitive', 'Date',
      [('wr_text', 'r matches Ok(p) ==> date_fits(*this) && (p matches Primitive::String(ps) && ps.data@ == iso_text(*this))'),
       ('wr_valid_is_ok', 'date_valid(*this) ==> r is Ok')],
      file=P, extra=DATE_WRITER_RW),
  # ---- Encoding
  'encoding_from_primitive': reader(r'^impl Object for Encoding$', 'encoding_from_primitive', 'Encoding',
      [('rd_spec', 'enc_agrees(r, encoding_reads(p, resolve.store()))')], file=E, extra=ENC_READER_RW, loops=ENC_READER_LOOPS,
      decreases='enc_rank(p)', attrs=['#[verifier::loop_isolation(false)]']),
  'encoding_to_primitive': writer(r'^impl ObjectWrite for Encoding$', 'encoding_to_primitive', 'Encoding',
      [('wr_value', 'r matches Ok(p) && encoding_writes(EncModel { base: this.base, diffs: this.differences@ }, p)')],
      file=E, extra=ENC_WRITER_RW, loops=ENC_WRITER_LOOPS),
  # ---- Matrix
  'number': {'kind': 'fn', 'file': C, 'container': None, 'name': 'number', 'props': RD, 'requires': ['old(args).wf()'],
      'ensures': [('frame', 'final(args).wf() && final(args).v == old(args).v'),
                  ('in_order', '(old(args).avail() >= 1 && is_num(old(args).at(0))) ==> (r == Ok::<f32, PdfError>(num_of(old(args).at(0))) && final(args).i == old(args).i + 1)'),
                  ('else_err', '!(old(args).avail() >= 1 && is_num(old(args).at(0))) ==> r is Err')],
      'rewrites': [ARGS_SIG, {'rule': 'R7', 'find': 'args.next().ok_or(PdfError::NoOpArg)?', 'replace': 'hoist_ok_or_nooparg(args.next())?'}]},
  'matrix': {'kind': 'fn', 'file': C, 'container': None, 'name': 'matrix', 'props': RD, 'requires': ['old(args).wf()'],
      'ensures': [('frame', 'final(args).wf() && final(args).v == old(args).v'),
                  ('in_order', '(%s) ==> (r == Ok::<Matrix, PdfError>(%s) && final(args).i == old(args).i + 6)' % (NUM_FRONT, NUM_CTOR)),
                  ('else_err', '!(%s) ==> r is Err' % NUM_FRONT)],
      'rewrites': [ARGS_SIG]},
  'matrix_from_primitive': reader(r'^impl Object for Matrix$', 'matrix_from_primitive', 'Matrix',
      [('rd_ok', 'matrix_ok(p) ==> r == Ok::<Matrix, PdfError>(matrix_value(p))'), ('rd_err', '!matrix_ok(p) ==> r is Err')], file=C,
      extra=[sig('_resolve: &R__', 'resolve_: &R__'),
             {'rule': 'R6', 'find': 'matrix(&mut p.into_array()?.into_iter())', 'replace': '{ let mut args__ = Args::from_vec(p.into_array()?); matrix(&mut args__) }'}]),
  'matrix_to_primitive': writer(r'^impl ObjectWrite for Matrix$', 'matrix_to_primitive', 'Matrix',
      [('wr_value', 'r matches Ok(Primitive::Array(v)) && is_numbers6(v@, *this)')], file=C,
      extra=[SELF(1), {'rule': 'R7', 'regex': r'Primitive::array::<f32, _, _, _>\(\[(.*?),\s*(.*?),\s*(.*?),\s*(.*?),\s*(.*?),\s*(.*?)\]\.iter\(\),\s*update\)',
                       'replace': r'hoist_array6_f32(\1, \2, \3, \4, \5, \6, update)'}]),
  # ---- Action
  'action_from_primitive': reader(r'^impl Object for Action$', 'action_from_primitive', 'Action',
      [('rd_spec', 'r == action_reads(p, resolve.store())')], extra=ACTION_READER_RW),
  'action_to_primitive': writer(r'^impl ObjectWrite for Action$', 'action_to_primitive', 'Action',
      [('wr_goto', '*this matches Action::Goto(dest) ==> (r matches Ok(p) ==> is_goto_dict(p, mnd_writes(dest))) && (r is Err ==> mnd_wfail(dest))'),
       ('wr_other', '*this matches Action::Other(d) ==> r == Ok::<Primitive, PdfError>(Primitive::Dictionary(d))')],
      extra=ACTION_WRITER_RW),
  # ---- NumberTree
  'numbertree_from_primitive': reader(r'^impl<T: Object> Object for NumberTree<T>$', 'numbertree_from_primitive', 'NumberTree<T>',
      [('rd_spec', 'nt_agrees(r, nt_reads::<T>(p, resolve.store()))')], generics='T: Object, ', extra=NT_READER_RW, loops=NT_READER_LOOPS,
      attrs=['#[verifier::loop_isolation(false)]']),
  'numbertree_to_primitive': writer(r'^impl<T: ObjectWrite> ObjectWrite for NumberTree<T>$', 'numbertree_to_primitive', 'NumberTree<T>',
      [('wr_value', 'r matches Ok(p) ==> nt_writes(nt_view(*this), p)'),
       ('wr_err', 'r is Err ==> (this.node matches NumberTreeNode::Leaf(items) && exists|i: int| 0 <= i < items@.len() && (#[trigger] items@[i]).1.wfail())')],
      generics='T: ObjectWrite, ', extra=NT_WRITER_RW, loops=NT_WRITER_LOOPS, attrs=['#[verifier::loop_isolation(false)]']),
 },
}

# C10 (documents built from scratch reload equal, mechanism "derived dictionary writers incl. indirect fields"): the Date pair writes/reads /CreationDate and /ModDate of the information dictionary
# -- the same obligations also count for C10 (no contract changed).
for k__ in ['parse_or', 'date_from_primitive', 'date_to_primitive']:
    UNIT['items'][k__]['props'] = list(UNIT['items'][k__]['props']) + ['C10']
