// Repro for finding `action_goto_missing_s` (C15). Copy to pdf/tests/ of a scratch copy of /repo and run
//   CARGO_TARGET_DIR=/tmp/<you>_target cargo test --offline -p pdf --test action_goto_missing_s_repro
// Expected behaviour stated: FAILS on the pinned tree (the written dictionary is << /D (x) >>, Action::from_primitive
// returns Err(NoneError) at types.rs:1622 because /S is missing), PASSES with findings/action_goto_missing_s_fix.diff.
use pdf::object::*;
use pdf::primitive::{PdfString, Primitive};

#[test]
fn a_goto_action_reads_back_and_rewrites_identically() {
    let a = Action::Goto(MaybeNamedDest::Named(PdfString::from("chapter1")));
    let p = a.to_primitive(&mut NoUpdate).unwrap();
    match &p {
        Primitive::Dictionary(d) => assert_eq!(d.get("S").and_then(|s| s.as_name().ok()), Some("GoTo"), "ISO 32000-1 Table 193: /S is required"),
        _ => panic!("an action is a dictionary"),
    }
    let a2 = Action::from_primitive(p.clone(), &NoResolve).expect("what was written must read back");
    assert!(matches!(a2, Action::Goto(MaybeNamedDest::Named(ref s)) if s.as_bytes() == b"chapter1"));
    assert_eq!(a2.to_primitive(&mut NoUpdate).unwrap(), p, "write-read-write is not the identity");
}
