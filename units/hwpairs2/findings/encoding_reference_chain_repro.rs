// Repro for finding `encoding_reference_chain` (C14). Copy to pdf/tests/ of a scratch copy of /repo and run
//   CARGO_TARGET_DIR=/tmp/<you>_target cargo test --offline -p pdf --test encoding_reference_chain_repro
// Expected behaviour stated. On the pinned tree the test binary ABORTS: "thread ... has overflowed its stack", SIGABRT
// (a stack overflow cannot be caught); with findings/encoding_reference_chain_fix.diff it passes.
// The document is a syntactically valid PDF: objects 3 and 4 are indirect objects whose value is a reference to the other.
use pdf::encoding::Encoding;
use pdf::file::FileOptions;
use pdf::object::*;
use pdf::primitive::Primitive;

fn build_pdf(objs: &[&str]) -> Vec<u8> {
    let mut out = b"%PDF-1.7\n".to_vec();
    let mut offs = vec![];
    for (i, body) in objs.iter().enumerate() {
        offs.push(out.len());
        out.extend_from_slice(format!("{} 0 obj\n{}\nendobj\n", i + 1, body).as_bytes());
    }
    let xref = out.len();
    out.extend_from_slice(format!("xref\n0 {}\n0000000000 65535 f \n", objs.len() + 1).as_bytes());
    for o in &offs {
        out.extend_from_slice(format!("{:010} 00000 n \n", o).as_bytes());
    }
    out.extend_from_slice(format!("trailer\n<< /Size {} /Root 1 0 R >>\nstartxref\n{}\n%%EOF\n", objs.len() + 1, xref).as_bytes());
    out
}

#[test]
fn encoding_given_as_a_reference_cycle_is_an_error() {
    let data = build_pdf(&[
        "<< /Type /Catalog /Pages 2 0 R >>",
        "<< /Type /Pages /Kids [] /Count 0 >>",
        "4 0 R",
        "3 0 R",
    ]);
    let file = FileOptions::cached().load(data).expect("document loads");
    // what Font::from_primitive does for `/Encoding 3 0 R`
    let res = Encoding::from_primitive(Primitive::Reference(PlainRef { id: 3, gen: 0 }), &file.resolver());
    assert!(res.is_err());
}
