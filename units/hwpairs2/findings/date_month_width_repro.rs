// Repro for finding `date_month_width` (C15). Copy to pdf/tests/date_month_width_repro.rs of a scratch copy of /repo and run
//   CARGO_TARGET_DIR=/tmp/<you>_target cargo test --offline -p pdf --test date_month_width_repro
// The test states the EXPECTED behaviour: it FAILS on the pinned tree and PASSES with findings/date_month_width_fix.diff.
use pdf::object::{NoResolve, NoUpdate, Object, ObjectWrite};
use pdf::primitive::{Date, Primitive, TimeRel};

#[test]
fn a_date_the_writer_accepts_reads_back_and_rewrites_identically() {
    let d = Date { year: 2000, month: 100, day: 1, hour: 2, minute: 3, second: 4, rel: TimeRel::Later, tz_hour: 5, tz_minute: 30 };
    match d.to_primitive(&mut NoUpdate) {
        Err(_) => {} // refusing a month that does not fit two digits is fine
        Ok(p) => {
            // pinned: p = (D:200010001020304+05'30) -- 23 bytes, the month took three columns
            let d2 = Date::from_primitive(p.clone(), &NoResolve).expect("what was written must read back");
            // pinned: d2 = Date { month: 10, day: 0, hour: 10, minute: 20, second: 30, .. }
            assert_eq!(d2, d, "read(write(d)) != d");
            let p2 = d2.to_primitive(&mut NoUpdate).unwrap();
            assert_eq!(p2, p, "write-read-write is not the identity");
        }
    }
}

#[test]
fn time_zone_minutes_and_every_relation_round_trip() {
    for rel in [TimeRel::Earlier, TimeRel::Later, TimeRel::Universal] {
        let d = Date { year: 1998, month: 12, day: 23, hour: 19, minute: 52, second: 7, rel, tz_hour: 5, tz_minute: 30 };
        let p = d.to_primitive(&mut NoUpdate).unwrap();
        assert_eq!(Date::from_primitive(p, &NoResolve).unwrap(), d);
    }
    let _ = Primitive::Null;
}
