// Repro for finding `encoding_differences_code_overflow` (C14, C01). Copy to pdf/tests/ of a scratch copy of /repo and run
//   CARGO_TARGET_DIR=/tmp/<you>_target cargo test --offline -p pdf --test encoding_differences_code_overflow_repro
// Expected behaviour stated: FAILS on the pinned tree (panic "attempt to add with overflow" at encoding.rs:53),
// PASSES with findings/encoding_differences_code_overflow_fix.diff.
use pdf::encoding::Encoding;
use pdf::object::{NoResolve, Object};
use pdf::primitive::{Dictionary, Primitive};

#[test]
fn differences_starting_at_minus_one_is_a_value_or_an_error_not_a_panic() {
    // << /Differences [ -1 /a ] >> : `gid = code as u32` = 4294967295, then `gid += 1`
    let mut d = Dictionary::new();
    d.insert("Differences", Primitive::Array(vec![Primitive::Integer(-1), Primitive::Name("a".into())]));
    let r = std::panic::catch_unwind(|| Encoding::from_primitive(Primitive::Dictionary(d), &NoResolve).map(|e| e.differences.len()));
    assert!(r.is_ok(), "Encoding::from_primitive panicked on /Differences [-1 /a]");
}
