//! BOUNDED native stand-in for C12 (unit cachetransp): the same file, the same options, the same sequence of read calls --
//! once per cache configuration the crate offers; the transcripts must be equal line by line, and repeated calls inside one
//! transcript must answer the same as the first.
//!
//! Universe (stated again in unit.py `bound`):
//!   files     every *.pdf under /repo/files (top level, invalid/, password_protected/ with the user password) + one file built here
//!             that only tolerant options read completely (malformed optional entries)
//!   options   {strict, tolerant}
//!   configs   no caches (FileOptions::uncached()) = the reference; FileOptions::cached(); .cache(SyncCache, SyncCache);
//!             .cache(SyncCache, NoCache); .cache(NoCache, SyncCache); .cache(NoCache, NoCache) -- each built with the setters in two
//!             orders (options/password before and after `.cache(..)`)
//!   calls     open; page count; every page looked up twice (+ one look-up past the end): reference, media box, resources, every font
//!             of the resources loaded twice through each of the two separately looked-up pages (`Lazy::load`, `as_ref()` compared),
//!             XObject references; every object number below /Size: raw resolve, and for streams raw_data, Stream::data, (images)
//!             raw_image_data, Stream::data again; the catalog reference loaded as Dictionary / Stream / Catalog / PagesNode in all
//!             24 orders, each order twice through ONE resolver of a fresh document
#![cfg(feature = "cache")]
use std::path::{Path, PathBuf};
use std::sync::Arc;
use pdf::any::AnySync;
use pdf::file::{Cache, FileOptions, NoCache, NoLog, SyncCache};
use pdf::object::*;
use pdf::primitive::{Dictionary, Primitive};
use pdf::PdfError;

fn files() -> PathBuf { Path::new(env!("CARGO_MANIFEST_DIR")).parent().unwrap().join("files") }
fn pdfs_in(dir: PathBuf) -> Vec<PathBuf> {
    let mut v: Vec<PathBuf> = dir.read_dir().unwrap().filter_map(|e| e.ok()).map(|e| e.path())
        .filter(|p| p.extension().map(|e| e == "pdf").unwrap_or(false)).collect();
    v.sort();
    v
}

/// "the same kind of error": the root cause, without the wrappers that record how it travelled
fn kind(e: &PdfError) -> String {
    match e {
        PdfError::Shared { source } => kind(source),
        PdfError::Try { source, .. } => kind(source),
        PdfError::FromPrimitive { source, .. } => kind(source),
        PdfError::Other { msg } => format!("Other({})", msg),
        e => { let s = format!("{:?}", e); s.split(|c: char| !c.is_alphanumeric()).next().unwrap_or("").to_string() }
    }
}
fn fnv(d: &[u8]) -> String {
    let mut h = 0xcbf29ce484222325u64;
    for b in d { h ^= *b as u64; h = h.wrapping_mul(0x100000001b3); }
    format!("{} bytes #{:016x}", d.len(), h)
}
fn bytes(r: Result<Arc<[u8]>, PdfError>) -> String { match r { Ok(d) => fnv(&d), Err(e) => format!("Err({})", kind(&e)) } }

/// a file with a classic table whose page tree has malformed OPTIONAL entries: tolerant options read them as absent,
/// strict options refuse the objects
fn needs_tolerant_options() -> Vec<u8> {
    let objects = [
        "<< /Type /Catalog /Pages 2 0 R /PageLayout 12 >>".to_string(),
        "<< /Type /Pages /Kids [3 0 R 5 0 R] /Count 2 /MediaBox [0 0 200 300] /Resources << /Font << /F1 6 0 R >> >> >>".to_string(),
        "<< /Type /Page /Parent 2 0 R /MediaBox [0 0] /Contents 4 0 R /Rotate (ninety) >>".to_string(),
        "<< /Length 13 >>\nstream\n1 1 20 20 re f\nendstream".to_string(),
        "<< /Type /Page /Parent 2 0 R /CropBox /none /Contents 4 0 R >>".to_string(),
        "<< /Type /Font /Subtype /Type1 /BaseFont /Helvetica /FirstChar (a) >>".to_string(),
    ];
    let mut out = b"%PDF-1.4\n".to_vec();
    let mut offs = Vec::new();
    for (i, o) in objects.iter().enumerate() {
        offs.push(out.len());
        out.extend_from_slice(format!("{} 0 obj\n{}\nendobj\n", i + 1, o).as_bytes());
    }
    let xref = out.len();
    out.extend_from_slice(format!("xref\n0 {}\n0000000000 65535 f \n", objects.len() + 1).as_bytes());
    for o in &offs { out.extend_from_slice(format!("{:010} 00000 n \n", o).as_bytes()); }
    out.extend_from_slice(format!("trailer\n<< /Size {} /Root 1 0 R >>\nstartxref\n{}\n%%EOF\n", objects.len() + 1, xref).as_bytes());
    out
}

/// the read calls on one opened document. Lines that must repeat an earlier answer are checked right here (`again`).
fn transcript<OC, SC>(opts: FileOptions<'static, OC, SC, NoLog>, data: &[u8]) -> Vec<String>
where OC: Cache<Result<AnySync, Arc<PdfError>>>, SC: Cache<Result<Arc<[u8]>, Arc<PdfError>>>,
{
    let mut t: Vec<String> = Vec::new();
    let file = match opts.load(data.to_vec()) {
        Ok(f) => f,
        Err(e) => return vec![format!("open: Err({})", kind(&e))],
    };
    let n = file.num_pages();
    t.push(format!("open: Ok, {} pages, /Size {}", n, file.trailer.size));
    let resolver = file.resolver();
    let again = |t: &mut Vec<String>, what: String, first: &str, second: String| {
        if first != second { t.push(format!("CALL HISTORY MATTERS: {}: first `{}`, then `{}`", what, first, second)); }
    };
    // ---- page look-ups (bounded per file: the first 40 pages) and what hangs on a page
    for i in (0..n.min(40)).chain(std::iter::once(n)) {
        let describe = |t: &mut Vec<String>, tag: &str| -> Vec<String> {
            let mut lines = Vec::new();
            match file.get_page(i) {
                Err(e) => lines.push(format!("page {}: Err({})", i, kind(&e))),
                Ok(page) => {
                    lines.push(format!("page {}: {:?} media_box {:?} rotate {} contents {}", i, page.get_ref().get_inner(),
                                       page.media_box().map_err(|e| kind(&e)), page.rotate, page.contents.is_some()));
                    match page.resources() {
                        Err(e) => lines.push(format!("page {} resources: Err({})", i, kind(&e))),
                        Ok(res) => {
                            lines.push(format!("page {} resources: ref {:?}", i, res.as_ref().map(|r| r.get_inner())));
                            let mut fonts: Vec<_> = res.fonts.iter().collect();
                            fonts.sort_by(|a, b| a.0.as_str().cmp(b.0.as_str()));
                            for (name, lazy) in fonts {
                                let load = || match lazy.load(&resolver) {
                                    Ok(f) => format!("ref {:?} name {:?} subtype {:?}", f.as_ref().map(|r| r.get_inner()), f.name, f.subtype),
                                    Err(e) => format!("Err({})", kind(&e)),
                                };
                                let first = load();
                                let second = load();
                                if first != second {
                                    t.push(format!("CALL HISTORY MATTERS: page {} ({}) font {}: first `{}`, then `{}`", i, tag, name.as_str(), first, second));
                                }
                                lines.push(format!("page {} font {}: {}", i, name.as_str(), first));
                            }
                            let mut xo: Vec<_> = res.xobjects.iter().map(|(k, v)| format!("{}={:?}", k.as_str(), v.get_inner())).collect();
                            xo.sort();
                            lines.push(format!("page {} xobjects: {}", i, xo.join(" ")));
                        }
                    }
                }
            }
            lines
        };
        let first = describe(&mut t, "first look-up");
        let second = describe(&mut t, "second look-up");
        again(&mut t, format!("page {} looked up twice", i), &first.join(" | "), second.join(" | "));
        t.extend(first);
    }
    // ---- every object: raw resolve; streams: raw data, decoded data, image data before the codec, decoded data again
    let size = (file.trailer.size.max(0) as u64).min(4000);
    for id in 0..size {
        let r = PlainRef { id, gen: 0 };
        let describe = || match resolver.resolve(r) {
            Err(e) => (format!("obj {}: Err({})", id, kind(&e)), None),
            Ok(Primitive::Stream(s)) => (format!("obj {}: Stream", id), Some(s)),
            Ok(p) => (format!("obj {}: {}", id, p.get_debug_name()), None),
        };
        let (line, stream) = describe();
        again(&mut t, format!("resolve {}", id), &line, describe().0);
        t.push(line);
        if let Some(s) = stream {
            let is_image = s.info.get("Subtype").and_then(|p| p.as_name().ok()).map(|n| n == "Image").unwrap_or(false);
            let raw = bytes(s.raw_data(&resolver));
            let data = || bytes(Stream::<()>::from_stream(s.clone(), &resolver).and_then(|st| st.data(&resolver)));
            let d1 = data();
            t.push(format!("obj {} raw_data: {}", id, raw));
            t.push(format!("obj {} data: {}", id, d1));
            again(&mut t, format!("data of stream {}", id), &d1, data());
            if is_image {
                let img = || match resolver.get::<XObject>(Ref::new(r)) {
                    Err(e) => format!("Err({})", kind(&e)),
                    Ok(x) => match *x {
                        XObject::Image(ref im) => match im.raw_image_data(&resolver) {
                            Ok((d, f)) => format!("{} before {:?}", fnv(&d), f.map(|f| format!("{:?}", f).split('(').next().unwrap_or("").to_string())),
                            Err(e) => format!("Err({})", kind(&e)),
                        },
                        _ => "not an image".into(),
                    },
                };
                let i1 = img();
                t.push(format!("obj {} raw_image_data: {}", id, i1));
                again(&mut t, format!("raw_image_data of {}", id), &i1, img());
                again(&mut t, format!("data of stream {} after raw_image_data", id), &d1, data());
            }
            again(&mut t, format!("raw_data of stream {} after data", id), &raw, bytes(s.raw_data(&resolver)));
        }
    }
    t
}

const KINDS: [&str; 4] = ["Dictionary", "Stream", "Catalog", "PagesNode"];
fn typed(resolver: &impl Resolve, what: usize, r: PlainRef) -> String {
    fn a<T>(r: Result<RcRef<T>, PdfError>) -> String { match r { Ok(rc) => format!("Ok {:?}", rc.get_ref().get_inner()), Err(e) => format!("Err({})", kind(&e)) } }
    match what {
        0 => a(resolver.get::<Dictionary>(Ref::new(r))),
        1 => a(resolver.get::<Stream<()>>(Ref::new(r))),
        2 => a(resolver.get::<Catalog>(Ref::new(r))),
        _ => a(resolver.get::<PagesNode>(Ref::new(r))),
    }
}
fn orders() -> Vec<Vec<usize>> {
    let mut out = Vec::new();
    for a in 0..4 { for b in 0..4 { for c in 0..4 { for d in 0..4 {
        let o = vec![a, b, c, d];
        if (0..4).all(|k| o.contains(&k)) { out.push(o); }
    } } } }
    out
}
/// the catalog reference loaded as four types, every order, each order twice through one resolver of a fresh document
fn typed_loads<OC, SC>(opts: &dyn Fn() -> FileOptions<'static, OC, SC, NoLog>, data: &[u8]) -> Vec<String>
where OC: Cache<Result<AnySync, Arc<PdfError>>>, SC: Cache<Result<Arc<[u8]>, Arc<PdfError>>>,
{
    let mut t = Vec::new();
    for order in orders() {
        let file = match opts().load(data.to_vec()) { Ok(f) => f, Err(_) => return t };
        let root = file.trailer.root.get_ref().get_inner();
        let resolver = file.resolver();
        for &k in order.iter().chain(order.iter()) {
            t.push(format!("{}: {}", KINDS[k], typed(&resolver, k, root)));
        }
    }
    t
}

fn compare(what: &str, config: &str, reference: &[String], got: &[String], fails: &mut Vec<String>) {
    if reference != got {
        let i = (0..reference.len().min(got.len())).find(|&i| reference[i] != got[i]).unwrap_or(reference.len().min(got.len()));
        fails.push(format!("{} [{}] differs from the uncached document at call {}: uncached `{}`, here `{}`", what, config, i,
                           reference.get(i).map(|s| s.as_str()).unwrap_or("<end>"), got.get(i).map(|s| s.as_str()).unwrap_or("<end>")));
    }
}

fn check_file(name: &str, data: &[u8], password: &'static [u8], fails: &mut Vec<String>) {
    for tolerant in [false, true] {
        let po = move || if tolerant { ParseOptions::tolerant() } else { ParseOptions::strict() };
        let what = format!("{} ({})", name, if tolerant { "tolerant" } else { "strict" });
        // the reference: no caches
        let base = move || FileOptions::uncached().parse_options(po()).password(password);
        let reference = transcript(base(), data);
        for l in reference.iter().filter(|l| l.starts_with("CALL HISTORY MATTERS")) { fails.push(format!("{} [no caches]: {}", what, l)); }
        let typed_ref = typed_loads(&base, data);
        // what a single call on a fresh uncached document answers
        if let Ok(file) = base().load(data.to_vec()) {
            let root = file.trailer.root.get_ref().get_inner();
            let single: Vec<String> = (0..4).map(|k| {
                let f = base().load(data.to_vec()).unwrap();
                let r = f.resolver();
                format!("{}: {}", KINDS[k], typed(&r, k, root))
            }).collect();
            let want: Vec<String> = orders().iter().flat_map(|o| o.iter().chain(o.iter()).map(|&k| single[k].clone()).collect::<Vec<_>>()).collect();
            compare(&what, "no caches, typed loads in 24 orders vs single calls", &want, &typed_ref, fails);
        }
        macro_rules! config { ($label:expr, $opts:expr) => {{
            let mk = $opts;
            let got = transcript(mk(), data);
            for l in got.iter().filter(|l| l.starts_with("CALL HISTORY MATTERS")) { fails.push(format!("{} [{}]: {}", what, $label, l)); }
            compare(&what, $label, &reference, &got, fails);
            compare(&what, concat!($label, ", typed loads in 24 orders"), &typed_ref, &typed_loads(&mk, data), fails);
        }} }
        config!("cached()", move || FileOptions::cached().parse_options(po()).password(password));
        config!("options, then both caches", move || base().cache(SyncCache::new(), SyncCache::new()));
        config!("both caches, then options", move || FileOptions::uncached().cache(SyncCache::new(), SyncCache::new()).password(password).parse_options(po()));
        config!("options, then object cache only", move || base().cache(SyncCache::new(), NoCache));
        config!("object cache only, then options", move || FileOptions::uncached().cache(SyncCache::new(), NoCache).parse_options(po()).password(password));
        config!("options, then stream cache only", move || base().cache(NoCache, SyncCache::new()));
        config!("stream cache only, then options", move || FileOptions::uncached().cache(NoCache, SyncCache::new()).parse_options(po()).password(password));
        config!("options, then NoCache attached twice", move || base().cache(NoCache, NoCache));
    }
}

fn run(paths: Vec<PathBuf>, password: &'static [u8]) {
    let mut fails = Vec::new();
    for p in &paths {
        let data = std::fs::read(p).unwrap();
        check_file(&p.strip_prefix(files()).unwrap().display().to_string(), &data, password, &mut fails);
    }
    eprintln!("{} files", paths.len());
    assert!(fails.is_empty(), "{} differences, the first 10:\n{}", fails.len(), fails.iter().take(10).cloned().collect::<Vec<_>>().join("\n"));
}

#[test] fn c12_corpus_top_level() { run(pdfs_in(files()), b""); }
#[test] fn c12_corpus_invalid() { run(pdfs_in(files().join("invalid")), b""); }
#[test] fn c12_corpus_password_protected() { run(pdfs_in(files().join("password_protected")), b"userpassword"); }
#[test]
fn c12_file_that_needs_tolerant_options() {
    let data = needs_tolerant_options();
    // the file is what it claims to be: tolerant options read more of it than strict ones
    let strict = transcript(FileOptions::uncached(), &data);
    let tolerant = transcript(FileOptions::uncached().parse_options(ParseOptions::tolerant()), &data);
    assert_ne!(strict, tolerant, "strict and tolerant options read the file alike:\n{}", strict.join("\n"));
    let mut fails = Vec::new();
    check_file("built: malformed optional entries", &data, b"", &mut fails);
    assert!(fails.is_empty(), "{} differences, the first 10:\n{}", fails.len(), fails.iter().take(10).cloned().collect::<Vec<_>>().join("\n"));
}
