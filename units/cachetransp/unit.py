import os
import re
from vlib import assemble as _asm

FILE = 'pdf/src/file.rs'
M = 'pdf/src/object/mod.rs'
P = 'pdf/src/primitive.rs'
ENC = 'pdf/src/enc.rs'
STM = 'pdf/src/object/stream.rs'
TYP = 'pdf/src/object/types.rs'
PR = ['C12', 'C01']
IMPL_RES = r"^impl<'a, B, OC, SC, L> Resolve for StorageResolver<'a, B, OC, SC, L> where"

DEFER = r'let _defer = Defer\(\|\| \{(.*?)\}\);'


def _has_defer():
    """same device as units/guard: the drop guard splits `get` into guard prefix + guarded rest (two items from one fn)"""
    try:
        src = open(os.path.join(_asm.REPO, FILE), encoding='utf-8').read()
    except OSError:
        return True
    return re.search(r'let _defer = Defer\(', src) is not None


def sig(find, replace, rule='R2'):
    return {'where': 'sig', 'rule': rule, 'find': find, 'replace': replace}


PUB = lambda *fs: [{'rule': 'R2', 'find': f + ':', 'replace': 'pub ' + f + ':'} for f in fs]
ANY = lambda d: dict(d, count='*')

DOC = 'old(self).storage.doc'
NOW = 'old(self).chain@'

# body rewrites shared by both halves of `get` (count '*': each half / each tree shape contains a subset)
GET_BODY = [ANY(x) for x in [
    # R8 (units/guard): the Mutex guard alias is inlined
    {'rule': 'R8', 'regex': r'let mut chain = self\.chain\.lock\(\)\.unwrap\(\);', 'replace': ''},
    {'rule': 'R8', 'regex': r'(?<![.\w])chain\b', 'replace': 'self.chain'},
    # R8 (units/guard): the same guard used without an alias: `self.chain.lock().unwrap().f(..)` -> `self.chain.f(..)`
    {'rule': 'R8', 'regex': r'self\.chain\.lock\(\)\.unwrap\(\)', 'replace': 'self.chain'},
    {'rule': 'R7', 'regex': r'self\.chain\.contains\(&key\)', 'replace': 'hoist_contains(&self.chain, &key)'},
    {'rule': 'R4', 'regex': r'assert_eq!\(self\.chain\.pop\(\), Some\(key\)\);', 'replace': 'let popped__ = self.chain.pop(); hoist_assert_eq(popped__, Some(key));'},
    # R8: `cache.get_or_compute(K, || C)` -> lookup; on a miss C evaluated in place, then stored under K with the ghost
    # origin (type it was loaded as, chain it was loaded under). K and C stay verbatim.
    {'rule': 'R8', 'regex': r'let res = self\.storage\.cache\.get_or_compute\((.*?), \|\| \{(.*?)\}\);(\s*)((?:let \w+ = )?match res \{)',
     'replace': r'let ghost origin__ = ObjOrigin { t: tag::<T>(), chain: self.chain@ }; '
                r'let res = match self.storage.cache.lookup(\1) { Some(v__) => v__, None => { let v__: ObjVal = {\2}; '
                r'self.storage.cache.store(\1, hoist_clone_entry(&v__), Ghost(origin__)); v__ } };\3\4'},
    # R8: forwarding closure of Result::and_then inlined
    {'rule': 'R8', 'regex': r'self\.resolve\(([^;]*?)\)\.and_then\(\|p\| (T::from_primitive\(p, self\))\)',
     'replace': r'(match self.resolve(\1) { Ok(p) => \2, Err(e__) => Err(e__) })'},
    {'rule': 'R7', 'regex': r'Shared::new\(', 'replace': 'hoist_shared_new('},
    {'rule': 'R7', 'regex': r'Arc::new\(e\)', 'replace': 'hoist_arc_new(e)'},
    {'rule': 'R7', 'regex': r'RcRef::new\(key, ((?:[^()]|\([^()]*\))*?)\.into\(\)\)', 'replace': r'RcRef::new(key, hoist_into_shared(\1))'},
    {'rule': 'R3', 'regex': r'PdfError::Shared \{ source: e\.clone\(\)\s*\}', 'replace': 'PdfError::Shared { source: hoist_shared_source(&e) }'},
]]

FRAME = ('frame', 'final(self).chain@ == old(self).chain@ && final(self).storage.doc == old(self).storage.doc')
KEPT = ('coherence_kept', 'coherent(final(self).storage)')

GUARDED_ENS = [
    FRAME, KEPT,
    ('get_keeps_full_reference', 'out matches Ok(rc) ==> rc.inner == key'),
    # (c): the answer is the uncached typed load of THIS key as THIS type -- computed now, or (hit of the right type) by the
    # earlier load that stored it
    ('answers_as_uncached_load',
     'same_answer(erased_rc(out), load_erased(%s, key, tag::<T>(), answer_chain(old(self).storage, key, tag::<T>(), %s)))' % (DOC, NOW)),
    # ... and if the recursion guard does not interfere with this load, that is what the uncached document answers NOW
    ('answers_as_uncached_now',
     'guard_hypothesis(%s, key, tag::<T>()) ==> same_answer(erased_rc(out), load_erased(%s, key, tag::<T>(), %s))' % (DOC, DOC, NOW)),
]
KEY = 'r.inner'
PUSHED = 'old(self).chain@.push(%s)' % KEY
GET_ENS = [
    FRAME, KEPT,
    ('get_keeps_full_reference', 'out matches Ok(rc) ==> rc.inner == %s' % KEY),
    # the recursion guard comes before the cache: a refused key is refused whatever the caches hold, and they are not touched
    ('refusal_ignores_the_caches', 'guard_refuses(old(self).chain@, %s) ==> (out matches Err(PdfError::Other)) && final(self).storage == old(self).storage' % KEY),
    ('answers_as_uncached_load',
     '!guard_refuses(old(self).chain@, %s) ==> same_answer(erased_rc(out), load_erased(%s, %s, tag::<T>(), answer_chain(old(self).storage, %s, tag::<T>(), %s)))'
     % (KEY, DOC, KEY, KEY, PUSHED)),
    ('answers_as_uncached_now',
     '!guard_refuses(old(self).chain@, %s) && guard_hypothesis(%s, %s, tag::<T>()) ==> same_answer(erased_rc(out), load_erased(%s, %s, tag::<T>(), %s))'
     % (KEY, DOC, KEY, DOC, KEY, PUSHED)),
]

SIG_GET = [sig('fn get<T: Object+DataSize>(&self,', 'fn get<T: Object>(&mut self,')]

if _has_defer():
    _GET = {'kind': 'fn', 'file': FILE, 'container': IMPL_RES, 'name': 'get', 'props': PR, 'ret': 'out',
            'requires': ['old(self).wf()'], 'ensures': GET_ENS,
            'rewrites': SIG_GET + [
                {'rule': 'R8', 'regex': DEFER + r'(.*)\}\s*\Z', 'replace': r'let out__ = self.get__guarded::<T>(key);\1 out__\n    }'},
            ] + GET_BODY}
    _GUARDED = {'kind': 'fn', 'file': FILE, 'container': IMPL_RES, 'name': 'get', 'rename': 'get__guarded', 'verus_name': 'StorageResolver::get__guarded',
                'props': PR, 'ret': 'out',
                'requires': ['old(self).wf()', 'old(self).chain@.len() > 0', 'old(self).chain@.last() == key'],
                'ensures': GUARDED_ENS,
                'rewrites': [sig('fn get<T: Object+DataSize>(&self, r: Ref<T>)', 'fn get<T: Object>(&mut self, key: PlainRef)'),
                    {'rule': 'R8', 'regex': r'\A\{.*?' + DEFER.replace('(.*?)', '.*?'), 'replace': '{'},
                ] + GET_BODY}
else:
    _GET = {'kind': 'fn', 'file': FILE, 'container': IMPL_RES, 'name': 'get', 'props': PR, 'ret': 'out',
            'requires': ['old(self).wf()'], 'ensures': GET_ENS, 'rewrites': SIG_GET + GET_BODY}
    # (dummy item for the template marker: any declaration that is in every tree; `struct Defer` itself may be gone with the guard)
    _GUARDED = {'kind': 'decl', 'file': FILE, 'header': r"^struct StorageResolver<'a, B, OC, SC, L>$",
                'rewrites': [{'rule': 'R2', 'regex': r'\A.*\Z', 'replace': '// StorageResolver::get has no drop guard in this tree: verified as one function'}]}

ARGS = 'StreamArgs { id: id, range: range, filters: filters@ }'

# call sites take the concrete resolver (units/guard: a generic `R: Resolve` bound would make the traits cyclic for Verus)
RSIG = {'where': 'sig', 'rule': 'R2', 'regex': r'fn (\w+)\(&self, resolve: &impl Resolve\)',
        'replace': r'fn \1<B, OC: Cache<ObjVal, ObjOrigin>, SC: Cache<StrVal, StreamArgs>, L: Log>(&self, resolve: &mut StorageResolver<B, OC, SC, L>)'}
# same for `fn f(&self, <other params>, resolve: &impl Resolve)`
RSIG2 = {'where': 'sig', 'rule': 'R2', 'regex': r'fn (\w+)\(&self, ([^()]*?), resolve: &impl Resolve\)',
         'replace': r'fn \1<B, OC: Cache<ObjVal, ObjOrigin>, SC: Cache<StrVal, StreamArgs>, L: Log>(&self, \2, resolve: &mut StorageResolver<B, OC, SC, L>)'}
RDOC = 'old(resolve).storage.doc'
RFRAME = ('frame', 'final(resolve).chain@ == old(resolve).chain@ && final(resolve).storage.doc == old(resolve).storage.doc')
RKEPT = ('coherence_kept', 'coherent(final(resolve).storage)')

UNIT = {
 'name': 'cachetransp',
 'doc': 'caches are invisible (sequential path): representation invariant "every cache entry equals the uncached computation for its key" kept and used by StorageResolver::get / get_data_or_decode',
 'timeout': 600,
 # BOUNDED native stand-in (never counted as proved): the corpus read through every cache configuration, transcripts compared
 'native': {'tests': [
    {'name': 'corpus_reads_the_same_through_every_cache_configuration', 'code': 'native_c12_bounded.rs', 'place': 'pdf/tests/verif_c12_bounded.rs',
     'fn': 'FileOptions::load', 'props': ['C12'], 'tier': 'quick', 'timeout': 900,
     'bound': 'the 31 PDFs under /repo/files (17 top level, 9 invalid/, 5 password_protected/ with the user password) + 1 file built in the test that '
              'strict and tolerant options read differently; x {strict, tolerant} x 8 cached set-ups (cached(); both / object-only / stream-only '
              'caches each with the option setters before AND after .cache(..); NoCache attached twice) against the uncached document; calls: open, '
              'page count, pages 0..min(n,40) and n each looked up twice (reference, media box, rotate, resources reference, every font loaded twice '
              'per look-up with as_ref() compared, XObject references), every object number < min(/Size, 4000): raw resolve twice, streams raw_data / '
              'Stream::data twice / raw_image_data twice (images) / data and raw_data again; the catalog reference as Dictionary, Stream, Catalog, '
              'PagesNode in all 24 orders, each order twice through one resolver of a fresh document, also against single calls. ~50 s. Not covered: '
              'files with an `N G obj` header that contradicts the table (findings/stream_cache_keyed_by_header_id.md), Updater calls between reads, threads',
     'contract': 'every cached set-up answers call by call what the uncached document answers (equal values / same root-cause error kind), and a repeated '
                 'call answers what the first one answered'},
 ]},
 'deviations': {
   'DEV_GUARD_REFUSAL_CACHED': 'a typed load that runs NESTED in other loads can be answered differently from the same load made from scratch '
        '(the recursion guard refuses a reference back into the chain; a tolerant Option reader turns the refusal into "absent", or the refusal '
        'depends on the type the outer object is read as). The object cache keeps the nested answer and serves it to later top-level calls; '
        'the uncached document computes it from scratch. With the deviation ON, `answers_as_uncached_now` is claimed only for loads on which the '
        'guard is silent (guard_silent); `answers_as_uncached_load` (unconditional) says exactly which load the answer is. See findings/guard_refusal_cached.md',
 },
 'items': {
  'struct PlainRef': {'kind': 'decl', 'file': M, 'header': r'^pub struct PlainRef$', 'attrs': ['#[derive(Clone, Copy, PartialEq, Eq, Structural)]']},
  'enum Primitive': {'kind': 'decl', 'file': P, 'header': r'^pub enum Primitive$'},
  'struct Ref': {'kind': 'decl', 'file': M, 'header': r'^pub struct Ref<T>$', 'rewrites': PUB('inner', '_marker')},
  'struct RcRef': {'kind': 'decl', 'file': M, 'header': r'^pub struct RcRef<T>$', 'rewrites': PUB('inner', 'data')},
  'enum StreamFilter': {'kind': 'decl', 'file': ENC, 'header': r'^pub enum StreamFilter$'},
  'struct StreamInfo': {'kind': 'decl', 'file': STM, 'header': r'^pub struct StreamInfo<I>$'},
  'enum StreamData': {'kind': 'decl', 'file': STM, 'header': r'^pub \(crate\) enum StreamData$',
     'rewrites': [{'rule': 'R2', 'find': 'pub (crate) enum', 'replace': 'pub enum'}]},
  'struct Stream': {'kind': 'decl', 'file': STM, 'header': r'^pub struct Stream<I>$',
     'rewrites': [{'rule': 'R2', 'find': 'pub (crate) inner_data', 'replace': 'pub inner_data'}]},
  'struct ImageXObject': {'kind': 'decl', 'file': TYP, 'header': r'^pub struct ImageXObject$'},
  'Ref::get_inner': {'kind': 'fn', 'file': M, 'container': r'^impl<T> Ref<T>$', 'name': 'get_inner', 'props': PR,
      'ensures': [('get_inner_is_reference', 'r == self.inner')]},
  'RcRef::new': {'kind': 'fn', 'file': M, 'container': r'^impl<T> RcRef<T>$', 'name': 'new', 'props': PR,
      'ensures': [('new_keeps_full_reference', 'r.inner == inner && r.data == data')]},

  # R8: `storage: &'a Storage` (interior-mutable caches behind a shared reference) -> owned; `chain: Mutex<Vec>` -> Vec
  'struct StorageResolver': {'kind': 'decl', 'file': FILE, 'header': r"^struct StorageResolver<'a, B, OC, SC, L>$",
      'rewrites': [{'rule': 'R2', 'find': 'struct StorageResolver', 'replace': 'pub struct StorageResolver'},
                   {'rule': 'R8', 'find': "storage: &'a Storage<B, OC, SC, L>,", 'replace': "pub storage: Storage<B, OC, SC, L>, pub lt: PhantomData<&'a ()>,"},
                   {'rule': 'R8', 'find': 'chain: Mutex<Vec<PlainRef>>,', 'replace': 'pub chain: Vec<PlainRef>,'}]},

  'StorageResolver::get__guarded': _GUARDED,
  'StorageResolver::get': _GET,

  'StorageResolver::get_data_or_decode': {'kind': 'fn', 'file': FILE, 'container': IMPL_RES, 'name': 'get_data_or_decode', 'props': PR + ['C06'],   # C06: what a stream read answers IS Storage::decode (decrypt, then the filters: units/filterchain)
      # the arguments are those of a stream object of this document, the filters a prefix of its filter list: every call
      # site hands over the fields of a Stream value read from the document (Stream::data, ImageXObject::raw_image_data below)
      # The stream cache is keyed by (object number, number of filters) -- NOT by the byte range. So the precondition is part of
      # the cache's soundness: `range` must be the WHOLE data range of object `id` (a sub-range would be stored under the key of
      # the whole stream and poison every later full read), `id` its id, `filters` a prefix of its filter list.
      # Labelled: a call site that breaks one clause is reported under that label (the three together are stream_args_ok).
      'requires': ['old(self).wf()',
                   ('args_id_is_the_objects_own_id', 'id == stream_id(old(self).storage.doc, id.id)'),
                   ('args_range_is_the_objects_whole_data_range', 'range == stream_range(old(self).storage.doc, id.id)'),
                   ('args_filters_are_a_prefix_of_the_objects_filters',
                    # pointwise (no extensionality step needed at a call site); == `filters@ == that list's subrange(0, len)`
                    'filters@.len() <= stream_filters(old(self).storage.doc, id.id).len()'
                    ' && forall|i: int| 0 <= i < filters@.len() ==> filters@[i] == stream_filters(old(self).storage.doc, id.id)[i]')],
      'ensures': [FRAME, KEPT,
          ('answers_as_uncached_decode', 'same_answer(bytes_answer(r), decoded(%s, id, range, filters@))' % DOC)],
      'rewrites': [sig('(&self,', '(&mut self,'),
          {'rule': 'R1', 'regex': r'\A\s*\{', 'replace': '{ let ghost args__ = %s; proof { assert(filters@ =~= stream_filters(self.storage.doc, id.id).subrange(0, filters@.len() as int)); }' % ARGS},
          # R8: get_or_compute -> lookup / compute in place / store (K and the compute expression verbatim);
          # R7: `.map_err(Arc::new)`, `.map_err(|e| e.into())`
          {'rule': 'R8', 'regex': r'self\.storage\.stream_cache\.get_or_compute\((.*?), \|\| (self\.storage\.decode\(.*?\))\.map_err\(Arc::new\)\)\s*\.map_err\(\|e\| e\.into\(\)\)',
           'replace': r'{ let res__: StrVal = match self.storage.stream_cache.lookup(\1) { Some(v__) => v__, None => { let v__ = hoist_map_err_arc(\2); '
                      r'self.storage.stream_cache.store(\1, hoist_clone_entry(&v__), Ghost(args__)); v__ } }; hoist_map_err_into(res__) }'},
      ]},

  # ---- call sites: they establish `stream_args_ok` from "this Stream value describes a stream of this document"
  'Stream::data': {'kind': 'fn', 'file': STM, 'container': r'^impl<I: Object> Stream<I>$', 'name': 'data', 'props': PR,
      'attrs': ['#[verifier::loop_isolation(false)]'],
      'requires': ['old(resolve).wf()', 'self.describes(old(resolve).storage.doc)'],
      'ensures': [RFRAME, RKEPT,
          # in-file data: ALL filters of the stream
          ('answers_as_uncached_decode', 'self.inner_data matches StreamData::Original(range, id) ==> same_answer(bytes_answer(r), decoded(%s, id, range, self.info.filters@))' % RDOC),
          # in-memory data does not go near the caches
          ('generated_data_bypasses_the_caches', 'self.inner_data matches StreamData::Generated(_) ==> final(resolve).storage == old(resolve).storage')],
      'rewrites': [RSIG,
          {'rule': 'R2', 'find': 'use std::borrow::Cow;', 'replace': ''},
          # R7 (units/filterchain): Cow<[u8]> modelled by the Vec of its bytes; R6: loop over the filter list -> index loop
          {'rule': 'R7', 'find': 'let mut data: Cow<[u8]> = (&**data).into();', 'replace': 'let mut data: Vec<u8> = hoist_arc_to_vec(data);'},
          {'rule': 'R7', 'find': 'data = t!(decode(&data, filter), filter).into();', 'replace': 'data = t!(decode(&data, filter), filter);'},
          {'rule': 'R7', 'find': 'Ok(data.into())', 'replace': 'Ok(hoist_into_arc(data))'},
          {'rule': 'R6', 'find': 'for filter in filters {', 'replace': 'let __it = hoist_iter(filters); for __k in 0..__it.len() { let filter = __it[__k];'},
          {'rule': 'R7', 'find': 'file_range.clone()', 'replace': 'hoist_range_clone(file_range)'},
          {'rule': 'R1', 'find': 'resolve.get_data_or_decode(', 'replace': 'proof { lemma_whole_is_prefix(self.info.filters@); } resolve.get_data_or_decode('},
      ]},
  # ---- object streams (object/stream.rs): every function of ObjectStream that reaches the stream cache. On the pinned tree all
  # three go through Stream::data; a DIRECT call of resolve.get_data_or_decode(..) written into one of them is checked against
  # the labelled preconditions above like any other call site.
  'StreamInfo::deref': {'kind': 'fn', 'file': STM, 'container': r'^impl<I> Deref for StreamInfo<I>$', 'name': 'deref', 'props': PR,
      'canary': False, 'ensures': [('deref_is_info', '*r == self.info')]},
  'struct ObjStmInfo': {'kind': 'decl', 'file': STM, 'header': r'^pub struct ObjStmInfo$',
      'rewrites': [{'rule': 'R2', 'find': 'pub extends: Option<Ref<Stream<()>>>,', 'replace': ''}]},   # not mentioned by any extracted fn
  'struct ObjectStream': {'kind': 'decl', 'file': STM, 'header': r'^pub struct ObjectStream$', 'rewrites': PUB('offsets', '_id', 'inner')},
  'ObjectStream::from_primitive': {'kind': 'fn', 'file': STM, 'container': r'^impl Object for ObjectStream$', 'name': 'from_primitive', 'props': PR,
      'attrs': ['#[verifier::loop_isolation(false)]'],
      'requires': ['old(resolve).wf()'],
      'ensures': [RFRAME, RKEPT,
          ('object_stream_describes_the_document', 'r matches Ok(os) ==> os.inner.describes(%s)' % RDOC)],
      'rewrites': [
          # R2: trait method emitted as inherent fn over the concrete resolver (as RSIG)
          {'where': 'sig', 'rule': 'R2', 'regex': r'fn from_primitive\(p: Primitive, resolve: &impl Resolve\)',
           'replace': 'pub fn from_primitive<B, OC: Cache<ObjVal, ObjOrigin>, SC: Cache<StrVal, StreamArgs>, L: Log>(p: Primitive, resolve: &mut StorageResolver<B, OC, SC, L>)'},
          # R2: `Stream::from_primitive` (trait method of `impl Object for Stream<I>`) is an inherent env stub
          {'rule': 'R4', 'regex': r'\bdebug!\([^;]*\);', 'replace': '', 'count': '*'},
      ]},
  'ObjectStream::get_object_slice': {'kind': 'fn', 'file': STM, 'container': r'^impl ObjectStream$', 'name': 'get_object_slice', 'props': PR,
      'requires': ['old(resolve).wf()', 'self.inner.describes(old(resolve).storage.doc)'],
      'ensures': [RFRAME, RKEPT],
      'rewrites': [RSIG2]},
  'ObjectStream::_data': {'kind': 'fn', 'file': STM, 'container': r'^impl ObjectStream$', 'name': '_data', 'props': PR,
      'requires': ['old(resolve).wf()', 'self.inner.describes(old(resolve).storage.doc)'],
      'ensures': [RFRAME, RKEPT,
          ('answers_as_uncached_decode', 'self.inner.inner_data matches StreamData::Original(range, id) ==> same_answer(bytes_answer(r), decoded(%s, id, range, self.inner.info.filters@))' % RDOC)],
      'rewrites': [RSIG]},
  'ImageXObject::raw_image_data': {'kind': 'fn', 'file': TYP, 'container': r'^impl ImageXObject$', 'name': 'raw_image_data', 'props': PR,
      'requires': ['old(resolve).wf()', 'self.inner.describes(old(resolve).storage.doc)'],
      'ensures': [RFRAME, RKEPT,
          # in-file data: the filters BEFORE the split (a function of the filter list), and what the call answers is the
          # uncached decode of exactly that prefix -- whatever was asked of this stream before
          ('answers_as_uncached_prefix_decode', 'self.inner.inner_data matches StreamData::Original(range, id) ==> ({'
              ' let fs = self.inner.info.filters@; let n = image_split(fs);'
              ' match decoded(%s, id, range, fs.subrange(0, n)) {'
              '   Err(e) => r matches Err(e2) && root(e2) == root(e),'
              '   Ok(bytes) => if tail_ok(fs.subrange(n, fs.len() as int)) { r matches Ok(pair) && (*pair.0)@ == bytes } else { r is Err } } })' % RDOC),
          ('generated_data_bypasses_the_caches', 'self.inner.inner_data matches StreamData::Generated(_) ==> final(resolve).storage == old(resolve).storage')],
      'rewrites': [RSIG,
          # R2: the deref coercion Stream<I> -> StreamInfo<I> (stream.rs:195 `impl Deref for Stream`, body `&self.info`) made explicit
          {'rule': 'R2', 'find': 'self.inner.filters.as_slice()', 'replace': 'self.inner.info.filters.as_slice()'},
          # R7: the split position (exact source text; the helper in the template has this very body)
          {'rule': 'R7', 'regex': r'let end = (?:filters\.iter\(\)\.rposition\(.*?\)\.unwrap_or\(filters\.len\(\)\)|match filters\.last\(\) \{.*?\});',
           'replace': 'let end = hoist_image_split(filters);'},
          {'rule': 'R7', 'find': 'filters.split_at(end)', 'replace': 'hoist_split_at(filters, end)'},
          {'rule': 'R7', 'find': 'file_range.clone()', 'replace': 'hoist_range_clone(file_range)'},
          {'rule': 'R1', 'find': 'let data = resolve.get_data_or_decode(', 'replace': 'proof { lemma_prefix_of_prefix(filters@, end as int); } let data = resolve.get_data_or_decode('},
          # R10: slice patterns -> length test + element test (exact source text of the patterns; arm expressions verbatim)
          {'rule': 'R10', 'regex': r"""match image_filters \{\s*\[\] => (.*?),\s*\[StreamFilter::DCTDecode\(_\)\] \|\s*\[StreamFilter::CCITTFaxDecode\(_\)\] \|\s*\[StreamFilter::JPXDecode\] \|\s*\[StreamFilter::FlateDecode\(_\)\] \|\s*\[StreamFilter::JBIG2Decode\(_\)\] => (.*?),\s*_ => (bail!\(.*?\))\s*\}""",
           'replace': r'if image_filters.len() == 0 { \1 } else if image_filters.len() == 1 && hoist_is_final_codec(&image_filters[0]) { \2 } else { \3 }'},
      ]},
 },
}
