// Unit `cachetransp` (C12, C01): the object cache and the stream cache of a document are INVISIBLE on the sequential path.
//
//   StorageResolver::get::<T>           (file.rs)            typed load through the object cache
//   StorageResolver::get_data_or_decode (file.rs)            decoded stream bytes through the stream cache
//   Stream::data                        (object/stream.rs)   call site: ALL filters of the stream
//   ImageXObject::raw_image_data        (object/types.rs)    call site: the filters BEFORE the image codec (a prefix)
//   ObjectStream::{from_primitive, get_object_slice, _data} (object/stream.rs)  call sites via Stream::data; a direct call
//                                       of get_data_or_decode written into them meets its labelled preconditions (whole data range!)
//
// C12 quantifies over call histories ("the answer to a call never depends on which calls came before it"). A contract
// cannot say that. It reduces to a REPRESENTATION INVARIANT over the cache contents, which is contract-shaped:
//   coherent  :=  every entry of a cache holds exactly what the uncached computation for its key returns
//   (a) a document starts with empty caches                               => coherent                       (trivial)
//   (b) every cached operation, started in a coherent state, ends in one  => `coherence_kept`               (proved here)
//   (c) every cached operation, started in a coherent state, returns what
//       the uncached computation returns (same value / same root cause)   => `answers_as_uncached_*`        (proved here)
//   (a)+(b): coherent after ANY sequence of calls (induction on the length of the history, on paper);
//   then (c): call by call the cached document answers like the uncached one, whatever came before.
//
// BASELINE: /repo + findings/stream_cache_key_ignores_filters_fix.diff + findings/cached_error_served_to_other_type_fix.diff.
// On the unchanged /repo exactly the obligations of those two findings fail (NOTES.md). A third divergence has no small
// repair and is a named deviation: DEV_GUARD_REFUSAL_CACHED (findings/guard_refusal_cached.md) -- "the uncached computation
// for a key" depends on the chain of loads in progress (recursion guard); (c) is proved unconditionally relative to the chain
// of the load that STORED the entry (`answers_as_uncached_load`) and relative to the current chain for loads on which the
// guard is silent (`answers_as_uncached_now`).
//
// MODEL (R1/R2/R8) -- say exactly what is dropped:
//   * INTERIOR MUTABILITY. `StorageResolver { storage: &'a Storage, chain: Mutex<Vec<_>> }` mutates the caches and the chain
//     behind `&self`. Model: the resolver OWNS the storage (`storage: Storage`) and every method takes `&mut self`; the
//     chain is a plain Vec (as in units/guard, which states what goes with the Mutex).
//   * THE CACHE. `trait Cache<T> { fn get_or_compute(&self, key, compute: impl FnOnce() -> T) -> T; fn clear(&self) }` is
//     modelled by `trait Cache<V, O> { spec cached(key) -> Option<V>; spec origin(key) -> O; lookup; store }` and
//       cache.get_or_compute(K, || C)   is read as
//       match cache.lookup(K) { Some(v) => v, None => { let v = C; cache.store(K, v.clone(), ghost origin); v } }
//     `lookup` returns the finished entry, if any. `store` MAY keep the value under `K` -- and any cache may FORGET any
//     entry at any time (NoCache never keeps one; globalcache's SyncCache evicts in `clean`): the frame of `store` is
//     "every entry afterwards is an entry from before, or the one just stored under K". So the proof covers NoCache,
//     SyncCache and any cache that only ever returns what was stored under that key. `origin` is a GHOST annotation (R1)
//     stored with an entry: for which type / under which chain / for which decode arguments it was computed.
//     Dropped: globalcache::sync::SyncCache::get's compute-once protocol (Value::InProcess + Condvar): a same-thread
//     re-entry with the same key would wait for ever; for the object cache the recursion guard excludes it (units/guard),
//     the stream cache's `compute` (Storage::decode) does not call back. `clear` is not called on any read path.
//   * CONCURRENCY (C13) is NOT covered: one thread, one resolver at a time. Two threads interleave lookup/compute/store.
//   * `let _defer = Defer(|| D); REST` is read as `let out = self.get__guarded(key) /* = REST */; D; out` (units/guard).
//   * RE-ENTRANT ABSTRACT CALLEES. `self.resolve(key)` (untyped load: proved in units/guard + units/resolve) and the typed
//     reader `T::from_primitive(p, self)` call back into `get` / `get_data_or_decode` any number of times. Their stubs
//     carry the induction hypothesis: started coherent they end coherent, keep chain and document, and return a FUNCTION
//     of (document, argument, chain of loads in progress) -- i.e. what they return does not depend on the cache contents.
//     That is sound by induction on the nesting depth of loads (bounded: units/guard), with (b)/(c) as the step.
//   * "The document" (`Doc`) = everything a Storage holds except the two caches (backend bytes, xref table, changes,
//     decoder, options). Read calls do not change it (`frame`). Updater calls (create/update) DO and leave stale cache
//     entries behind: not a read call, not covered.
use vstd::prelude::*;
use std::sync::Arc;
use core::marker::PhantomData;
use core::ops::Range;
use core::ops::Deref;
//@@ INCLUDE _common/error_macros.rs
verus! {
global size_of usize == 8;

//@@ PDFERROR
//@@ DEVIATIONS

// ---- env types (not under proof) ------------------------------------------------------------------------------------
pub type ObjNr = u64;
pub type GenNr = u64;
pub type Shared<T> = Arc<T>;
#[verifier::external_body] pub struct PdfString { _p: () }
#[verifier::external_body] pub struct PdfStream { _p: () }
#[verifier::external_body] pub struct Dictionary { _p: () }
#[verifier::external_body] pub struct SmallString { _p: () }
#[verifier::external_body] pub struct FileSpec { _p: () }
#[verifier::external_body] pub struct LZWFlateParams { _p: () }
#[verifier::external_body] pub struct DCTDecodeParams { _p: () }
#[verifier::external_body] pub struct CCITTFaxDecodeParams { _p: () }
#[verifier::external_body] pub struct JBIG2DecodeParams { _p: () }
#[verifier::external_body] pub struct ImageDict { _p: () }

//@@ struct PlainRef
//@@ enum Primitive
//@@ struct Ref
//@@ struct RcRef
//@@ enum StreamFilter
//@@ struct StreamInfo
//@@ enum StreamData
//@@ struct Stream
//@@ struct ImageXObject
//@@ struct ObjStmInfo
//@@ struct ObjectStream

impl<T> Clone for Ref<T> { fn clone(&self) -> (r: Ref<T>) ensures r == *self { *self } }
impl<T> Copy for Ref<T> {}
impl<T> Ref<T> {
//@@ Ref::get_inner
}
impl<T> RcRef<T> {
//@@ RcRef::new
}

// ---- pdf/src/any.rs: the type-erased shared value (TRUSTED: `unsafe transmute` / raw-pointer cast) ---------------------
// tag::<T>() stands for TypeId::of::<T>(); erase::<T>(v) for "v, forgetting its static type".
pub uninterp spec fn tag<T>() -> int;
#[verifier::external_body] pub struct Erased { _p: () }
pub uninterp spec fn erase<T>(v: T) -> Erased;
#[verifier::external_body] pub struct AnySync { _p: () }
impl AnySync {
    pub uninterp spec fn tid(&self) -> int;
    pub uninterp spec fn content(&self) -> Erased;
    // any.rs:101  AnySync(transmute::<Arc<T>, Arc<WithSize<T>>>(arc) as _);  WithSize<T>::type_id() == TypeId::of::<T>()
    #[verifier::external_body]
    pub fn new<T>(arc: Arc<T>) -> (r: AnySync) ensures r.tid() == tag::<T>(), r.content() == erase::<T>(*arc) { unimplemented!() }
    // any.rs:89   succeeds iff the stored type id equals T's, and then hands back the stored value
    #[verifier::external_body]
    pub fn downcast<T>(self) -> (r: Result<Arc<T>>)
        ensures self.tid() == tag::<T>() ==> (r matches Ok(a) && erase::<T>(*a) == self.content()),
                self.tid() != tag::<T>() ==> r is Err
    { unimplemented!() }
}

// pdf/src/file.rs: trait Log (both methods are no-ops by default)
pub trait Log {
    fn load_object(&self, r: PlainRef);
    fn log_get(&self, r: PlainRef);
}

// ---- the cache model (see header) ------------------------------------------------------------------------------------
pub trait Cache<V, O> {
    spec fn cached(&self, key: PlainRef) -> Option<V>;
    spec fn origin(&self, key: PlainRef) -> O;
    fn lookup(&self, key: PlainRef) -> (r: Option<V>)
        ensures r == self.cached(key);
    fn store(&mut self, key: PlainRef, v: V, o: Ghost<O>)
        ensures forall|k: PlainRef| (#[trigger] final(self).cached(k)) is None
            || (final(self).cached(k) == old(self).cached(k) && final(self).origin(k) == old(self).origin(k))
            || (k == key && final(self).cached(k) == Some(v) && final(self).origin(k) == o@);
    fn clear(&mut self)
        ensures forall|k: PlainRef| (#[trigger] final(self).cached(k)) is None;
}
pub type ObjVal = Result<AnySync, Arc<PdfError>>;
pub type StrVal = Result<Arc<[u8]>, Arc<PdfError>>;
/// ghost annotation of an object-cache entry: the type it was loaded as, the chain of loads in progress (key last)
pub struct ObjOrigin { pub t: int, pub chain: Seq<PlainRef> }
/// ghost annotation of a stream-cache entry: the arguments of the decode whose result it holds
pub struct StreamArgs { pub id: PlainRef, pub range: Range<usize>, pub filters: Seq<StreamFilter> }

// "the document": everything but the caches
#[verifier::external_body] pub struct Doc { _p: () }
pub struct Storage<B, OC, SC, L> { pub cache: OC, pub stream_cache: SC, pub log: L, pub doc: Doc, pub rest: PhantomData<B> }

//@@ struct StorageResolver

// =====================================================================================================================
// What the UNCACHED document answers (spec; nothing below is derived from the cache code)
// =====================================================================================================================
/// the untyped load of `r` under a chain of typed loads in progress (units/guard: obj_under; the chain matters because a
/// compressed object is fetched through a nested typed load of its object stream, which the recursion guard may refuse)
pub uninterp spec fn obj_under(doc: Doc, r: PlainRef, chain: Seq<PlainRef>) -> Result<Primitive>;
/// what the reader of the type with tag `t` makes of `p` (type-erased)
pub uninterp spec fn reads_erased(t: int, p: Primitive, doc: Doc, chain: Seq<PlainRef>) -> Result<Erased>;
pub open spec fn erased<T>(r: Result<T>) -> Result<Erased> {
    match r { Ok(v) => Ok(erase::<T>(v)), Err(e) => Err(e) }
}
/// the uncached typed load: file.rs `self.resolve(key).and_then(|p| T::from_primitive(p, self))`
pub open spec fn load_erased(doc: Doc, r: PlainRef, t: int, chain: Seq<PlainRef>) -> Result<Erased> {
    match obj_under(doc, r, chain) { Ok(p) => reads_erased(t, p, doc, chain), Err(e) => Err(e) }
}
pub open spec fn root(e: PdfError) -> PdfError
    decreases e
{
    match e {
        PdfError::Try { source } => root(*source),
        PdfError::FromPrimitive { typ, field, source } => root(*source),
        PdfError::Shared { source } => root(*source),
        x => x,
    }
}
/// C12 "the same values or the same kind of error": equal values, or errors with the same root cause (the cached
/// document wraps a stored error in `Shared`, the mismatch path returns it bare)
pub open spec fn same_answer<V>(a: Result<V>, b: Result<V>) -> bool {
    match a {
        Ok(x) => b matches Ok(y) && x == y,
        Err(e1) => b matches Err(e2) && root(e1) == root(e2),
    }
}
pub open spec fn erased_rc<T>(out: Result<RcRef<T>>) -> Result<Erased> {
    match out { Ok(rc) => Ok(erase::<T>(*rc.data)), Err(e) => Err(e) }
}
/// the recursion guard does not change what the load of `key` as `t` answers: whatever else is in progress, same answer.
/// A hypothesis on the FILE, not on the code (false only for files with reference cycles through eager fields whose
/// refusal is tolerated or type-dependent; see NOTES.md "guard-dependent answers").
pub open spec fn guard_silent(doc: Doc, key: PlainRef, t: int) -> bool {
    forall|c1: Seq<PlainRef>, c2: Seq<PlainRef>| c1.len() > 0 && c1.last() == key && c2.len() > 0 && c2.last() == key
        ==> same_answer(#[trigger] load_erased(doc, key, t, c1), #[trigger] load_erased(doc, key, t, c2))
}

/// DEV_GUARD_REFUSAL_CACHED on: the claim "answers as the uncached document answers NOW" is made only for loads the
/// recursion guard does not interfere with. Off: it is made for every load -- and fails (findings/guard_refusal_cached.md).
pub open spec fn guard_hypothesis(doc: Doc, key: PlainRef, t: int) -> bool {
    DEV_GUARD_REFUSAL_CACHED() ==> guard_silent(doc, key, t)
}

/// the decode of a stream: file.rs Storage::decode (its meaning -- decrypt, then the filters in array order -- is
/// proved in units/filterchain: Storage::decode/chain_in_array_order); here: a function of the document and the arguments
pub uninterp spec fn decoded(doc: Doc, id: PlainRef, range: Range<usize>, filters: Seq<StreamFilter>) -> Result<Seq<u8>>;
pub open spec fn bytes_answer(r: Result<Arc<[u8]>>) -> Result<Seq<u8>> {
    match r { Ok(d) => Ok((*d)@), Err(e) => Err(e) }
}
/// what reading object number `nr` of the document as a stream yields: its id (`nr gen obj` header), the byte range of
/// its data, its filter list (parser + StreamInfo::from_primitive, units parser_obj / filterchain)
pub uninterp spec fn stream_id(doc: Doc, nr: ObjNr) -> PlainRef;
pub uninterp spec fn stream_range(doc: Doc, nr: ObjNr) -> Range<usize>;
pub uninterp spec fn stream_filters(doc: Doc, nr: ObjNr) -> Seq<StreamFilter>;
/// the arguments are those of a stream object of THIS document, the filters the first n of ITS filter list
pub open spec fn stream_args_ok(doc: Doc, o: StreamArgs) -> bool {
    &&& o.id == stream_id(doc, o.id.id)
    &&& o.range == stream_range(doc, o.id.id)
    &&& o.filters.len() <= stream_filters(doc, o.id.id).len()
    &&& o.filters == stream_filters(doc, o.id.id).subrange(0, o.filters.len() as int)
}

// =====================================================================================================================
// The representation invariant
// =====================================================================================================================
/// an object-cache entry holds the uncached typed load of ITS key, as the type it is tagged with
pub open spec fn obj_entry_ok(doc: Doc, k: PlainRef, v: ObjVal, o: ObjOrigin) -> bool {
    &&& o.chain.len() > 0 && o.chain.last() == k
    &&& match v {
            Ok(any) => any.tid() == o.t && load_erased(doc, k, o.t, o.chain) == Ok::<Erased, PdfError>(any.content()),
            Err(e) => load_erased(doc, k, o.t, o.chain) == Err::<Erased, PdfError>(*e),
        }
}
/// the key of a stream-cache entry determines every argument the decoded bytes depend on
pub open spec fn key_determines(k: PlainRef, o: StreamArgs) -> bool {
    k.id == o.id.id && k.gen == o.filters.len()
}
/// a stream-cache entry holds the uncached decode for the arguments its key determines
pub open spec fn str_entry_ok(doc: Doc, k: PlainRef, v: StrVal, o: StreamArgs) -> bool {
    &&& stream_args_ok(doc, o)
    &&& key_determines(k, o)
    &&& match v {
            Ok(d) => decoded(doc, o.id, o.range, o.filters) == Ok::<Seq<u8>, PdfError>((*d)@),
            Err(e) => decoded(doc, o.id, o.range, o.filters) == Err::<Seq<u8>, PdfError>(*e),
        }
}
pub open spec fn coherent<B, OC: Cache<ObjVal, ObjOrigin>, SC: Cache<StrVal, StreamArgs>, L>(st: Storage<B, OC, SC, L>) -> bool {
    &&& forall|k: PlainRef| (#[trigger] st.cache.cached(k)) matches Some(v) ==> obj_entry_ok(st.doc, k, v, st.cache.origin(k))
    &&& forall|k: PlainRef| (#[trigger] st.stream_cache.cached(k)) matches Some(v) ==> str_entry_ok(st.doc, k, v, st.stream_cache.origin(k))
}
/// (a) of the header: empty caches are coherent -- every freshly opened document (FileOptions::cached(): SyncCache::new())
pub proof fn lemma_empty_caches_are_coherent<B, OC: Cache<ObjVal, ObjOrigin>, SC: Cache<StrVal, StreamArgs>, L>(st: Storage<B, OC, SC, L>)
    requires forall|k: PlainRef| st.cache.cached(k) is None, forall|k: PlainRef| st.stream_cache.cached(k) is None,
    ensures coherent(st)
{}
/// a cache that keeps nothing (NoCache) is coherent whatever happened
pub proof fn lemma_forgetting_keeps_coherence<B, OC: Cache<ObjVal, ObjOrigin>, SC: Cache<StrVal, StreamArgs>, L>(a: Storage<B, OC, SC, L>, b: Storage<B, OC, SC, L>)
    requires coherent(a), a.doc == b.doc,
        forall|k: PlainRef| (#[trigger] b.cache.cached(k)) is None || (b.cache.cached(k) == a.cache.cached(k) && b.cache.origin(k) == a.cache.origin(k)),
        forall|k: PlainRef| (#[trigger] b.stream_cache.cached(k)) is None || (b.stream_cache.cached(k) == a.stream_cache.cached(k) && b.stream_cache.origin(k) == a.stream_cache.origin(k)),
    ensures coherent(b)
{}

/// which chain the answer of `get::<T>(key)` was computed under: a hit of the right type hands out the stored value
/// (computed under the chain of that earlier load), everything else is computed now
pub open spec fn answer_chain<B, OC: Cache<ObjVal, ObjOrigin>, SC, L>(st: Storage<B, OC, SC, L>, key: PlainRef, t: int, now: Seq<PlainRef>) -> Seq<PlainRef> {
    match st.cache.cached(key) {
        Some(Ok(any)) => if any.tid() == t { st.cache.origin(key).chain } else { now },
        _ => now,
    }
}

/// what a re-entrant callee may do to the resolver: chain and document as before, both caches coherent again
pub open spec fn reentrant_frame<B, OC: Cache<ObjVal, ObjOrigin>, SC: Cache<StrVal, StreamArgs>, L: Log>(pre: StorageResolver<B, OC, SC, L>, post: StorageResolver<B, OC, SC, L>) -> bool {
    &&& post.chain@ == pre.chain@
    &&& post.storage.doc == pre.storage.doc
    &&& post.wf()
}

// the typed reader of an arbitrary `T`: abstract and RE-ENTRANT on the same resolver. Hypothesis (header): frame, and the
// result is a function of (type, primitive, document, chain).
pub trait Object: Sized {
    fn from_primitive<B, OC: Cache<ObjVal, ObjOrigin>, SC: Cache<StrVal, StreamArgs>, L: Log>(p: Primitive, resolve: &mut StorageResolver<B, OC, SC, L>) -> (r: Result<Self>)
        requires old(resolve).wf()
        ensures reentrant_frame(*old(resolve), *final(resolve)),
            erased::<Self>(r) == reads_erased(tag::<Self>(), p, old(resolve).storage.doc, old(resolve).chain@);
}

impl<B, OC, SC, L> Storage<B, OC, SC, L> {
    // pdf/src/file.rs: Storage::decode -- proved in units/filterchain: Storage::decode/chain_in_array_order (there the value is
    // given its ISO meaning; reads backend + decoder only, no cache, no call-back)
    #[verifier::external_body]
    pub fn decode(&self, id: PlainRef, range: Range<usize>, filters: &[StreamFilter]) -> (r: Result<Arc<[u8]>>)
        ensures bytes_answer(r) == decoded(self.doc, id, range, filters@)
    { unimplemented!() }
}

// the recursion guard of StorageResolver::get refuses a key that is already being loaded, and (since /repo aebe012) a 33rd nested
// typed load; it comes before the caches in both configurations
pub open spec fn guard_refuses(chain: Seq<PlainRef>, key: PlainRef) -> bool { chain.contains(key) || chain.len() >= 32 }

// ---- R7 helpers (trusted, L0) ---------------------------------------------------------------------------------------
#[verifier::external_body]
fn hoist_contains(v: &Vec<PlainRef>, key: &PlainRef) -> (r: bool) ensures r == v@.contains(*key)
{ /* hoisted text: `v.contains(key)` */ unimplemented!() }
#[verifier::external_body]
fn hoist_assert_eq(a: Option<PlainRef>, b: Option<PlainRef>) requires a == b
{ /* hoisted text: `assert_eq!(a, b)` */ unimplemented!() }
#[verifier::external_body]
fn hoist_shared_new<T>(x: T) -> (r: Shared<T>) ensures *r == x { Shared::new(x) }
#[verifier::external_body]
fn hoist_into_shared<T>(x: T) -> (r: Shared<T>) ensures *r == x { x.into() }
#[verifier::external_body]
fn hoist_arc_new(e: PdfError) -> (r: Arc<PdfError>) ensures *r == e { Arc::new(e) }
// R3: `PdfError::Shared { source: e.clone() }` -- the twin keeps the source in a Box
#[verifier::external_body]
fn hoist_shared_source(e: &Arc<PdfError>) -> (r: Box<PdfError>) ensures *r == **e { unimplemented!() }
// `value.clone()` of SyncCache::get (V = Result<AnySync, Arc<PdfError>> / Result<Arc<[u8]>, Arc<PdfError>>: clones of Arcs)
#[verifier::external_body]
fn hoist_clone_entry<V>(v: &V) -> (r: V) ensures r == *v { /* hoisted text: `v.clone()` */ unimplemented!() }
// `r.map_err(Arc::new)`
#[verifier::external_body]
fn hoist_map_err_arc(r: Result<Arc<[u8]>>) -> (o: StrVal)
    ensures match r { Ok(d) => o == Ok::<Arc<[u8]>, Arc<PdfError>>(d), Err(e) => o matches Err(a) && *a == e }
{ /* hoisted text: `r.map_err(Arc::new)` */ unimplemented!() }
// `v.map_err(|e| e.into())`  (error.rs:242 `impl From<Arc<PdfError>> for PdfError`: PdfError::Shared { source })
#[verifier::external_body]
fn hoist_map_err_into(v: StrVal) -> (r: Result<Arc<[u8]>>)
    ensures match v { Ok(d) => r == Ok::<Arc<[u8]>, PdfError>(d), Err(a) => r matches Err(PdfError::Shared { source }) && *source == *a }
{ /* hoisted text: `v.map_err(|e| e.into())` */ unimplemented!() }
#[verifier::external_body]
fn hoist_range_clone(x: &Range<usize>) -> (r: Range<usize>) ensures r == *x { x.clone() }
// Stream::data, in-memory arm (units/filterchain): the Cow<[u8]> is modelled by the Vec of its bytes
#[verifier::external_body]
fn hoist_arc_to_vec(a: &Arc<[u8]>) -> (r: Vec<u8>) ensures r@ == (**a)@ { (&**a).into() }
#[verifier::external_body]
fn hoist_into_arc(v: Vec<u8>) -> (r: Arc<[u8]>) ensures (*r)@ == v@ { v.into() }
#[verifier::external_body]
fn hoist_iter<'a>(v: &'a [StreamFilter]) -> (r: Vec<&'a StreamFilter>)
    ensures r@.len() == v@.len(), forall|k: int| 0 <= k < v@.len() ==> *#[trigger] r@[k] == v@[k]
{ v.iter().collect() }
// enc.rs: decode -- proved in units/filterchain: decode/dispatch_table. No cache, no call-back.
#[verifier::external_body]
pub fn decode(data: &[u8], filter: &StreamFilter) -> (r: Result<Vec<u8>>) { unimplemented!() }

// ImageXObject::raw_image_data: where the filter list is split ("decode everything except the final image encoding").
// WHERE it splits is not a C12 matter (any prefix is a legitimate request); that it is a function of the filter list is.
pub uninterp spec fn image_split(filters: Seq<StreamFilter>) -> int;
pub uninterp spec fn is_final_codec(f: StreamFilter) -> bool;
#[verifier::external_body]
fn hoist_image_split(filters: &[StreamFilter]) -> (r: usize)
    ensures r <= filters@.len(), r == image_split(filters@)
{
    // (source text since /repo f565930; before that an rposition over the same list)
    match filters.last() {
        Some(StreamFilter::DCTDecode(_)) | Some(StreamFilter::CCITTFaxDecode(_)) | Some(StreamFilter::JPXDecode) |
        Some(StreamFilter::FlateDecode(_)) | Some(StreamFilter::JBIG2Decode(_)) => filters.len() - 1,
        _ => filters.len()
    }
}
#[verifier::external_body]
fn hoist_split_at<'a>(s: &'a [StreamFilter], mid: usize) -> (r: (&'a [StreamFilter], &'a [StreamFilter]))
    requires mid <= s@.len()
    ensures r.0@ == s@.subrange(0, mid as int), r.1@ == s@.subrange(mid as int, s@.len() as int)
{ s.split_at(mid) }
// R10: the one-element slice patterns `[StreamFilter::DCTDecode(_)] | [CCITTFaxDecode(_)] | [JPXDecode] | [FlateDecode(_)] | [JBIG2Decode(_)]`
#[verifier::external_body]
fn hoist_is_final_codec(f: &StreamFilter) -> (r: bool) ensures r == is_final_codec(*f)
{
    match f {
        StreamFilter::DCTDecode(_) | StreamFilter::CCITTFaxDecode(_) | StreamFilter::JPXDecode |
        StreamFilter::FlateDecode(_) | StreamFilter::JBIG2Decode(_) => true,
        _ => false
    }
}
/// what is left after the split is nothing, or exactly one image codec (else raw_image_data gives up: `bail!`)
pub open spec fn tail_ok(tail: Seq<StreamFilter>) -> bool {
    tail.len() == 0 || (tail.len() == 1 && is_final_codec(tail[0]))
}
pub proof fn lemma_whole_is_prefix(s: Seq<StreamFilter>)
    ensures s.subrange(0, s.len() as int) == s
{ assert(s.subrange(0, s.len() as int) =~= s); }
pub proof fn lemma_prefix_of_prefix(s: Seq<StreamFilter>, n: int)
    ensures 0 <= n <= s.len() ==> s.subrange(0, n).len() == n
{}

impl Object for ObjStmInfo {
    #[verifier::external_body]
    fn from_primitive<B, OC: Cache<ObjVal, ObjOrigin>, SC: Cache<StrVal, StreamArgs>, L: Log>(p: Primitive, resolve: &mut StorageResolver<B, OC, SC, L>) -> Result<Self> { unimplemented!() }
}
// parser/lexer: abstract here (no cache, no call-back; contracts and panic-freedom: units/lexer, units/objstm)
#[verifier::external_body] pub struct Lexer<'a> { _p: PhantomData<&'a ()> }
#[verifier::external_body] pub struct Substr<'a> { _p: PhantomData<&'a ()> }
impl<'a> Lexer<'a> {
    #[verifier::external_body] pub fn new(buf: &'a [u8]) -> (r: Lexer<'a>) { unimplemented!() }
    #[verifier::external_body] pub fn next(&mut self) -> (r: Result<Substr<'a>>) { unimplemented!() }
    #[verifier::external_body] pub fn next_as<T>(&mut self) -> (r: Result<T>) { unimplemented!() }
}
impl<'a> Substr<'a> {
    #[verifier::external_body] pub fn to<T>(&self) -> (r: Result<T>) { unimplemented!() }
}
impl Object for ImageDict {
    #[verifier::external_body]
    fn from_primitive<B, OC: Cache<ObjVal, ObjOrigin>, SC: Cache<StrVal, StreamArgs>, L: Log>(p: Primitive, resolve: &mut StorageResolver<B, OC, SC, L>) -> Result<Self> { unimplemented!() }
}

impl<'a, B, OC: Cache<ObjVal, ObjOrigin>, SC: Cache<StrVal, StreamArgs>, L: Log> StorageResolver<'a, B, OC, SC, L> {
    /// no key twice in the chain of loads in progress (units/guard), both caches coherent
    pub open spec fn wf(&self) -> bool { self.chain@.no_duplicates() && coherent(self.storage) }

    // object/mod.rs Resolve::resolve -> file.rs resolve_flags -> Storage::resolve_ref: the untyped load. RE-ENTRANT (indirect
    // /Length -> resolve; compressed object -> get::<ObjectStream>, i.e. through the object cache).
    // proved in units/guard: StorageResolver::resolve/frame, /error_is_the_lookup_error; units/resolve: the value.
    #[verifier::external_body]
    pub fn resolve(&mut self, r: PlainRef) -> (res: Result<Primitive>)
        requires old(self).wf()
        ensures reentrant_frame(*old(self), *final(self)), res == obj_under(old(self).storage.doc, r, old(self).chain@)
    { unimplemented!() }

//@@ StorageResolver::get__guarded
//@@ StorageResolver::get
//@@ StorageResolver::get_data_or_decode
}


impl<I: Object> Stream<I> {
    /// the value describes a stream object OF THIS DOCUMENT: id, byte range and filter list are the ones reading that object
    /// yields. Holds for every Stream obtained by reading: `StreamData::Original` is only made by Stream::from_stream from a
    /// `StreamInner::InFile`, which only the parser makes (id and range of the object it is parsing); the fields are
    /// pub(crate). Not proved here (see NOTES.md).
    pub open spec fn describes(&self, doc: Doc) -> bool {
        self.inner_data matches StreamData::Original(range, id) ==>
            id == stream_id(doc, id.id) && range == stream_range(doc, id.id) && self.info.filters@ == stream_filters(doc, id.id)
    }
//@@ Stream::data

    // object/stream.rs `impl<I: Object> Object for Stream<I>`: from_primitive = PdfStream::from_primitive + StreamInfo::from_primitive
    // (units/filterchain) + Stream::from_stream. RE-ENTRANT (indirect /Length, /Filter). Hypothesis: frame as for every reader,
    // and the value DESCRIBES a stream of this document (see `describes`: by construction, not proved).
    #[verifier::external_body]
    pub fn from_primitive<B, OC: Cache<ObjVal, ObjOrigin>, SC: Cache<StrVal, StreamArgs>, L: Log>(p: Primitive, resolve: &mut StorageResolver<B, OC, SC, L>) -> (r: Result<Stream<I>>)
        requires old(resolve).wf()
        ensures reentrant_frame(*old(resolve), *final(resolve)), r matches Ok(s) ==> s.describes(old(resolve).storage.doc)
    { unimplemented!() }
}
impl ImageXObject {
//@@ ImageXObject::raw_image_data
}
impl<I> Deref for StreamInfo<I> {
    type Target = I;
//@@ StreamInfo::deref
}
impl ObjectStream {
//@@ ObjectStream::from_primitive
//@@ ObjectStream::get_object_slice
//@@ ObjectStream::_data
}

}
fn main(){}
