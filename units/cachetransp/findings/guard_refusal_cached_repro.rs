// C12 repro (guard_refusal_cached). Drop into pdf/tests/ of a scratch copy of /repo as guard_refusal_cached_repro.rs and run
//   CARGO_TARGET_DIR=/tmp/<private> cargo test --offline -p pdf --test guard_refusal_cached_repro -- --nocapture
#![cfg(feature = "cache")]
use std::sync::Arc;
use pdf::file::FileOptions;
use pdf::object::*;
use pdf::error::PdfError;
fn kind<T>(r: &Result<T, PdfError>) -> String {
    fn root(e: &PdfError) -> String {
        match e {
            PdfError::Shared { source } => root(source),
            PdfError::Try { source, .. } => root(source),
            PdfError::FromPrimitive { source, .. } => root(source),
            e => format!("{}", e),
        }
    }
    match r { Ok(_) => "Ok".into(), Err(e) => format!("Err[{}]", root(e)) }
}

/// guard-dependent answers: the load of an object under a chain of loads in progress can differ from its load from scratch
/// (the recursion guard refuses a back reference, a tolerant reader turns the refusal into "absent"); the cached document
/// keeps the nested result and serves it to a later top-level call.
fn build_parent_cycle_pdf() -> Vec<u8> {
    let objs: Vec<Vec<u8>> = vec![
        b"<< /Type /Catalog /Pages 2 0 R >>".to_vec(),
        b"<< /Type /Pages /Parent 3 0 R /Kids [] /Count 0 >>".to_vec(),
        b"<< /Type /Pages /Parent 2 0 R /Kids [] /Count 0 >>".to_vec(),
    ];
    let mut out = b"%PDF-1.4\n".to_vec();
    let mut offsets = vec![];
    for (i, o) in objs.iter().enumerate() {
        offsets.push(out.len());
        out.extend_from_slice(format!("{} 0 obj\n", i + 1).as_bytes());
        out.extend_from_slice(o);
        out.extend_from_slice(b"\nendobj\n");
    }
    let xref = out.len();
    out.extend_from_slice(format!("xref\n0 {}\n0000000000 65535 f \n", objs.len() + 1).as_bytes());
    for off in &offsets {
        out.extend_from_slice(format!("{:010} 00000 n \n", off).as_bytes());
    }
    out.extend_from_slice(format!("trailer\n<< /Size {} /Root 1 0 R >>\nstartxref\n{}\n%%EOF\n", objs.len() + 1, xref).as_bytes());
    out
}
#[test]
fn guard_dependent_answer_is_cached() {
    let pdf = build_parent_cycle_pdf();
    let three = PlainRef { id: 3, gen: 0 };
    let describe = |r: Result<RcRef<PagesNode>, PdfError>| -> String {
        match r {
            Ok(n) => match *n { PagesNode::Tree(ref t) => format!("Ok(Pages, parent is {})", if t.parent.is_some() { "Some" } else { "None" }), _ => "Ok(Page)".into() },
            Err(e) => kind::<()>(&Err(e)),
        }
    };
    let u = FileOptions::uncached().parse_options(ParseOptions::tolerant()).load(pdf.clone()).unwrap();
    let c = FileOptions::cached().parse_options(ParseOptions::tolerant()).load(pdf.clone()).unwrap();
    let a_u = describe(u.resolver().get::<PagesNode>(Ref::new(three)));
    let a_c = describe(c.resolver().get::<PagesNode>(Ref::new(three)));
    println!("tolerant uncached: get::<PagesNode>(3 0 R) = {}", a_u);
    println!("tolerant cached  : get::<PagesNode>(3 0 R) = {}", a_c);
    let us = FileOptions::uncached().load(pdf.clone()).map(|_| ()).map_err(|e| format!("{}", e));
    let cs = FileOptions::cached().load(pdf.clone()).map(|_| ()).map_err(|e| format!("{}", e));
    println!("strict: uncached open = {:?}, cached open = {:?}", us, cs);
    assert_eq!(a_c, a_u);
}

