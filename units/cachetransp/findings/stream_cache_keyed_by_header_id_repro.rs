#![cfg(feature = "cache")]
use pdf::file::FileOptions;
use pdf::object::*;
use pdf::primitive::Primitive;

/// object 4 and object 5 are both streams; the `N G obj` header of object 5 says `4 0 obj` (a producer bug seen in the wild:
/// the cross-reference table is authoritative for the object number)
fn file() -> Vec<u8> {
    let objects = [
        (1, "<< /Type /Catalog /Pages 2 0 R >>".to_string()),
        (2, "<< /Type /Pages /Kids [3 0 R] /Count 1 >>".to_string()),
        (3, "<< /Type /Page /Parent 2 0 R /MediaBox [0 0 10 10] /Contents [4 0 R 5 0 R] >>".to_string()),
        (4, "<< /Length 5 >>\nstream\nAAAAA\nendstream".to_string()),
        (4, "<< /Length 5 >>\nstream\nBBBBB\nendstream".to_string()),   // this is object 5 of the table
    ];
    let mut out = b"%PDF-1.4\n".to_vec();
    let mut offs = Vec::new();
    for (nr, o) in objects.iter() {
        offs.push(out.len());
        out.extend_from_slice(format!("{} 0 obj\n{}\nendobj\n", nr, o).as_bytes());
    }
    let xref = out.len();
    out.extend_from_slice(format!("xref\n0 {}\n0000000000 65535 f \n", objects.len() + 1).as_bytes());
    for o in &offs { out.extend_from_slice(format!("{:010} 00000 n \n", o).as_bytes()); }
    out.extend_from_slice(format!("trailer\n<< /Size {} /Root 1 0 R >>\nstartxref\n{}\n%%EOF\n", objects.len() + 1, xref).as_bytes());
    out
}
fn read(resolver: &impl Resolve, id: u64) -> String {
    match resolver.resolve(PlainRef { id, gen: 0 }) {
        Ok(Primitive::Stream(s)) => match Stream::<()>::from_stream(s, resolver).and_then(|s| s.data(resolver)) {
            Ok(d) => String::from_utf8_lossy(&d).into_owned(), Err(e) => format!("Err({})", e) },
        Ok(p) => p.get_debug_name().to_string(),
        Err(e) => format!("Err({})", e),
    }
}
#[test]
fn stream_cache_key_comes_from_the_object_header() {
    let un = FileOptions::uncached().load(file()).unwrap();
    let ca = FileOptions::cached().load(file()).unwrap();
    let (ru, rc) = (un.resolver(), ca.resolver());
    let u: Vec<String> = [4, 5, 4, 5].iter().map(|&i| read(&ru, i)).collect();
    let c: Vec<String> = [4, 5, 4, 5].iter().map(|&i| read(&rc, i)).collect();
    println!("uncached {:?}\ncached   {:?}", u, c);
    assert_eq!(u, c);
}
