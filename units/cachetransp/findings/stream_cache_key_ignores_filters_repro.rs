// C12 repro (stream_cache_key_ignores_filters). Drop into pdf/tests/ of a scratch copy of /repo as stream_cache_key_ignores_filters_repro.rs and run
//   CARGO_TARGET_DIR=/tmp/<private> cargo test --offline -p pdf --test stream_cache_key_ignores_filters_repro -- --nocapture
#![cfg(feature = "cache")]
use std::sync::Arc;
use pdf::file::FileOptions;
use pdf::object::*;
use pdf::error::PdfError;
fn adler32(d: &[u8]) -> u32 {
    let (mut a, mut b) = (1u32, 0u32);
    for &x in d { a = (a + x as u32) % 65521; b = (b + a) % 65521; }
    (b << 16) | a
}
/// zlib container, one stored (uncompressed) deflate block
fn zlib_stored(d: &[u8]) -> Vec<u8> {
    let n = d.len() as u16;
    let mut v = vec![0x78, 0x01, 0x01];
    v.extend_from_slice(&n.to_le_bytes());
    v.extend_from_slice(&(!n).to_le_bytes());
    v.extend_from_slice(d);
    v.extend_from_slice(&adler32(d).to_be_bytes());
    v
}
fn hex(d: &[u8]) -> Vec<u8> {
    let mut v: Vec<u8> = d.iter().flat_map(|b| format!("{:02X}", b).into_bytes()).collect();
    v.push(b'>');
    v
}
/// a one-page document; object 4 is an image whose data is  ASCIIHex( zlib( PIXELS ) )
const PIXELS: &[u8] = b"\x00\x11\x22\x33\x44\x55\x66\x77\x88";
fn build_pdf() -> Vec<u8> {
    let stream_data = hex(&zlib_stored(PIXELS));
    let mut objs: Vec<Vec<u8>> = vec![
        b"<< /Type /Catalog /Pages 2 0 R >>".to_vec(),
        b"<< /Type /Pages /Kids [3 0 R] /Count 1 >>".to_vec(),
        b"<< /Type /Page /Parent 2 0 R /MediaBox [0 0 10 10] /Resources << /XObject << /Im0 4 0 R >> >> >>".to_vec(),
    ];
    let mut img = format!("<< /Type /XObject /Subtype /Image /Width 3 /Height 3 /ColorSpace /DeviceGray /BitsPerComponent 8 \
        /Filter [/ASCIIHexDecode /FlateDecode] /Length {} >>\nstream\n", stream_data.len()).into_bytes();
    img.extend_from_slice(&stream_data);
    img.extend_from_slice(b"\nendstream");
    objs.push(img);

    let mut out = b"%PDF-1.4\n".to_vec();
    let mut offsets = vec![];
    for (i, o) in objs.iter().enumerate() {
        offsets.push(out.len());
        out.extend_from_slice(format!("{} 0 obj\n", i + 1).as_bytes());
        out.extend_from_slice(o);
        out.extend_from_slice(b"\nendobj\n");
    }
    let xref = out.len();
    out.extend_from_slice(format!("xref\n0 {}\n0000000000 65535 f \n", objs.len() + 1).as_bytes());
    for off in &offsets {
        out.extend_from_slice(format!("{:010} 00000 n \n", off).as_bytes());
    }
    out.extend_from_slice(format!("trailer\n<< /Size {} /Root 1 0 R >>\nstartxref\n{}\n%%EOF\n", objs.len() + 1, xref).as_bytes());
    out
}

fn show(r: &Result<Arc<[u8]>, PdfError>) -> String {
    match r { Ok(d) => format!("Ok({:02x?})", &d[..]), Err(e) => format!("Err({})", e) }
}
const IMG: PlainRef = PlainRef { id: 4, gen: 0 };

/// the two image read calls of C12 on ONE document, in a given order; returns (raw_image_data, data)
macro_rules! both { ($file:expr, $raw_first:expr) => {{
    let file = $file;
    let resolver = file.resolver();
    let img: RcRef<ImageXObject> = resolver.get(Ref::new(IMG)).unwrap();
    if $raw_first {
        let raw = img.raw_image_data(&resolver).map(|(d, _)| d);
        let full = img.inner.data(&resolver);
        (raw, full)
    } else {
        let full = img.inner.data(&resolver);
        let raw = img.raw_image_data(&resolver).map(|(d, _)| d);
        (raw, full)
    }
}}}

#[test]
fn stream_cache_is_invisible() {
    let pdf = build_pdf();
    let (raw_u, full_u) = both!(FileOptions::uncached().load(pdf.clone()).unwrap(), true);
    let (raw_u2, full_u2) = both!(FileOptions::uncached().load(pdf.clone()).unwrap(), false);
    let (raw_a, full_a) = both!(FileOptions::cached().load(pdf.clone()).unwrap(), true);
    let (raw_b, full_b) = both!(FileOptions::cached().load(pdf.clone()).unwrap(), false);
    println!("uncached           : raw_image_data = {}  data = {}", show(&raw_u), show(&full_u));
    println!("uncached, swapped  : raw_image_data = {}  data = {}", show(&raw_u2), show(&full_u2));
    println!("cached raw,data    : raw_image_data = {}  data = {}", show(&raw_a), show(&full_a));
    println!("cached data,raw    : raw_image_data = {}  data = {}", show(&raw_b), show(&full_b));
    assert_eq!(&full_u.as_ref().unwrap()[..], PIXELS);
    assert_eq!(&raw_u.as_ref().unwrap()[..], &zlib_stored(PIXELS)[..]);
    assert_eq!(show(&raw_u), show(&raw_u2));
    assert_eq!(show(&full_u), show(&full_u2));
    assert_eq!(show(&full_a), show(&full_u), "data() after raw_image_data() on a cached document");
    assert_eq!(show(&raw_a), show(&raw_u));
    assert_eq!(show(&raw_b), show(&raw_u), "raw_image_data() after data() on a cached document");
    assert_eq!(show(&full_b), show(&full_u));
}

