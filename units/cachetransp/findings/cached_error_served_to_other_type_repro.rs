// C12 repro (cached_error_served_to_other_type). Drop into pdf/tests/ of a scratch copy of /repo as cached_error_served_to_other_type_repro.rs and run
//   CARGO_TARGET_DIR=/tmp/<private> cargo test --offline -p pdf --test cached_error_served_to_other_type_repro -- --nocapture
#![cfg(feature = "cache")]
use std::sync::Arc;
use pdf::file::FileOptions;
use pdf::object::*;
use pdf::error::PdfError;
fn adler32(d: &[u8]) -> u32 {
    let (mut a, mut b) = (1u32, 0u32);
    for &x in d { a = (a + x as u32) % 65521; b = (b + a) % 65521; }
    (b << 16) | a
}
/// zlib container, one stored (uncompressed) deflate block
fn zlib_stored(d: &[u8]) -> Vec<u8> {
    let n = d.len() as u16;
    let mut v = vec![0x78, 0x01, 0x01];
    v.extend_from_slice(&n.to_le_bytes());
    v.extend_from_slice(&(!n).to_le_bytes());
    v.extend_from_slice(d);
    v.extend_from_slice(&adler32(d).to_be_bytes());
    v
}
fn hex(d: &[u8]) -> Vec<u8> {
    let mut v: Vec<u8> = d.iter().flat_map(|b| format!("{:02X}", b).into_bytes()).collect();
    v.push(b'>');
    v
}
/// a one-page document; object 4 is an image whose data is  ASCIIHex( zlib( PIXELS ) )
const PIXELS: &[u8] = b"\x00\x11\x22\x33\x44\x55\x66\x77\x88";
fn build_pdf() -> Vec<u8> {
    let stream_data = hex(&zlib_stored(PIXELS));
    let mut objs: Vec<Vec<u8>> = vec![
        b"<< /Type /Catalog /Pages 2 0 R >>".to_vec(),
        b"<< /Type /Pages /Kids [3 0 R] /Count 1 >>".to_vec(),
        b"<< /Type /Page /Parent 2 0 R /MediaBox [0 0 10 10] /Resources << /XObject << /Im0 4 0 R >> >> >>".to_vec(),
    ];
    let mut img = format!("<< /Type /XObject /Subtype /Image /Width 3 /Height 3 /ColorSpace /DeviceGray /BitsPerComponent 8 \
        /Filter [/ASCIIHexDecode /FlateDecode] /Length {} >>\nstream\n", stream_data.len()).into_bytes();
    img.extend_from_slice(&stream_data);
    img.extend_from_slice(b"\nendstream");
    objs.push(img);

    let mut out = b"%PDF-1.4\n".to_vec();
    let mut offsets = vec![];
    for (i, o) in objs.iter().enumerate() {
        offsets.push(out.len());
        out.extend_from_slice(format!("{} 0 obj\n", i + 1).as_bytes());
        out.extend_from_slice(o);
        out.extend_from_slice(b"\nendobj\n");
    }
    let xref = out.len();
    out.extend_from_slice(format!("xref\n0 {}\n0000000000 65535 f \n", objs.len() + 1).as_bytes());
    for off in &offsets {
        out.extend_from_slice(format!("{:010} 00000 n \n", off).as_bytes());
    }
    out.extend_from_slice(format!("trailer\n<< /Size {} /Root 1 0 R >>\nstartxref\n{}\n%%EOF\n", objs.len() + 1, xref).as_bytes());
    out
}

fn kind<T>(r: &Result<T, PdfError>) -> String {
    fn root(e: &PdfError) -> String {
        match e {
            PdfError::Shared { source } => root(source),
            PdfError::Try { source, .. } => root(source),
            PdfError::FromPrimitive { source, .. } => root(source),
            e => format!("{}", e),
        }
    }
    match r { Ok(_) => "Ok".into(), Err(e) => format!("Err[{}]", root(e)) }
}

/// typed loads of the same reference as different types: a failed load as one type must not decide a later load as another type
#[test]
fn object_cache_error_entry_is_invisible() {
    let pdf = build_pdf();
    // object 3 (the page) has not been loaded when the file is opened (the page tree holds its kids as lazy references)
    let cat = PlainRef { id: 3, gen: 0 };
    let run = |wrong_first: bool, cached: bool| -> (String, String) {
        macro_rules! go { ($f:expr) => {{
            let f = $f;
            let resolver = f.resolver();
            if wrong_first {
                let a = kind(&resolver.get::<Catalog>(Ref::new(cat)));
                let b = kind(&resolver.get::<Page>(Ref::new(cat)));
                (a, b)
            } else {
                let b = kind(&resolver.get::<Page>(Ref::new(cat)));
                let a = kind(&resolver.get::<Catalog>(Ref::new(cat)));
                (a, b)
            }
        }}}
        if cached { go!(FileOptions::cached().load(pdf.clone()).unwrap()) } else { go!(FileOptions::uncached().load(pdf.clone()).unwrap()) }
    };
    let u1 = run(true, false);
    let u2 = run(false, false);
    let c1 = run(true, true);
    let c2 = run(false, true);
    println!("uncached  Catalog,Page : get::<Catalog> = {}  get::<Page> = {}", u1.0, u1.1);
    println!("uncached  Page,Catalog : get::<Catalog> = {}  get::<Page> = {}", u2.0, u2.1);
    println!("cached    Catalog,Page : get::<Catalog> = {}  get::<Page> = {}", c1.0, c1.1);
    println!("cached    Page,Catalog : get::<Catalog> = {}  get::<Page> = {}", c2.0, c2.1);
    assert_eq!(u1, u2);
    assert_eq!(c2, u1, "Page then Catalog on a cached document");
    assert_eq!(c1, u1, "Catalog then Page on a cached document");
}

