// Repro for findings/flate_stride_ignores_bpc.md -- drop into pdf/tests/ of a scratch copy and run
//   cargo test --offline -p pdf --test flate_stride_ignores_bpc_repro
use pdf::enc::{flate_decode, LZWFlateParams};
/// zlib (RFC 1950) wrapper around ONE stored deflate block (RFC 1951 3.2.4): an independent, trivially conforming encoder
fn zlib_stored(data: &[u8]) -> Vec<u8> {
    assert!(data.len() < 65536);
    let (mut a, mut b) = (1u32, 0u32);
    for &x in data { a = (a + x as u32) % 65521; b = (b + a) % 65521; }
    let n = data.len() as u16;
    let mut v = vec![0x78, 0x01, 0x01, n as u8, (n >> 8) as u8, !n as u8, (!n >> 8) as u8];
    v.extend_from_slice(data);
    v.extend_from_slice(&((b << 16) | a).to_be_bytes());
    v
}
fn params(predictor: i32, colors: i32, bpc: i32, columns: i32) -> LZWFlateParams {
    LZWFlateParams { predictor, n_components: colors, bits_per_component: bpc, columns, early_change: 1 }
}
// 4 columns x 1 colour x 4 bits = 2 bytes per row, bpp = 1. Row 0: None; row 1: Up.
#[test] fn four_bit_samples() {
    let enc = [0, 0x12, 0x34,  2, 0x01, 0x01];
    let r = flate_decode(&zlib_stored(&enc), &params(15, 1, 4, 4)).unwrap();
    assert_eq!(r, vec![0x12, 0x34, 0x13, 0x35]);
}
// 2 columns x 1 colour x 16 bits = 4 bytes per row, bpp = 2. Row 0: Sub (distance 2 bytes).
#[test] fn sixteen_bit_samples() {
    let enc = [1, 0x01, 0x02, 0x10, 0x20];
    let r = flate_decode(&zlib_stored(&enc), &params(15, 1, 16, 2)).unwrap();
    assert_eq!(r, vec![0x01, 0x02, 0x11, 0x22]);
}
