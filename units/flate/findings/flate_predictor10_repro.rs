// Repro for findings/flate_predictor10.md -- drop into pdf/tests/ of a scratch copy and run
//   cargo test --offline -p pdf --test flate_predictor10_repro
use pdf::enc::{flate_decode, LZWFlateParams};
/// zlib (RFC 1950) wrapper around ONE stored deflate block (RFC 1951 3.2.4): an independent, trivially conforming encoder
fn zlib_stored(data: &[u8]) -> Vec<u8> {
    assert!(data.len() < 65536);
    let (mut a, mut b) = (1u32, 0u32);
    for &x in data { a = (a + x as u32) % 65521; b = (b + a) % 65521; }
    let n = data.len() as u16;
    let mut v = vec![0x78, 0x01, 0x01, n as u8, (n >> 8) as u8, !n as u8, (!n >> 8) as u8];
    v.extend_from_slice(data);
    v.extend_from_slice(&((b << 16) | a).to_be_bytes());
    v
}
fn params(predictor: i32, colors: i32, bpc: i32, columns: i32) -> LZWFlateParams {
    LZWFlateParams { predictor, n_components: colors, bits_per_component: bpc, columns, early_change: 1 }
}
// Predictor 10 = "PNG None on all rows": every row still carries its tag byte (0), which the decoder must remove
#[test] fn predictor_10_rows_carry_tag_bytes() {
    let enc = [0, 1, 2,  0, 3, 4];
    let r = flate_decode(&zlib_stored(&enc), &params(10, 1, 8, 2)).unwrap();
    assert_eq!(r, vec![1, 2, 3, 4]);
}
