// Repro for findings/flate_geometry_overflow.md -- drop into pdf/tests/ of a scratch copy and run
//   cargo test --offline -p pdf --test flate_geometry_overflow_repro            (test profile: overflow checks on)
//   cargo test --offline -p pdf --release --test flate_geometry_overflow_repro  (release: wraps, then divides by zero / allocates)
use pdf::enc::{flate_decode, LZWFlateParams};
/// zlib (RFC 1950) wrapper around ONE stored deflate block (RFC 1951 3.2.4): an independent, trivially conforming encoder
fn zlib_stored(data: &[u8]) -> Vec<u8> {
    assert!(data.len() < 65536);
    let (mut a, mut b) = (1u32, 0u32);
    for &x in data { a = (a + x as u32) % 65521; b = (b + a) % 65521; }
    let n = data.len() as u16;
    let mut v = vec![0x78, 0x01, 0x01, n as u8, (n >> 8) as u8, !n as u8, (!n >> 8) as u8];
    v.extend_from_slice(data);
    v.extend_from_slice(&((b << 16) | a).to_be_bytes());
    v
}
fn params(predictor: i32, colors: i32, bpc: i32, columns: i32) -> LZWFlateParams {
    LZWFlateParams { predictor, n_components: colors, bits_per_component: bpc, columns, early_change: 1 }
}
fn no_panic(colors: i32, columns: i32) {
    let data = zlib_stored(&[0, 1, 2, 3]);
    let p = params(12, colors, 8, columns);
    let r = std::panic::catch_unwind(|| flate_decode(&data, &p).map(|v| v.len()).map_err(|_| ()));
    assert!(r.is_ok(), "flate_decode panicked for Colors={} Columns={}", colors, columns);
}
// `columns * n_components`: usize::MAX * 2
#[test] fn columns_minus_one_two_colors() { no_panic(2, -1); }
// `stride+1`: usize::MAX + 1 (release: wraps to 0, `inp.len() / 0`)
#[test] fn columns_minus_one_one_color() { no_panic(1, -1); }
// no arithmetic overflow, but `vec![0; stride]` with stride = 2^64-2: "capacity overflow" in every profile
#[test] fn columns_minus_two() { no_panic(1, -2); }
// i32::MAX * i32::MAX fits, the row is just absurdly long for 4 bytes of data: must not try to allocate it
#[test] fn huge_positive_geometry() { no_panic(i32::MAX, i32::MAX); }
