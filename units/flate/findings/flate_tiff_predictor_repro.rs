// Repro for findings/flate_tiff_predictor.md (named deviation DEV_TIFF_PREDICTOR_IGNORED, no fix proposed)
//   cargo test --offline -p pdf --test flate_tiff_predictor_repro
use pdf::enc::{flate_decode, LZWFlateParams};
/// zlib (RFC 1950) wrapper around ONE stored deflate block (RFC 1951 3.2.4): an independent, trivially conforming encoder
fn zlib_stored(data: &[u8]) -> Vec<u8> {
    assert!(data.len() < 65536);
    let (mut a, mut b) = (1u32, 0u32);
    for &x in data { a = (a + x as u32) % 65521; b = (b + a) % 65521; }
    let n = data.len() as u16;
    let mut v = vec![0x78, 0x01, 0x01, n as u8, (n >> 8) as u8, !n as u8, (!n >> 8) as u8];
    v.extend_from_slice(data);
    v.extend_from_slice(&((b << 16) | a).to_be_bytes());
    v
}
fn params(predictor: i32, colors: i32, bpc: i32, columns: i32) -> LZWFlateParams {
    LZWFlateParams { predictor, n_components: colors, bits_per_component: bpc, columns, early_change: 1 }
}
// Predictor 2, 8-bit samples, 1 colour, 3 columns: each sample is the difference to its left neighbour
#[test] fn tiff_predictor_2_is_undone() {
    let enc = [1, 1, 1,  5, 250, 1];
    let r = flate_decode(&zlib_stored(&enc), &params(2, 1, 8, 3)).unwrap();
    assert_eq!(r, vec![1, 2, 3,  5, 255, 0]);
}
