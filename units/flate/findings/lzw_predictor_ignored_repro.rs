// Repro for findings/lzw_predictor_ignored.md (named deviation DEV_LZW_PREDICTOR_IGNORED, no small fix proposed)
//   cargo test --offline -p pdf --test lzw_predictor_ignored_repro
use pdf::enc::{decode, encode, LZWFlateParams, StreamFilter};

// Two rows of two 8-bit samples, PNG-predicted (row 0: None, row 1: Up), then LZW-compressed with the crate's own
// (weezl) encoder -- EarlyChange 0 because `lzw_encode` supports nothing else. ISO 32000-1 Table 8: /Predictor applies
// to LZWDecode exactly as to FlateDecode.
#[test] fn lzw_with_png_predictor() {
    let p = LZWFlateParams { predictor: 12, n_components: 1, bits_per_component: 8, columns: 2, early_change: 0 };
    let predicted = [0, 1, 2,  2, 1, 1];
    let f = StreamFilter::LZWDecode(p);
    let compressed = encode(&predicted, &f).unwrap();
    let r = decode(&compressed, &f).unwrap();
    assert_eq!(r, vec![1, 2, 2, 3]);
}
