import os, importlib.util, copy

E = 'pdf/src/enc.rs'

# `unfilter`, `filter_paeth`, `enum PredictorType` are taken over from unit `unfilter` (same extraction, same contracts,
# proved again here so that nothing about them is assumed); PNG spec functions come from unfilter/png_spec.rs.
_p = os.path.join(os.path.dirname(os.path.abspath(__file__)), '..', 'unfilter', 'unit.py')
_s = importlib.util.spec_from_file_location('unit_unfilter_shared', _p)
_m = importlib.util.module_from_spec(_s)
_s.loader.exec_module(_m)

PROPS = ['C05', 'C14', 'C01']

def shared(item):
    it = copy.deepcopy(item)
    if 'props' in it:
        it['props'] = PROPS
    return it

S = 'stride as int'
# loop invariant of the row loop of flate_decode; k (ghost) = number of rows done, enc (ghost) = the inflated bytes,
# gbpp (ghost) = the pixel distance handed to `unfilter`
ROW_LOOP = {
  'invariant': [
    'inp@ == enc', 'stride < usize::MAX', 'enc.len() <= isize::MAX',
    ('first_prev_zero', 'null_vec@.len() == stride && forall|x: int| 0 <= x < stride ==> null_vec@[x] == 0u8'),
    'rows as int == enc.len() as int / (stride as int + 1)', 'out@.len() == rows as int * stride as int',
    'stride == 0 || 1 <= gbpp <= stride',
    # the code's row length / pixel distance are the ones of the specification (ISO 32000-1 Table 8, PNG 9.2)
    ('geometry_is_spec', 'geom_ok(params) ==> stride as int == row_bytes(params) && gbpp == pixel_bytes(params)'),
    ('row_cursor', '0 <= k <= rows && in_off as int == k * (stride as int + 1) && out_off as int == k * stride as int'
                   ' && (k > 0 ==> last_out_off as int == (k - 1) * stride as int) && in_off <= enc.len()'),
    ('tags_seen', 'forall|j: int| 0 <= j < k ==> row_tag(enc, %s, j) <= 4' % S),
    # rows 0..k of the output are the reconstructed rows 0..k (previous row = previous OUTPUT row, zeros before the first)
    ('rows_done', 'out@.subrange(0, k * stride as int) == png_image(enc, %s, gbpp, k)' % S),
  ],
  'decreases': 'enc.len() - in_off',
}

BEFORE_LOOP = '''
        let ghost mut k: int = 0;
        proof {
            lemma_geom_arith(n_components as int, params.bits_per_component as usize as int, columns as int);
            lemma_pixel_bytes_forms(params);
            assert(stride == 0 || 1 <= gbpp <= stride);
            lemma_rows_fit(0, stride as int, enc.len() as int);
            lemma_mul_step(0, stride as int);
            assert(out@.subrange(0, 0) =~= png_image(enc, stride as int, gbpp, 0));
        }
'''
BODY_START = '''
            let ghost old_out = out@;
            proof {
                lemma_rows_fit(k, stride as int, enc.len() as int);
                lemma_mul_step(k, stride as int);
                lemma_mul_mono(k + 1, rows as int, stride as int);
                lemma_mul_mono(0, k, stride as int);
                if k > 0 { lemma_mul_step(k - 1, stride as int); lemma_prev_row(enc, stride as int, gbpp, k, out@); }
                lemma_png_row_len(enc, stride as int, gbpp, k - 1);
                lemma_whole_rows_unique(enc, stride as int, rows as int);
                let tag_k = row_tag(enc, stride as int, k);
            }
'''
AFTER_UNFILTER = '''
            proof {
                // no assertion here on purpose: if one of these facts does not hold (a mutated row layout), the labelled
                // invariant `rows_done` is what fails
                let row_final = row_out@;
                if row_in@ =~= row_filt(enc, stride as int, k) && prev_row@ =~= png_row(enc, stride as int, gbpp, k - 1)
                    && out@.len() == old_out.len()
                    && out@.subrange(0, k * stride as int) =~= old_out.subrange(0, k * stride as int)
                    && out@.subrange(k * stride as int, (k + 1) * stride as int) =~= row_final
                    && tag_of(predictor) == row_tag(enc, stride as int, k) && row_in@.len() == stride
                    && (1 <= gbpp <= stride ==> forall|x: int| 0 <= x < stride ==> row_final[x] == png_recon(tag_of(predictor), gbpp, prev_row@, row_in@, x))
                {
                    lemma_row_done(enc, stride as int, gbpp, k, rows as int, old_out, out@, tag_of(predictor), prev_row@, row_in@, row_final);
                }
            }
'''
BODY_END = '''
            proof { k = k + 1; }
'''
EARLY_EXIT = '''
            proof {
                lemma_geom_arith(n_components as int, params.bits_per_component as usize as int, columns as int);
                assert forall|n: int| whole_rows(enc, stride as int, n) implies n == 0 by {
                    assert(n >= 1 ==> n * (stride as int + 1) >= stride as int + 1) by (nonlinear_arith);
                }
                assert(Seq::<u8>::empty() =~= png_image(enc, row_bytes(params), pixel_bytes(params), 0));
            }
'''
AFTER_LOOP = '''
        proof {
            lemma_rows_fit(k, stride as int, enc.len() as int);
            lemma_all_rows(enc, stride as int, gbpp, k, rows as int, out@);
        }
'''

FLATE = {'kind': 'fn', 'file': E, 'name': 'flate_decode', 'props': PROPS,
    'ensures': [
        # -- from the property statement / ISO 32000-1 7.4.4 --
        ('inflate_err', 'inflated(data@) is None ==> r is Err'),
        ('no_predictor', 'inflated(data@) is Some && params.predictor == 1 ==> (r matches Ok(v) && v@ == inflated(data@).unwrap())'),
        # the deviant behaviour is stated positively so that a stale deviation (fix applied, deviation still listed) fails
        ('predictor10_deviation', 'DEV_PREDICTOR_10_UNHANDLED() && inflated(data@) is Some && params.predictor == 10 ==> (r matches Ok(v) && v@ == inflated(data@).unwrap())'),
        ('tiff_predictor', 'inflated(data@) is Some && params.predictor == 2 && geom_ok(params) && params.bits_per_component == 8'
              ' && inflated(data@).unwrap().len() % (row_bytes(params) as nat) == 0 ==> (r matches Ok(v) && v@ =='
              ' if DEV_TIFF_PREDICTOR_IGNORED() { inflated(data@).unwrap() } else { tiff_image(inflated(data@).unwrap(), row_bytes(params), params.n_components as int) })'),
        ('png_rows', 'forall|n: int| inflated(data@) is Some && png_predictor(params) && geom_ok(params)'
              ' && whole_rows(inflated(data@).unwrap(), row_bytes(params), n) && tags_ok(inflated(data@).unwrap(), row_bytes(params), n)'
              ' ==> (r matches Ok(v) && v@ == png_image(inflated(data@).unwrap(), row_bytes(params), pixel_bytes(params), n))'),
        ('png_bad_tag_err', 'forall|n: int| inflated(data@) is Some && png_predictor(params) && geom_ok(params)'
              ' && whole_rows(inflated(data@).unwrap(), row_bytes(params), n) && !tags_ok(inflated(data@).unwrap(), row_bytes(params), n)'
              ' ==> r is Err'),
    ],
    'attrs': ['#[verifier::loop_isolation(false)]'],
    'loops': {1: ROW_LOOP},
    'rewrites': [
        # R1 ghost: names for the inflated bytes and the pixel distance passed to `unfilter` (captured from the call)
        {'rule': 'R1', 'find': 'let inp = decoded;', 'replace': 'let inp = decoded; let ghost enc = inp@; proof { axiom_vec_u8_len(&inp); lemma_geom_arith(n_components as int, params.bits_per_component as usize as int, columns as int); lemma_component_bytes(n_components as int, params.bits_per_component as usize as int); }'},
        {'rule': 'R1', 'regex': r'(let mut last_out_off = 0;)(.*?)(while [^{;]*?)(.*?unfilter\(predictor, (\w+), prev_row, row_in, row_out\);)',
         'replace': r'\1 let ghost gbpp: int = \5 as int;' + BEFORE_LOOP.replace('\\', r'\\') + r'\2\3\4'},
        {'rule': 'R1', 'regex': r'let predictor = PredictorType::from_u8\(', 'replace': BODY_START.replace('\\', r'\\') + 'let predictor = PredictorType::from_u8('},
        {'rule': 'R1', 'regex': r'(unfilter\(predictor, \w+, prev_row, row_in, row_out\);)', 'replace': r'\1' + AFTER_UNFILTER},
        {'rule': 'R1', 'regex': r'(out_off \+= [^;]*;)', 'replace': r'\1' + BODY_END},
        {'rule': 'R1', 'find': 'Ok(out)', 'replace': AFTER_LOOP + 'Ok(out)'},
        {'rule': 'R1', 'find': 'let mut out = vec![0; rows * stride];',
         'replace': 'proof { lemma_rows_fit(0, stride as int, enc.len() as int); } let mut out = vec![0; rows * stride];'},
        # R1 ghost at the "not one complete row" exit (present only with findings/flate_geometry_fix.diff applied)
        {'rule': 'R1', 'regex': r'return Ok\(Vec::new\(\)\);', 'count': '*', 'replace': EARLY_EXIT + 'return Ok(Vec::new());'},
        # R7: range IndexMut on a Vec has no vstd specification; arguments stay verbatim
        {'rule': 'R7', 'regex': r'&mut out\[(out_off) \.\. (out_off\+stride)\]', 'replace': r'hoist_vec_range_mut(&mut out, \1, \2)'},
    ]}

LZW_X = 'lzw_expanded(early_change_on(params), data@)'
LZW = {'kind': 'fn', 'file': E, 'name': 'lzw_decode', 'props': PROPS,
    'ensures': [
        # ISO 32000-1 Table 8: EarlyChange 0 = code length grows as late as possible, 1 (default) = one code early
        ('early_change_selects', '(params.early_change == 0 || params.early_change == 1) ==> ((' + LZW_X + ' is None ==> r is Err)'
              ' && (' + LZW_X + ' is Some && params.predictor == 1 ==> (r matches Ok(v) && v@ == ' + LZW_X + '.unwrap())))'),
        # Table 8: Predictor applies to LZWDecode exactly as to FlateDecode
        ('lzw_png_rows', 'forall|n: int| (params.early_change == 0 || params.early_change == 1) && ' + LZW_X + ' is Some && png_predictor(params) && geom_ok(params)'
              ' && #[trigger] whole_rows(' + LZW_X + '.unwrap(), row_bytes(params), n) && tags_ok(' + LZW_X + '.unwrap(), row_bytes(params), n)'
              ' ==> (r matches Ok(v) && v@ == if DEV_LZW_PREDICTOR_IGNORED() { ' + LZW_X + '.unwrap() }'
              ' else { png_image(' + LZW_X + '.unwrap(), row_bytes(params), pixel_bytes(params), n) })'),
    ],
    'rewrites': [
        {'rule': 'R2', 'find': 'use weezl::{BitOrder, decode::Decoder};', 'replace': ''},
        # R7: weezl's streaming API (generic writer, io::Error -> PdfError through `?`) behind one abstract call that
        # keeps the `?` at the call site
        {'rule': 'R7', 'regex': r'decoder\s*\.into_stream\(&mut out\)\s*\.decode_all\(data\)\.status\?;',
         'replace': 'hoist_lzw_decode_all(&mut decoder, &mut out, data)?;'},
    ]}

UNIT = {
 'name': 'flate',
 'rlimit': 100,
 'doc': 'flate_decode predictor stage (inflater abstract): panic-freedom for all parameters, PNG row layout and geometry from ISO 32000-1 / PNG',
 'deviations': {
   'DEV_TIFF_PREDICTOR_IGNORED': 'Predictor 2 (TIFF) is not undone: flate_decode returns the inflated bytes unchanged',
   'DEV_PREDICTOR_10_UNHANDLED': 'Predictor 10 (PNG None on all rows) is treated as "no predictor": tag bytes stay in the output (`predictor > 10`)',
   'DEV_LZW_PREDICTOR_IGNORED': 'lzw_decode never undoes a predictor: with Predictor >= 10 the tag bytes and filtered rows are returned as they are',
   'DEV_GEOMETRY_IGNORES_BPC': 'row length = Columns*Colors and pixel distance = Colors, i.e. BitsPerComponent is taken to be 8',
 },
 'items': {
   'enum PredictorType': shared(_m.ENUM_PREDICTOR),
   'struct LZWFlateParams': {'kind': 'decl', 'file': E, 'header': r'^pub struct LZWFlateParams$'},
   'PredictorType::from_u8': {'kind': 'fn', 'file': E, 'container': r'^impl PredictorType$', 'name': 'from_u8', 'props': PROPS,
        'ensures': [('tag_ok', 'n <= 4 ==> (r matches Ok(ft) && tag_of(ft) == n)'),
                    ('tag_bad_err', 'n > 4 ==> r is Err')]},
   'filter_paeth': shared(_m.FILTER_PAETH),
   'filter_avg': shared(_m.FILTER_AVG),       # optional: absent from the pinned text (units/unfilter/unit.py)
   'unfilter': shared(_m.UNFILTER),
   'flate_decode': FLATE,
   'lzw_decode': LZW,
 },
}
