// Unit `flate` (C05, C14, C01): the predictor stage of `flate_decode` (pdf/src/enc.rs) with the inflater abstract,
// `PredictorType::from_u8`, the parameter handling of `lzw_decode` (weezl abstract), and (re-verified here, same contract as unit `unfilter`) `unfilter` / `filter_paeth`.
use vstd::prelude::*;
//@@ INCLUDE _common/error_macros.rs
verus! {
global size_of usize == 8;

//@@ PDFERROR

// std semantics of the free functions core::cmp::max / min (TRUSTED, core::cmp docs: `max` returns the second argument when the
// two compare equal, `min` the first; `OrdSpec` is vstd's model of `Ord`, defined for the primitive integers). The method forms
// `a.max(b)` / `a.min(b)` are read natively by this Verus.
pub assume_specification<T: core::cmp::Ord> [core::cmp::max::<T>] (a: T, b: T) -> (r: T)
    ensures <T as vstd::std_specs::cmp::OrdSpec>::obeys_cmp_spec() ==> r == (if vstd::std_specs::cmp::OrdSpec::cmp_spec(&a, &b) is Greater { a } else { b });
pub assume_specification<T: core::cmp::Ord> [core::cmp::min::<T>] (a: T, b: T) -> (r: T)
    ensures <T as vstd::std_specs::cmp::OrdSpec>::obeys_cmp_spec() ==> r == (if vstd::std_specs::cmp::OrdSpec::cmp_spec(&a, &b) is Greater { b } else { a });

//@@ DEVIATIONS

//@@ enum PredictorType

//@@ struct LZWFlateParams

//@@ INCLUDE unfilter/png_spec.rs

// =====================================================================================================================
// Spec, written from ISO 32000-1:2008 7.4.4.3 / 7.4.4.4 (LZWDecode and FlateDecode parameters, Table 8; predictor
// functions, Table 10) and the PNG specification. Nothing below is derived from pdf/src/enc.rs.
// =====================================================================================================================

// Table 8: Colors >= 1, BitsPerComponent in {1, 2, 4, 8, 16}, Columns >= 1 -- the geometries a conforming writer uses
pub open spec fn geom_ok(p: &LZWFlateParams) -> bool {
    p.n_components >= 1 && p.columns >= 1
    && (p.bits_per_component == 1 || p.bits_per_component == 2 || p.bits_per_component == 4
        || p.bits_per_component == 8 || p.bits_per_component == 16)
    // a row whose bit count does not fit a machine word cannot be held in memory: an error is as good as a value there
    && p.columns as int * p.n_components as int * p.bits_per_component as int + 7 <= usize::MAX
}
// bytes of one row of samples: ceil(Columns * Colors * BitsPerComponent / 8)
pub open spec fn row_bytes(p: &LZWFlateParams) -> int {
    if DEV_GEOMETRY_IGNORES_BPC() { p.columns as int * p.n_components as int }
    else { (p.columns as int * p.n_components as int * p.bits_per_component as int + 7) / 8 }
}
// PNG 9.2: "bpp is the number of bytes per complete pixel, rounding up to one"
pub open spec fn pixel_bytes(p: &LZWFlateParams) -> int {
    if DEV_GEOMETRY_IGNORES_BPC() { p.n_components as int }
    else if p.n_components as int * p.bits_per_component as int / 8 >= 1 { p.n_components as int * p.bits_per_component as int / 8 }
    else { 1 }
}
// Table 10: 1 no prediction, 2 TIFF predictor 2, 10..15 PNG prediction (the row's own tag byte selects the filter)
pub open spec fn png_predictor(p: &LZWFlateParams) -> bool {
    if DEV_PREDICTOR_10_UNHANDLED() { 10 < p.predictor <= 15 } else { 10 <= p.predictor <= 15 }
}

// the inflater is abstract: what zlib framing (RFC 1950) resp. a raw deflate stream (RFC 1951) denotes
pub uninterp spec fn zlib_inflated(data: Seq<u8>) -> Option<Seq<u8>>;
pub uninterp spec fn raw_inflated(data: Seq<u8>) -> Option<Seq<u8>>;
// property statement: "Flate in zlib or raw framing"
pub open spec fn inflated(data: Seq<u8>) -> Option<Seq<u8>> {
    if zlib_inflated(data) is Some { zlib_inflated(data) } else { raw_inflated(data) }
}

// PNG-predicted data: row k is one tag byte followed by rb filtered bytes
pub open spec fn row_tag(enc: Seq<u8>, rb: int, k: int) -> int { enc[k * (rb + 1)] as int }
pub open spec fn row_filt(enc: Seq<u8>, rb: int, k: int) -> Seq<u8> { enc.subrange(k * (rb + 1) + 1, (k + 1) * (rb + 1)) }
// reconstructed row k; the row before the first is all zero; the previous row is the previous RECONSTRUCTED row
pub open spec fn png_row(enc: Seq<u8>, rb: int, bpp: int, k: int) -> Seq<u8>
    decreases k + 1
{
    if k < 0 { Seq::new(rb as nat, |x: int| 0u8) }
    else { png_recon_row(row_tag(enc, rb, k), bpp, png_row(enc, rb, bpp, k - 1), row_filt(enc, rb, k)) }
}
// the decoded data: rows 0..n one after the other, tag bytes removed
pub open spec fn png_image(enc: Seq<u8>, rb: int, bpp: int, n: int) -> Seq<u8>
    decreases n
{
    if n <= 0 { Seq::<u8>::empty() } else { png_image(enc, rb, bpp, n - 1) + png_row(enc, rb, bpp, n - 1) }
}
pub open spec fn whole_rows(enc: Seq<u8>, rb: int, n: int) -> bool { n >= 0 && rb >= 0 && enc.len() == n * (rb + 1) }
pub open spec fn tags_ok(enc: Seq<u8>, rb: int, n: int) -> bool { forall|k: int| 0 <= k < n ==> row_tag(enc, rb, k) <= 4 }

// TIFF predictor 2 for 8-bit components (TIFF 6.0 section 14): each sample is the difference to the sample of the
// same component one pixel to the left; no tag bytes
pub open spec fn tiff_recon(colors: int, row: Seq<u8>, x: int) -> u8
    decreases x
{
    if x < 0 || x >= row.len() || colors < 1 { 0 }
    else { add8(row[x], if x >= colors { tiff_recon(colors, row, x - colors) } else { 0 }) }
}
pub open spec fn tiff_image(enc: Seq<u8>, rb: int, colors: int) -> Seq<u8> {
    Seq::new(enc.len(), |p: int| tiff_recon(colors, enc.subrange((p / rb) * rb, (p / rb) * rb + rb), p % rb))
}

// ---- lemmas (proved) ----
pub proof fn lemma_mul_step(k: int, s: int)
    ensures (k + 1) * s == k * s + s, (k + 1) * (s + 1) == k * (s + 1) + s + 1, k * (s + 1) == k * s + k,
{
    assert((k + 1) * s == k * s + s) by (nonlinear_arith);
    assert((k + 1) * (s + 1) == k * (s + 1) + s + 1) by (nonlinear_arith);
    assert(k * (s + 1) == k * s + k) by (nonlinear_arith);
}
pub proof fn lemma_mul_mono(a: int, b: int, s: int)
    requires 0 <= a <= b, 0 <= s
    ensures a * s <= b * s, 0 <= a * s
{
    assert(a * s <= b * s) by (nonlinear_arith) requires 0 <= a <= b, 0 <= s;
    assert(0 <= a * s) by (nonlinear_arith) requires 0 <= a, 0 <= s;
}
// products of the three geometry parameters, in the shapes the spec and the code use
pub proof fn lemma_geom_arith(n: int, b: int, c: int)
    requires n >= 0, b >= 0, c >= 0
    ensures (n * b) * c == c * n * b, n * b >= 0, (n * b) * c >= 0, c * n >= 0,
            c >= 1 ==> (n * b) * c >= n * b, c == 0 ==> (n * b) * c == 0, n * b == 0 ==> (n * b) * c == 0,
            c >= 1 ==> c * n >= n, c == 0 ==> c * n == 0, n == 0 ==> c * n == 0,
{
    assert((n * b) * c == c * n * b) by (nonlinear_arith);
    assert(n * b >= 0 && c * n >= 0) by (nonlinear_arith) requires n >= 0, b >= 0, c >= 0;
    assert((n * b) * c >= 0) by (nonlinear_arith) requires n * b >= 0, c >= 0;
    assert(c >= 1 ==> (n * b) * c >= n * b) by (nonlinear_arith) requires n * b >= 0;
    assert(c >= 1 ==> c * n >= n) by (nonlinear_arith) requires n >= 0;
    assert(c == 0 ==> (n * b) * c == 0) by (nonlinear_arith);
    assert(n * b == 0 ==> (n * b) * c == 0) by (nonlinear_arith);
    assert(c == 0 ==> c * n == 0) by (nonlinear_arith);
    assert(n == 0 ==> c * n == 0) by (nonlinear_arith);
}
// bytes per pixel spelled component-wise, `Colors * (BitsPerComponent / 8)` (either operand order), against the pixel's bit count:
// pure arithmetic, no hypothesis about the code (the solver has no theory of non-linear products)
pub proof fn lemma_component_bytes(n: int, b: int)
    ensures n >= 0 && b >= 0 ==> 0 <= n * (b / 8) <= n * b && n * (b / 8) <= (n * b) / 8 && (b / 8) * n == n * (b / 8)
                && (b % 8 == 0 ==> n * (b / 8) == (n * b) / 8) && (b < 8 ==> n * (b / 8) == 0) && (8 <= b < 16 ==> n * (b / 8) == n) && (b >= 8 ==> n * (b / 8) >= n)
{
    if n >= 0 && b >= 0 {
        let q = b / 8;
        assert(0 <= q <= b && b == 8 * q + b % 8);
        assert(0 <= n * q <= n * b && q * n == n * q) by (nonlinear_arith) requires n >= 0, 0 <= q <= b;
        assert(n * b == 8 * (n * q) + n * (b % 8)) by (nonlinear_arith) requires b == 8 * q + b % 8;
        assert(n * (b % 8) >= 0) by (nonlinear_arith) requires n >= 0, b % 8 >= 0;
        assert(b % 8 == 0 ==> n * (b % 8) == 0) by (nonlinear_arith);
        assert(q == 0 ==> n * q == 0) by (nonlinear_arith);
        assert(q == 1 ==> n * q == n) by (nonlinear_arith);
        assert(q >= 1 ==> n * q >= n) by (nonlinear_arith) requires n >= 0;
    }
}
// the specification's pixel distance for the five conforming sample widths, in the two spellings code uses (spec side only)
pub proof fn lemma_pixel_bytes_forms(p: &LZWFlateParams)
    ensures geom_ok(p) && !DEV_GEOMETRY_IGNORES_BPC() ==> {
                let n = p.n_components as int; let b = p.bits_per_component as int;
                &&& (b >= 8 ==> pixel_bytes(p) == n * (b / 8) && pixel_bytes(p) == (n * b) / 8)
                &&& (b < 8 ==> pixel_bytes(p) == if (n * b) / 8 >= 1 { (n * b) / 8 } else { 1 })
            }
{
    lemma_component_bytes(p.n_components as int, p.bits_per_component as int);
}
// how many whole rows of s+1 bytes fit: (k+1)(s+1) <= len  <==>  k+1 <= len / (s+1)
pub proof fn lemma_rows_fit(k: int, s: int, len: int)
    requires 0 <= k, 0 <= s, 0 <= len
    ensures (k + 1) * (s + 1) <= len <==> k + 1 <= len / (s + 1),
            (len / (s + 1)) * s <= len, 0 <= len / (s + 1),
{
    let d = s + 1;
    let q = len / d;
    assert(q * d <= len < q * d + d && 0 <= q) by (nonlinear_arith) requires q == len / d, d >= 1, len >= 0;
    assert((k + 1) * d <= len ==> k + 1 <= q) by (nonlinear_arith) requires len < q * d + d, d >= 1;
    assert(k + 1 <= q ==> (k + 1) * d <= len) by (nonlinear_arith) requires q * d <= len, d >= 1, k >= 0;
    assert(q * s <= q * d) by (nonlinear_arith) requires 0 <= q, s <= d;
}
pub proof fn lemma_png_row_len(enc: Seq<u8>, rb: int, bpp: int, k: int)
    requires rb >= 0, k < 0 || (k + 1) * (rb + 1) <= enc.len()
    ensures png_row(enc, rb, bpp, k).len() == rb
{
    if k >= 0 { lemma_mul_step(k, rb); lemma_mul_mono(0, k, rb + 1); }
}
pub proof fn lemma_png_image_len(enc: Seq<u8>, rb: int, bpp: int, n: int)
    requires rb >= 0, 0 <= n, n * (rb + 1) <= enc.len()
    ensures png_image(enc, rb, bpp, n).len() == n * rb
    decreases n
{
    if n > 0 {
        assert(n * rb == (n - 1) * rb + rb) by (nonlinear_arith);
        assert(n * (rb + 1) == (n - 1) * (rb + 1) + rb + 1) by (nonlinear_arith);
        lemma_mul_mono(0, n - 1, rb + 1);
        lemma_png_image_len(enc, rb, bpp, n - 1);
        lemma_png_row_len(enc, rb, bpp, n - 1);
        assert(png_image(enc, rb, bpp, n) == png_image(enc, rb, bpp, n - 1) + png_row(enc, rb, bpp, n - 1));
    } else {
        assert(n * rb == 0) by (nonlinear_arith) requires n == 0;
    }
}


// the previous output row is the previous reconstructed row
pub proof fn lemma_prev_row(enc: Seq<u8>, s: int, bpp: int, k: int, out: Seq<u8>)
    requires s >= 0, k > 0, k * (s + 1) <= enc.len(), k * s <= out.len(),
             out.subrange(0, k * s) == png_image(enc, s, bpp, k),
    ensures out.subrange((k - 1) * s, k * s) == png_row(enc, s, bpp, k - 1), 0 <= (k - 1) * s <= k * s,
{
    lemma_mul_step(k - 1, s);
    lemma_mul_mono(0, k - 1, s);
    lemma_mul_mono(0, k - 1, s + 1);
    lemma_png_image_len(enc, s, bpp, k - 1);
    lemma_png_row_len(enc, s, bpp, k - 1);
    let img = png_image(enc, s, bpp, k);
    assert(img == png_image(enc, s, bpp, k - 1) + png_row(enc, s, bpp, k - 1));
    let last = out.subrange((k - 1) * s, k * s);
    let want = png_row(enc, s, bpp, k - 1);
    assert forall|x: int| 0 <= x < s implies last[x] == want[x] by {
        assert(out.subrange(0, k * s)[(k - 1) * s + x] == img[(k - 1) * s + x]);
    }
    assert(last =~= want);
}
// one row written by `unfilter` extends the reconstructed prefix by one row
pub proof fn lemma_row_done(enc: Seq<u8>, s: int, bpp: int, k: int, rows: int, old_out: Seq<u8>, new_out: Seq<u8>,
                            tag: int, prev: Seq<u8>, filt: Seq<u8>, row: Seq<u8>)
    requires s >= 0, 0 <= k < rows, (k + 1) * (s + 1) <= enc.len(), s == 0 || 1 <= bpp <= s,
             old_out.len() == rows * s, new_out.len() == rows * s,
             old_out.subrange(0, k * s) == png_image(enc, s, bpp, k),
             new_out.subrange(0, k * s) == old_out.subrange(0, k * s),
             new_out.subrange(k * s, (k + 1) * s) == row, row.len() == s,
             tag == row_tag(enc, s, k), prev == png_row(enc, s, bpp, k - 1), filt == row_filt(enc, s, k), filt.len() == s,
             1 <= bpp <= s ==> forall|x: int| 0 <= x < s ==> row[x] == png_recon(tag, bpp, prev, filt, x),
    ensures new_out.subrange(0, (k + 1) * s) == png_image(enc, s, bpp, k + 1),
{
    lemma_mul_step(k, s);
    lemma_mul_mono(0, k, s);
    lemma_mul_mono(k + 1, rows, s);
    lemma_mul_mono(0, k, s + 1);
    lemma_png_image_len(enc, s, bpp, k);
    let want_row = png_row(enc, s, bpp, k);
    assert(want_row == png_recon_row(tag, bpp, prev, filt));
    assert(row =~= want_row);
    let got = new_out.subrange(0, (k + 1) * s);
    let want = png_image(enc, s, bpp, k + 1);
    assert(want == png_image(enc, s, bpp, k) + want_row);
    assert forall|p: int| 0 <= p < (k + 1) * s implies got[p] == want[p] by {
        if p < k * s {
            assert(new_out.subrange(0, k * s)[p] == old_out.subrange(0, k * s)[p]);
        } else {
            assert(new_out.subrange(k * s, (k + 1) * s)[p - k * s] == row[p - k * s]);
        }
    }
    assert(got =~= want);
}
// the number of whole rows is determined by the length
pub proof fn lemma_whole_rows_unique(enc: Seq<u8>, s: int, rows: int)
    requires s >= 0, rows == enc.len() as int / (s + 1)
    ensures forall|n: int| whole_rows(enc, s, n) ==> n == rows
{
    assert forall|n: int| whole_rows(enc, s, n) implies n == rows by {
        assert(n == rows) by (nonlinear_arith) requires enc.len() == n * (s + 1), rows == enc.len() as int / (s + 1), s >= 0, n >= 0;
    }
}
// at loop exit every whole row has been written
pub proof fn lemma_all_rows(enc: Seq<u8>, s: int, bpp: int, k: int, rows: int, out: Seq<u8>)
    requires s >= 0, 0 <= k <= rows, rows == enc.len() as int / (s + 1), out.len() == rows * s,
              k * (s + 1) + s >= enc.len(),
             out.subrange(0, k * s) == png_image(enc, s, bpp, k),
    ensures forall|n: int| whole_rows(enc, s, n) ==> n == rows && k == rows && out == png_image(enc, s, bpp, n),
{
    assert forall|n: int| whole_rows(enc, s, n) implies n == rows && k == rows && out == png_image(enc, s, bpp, n) by {
        lemma_whole_rows_unique(enc, s, rows);
        assert(k >= rows) by (nonlinear_arith) requires k * (s + 1) + s >= rows * (s + 1), s >= 0;
        assert(out.subrange(0, rows * s) =~= out);
    }
}

// ---- env (abstract callees): libflate behind the two private wrappers of enc.rs; hex dump hook of error.rs ----
#[verifier::external_body]
fn inflate_bytes_zlib(data: &[u8]) -> (r: Result<Vec<u8>>)
    ensures r matches Ok(v) ==> zlib_inflated(data@) == Some(v@),
            r is Err ==> zlib_inflated(data@) is None,
{ unimplemented!() }
#[verifier::external_body]
fn inflate_bytes(data: &[u8]) -> (r: Result<Vec<u8>>)
    ensures r matches Ok(v) ==> raw_inflated(data@) == Some(v@),
            r is Err ==> raw_inflated(data@) is None,
{ unimplemented!() }
#[verifier::external_body]
fn dump_data(data: &[u8]) { }

// ---- L0 helper (R7): `&mut out[a .. b]` on a Vec -- vstd specifies range IndexMut for slices only; body = source expression ----
#[verifier::external_body]
fn hoist_vec_range_mut(v: &mut Vec<u8>, a: usize, b: usize) -> (r: &mut [u8])
    requires a <= b <= old(v)@.len(),            // otherwise the range index panics
    ensures r@ == old(v)@.subrange(a as int, b as int),
            final(r)@.len() == r@.len() ==>
                final(v)@ == old(v)@.subrange(0, a as int) + final(r)@ + old(v)@.subrange(b as int, old(v)@.len() as int),
{
    &mut v[a .. b]
}
// [A: Rust] allocation limit: no Vec<u8> holds more than isize::MAX bytes
#[verifier::external_body]
proof fn axiom_vec_u8_len(v: &Vec<u8>)
    ensures v@.len() <= isize::MAX
{}

// ---- env (abstract callee): the weezl crate. `Decoder` models only the configuration the constructors fix; what the
// stream decoder computes is the uninterpreted `lzw_expanded` [A: weezl implements TIFF/PDF LZW; its "tiff size switch"
// is the code-length rule ISO 32000-1 calls EarlyChange = 1]
pub enum BitOrder { Msb, Lsb }
pub struct Decoder { pub early: bool, pub msb_first: bool, pub min_code_size: u8 }
impl Decoder {
    #[verifier::external_body]
    pub fn new(order: BitOrder, size: u8) -> (r: Decoder)
        ensures r.early == false, r.msb_first == (order is Msb), r.min_code_size == size
    { unimplemented!() }
    #[verifier::external_body]
    pub fn with_tiff_size_switch(order: BitOrder, size: u8) -> (r: Decoder)
        ensures r.early == true, r.msb_first == (order is Msb), r.min_code_size == size
    { unimplemented!() }
}
// ISO 32000-1 7.4.4.2: LZW data, codes from 9 bits up, packed high-order bit first; `early` = EarlyChange 1
pub uninterp spec fn lzw_expanded(early: bool, data: Seq<u8>) -> Option<Seq<u8>>;
pub open spec fn early_change_on(p: &LZWFlateParams) -> bool { p.early_change == 1 }
// stands for `decoder.into_stream(&mut out).decode_all(data).status?` (io::Error -> PdfError by `?`)
// weezl's size argument is the SYMBOL width: PDF LZW (ISO 7.4.4.2) has 8-bit symbols, 9-bit initial codes (see units/codecs2)
#[verifier::external_body]
fn hoist_lzw_decode_all(decoder: &mut Decoder, out: &mut Vec<u8>, data: &[u8]) -> (r: Result<()>)
    requires old(out)@.len() == 0
    ensures r is Ok ==> old(decoder).msb_first && old(decoder).min_code_size == 8
                        ==> lzw_expanded(old(decoder).early, data@) == Some(final(out)@),
            r is Err ==> old(decoder).msb_first && old(decoder).min_code_size == 8
                        ==> lzw_expanded(old(decoder).early, data@) is None,
{ unimplemented!() }

impl PredictorType {
//@@ PredictorType::from_u8
}

//@@ filter_paeth

//@@ filter_avg
//@@ unfilter

//@@ flate_decode

//@@ lzw_decode
}
fn main(){}
