// Native repros for the findings of unit `treewalk` (C14). Drop into a scratch copy of /repo as
// pdf/tests/treewalk_repro.rs (the scratch copy needs no `files/` directory) and run ONE test per process, e.g.
//   cargo test --offline -p pdf --test treewalk_repro cyclic_number_tree -- --exact
// because a stack overflow aborts the whole test binary (SIGABRT) and cannot be caught.
// Every document below is a syntactically valid PDF (header, objects, classic xref table, trailer).
use pdf::file::FileOptions;
use pdf::object::*;
use pdf::primitive::Primitive;
use pdf::font::Font;

/// objs[i] is the body of object (i+1) 0 obj; object 1 is the catalog, object 2 the (empty) page tree root.
fn build_pdf(objs: &[&str]) -> Vec<u8> {
    let mut out = b"%PDF-1.7\n".to_vec();
    let mut offs = vec![];
    for (i, body) in objs.iter().enumerate() {
        offs.push(out.len());
        out.extend_from_slice(format!("{} 0 obj\n{}\nendobj\n", i + 1, body).as_bytes());
    }
    let xref = out.len();
    out.extend_from_slice(format!("xref\n0 {}\n0000000000 65535 f \n", objs.len() + 1).as_bytes());
    for o in &offs {
        out.extend_from_slice(format!("{:010} 00000 n \n", o).as_bytes());
    }
    out.extend_from_slice(format!("trailer\n<< /Size {} /Root 1 0 R >>\nstartxref\n{}\n%%EOF\n", objs.len() + 1, xref).as_bytes());
    out
}
const PAGES: &str = "<< /Type /Pages /Kids [] /Count 0 >>";
fn r(id: u64) -> Primitive { Primitive::Reference(PlainRef { id, gen: 0 }) }

// ---------------------------------------------------------------- NumberTree::walk / NameTree::walk
/// /PageLabels is a number tree whose only kid is itself. Expected: Err (or Ok). Pinned: unbounded recursion,
/// "thread ... has overflowed its stack", SIGABRT.
#[test]
fn cyclic_number_tree() {
    let data = build_pdf(&[
        "<< /Type /Catalog /Pages 2 0 R /PageLabels 3 0 R >>",
        PAGES,
        "<< /Kids [3 0 R] >>",
    ]);
    let file = FileOptions::cached().load(data).expect("document loads");
    let tree = file.get_root().page_labels.as_ref().expect("page labels present");
    let mut n = 0;
    let res = tree.walk(&file.resolver(), &mut |_, _| n += 1);
    println!("walk returned {:?} after {} leaves", res.is_ok(), n);
}
/// /Names /Dests is a name tree: 3 -> 4 -> 3.
#[test]
fn cyclic_name_tree() {
    let data = build_pdf(&[
        "<< /Type /Catalog /Pages 2 0 R /Names << /Dests 3 0 R >> >>",
        PAGES,
        "<< /Kids [4 0 R] >>",
        "<< /Kids [3 0 R] >>",
    ]);
    let file = FileOptions::cached().load(data).expect("document loads");
    let names = file.get_root().names.as_ref().expect("names present");
    let tree = names.dests.as_ref().expect("dests present");
    let mut n = 0;
    let res = tree.walk(&file.resolver(), &mut |_, _| n += 1);
    println!("walk returned {:?} after {} leaves", res.is_ok(), n);
}
/// sanity: a well-formed two-level number tree is walked in order
#[test]
fn good_number_tree() {
    let data = build_pdf(&[
        "<< /Type /Catalog /Pages 2 0 R /PageLabels 3 0 R >>",
        PAGES,
        "<< /Kids [4 0 R 5 0 R] >>",
        "<< /Nums [0 << /S /D >> 3 << /S /r >>] /Limits [0 3] >>",
        "<< /Nums [7 << /S /D >>] /Limits [7 7] >>",
    ]);
    let file = FileOptions::cached().load(data).expect("document loads");
    let tree = file.get_root().page_labels.as_ref().unwrap();
    let mut keys = vec![];
    tree.walk(&file.resolver(), &mut |k, _| keys.push(k)).unwrap();
    assert_eq!(keys, vec![0, 3, 7]);
}

// ---------------------------------------------------------------- ColorSpace::from_primitive_depth
/// A DeviceN colour space whose alternate space is itself. The depth budget (5) of from_primitive_depth is
/// bypassed because the DeviceN arm re-enters through `Object::from_primitive` (budget reset to 5).
#[test]
fn devicen_alternate_is_itself() {
    let data = build_pdf(&[
        "<< /Type /Catalog /Pages 2 0 R >>",
        PAGES,
        "[/DeviceN [/A] 3 0 R 4 0 R]",
        "<< /FunctionType 2 /Domain [0 1] /N 1 >>",
    ]);
    let file = FileOptions::cached().load(data).expect("document loads");
    let res = ColorSpace::from_primitive(r(3), &file.resolver());
    println!("from_primitive returned ok={:?}", res.is_ok());
}
/// Indexed whose base is itself: the budget works, returns Err after 5 levels.
#[test]
fn indexed_base_is_itself() {
    let data = build_pdf(&[
        "<< /Type /Catalog /Pages 2 0 R >>",
        PAGES,
        "[/Indexed 3 0 R 1 <000000ffffff>]",
    ]);
    let file = FileOptions::cached().load(data).expect("document loads");
    let res = ColorSpace::from_primitive(r(3), &file.resolver());
    assert!(res.is_err());
}

// ---------------------------------------------------------------- Font::widths (CID /W array arithmetic)
fn cid_font(w: &str) -> Vec<u8> {
    let f = format!("<< /Type /Font /Subtype /CIDFontType2 /BaseFont /X /CIDSystemInfo << /Registry (Adobe) /Ordering (Identity) /Supplement 0 >> /FontDescriptor 4 0 R /DW 1000 /W {} >>", w);
    build_pdf(&[
        "<< /Type /Catalog /Pages 2 0 R >>",
        PAGES,
        &f,
        "<< /Type /FontDescriptor /FontName /X /Flags 4 /FontBBox [0 0 1 1] /ItalicAngle 0 /Ascent 1 /Descent 0 /CapHeight 1 /StemV 1 >>",
    ])
}
fn widths_of(data: Vec<u8>) -> Result<Option<pdf::font::Widths>, pdf::error::PdfError> {
    let file = FileOptions::cached().load(data).expect("document loads");
    let font = Font::from_primitive(r(3), &file.resolver()).expect("font loads");
    let res = font.widths(&file.resolver());
    res
}
/// `/W [0 []]`: `c1 + array.len() - 1` with c1 == 0 and an empty array underflows.
#[test]
fn w_array_empty_at_zero() {
    let res = widths_of(cid_font("[0 []]"));
    println!("widths returned ok={:?}", res.is_ok());
}
/// `/W [0 -1 500]`: `c2 as usize` of a negative c2 is 2^64-1: the range loop `c1 ..= c2` never ends in practice
/// (the table grows until memory is exhausted). Run with a timeout / memory limit.
#[test]
fn w_range_negative_end() {
    let res = widths_of(cid_font("[0 -1 500]"));
    println!("widths returned ok={:?}", res.is_ok());
}
/// sanity
#[test]
fn w_array_good() {
    let w = widths_of(cid_font("[1 [10 20] 5 6 30]")).unwrap().unwrap();
    assert_eq!((w.get(1), w.get(2), w.get(5), w.get(6), w.get(0), w.get(9)), (10., 20., 30., 30., 1000., 1000.));
}
/// Type0 font with an empty /DescendantFonts array: `t0.descendant_fonts[0]` indexes out of bounds.
#[test]
fn type0_without_descendant() {
    let data = build_pdf(&[
        "<< /Type /Catalog /Pages 2 0 R >>",
        PAGES,
        "<< /Type /Font /Subtype /Type0 /BaseFont /X /Encoding /Identity-H /DescendantFonts [] >>",
    ]);
    let file = FileOptions::cached().load(data).expect("document loads");
    let font = Font::from_primitive(r(3), &file.resolver()).expect("font loads");
    let res = font.widths(&file.resolver());
    println!("widths returned ok={:?}", res.is_ok());
}
