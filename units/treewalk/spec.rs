// ------------------------------------------------------------------ specification (ISO 32000-1 7.9.6, 7.9.7)
// The leaves of a tree in document order, looking at most `d` levels below the node: a leaf node contributes its
// (key, value) pairs in the order of its /Names (/Nums) array, an intermediate node the concatenation of its /Kids
// from left to right. Below the budget nothing is visible (an Ok result never depends on that case).
// The depth budget of the public entry points. ISO 32000 sets no limit on the height of a name/number tree; the
// number is the repair's choice (same as PageTree::page), recorded here so that changing it is a visible decision.
pub open spec fn WALK_BUDGET() -> nat { 16 }

pub open spec fn name_leaves<T>(w: Map<PlainRef, NameTree<T>>, t: NameTree<T>, d: nat) -> Seq<(PdfString, T)>
    decreases d, 0nat
{
    match t.node {
        NameTreeNode::Leaf(items) => items@,
        NameTreeNode::Intermediate(kids) => if d == 0 { Seq::empty() } else { name_kids_leaves(w, kids@, (d - 1) as nat) },
    }
}
pub open spec fn name_kids_leaves<T>(w: Map<PlainRef, NameTree<T>>, kids: Seq<Ref<NameTree<T>>>, d: nat) -> Seq<(PdfString, T)>
    decreases d, kids.len() + 1
{
    if kids.len() == 0 { Seq::empty() }
    else { name_leaves(w, w[kids[0].inner], d) + name_kids_leaves(w, kids.skip(1), d) }
}
pub open spec fn num_leaves<T>(w: Map<PlainRef, NumberTree<T>>, t: NumberTree<T>, d: nat) -> Seq<(i32, T)>
    decreases d, 0nat
{
    match t.node {
        NumberTreeNode::Leaf(items) => items@,
        NumberTreeNode::Intermediate(kids) => if d == 0 { Seq::empty() } else { num_kids_leaves(w, kids@, (d - 1) as nat) },
    }
}
pub open spec fn num_kids_leaves<T>(w: Map<PlainRef, NumberTree<T>>, kids: Seq<Ref<NumberTree<T>>>, d: nat) -> Seq<(i32, T)>
    decreases d, kids.len() + 1
{
    if kids.len() == 0 { Seq::empty() }
    else { num_leaves(w, w[kids[0].inner], d) + num_kids_leaves(w, kids.skip(1), d) }
}

pub proof fn lemma_take_all<A>(s: Seq<A>)
    ensures s.take(s.len() as int) == s, s.take(0) == Seq::<A>::empty()
{
    assert(s.take(s.len() as int) =~= s);
    assert(s.take(0) =~= Seq::<A>::empty());
}

// leaves of the first i+1 kids = leaves of the first i kids, then those of kid i
pub proof fn lemma_name_prefix<T>(w: Map<PlainRef, NameTree<T>>, kids: Seq<Ref<NameTree<T>>>, d: nat, i: int)
    requires 0 <= i < kids.len()
    ensures name_kids_leaves(w, kids.take(i + 1), d) == name_kids_leaves(w, kids.take(i), d) + name_leaves(w, w[kids[i].inner], d),
    decreases i
{
    let a = kids.take(i + 1);
    let b = kids.take(i);
    if i == 0 {
        assert(a.skip(1) =~= Seq::<Ref<NameTree<T>>>::empty());
        assert(b =~= Seq::<Ref<NameTree<T>>>::empty());
        assert(name_kids_leaves(w, a, d) =~= name_leaves(w, w[kids[0].inner], d) + name_kids_leaves(w, a.skip(1), d));
        assert(name_kids_leaves(w, a, d) =~= name_kids_leaves(w, b, d) + name_leaves(w, w[kids[0].inner], d));
    } else {
        assert(a.skip(1) =~= kids.skip(1).take(i));
        assert(b.skip(1) =~= kids.skip(1).take(i - 1));
        lemma_name_prefix(w, kids.skip(1), d, i - 1);
        assert(a[0] == kids[0] && b[0] == kids[0]);
        assert(kids.skip(1)[i - 1] == kids[i]);
        assert(name_kids_leaves(w, a, d) =~= name_leaves(w, w[kids[0].inner], d) + name_kids_leaves(w, a.skip(1), d));
        assert(name_kids_leaves(w, b, d) =~= name_leaves(w, w[kids[0].inner], d) + name_kids_leaves(w, b.skip(1), d));
        assert(name_kids_leaves(w, a, d) =~= name_kids_leaves(w, b, d) + name_leaves(w, w[kids[i].inner], d));
    }
}
pub proof fn lemma_num_prefix<T>(w: Map<PlainRef, NumberTree<T>>, kids: Seq<Ref<NumberTree<T>>>, d: nat, i: int)
    requires 0 <= i < kids.len()
    ensures num_kids_leaves(w, kids.take(i + 1), d) == num_kids_leaves(w, kids.take(i), d) + num_leaves(w, w[kids[i].inner], d),
    decreases i
{
    let a = kids.take(i + 1);
    let b = kids.take(i);
    if i == 0 {
        assert(a.skip(1) =~= Seq::<Ref<NumberTree<T>>>::empty());
        assert(b =~= Seq::<Ref<NumberTree<T>>>::empty());
        assert(num_kids_leaves(w, a, d) =~= num_leaves(w, w[kids[0].inner], d) + num_kids_leaves(w, a.skip(1), d));
        assert(num_kids_leaves(w, a, d) =~= num_kids_leaves(w, b, d) + num_leaves(w, w[kids[0].inner], d));
    } else {
        assert(a.skip(1) =~= kids.skip(1).take(i));
        assert(b.skip(1) =~= kids.skip(1).take(i - 1));
        lemma_num_prefix(w, kids.skip(1), d, i - 1);
        assert(a[0] == kids[0] && b[0] == kids[0]);
        assert(kids.skip(1)[i - 1] == kids[i]);
        assert(num_kids_leaves(w, a, d) =~= num_leaves(w, w[kids[0].inner], d) + num_kids_leaves(w, a.skip(1), d));
        assert(num_kids_leaves(w, b, d) =~= num_leaves(w, w[kids[0].inner], d) + num_kids_leaves(w, b.skip(1), d));
        assert(num_kids_leaves(w, a, d) =~= num_kids_leaves(w, b, d) + num_leaves(w, w[kids[i].inner], d));
    }
}
