// ------------------------------------------------------------------ environment of ColorSpace::from_primitive_depth
// opaque payload types: nothing in this unit looks inside them
pub struct SmallString { opaque: u8 }
pub struct PdfStream { opaque: u8 }
pub struct Dictionary { opaque: u8 }
pub struct Name { opaque: u8 }
pub struct Function { opaque: u8 }
pub struct IccInfo { opaque: u8 }
pub struct Stream<T> { opaque: u8, _marker: PhantomData<T> }

// Abstract callees (bodies not under contract here; none of them calls back into ColorSpace except where noted).
impl Clone for Primitive {
    #[verifier::external_body]
    fn clone(&self) -> (r: Primitive) { unimplemented!() }
}
impl Primitive {
    // pdf/src/primitive.rs: follows one reference through `Resolve::resolve`, no recursion into typed loading
    #[verifier::external_body]
    pub fn resolve(self, r: &impl Resolve) -> (res: Result<Primitive>) { unimplemented!() }
    #[verifier::external_body]
    pub fn as_name(&self) -> (res: Result<&str>) { unimplemented!() }
    #[verifier::external_body]
    pub fn into_array(self) -> (res: Result<Vec<Primitive>>) { unimplemented!() }
    #[verifier::external_body]
    pub fn as_u8(&self) -> (res: Result<u8>) { unimplemented!() }
    #[verifier::external_body]
    pub fn into_name(self) -> (res: Result<Name>) { unimplemented!() }
    #[verifier::external_body]
    pub fn get_debug_name(&self) -> (res: &'static str) { unimplemented!() }
}
impl Function {
    // Object for Function (pdf/src/object/function.rs): never constructs a ColorSpace
    #[verifier::external_body]
    pub fn from_primitive(p: Primitive, resolve: &impl Resolve) -> (res: Result<Function>) { unimplemented!() }
}
impl Dictionary {
    #[verifier::external_body]
    pub fn from_primitive(p: Primitive, resolve: &impl Resolve) -> (res: Result<Dictionary>) { unimplemented!() }
}
impl<T> RcRef<T> {
    // Object for RcRef<T>: `resolve.get(r)`. For T = Stream<IccInfo> the typed load may construct the /Alternate
    // ColorSpace with a fresh budget; every such hop passes the resolver's `get` guard ("Recursive reference"),
    // which is outside this unit (NOT REACHED, see NOTES.md).
    #[verifier::external_body]
    pub fn from_primitive(p: Primitive, resolve: &impl Resolve) -> (res: Result<RcRef<T>>) { unimplemented!() }
}
impl<T> Stream<T> {
    #[verifier::external_body]
    pub fn from_stream(s: PdfStream, resolve: &impl Resolve) -> (res: Result<Stream<T>>) { unimplemented!() }
    #[verifier::external_body]
    pub fn data(&self, resolve: &impl Resolve) -> (res: Result<Arc<[u8]>>) { unimplemented!() }
}
// Object for Vec<Name> (the /DeviceN names array): never constructs a ColorSpace
#[verifier::external_body]
fn vec_name_from_primitive(p: Primitive, resolve: &impl Resolve) -> (res: Result<Vec<Name>>) { unimplemented!() }

// ---- L0 helpers (R7): bodies are the hoisted source expressions ----
#[verifier::external_body]
fn str_eq(a: &str, b: &str) -> (r: bool) ensures r == (a@ == b@) { a == b }
#[verifier::external_body]
fn hoist_str_into_name(name: &str) -> (r: Name) { unimplemented!() /* name.into() */ }
#[verifier::external_body]
fn hoist_string_into_bytes(string: PdfString) -> (r: Vec<u8>) { unimplemented!() /* string.into_bytes().into() */ }
#[verifier::external_body]
fn hoist_vec_into_arc(data: Vec<u8>) -> (r: Arc<[u8]>) { data.into() }
#[verifier::external_body]
fn hoist_opt_attr(arr: &Vec<Primitive>, resolve: &impl Resolve) -> (res: Result<Option<Dictionary>>)
{ arr.get(4).map(|p| Dictionary::from_primitive(p.clone(), resolve)).transpose() }
#[verifier::external_body]
fn hoist_map_box(r: Result<ColorSpace>) -> (res: Result<Box<ColorSpace>>) ensures r is Ok <==> res is Ok { r.map(Box::new) }
