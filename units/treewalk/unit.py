import os
from vlib import assemble

T = 'pdf/src/object/types.rs'
M = 'pdf/src/object/mod.rs'

# The unit serves two shapes of the tree walks:
#  * pinned /repo: `walk` recurses on itself with no parameter that could decrease  -> the termination obligation
#    is stated with the only measure there is (none: constant) and FAILS (finding tree_walk_cycle, native repro);
#  * /repo + findings/tree_walk_cycle_fix.diff: `walk` = `walk_limited(.., 16)`, `walk_limited` decreases `depth`.
# Which one is present is read from the tree under verification (the same file the extractor reads).
try:
    _src = open(os.path.join(assemble.REPO, T), encoding='utf-8').read()
except OSError:
    _src = ''
LIMITED = 'fn walk_limited' in _src

W = 'r.world::<%s>()'

TAKE = 'proof { assert(items@.take(it.index@ + 1) =~= items@.take(it.index@ as int).push(items@[it.index@ as int])); }'
R5_KIDS = {'rule': 'R5', 'find': 'for &tree_ref in items {',
           'replace': 'for tree_ref_ in items { let tree_ref = *tree_ref_;'}
# R2 (shape): the `&mut dyn FnMut` visitor becomes the abstract observer of the template (records its arguments)
SIG_NAME = {'where': 'sig', 'rule': 'R2', 'find': 'callback: &mut dyn FnMut(&PdfString, &T)', 'replace': 'callback: &mut NameVisitor<T>'}
SIG_NUM = {'where': 'sig', 'rule': 'R2', 'find': 'callback: &mut dyn FnMut(i32, &T)', 'replace': 'callback: &mut NumVisitor<T>'}
SIG_RES = {'where': 'sig', 'rule': 'R2', 'find': 'r: &impl Resolve', 'replace': 'r: &impl Resolve'}
CALL_NAME = [{'rule': 'R5', 'find': 'for (name, val) in items {', 'replace': 'for item_ in items { let name = &item_.0; let val = &item_.1; ' + TAKE + ''},
             {'rule': 'R2', 'find': 'callback(name, val);', 'replace': 'callback.call(name, val);'}]
CALL_NUM = [{'rule': 'R5', 'find': 'for &(idx, ref val) in items {', 'replace': 'for item_ in items { let idx = item_.0; let val = &item_.1; ' + TAKE + ''},
            {'rule': 'R2', 'find': 'callback(idx, val);', 'replace': 'callback.call(idx, val);'}]


def tree_items(kind, ty, sig, call, leaves, kl, lemma):
    """Items for one tree type. kind: 'Name'|'Number'."""
    impl = r'^impl<T: Object\+DataSize> %s<T>$' % ty
    w = W % ('%s<T>' % ty)
    ghost_kid = ('proof { %s(%s, items@, (depth - 1) as nat, it.index@ as int); }' % (lemma, w))
    loops = {
        1: {'for_ghost': 'it',
            'invariant': [('leaf_prefix', 'callback.log@ =~= old(callback).log@ + items@.take(it.index@ as int)')]},
        2: {'for_ghost': 'it',
            'invariant': [('kids_prefix', 'callback.log@ =~= old(callback).log@ + %s(%s, items@.take(it.index@ as int), (depth - 1) as nat)' % (kl, w)),
                          ('budget_left', 'depth >= 1')]},
    }
    post_limited = [
        ('visits_in_order', 'res is Ok ==> final(callback).log@ == old(callback).log@ + %s(%s, *self, depth as nat)' % (leaves, w)),
        ('budget_exhausted_is_err', '(depth == 0 && self.node is Intermediate) ==> res is Err'),
    ]
    out = {}
    if LIMITED:
        out['%s::walk' % ty] = {'kind': 'fn', 'file': T, 'container': impl, 'name': 'walk', 'props': ['C14', 'C01'], 'ret': 'res',
            'ensures': [('visits_in_order', 'res is Ok ==> final(callback).log@ == old(callback).log@ + %s(%s, *self, WALK_BUDGET())' % (leaves, w))],
            'rewrites': [sig]}
        out['%s::walk_limited' % ty] = {'kind': 'fn', 'file': T, 'container': impl, 'name': 'walk_limited',
            'props': ['C14', 'C01'], 'ret': 'res',
            'ensures': post_limited,
            'decreases': 'depth',
            'attrs': ['#[verifier::loop_isolation(false)]'],
            'loops': loops,
            'rewrites': [sig] + call + [
                dict(R5_KIDS, replace=R5_KIDS['replace'] + ' ' + ghost_kid),
                {'rule': 'R1', 'find': '%sTreeNode::Leaf(ref items) => {' % kind,
                 'replace': '%sTreeNode::Leaf(ref items) => { proof { lemma_take_all(items@); }' % kind},
                {'rule': 'R1', 'find': '%sTreeNode::Intermediate(ref items) => {' % kind,
                 'replace': '%sTreeNode::Intermediate(ref items) => { proof { lemma_take_all(items@); }' % kind},
            ]}
    else:
        # pinned shape: the recursion has no measure; `decreases 0nat` states "some measure must decrease" with the
        # only candidate. No visiting-order postcondition can be stated without a budget (the walk need not return).
        out['%s::walk' % ty] = {'kind': 'fn', 'file': T, 'container': impl, 'name': 'walk', 'props': ['C14', 'C01'], 'ret': 'res',
            'ensures': [],
            'decreases': '0nat',
            'attrs': ['#[verifier::loop_isolation(false)]'],
            'loops': {1: {'for_ghost': 'it', 'invariant': ['true']}, 2: {'for_ghost': 'it', 'invariant': ['true']}},
            'rewrites': [sig] + call + [R5_KIDS]}
    return out


ITEMS = {
  'struct PlainRef': {'kind': 'decl', 'file': M, 'header': r'^pub struct PlainRef$', 'attrs': ['#[derive(Clone, Copy)]']},
  'struct Ref': {'kind': 'decl', 'file': M, 'header': r'^pub struct Ref<T>$',
      'rewrites': [{'rule': 'R2', 'find': 'inner:', 'replace': 'pub inner:'},
                   {'rule': 'R2', 'find': '_marker:', 'replace': 'pub _marker:'}]},
  'struct RcRef': {'kind': 'decl', 'file': M, 'header': r'^pub struct RcRef<T>$',
      'rewrites': [{'rule': 'R2', 'find': 'inner:', 'replace': 'pub inner:'},
                   {'rule': 'R2', 'find': 'data:', 'replace': 'pub data:'}]},
  'RcRef::deref': {'kind': 'fn', 'file': M, 'container': r'^impl<T> Deref for RcRef<T>$', 'name': 'deref',
      'props': ['C14'], 'canary': False,
      'ensures': [('deref_is_data', '*r == *self.data')]},
  'enum NameTreeNode': {'kind': 'decl', 'file': T, 'header': r'^pub enum NameTreeNode<T>$'},
  'struct NameTree': {'kind': 'decl', 'file': T, 'header': r'^pub struct NameTree<T>$'},
  'enum NumberTreeNode': {'kind': 'decl', 'file': T, 'header': r'^pub enum NumberTreeNode<T>$'},
  'struct NumberTree': {'kind': 'decl', 'file': T, 'header': r'^pub struct NumberTree<T>$'},
}
ITEMS.update(tree_items('Name', 'NameTree', SIG_NAME, CALL_NAME, 'name_leaves', 'name_kids_leaves', 'lemma_name_prefix'))
ITEMS.update(tree_items('Number', 'NumberTree', SIG_NUM, CALL_NUM, 'num_leaves', 'num_kids_leaves', 'lemma_num_prefix'))

# ---------------------------------------------------------------------------------------------- colour spaces
C = 'pdf/src/object/color.rs'
P = 'pdf/src/primitive.rs'
try:
    _csrc = open(os.path.join(assemble.REPO, C), encoding='utf-8').read()
except OSError:
    _csrc = ''
# pinned shape: the DeviceN arm builds its alternate space through the generic `Object::from_primitive`
# (= `Object for Box<ColorSpace>` -> `Object for ColorSpace` -> from_primitive_depth(.., 5)): a recursion cycle that
# resets the budget. Those two trait methods are then part of the unit (dispatch resolved at T = ColorSpace).
DEVICEN_GENERIC = 'let alt = t!(Object::from_primitive(' in _csrc

CS_REWRITES = [
    # R9: `match` on &str literals -> guards over str_eq (same arm order, same fall-through)
    {'rule': 'R9', 'regex': r'"(DeviceGray|DeviceRGB|DeviceCMYK)" => ColorSpace::', 'replace': r'_ if str_eq(name, "\1") => ColorSpace::', 'count': 3},
    {'rule': 'R9', 'find': '"Pattern" => ColorSpace::Pattern,', 'replace': '_ if str_eq(name, "Pattern") => ColorSpace::Pattern,'},
    {'rule': 'R9', 'regex': r'"(Indexed|Separation|ICCBased|DeviceN|CalGray|CalRGB|CalCMYK|Pattern)" => \{', 'replace': r'_ if str_eq(typ, "\1") => {', 'count': 8},
    # abstract callees with env types (see color_env.rs)
    {'rule': 'R7', 'find': 'ColorSpace::Named(name.into())', 'replace': 'ColorSpace::Named(hoist_str_into_name(name))'},
    {'rule': 'R7', 'find': 'let data: Vec<u8> = string.into_bytes().into();', 'replace': 'let data: Vec<u8> = hoist_string_into_bytes(string);'},
    {'rule': 'R7', 'find': 'data.into()', 'replace': 'hoist_vec_into_arc(data)'},
    {'rule': 'R7', 'find': 'arr.get(4).map(|p| Dictionary::from_primitive(p.clone(), resolve)).transpose()?', 'replace': 'hoist_opt_attr(&arr, resolve)?'},
    # R2: trait dispatch resolved by the expected type (`names: Vec<Name>`)
    {'rule': 'R2', 'find': 'let names = t!(Object::from_primitive(', 'replace': 'let names = t!(vec_name_from_primitive('},
    # R10-like: reference pattern `&Primitive::Reference(r)` on a `&Primitive`
    {'rule': 'R10', 'find': '&Primitive::Reference(r) => resolve.resolve(r)?,', 'replace': 'Primitive::Reference(r_) => { let r = *r_; resolve.resolve(r)? },'},
    {'rule': 'R2', 'find': 'let s: Stream::<()> = Stream::from_stream(stream, resolve)?;', 'replace': 'let s: Stream::<()> = Stream::<()>::from_stream(stream, resolve)?;'},
]
if DEVICEN_GENERIC:
    CS_REWRITES.append({'rule': 'R2', 'find': 'let alt = t!(Object::from_primitive(', 'replace': 'let alt = t!(box_from_primitive('})

ITEMS.update({
  'enum Primitive': {'kind': 'decl', 'file': P, 'header': r'^pub enum Primitive$'},
  'enum ColorSpace': {'kind': 'decl', 'file': C, 'header': r'^pub enum ColorSpace$'},
  'get_index': {'kind': 'fn', 'file': C, 'container': None, 'name': 'get_index', 'props': ['C14', 'C01'],
      'ensures': [('in_bounds_ok', 'idx < arr@.len() ==> (r is Ok && *r->Ok_0 == arr@[idx as int])'),
                  ('out_of_bounds_err', 'idx >= arr@.len() ==> r is Err')]},
  'ColorSpace::from_primitive': {'kind': 'fn', 'file': C, 'container': r'^impl Object for ColorSpace$', 'name': 'from_primitive',
      'props': ['C14', 'C01'], 'decreases': '0nat' if DEVICEN_GENERIC else None},
  'ColorSpace::from_primitive_depth': {'kind': 'fn', 'file': C, 'container': r'^impl ColorSpace$', 'name': 'from_primitive_depth',
      'props': ['C14', 'C01'], 'decreases': 'depth', 'rewrites': CS_REWRITES},
})
if DEVICEN_GENERIC:
    ITEMS['box_from_primitive'] = {'kind': 'fn', 'file': M, 'container': r'^impl<T: Object> Object for Box<T>$', 'name': 'from_primitive',
      'rename': 'box_from_primitive', 'props': ['C14', 'C01'], 'decreases': '0nat',
      'rewrites': [{'where': 'sig', 'rule': 'R2', 'find': 'Result<Self>', 'replace': 'Result<Box<ColorSpace>>'},
                   # R2 dispatch at T = ColorSpace; R7 `.map(Box::new)` (function item as argument)
                   {'rule': 'R2', 'find': 'T::from_primitive(p, resolve).map(Box::new)', 'replace': 'hoist_map_box(ColorSpace::from_primitive(p, resolve))'}]}

UNIT = {
 'name': 'treewalk',
 'doc': 'NameTree::walk / NumberTree::walk over an adversarial (cyclic, deep) /Kids structure: terminate within a depth budget, visit leaves in document order',
 'template': 'unit_%s_%s.rs' % ('limited' if LIMITED else 'pinned', 'pinned' if DEVICEN_GENERIC else 'fixed'),
 'items': ITEMS,
}
