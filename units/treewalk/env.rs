// ------------------------------------------------------------------ environment (types not under contract)
pub type ObjNr = u64;
pub type GenNr = u64;
pub type Shared<T> = Arc<T>;
// opaque key type of name trees: nothing here looks inside it
pub struct PdfString { opaque: u8 }

impl<T> Clone for Ref<T> { fn clone(&self) -> (r: Ref<T>) ensures r == *self { *self } }
impl<T> Copy for Ref<T> {}

// Abstract `Resolve` (pdf/src/object/mod.rs): only `get` is used by the walks. The ghost object store maps a
// reference to the typed object it denotes; the store is *defined* by `get`: a reference is in the store iff
// `get` succeeds on it, and `get` hands out the stored object under the same reference. Nothing is assumed about
// the shape of the store: kids may point anywhere, including back to an ancestor.
pub trait Resolve {
    spec fn world<T>(&self) -> Map<PlainRef, T>;
    fn get<T>(&self, r: Ref<T>) -> (res: Result<RcRef<T>>)
        ensures
            res is Ok <==> self.world::<T>().dom().contains(r.inner),
            res matches Ok(n) ==> n.inner == r.inner && *n.data == self.world::<T>()[r.inner];
    // untyped fetch of an object (no contract: any primitive or error)
    fn resolve(&self, r: PlainRef) -> (res: Result<Primitive>);
}

// The visitor (`&mut dyn FnMut(..)` in /repo) as an abstract observer: it records the arguments of every call.
// Trusted: the caller's closure returns (does not panic, does not loop).
pub struct NameVisitor<T> { pub log: Ghost<Seq<(PdfString, T)>> }
impl<T> NameVisitor<T> {
    #[verifier::external_body]
    pub fn call(&mut self, name: &PdfString, val: &T)
        ensures final(self).log@ == old(self).log@.push((*name, *val))
    { unimplemented!() }
}
pub struct NumVisitor<T> { pub log: Ghost<Seq<(i32, T)>> }
impl<T> NumVisitor<T> {
    #[verifier::external_body]
    pub fn call(&mut self, idx: i32, val: &T)
        ensures final(self).log@ == old(self).log@.push((idx, *val))
    { unimplemented!() }
}
