// Repro for finding option_missing_object (unit option, obligation option/option_from_primitive/opt_missing_any_wrapping_is_none).
// Drop into a scratch copy of /repo as pdf/tests/option_missing_object.rs and run
//   cargo test --offline -p pdf --test option_missing_object
//
// Strict mode (FileOptions::uncached() / cached() = ParseOptions::strict()). The catalog has an OPTIONAL entry that
// refers to an object that is free / beyond the cross-reference table. ISO 32000-1 7.3.10: such a reference is a
// reference to the null object, so the entry is absent and the document loads (C18).
// Pinned code: `impl Object for Option<T>` only matches a *bare* `PdfError::NullRef` / `PdfError::FreeObject`;
// the error arrives wrapped (`t!` -> Try, `Resolve::get` -> Shared) or is `UnspecifiedXRefEntry`, no arm matches,
// and `load` fails.
use pdf::file::FileOptions;

/// classic xref table, /Size 4: object 0 free (head), 1 catalog, 2 pages, 3 free; `extra` goes into the catalog
fn build(extra: &str) -> Vec<u8> {
    let mut out: Vec<u8> = Vec::new();
    out.extend_from_slice(b"%PDF-1.4\n");
    let p1 = out.len();
    out.extend_from_slice(format!("1 0 obj\n<< /Type /Catalog /Pages 2 0 R {} >>\nendobj\n", extra).as_bytes());
    let p2 = out.len();
    out.extend_from_slice(b"2 0 obj\n<< /Type /Pages /Kids [] /Count 0 >>\nendobj\n");
    let px = out.len();
    out.extend_from_slice(b"xref\n0 4\n");
    out.extend_from_slice(b"0000000003 65535 f \n");
    out.extend_from_slice(format!("{:010} 00000 n \n", p1).as_bytes());
    out.extend_from_slice(format!("{:010} 00000 n \n", p2).as_bytes());
    out.extend_from_slice(b"0000000000 00001 f \n");
    out.extend_from_slice(format!("trailer\n<< /Size 4 /Root 1 0 R >>\nstartxref\n{}\n%%EOF\n", px).as_bytes());
    out
}

#[test]
fn control_no_dangling_reference_loads() {
    let file = FileOptions::uncached().load(build("")).expect("load");
    assert!(file.get_root().outlines.is_none());
}

#[test]
fn control_bare_free_object_error_is_absent() {
    // /Outlines is read by a derived struct reader: resolve() -> Storage::resolve_ref -> err!(FreeObject), unwrapped:
    // the one shape the pinned arms do match
    let file = FileOptions::uncached().load(build("/Outlines 3 0 R")).expect("free object in an optional entry");
    assert!(file.get_root().outlines.is_none());
}

#[test]
fn optional_entry_beyond_the_table_is_absent() {
    // 9 >= /Size: XRefTable::get -> UnspecifiedXRefEntry, wrapped by t!() in Storage::resolve_ref
    match FileOptions::uncached().load(build("/Outlines 9 0 R")) {
        Ok(file) => assert!(file.get_root().outlines.is_none()),
        Err(e) => panic!("strict load failed on an optional entry referring to object 9 (>= /Size): {:?}", e),
    }
}

#[test]
fn optional_entry_to_free_object_through_get_is_absent() {
    // /Names: Option<MaybeRef<NameDictionary>>: MaybeRef goes through Resolve::get, which returns Shared { FreeObject }
    match FileOptions::uncached().load(build("/Names 3 0 R")) {
        Ok(file) => assert!(file.get_root().names.is_none()),
        Err(e) => panic!("strict load failed on an optional entry referring to the free object 3: {:?}", e),
    }
}

#[test]
fn required_entry_to_missing_object_is_an_error_naming_the_entry() {
    // /Pages is required: an error value (never a panic) that names the entry
    let mut data = build("");
    let s = String::from_utf8(data.clone()).unwrap().replace("/Pages 2 0 R", "/Pages 3 0 R");
    data = s.into_bytes();
    match FileOptions::uncached().load(data) {
        Ok(_) => panic!("a catalog without a page tree must not load"),
        Err(e) => assert!(format!("{:?}", e).contains("pages") || format!("{:?}", e).contains("Pages"), "{:?}", e),
    }
}
