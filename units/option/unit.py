import os
import re
from vlib import assemble as _asm

E = 'pdf/src/error.rs'
O = 'pdf/src/object/mod.rs'

READS = 'T::reads(p, resolve)'
ALLOW = 'resolve.opts().allow_error_in_option'
NONE = 'Ok::<Option<T>, PdfError>(None)'


def _has_helper():
    """`PdfError::is_missing_object` only exists in a tree that carries findings/option_missing_object_fix.diff.
    The framework has no optional items (a missing item = anchor lost = undecided), but on the pinned tree the
    Option reader must be *rejected*, not undecided. So the helper is an item iff the tree has it; otherwise the
    marker in the template is filled with a one-line comment (an `impl PdfError` decl erased by an R2 rewrite)."""
    try:
        src = open(os.path.join(_asm.REPO, E), encoding='utf-8').read()
    except OSError:
        return False
    return re.search(r'\bfn\s+is_missing_object\b', src) is not None


if _has_helper():
    _HELPER = {'kind': 'fn', 'file': E, 'container': r'^impl PdfError$', 'name': 'is_missing_object', 'props': ['C18', 'C12'],
               'decreases': '*self',
               'ensures': [('missing_object_is_root_cause', 'r == is_missing(*self)')]}
else:
    _HELPER = {'kind': 'decl', 'file': E, 'header': r'^impl PdfError$',
               'rewrites': [{'rule': 'R2', 'regex': r'\A.*\Z',
                             'replace': '// PdfError::is_missing_object: not present in this tree (pinned /repo)'}]}

UNIT = {
 'name': 'option',
 'doc': 'Option<T> reader: null, missing / free / out-of-table references read as None in strict and tolerant mode',
 'items': {
  'enum Primitive': {'kind': 'decl', 'file': 'pdf/src/primitive.rs', 'header': r'^pub enum Primitive$'},
  'struct ParseOptions': {'kind': 'decl', 'file': O, 'header': r'^pub struct ParseOptions$'},

  'PdfError::is_eof': {'kind': 'fn', 'file': E, 'container': r'^impl PdfError$', 'name': 'is_eof', 'props': ['C18'],
     'decreases': '*self',
     'ensures': [('is_eof_exact', 'r == (strip_try(*self) is EOF)')]},

  'PdfError::is_missing_object': _HELPER,

  # R2: trait-impl method `<Option<T> as Object>::from_primitive` emitted as a free generic fn
  'option_from_primitive': {'kind': 'fn', 'file': O, 'container': r'^impl<T: Object> Object for Option<T>$',
     'name': 'from_primitive', 'rename': 'option_from_primitive', 'props': ['C18'],
     'rewrites': [
        {'where': 'sig', 'rule': 'R2', 'find': 'fn from_primitive(', 'replace': 'fn from_primitive<T: Object>('},
        {'where': 'sig', 'rule': 'R2', 'find': 'Result<Self>', 'replace': 'Result<Option<T>>'},
     ],
     'ensures': [
        ('opt_null_is_none', 'p is Null ==> r == %s' % NONE),
        ('opt_value_is_some',
         '!(p is Null) ==> (%s matches Ok(v) ==> r == Ok::<Option<T>, PdfError>(Some(v)))' % READS),
        # the two unwrapped cases the pinned code handles
        ('opt_missing_direct_is_none',
         '!(p is Null) ==> (%s matches Err(e) ==> ((e is NullRef || e is FreeObject) ==> r == %s))' % (READS, NONE)),
        # C18: free / never defined / beyond the table, however wrapped, strict AND tolerant
        ('opt_missing_any_wrapping_is_none',
         '!(p is Null) ==> (%s matches Err(e) ==> (is_missing(e) ==> r == %s))' % (READS, NONE)),
        ('opt_other_error_tolerant_is_none',
         '!(p is Null) ==> (%s matches Err(e) ==> ((!is_missing(e) && %s) ==> r == %s))' % (READS, ALLOW, NONE)),
        ('opt_other_error_strict_is_err',
         '!(p is Null) ==> (%s matches Err(e) ==> ((!is_missing(e) && !%s) ==> (r matches Err(e2) && root(e2) == root(e))))'
         % (READS, ALLOW)),
     ]},
 },
}
