// Unit `option` (C18): references to missing or free objects read as null.
//   impl<T: Object> Object for Option<T> :: from_primitive   (pdf/src/object/mod.rs), `T` abstract
//   PdfError::is_eof                                          (pdf/src/error.rs)
//   PdfError::is_missing_object                               (pdf/src/error.rs; exists only with findings/option_missing_object_fix.diff)
// Spec functions are written from the property statement / ISO 32000-1 7.3.10 ("an indirect reference to an
// undefined object shall not be considered an error ...; it shall be treated as a reference to the null object").
use vstd::prelude::*;
//@@ INCLUDE _common/error_macros.rs
verus! {
global size_of usize == 8;

//@@ PDFERROR

// ---------------------------------------------------------------------------------------------
// spec
// ---------------------------------------------------------------------------------------------
/// the root cause of an error: what is left when the context wrappers the crate puts around an error on its way up
/// (`t!` -> Try, derived readers -> FromPrimitive, the shared cache -> Shared) are taken off
pub open spec fn root(e: PdfError) -> PdfError
    decreases e
{
    match e {
        PdfError::Try { source } => root(*source),
        PdfError::FromPrimitive { typ, field, source } => root(*source),
        PdfError::Shared { source } => root(*source),
        x => x,
    }
}
/// the three ways a reference can point at nothing: free entry, entry never defined (gap), number beyond the table
pub open spec fn is_missing(e: PdfError) -> bool {
    root(e) is NullRef || root(e) is FreeObject || root(e) is UnspecifiedXRefEntry
}
/// `is_eof`: EOF, looked at through `t!` wrappers only
pub open spec fn strip_try(e: PdfError) -> PdfError
    decreases e
{
    match e { PdfError::Try { source } => strip_try(*source), x => x }
}

// ---------------------------------------------------------------------------------------------
// env (NOT under proof): payload types of Primitive are opaque, `T: Object` and `Resolve` are abstract
// ---------------------------------------------------------------------------------------------
#[verifier::external_body] pub struct PdfString { _p: () }
#[verifier::external_body] pub struct PdfStream { _p: () }
#[verifier::external_body] pub struct Dictionary { _p: () }
#[verifier::external_body] pub struct PlainRef { _p: () }
#[verifier::external_body] pub struct SmallString { _p: () }

//@@ enum Primitive
//@@ struct ParseOptions

pub trait Resolve {
    spec fn opts(&self) -> ParseOptions;
    fn options(&self) -> (r: &ParseOptions)
        ensures *r == self.opts();
}
/// the typed reader of an arbitrary `T`: some function of the primitive and the object store behind `resolve`
pub trait Object: Sized {
    spec fn reads<R: Resolve>(p: Primitive, resolve: &R) -> Result<Self>;
    fn from_primitive<R: Resolve>(p: Primitive, resolve: &R) -> (r: Result<Self>)
        ensures r == Self::reads(p, resolve);
}

impl PdfError {
//@@ PdfError::is_eof
//@@ PdfError::is_missing_object
}

//@@ option_from_primitive
}
fn main(){}
