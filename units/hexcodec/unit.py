E = 'pdf/src/enc.rs'
RT = ('decode_hex(encode_hex(x)) == Ok(x) for all x of this length (all byte values); encode_hex emits exactly 2 lower-case '
      'hex digits per byte, high nibble first')
# Tiers: every harness that calls decode_hex costs 70-190 s of CBMC time on the (loaded, load avg ~12) build machine, even for
# the empty input (the design measurement on an idle machine was 35 s for 3 symbolic bytes) -> all 'thorough' (> 60 s rule).
UNIT = {
 'name': 'hexcodec',
 'doc': 'decode_hex / encode_hex of enc.rs against ISO 32000-1 7.4.2 on small symbolic inputs (Kani, bounded)',
 'template': None,
 'items': {},
 'kani': {
   'modules': [{'file': E, 'code': 'kani_hex.rs'}],
   'harnesses': [
     {'name': 'hex_roundtrip_n1', 'fn': 'encode_hex', 'file': E, 'props': ['C16'], 'kind': 'bounded',
      'bound': '|x| == 1, all 256 byte values, unwind 8', 'tier': 'thorough', 'contract': RT},
     {'name': 'hex_roundtrip_n2', 'fn': 'encode_hex', 'file': E, 'props': ['C16'], 'kind': 'bounded',
      'bound': '|x| == 2, all byte values, unwind 8', 'tier': 'thorough', 'contract': RT},
     {'name': 'decode_hex_total_le3', 'fn': 'decode_hex', 'file': E, 'props': ['C01', 'C05'], 'kind': 'bounded',
      'bound': 'input <= 3 bytes, all byte values, unwind 8', 'tier': 'thorough',
      'contract': 'any input: returns Ok(v) with |v| <= ceil(n/2) or Err; no panic, no overflow'},
     {'name': 'hex_roundtrip_n0', 'fn': 'encode_hex', 'file': E, 'props': ['C16'], 'kind': 'bounded',
      'bound': '|x| == 0, unwind 8', 'tier': 'thorough', 'contract': RT},
     {'name': 'hex_roundtrip_n3', 'fn': 'encode_hex', 'file': E, 'props': ['C16'], 'kind': 'bounded',
      'bound': '|x| == 3, all byte values, unwind 9', 'tier': 'thorough', 'contract': RT},
     {'name': 'decode_hex_iso_even_le3', 'fn': 'decode_hex', 'file': E, 'props': ['C05', 'C01'], 'kind': 'bounded',
      'bound': 'input <= 3 bytes, all byte values, unwind 8', 'tier': 'thorough', 'covers': True,
      'contract': 'conforming ASCIIHex text (hex digits, white space, optional > then anything) with an even number of digits: '
                  'decode_hex == Ok(bytes prescribed by ISO 32000-1 7.4.2), incl. result length'},
     {'name': 'decode_hex_iso_odd_le3', 'fn': 'decode_hex', 'file': E, 'props': ['C05'], 'kind': 'bounded',
      'bound': 'input <= 3 bytes, all byte values, unwind 8', 'tier': 'thorough', 'covers': True,
      'contract': 'conforming text with an odd number of digits: the final digit is the high nibble of a last byte whose low nibble is 0'},
     {'name': 'decode_hex_ws_eod_shape6', 'fn': 'decode_hex', 'file': E, 'props': ['C05'], 'kind': 'bounded',
      'bound': '6-byte inputs of shape [ws, digit, ws, digit, >, any], unwind 9', 'tier': 'thorough',
      'contract': 'white space before/between digits ignored, decoding stops at >, result is the one byte hi*16+lo'},
   ],
   'jobs': 4, 'timeout': 3000,
 },
}
