// Kani harnesses on the real `decode_hex` / `encode_hex` of pdf/src/enc.rs (appended as a #[cfg(kani)] module).
// All are BOUNDED (symbolic input of at most N bytes, all byte values). Results are `mem::forget`-ed:
// CBMC cannot digest the drop glue of `PdfError`.

// ---- spec: ISO 32000-1 7.4.2 ASCIIHexDecode, written from the standard, no Vec, no iterator ----
// "The ASCIIHexDecode filter shall produce one byte of binary data for each pair of ASCII hexadecimal digits
//  (0-9 and A-F or a-f). All white-space characters shall be ignored. A GREATER-THAN SIGN (3Eh) indicates EOD.
//  Any other characters shall cause an error. If the filter encounters the EOD marker after reading an odd
//  number of hexadecimal digits, it shall behave as if a 0 (zero) followed the last digit."
fn hexval(c: u8) -> Option<u8> {
    if c >= b'0' && c <= b'9' { Some(c - b'0') }
    else if c >= b'a' && c <= b'f' { Some(c - b'a' + 10) }
    else if c >= b'A' && c <= b'F' { Some(c - b'A' + 10) }
    else { None }
}
// ISO 32000-1 7.2.2 Table 1: NUL, HT, LF, FF, CR, SP
fn is_ws(c: u8) -> bool { c == 0 || c == 9 || c == 10 || c == 12 || c == 13 || c == 32 }

const MAXIN: usize = 6;
struct HexSpec { bad_char: bool, ndigits: usize, out: [u8; MAXIN], nout: usize }
// decodes d[..n]; `ndigits` = hex digits seen before EOD / end; an odd last digit is padded with 0
fn hex_spec(d: &[u8; MAXIN], n: usize) -> HexSpec {
    let mut s = HexSpec { bad_char: false, ndigits: 0, out: [0; MAXIN], nout: 0 };
    let mut i = 0;
    let mut pending: Option<u8> = None;
    while i < n {
        let c = d[i];
        if c == b'>' { break; }
        if !is_ws(c) {
            match hexval(c) {
                None => { s.bad_char = true; break; }
                Some(v) => {
                    s.ndigits += 1;
                    match pending {
                        None => pending = Some(v),
                        Some(h) => { s.out[s.nout] = h * 16 + v; s.nout += 1; pending = None; }
                    }
                }
            }
        }
        i += 1;
    }
    if !s.bad_char { if let Some(h) = pending { s.out[s.nout] = h * 16; s.nout += 1; } }
    s
}

fn check_against_spec(n_max: usize, want_odd: bool) {
    let d: [u8; MAXIN] = kani::any();
    let n: usize = kani::any();
    kani::assume(n <= n_max);
    let s = hex_spec(&d, n);
    kani::assume(!s.bad_char);                       // conforming input: only digits, white space, EOD (+ anything after EOD)
    kani::assume((s.ndigits % 2 == 1) == want_odd);
    let r = decode_hex(&d[..n]);
    kani::cover!(s.nout >= 1);
    match &r {
        Ok(v) => {
            assert!(v.len() == s.nout);              // result length
            let mut k = 0;
            while k < MAXIN { if k < v.len() { assert!(v[k] == s.out[k]); } k += 1; }
        }
        Err(_) => { assert!(false); }                // conforming input must decode
    }
    std::mem::forget(r);
}

// C05: every conforming ASCIIHex text with an even number of digits (white space anywhere, EOD anywhere, garbage
// after EOD) decodes to exactly the bytes the standard prescribes.
#[kani::proof] #[kani::unwind(8)]
fn decode_hex_iso_even_le3() { check_against_spec(3, false); }

// C05 (finding on the pinned tree): an odd number of digits => the last byte has low nibble 0.
#[kani::proof] #[kani::unwind(8)]
fn decode_hex_iso_odd_le3() { check_against_spec(3, true); }

// C01: arbitrary (also corrupt) input: an error or a value, never a panic / overflow.
#[kani::proof] #[kani::unwind(8)]
fn decode_hex_total_le3() {
    let d: [u8; 3] = kani::any();
    let n: usize = kani::any();
    kani::assume(n <= 3);
    let r = decode_hex(&d[..n]);
    if let Ok(ref v) = r { assert!(v.len() <= (n + 1) / 2); }   // at most one byte per started pair
    std::mem::forget(r);
}

// C05: white space between the two digits of a pair (and around it) is ignored, decoding stops at '>' whatever follows.
// Shape: [w0, h, w1, l, '>', j] with h, l any hex digits, w0, w1 any white-space characters, j any byte.
#[kani::proof] #[kani::unwind(9)]
fn decode_hex_ws_eod_shape6() {
    let h: u8 = kani::any(); let l: u8 = kani::any();
    let w0: u8 = kani::any(); let w1: u8 = kani::any(); let j: u8 = kani::any();
    kani::assume(hexval(h).is_some() && hexval(l).is_some() && is_ws(w0) && is_ws(w1));
    let d = [w0, h, w1, l, b'>', j];
    let r = decode_hex(&d);
    match &r {
        Ok(v) => { assert!(v.len() == 1); assert!(v[0] == hexval(h).unwrap() * 16 + hexval(l).unwrap()); }
        Err(_) => { assert!(false); }
    }
    std::mem::forget(r);
}

// C16: decode_hex(encode_hex(x)) == Ok(x) for every x of exactly N bytes (all byte values); the encoder emits exactly
// two lower-case hexadecimal digits per byte, high nibble first (checked through the independent `hexval`).
// The length is concrete per harness (N = 0, 1, 2; 3 in tier thorough): a symbolic length makes `Vec::with_capacity`
// symbolic and CBMC runs out of memory (measured: > 48 GB).
fn roundtrip<const N: usize>() {
    let x: [u8; N] = kani::any();
    let e = encode_hex(&x);
    assert!(e.len() == 2 * N);
    let mut k = 0;
    while k < N {
        assert!(hexval(e[2 * k]) == Some(x[k] >> 4));
        assert!(hexval(e[2 * k + 1]) == Some(x[k] & 15));
        assert!(!(e[2 * k] >= b'A' && e[2 * k] <= b'F') && !(e[2 * k + 1] >= b'A' && e[2 * k + 1] <= b'F'));
        k += 1;
    }
    let r = decode_hex(&e);
    match &r {
        Ok(v) => {
            assert!(v.len() == N);
            let mut k = 0;
            while k < N { assert!(v[k] == x[k]); k += 1; }
        }
        Err(_) => { assert!(false); }
    }
    std::mem::forget(r);
    std::mem::forget(e);
}
#[kani::proof] #[kani::unwind(8)]
fn hex_roundtrip_n0() { roundtrip::<0>(); }
#[kani::proof] #[kani::unwind(8)]
fn hex_roundtrip_n1() { roundtrip::<1>(); }
#[kani::proof] #[kani::unwind(8)]
fn hex_roundtrip_n2() { roundtrip::<2>(); }
#[kani::proof] #[kani::unwind(9)]
fn hex_roundtrip_n3() { roundtrip::<3>(); }
