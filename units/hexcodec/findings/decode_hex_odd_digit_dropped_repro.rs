// Repro for finding decode_hex_odd_digit_dropped (C05): drop into a scratch copy of /repo as
// pdf/tests/verif_hex_repro.rs and run
//   CARGO_TARGET_DIR=/tmp/hexcodec_target cargo test --offline -p pdf --test verif_hex_repro
// ISO 32000-1 7.4.2: "If the filter encounters the EOD marker after reading an odd number of hexadecimal
// digits, it shall behave as if a 0 (zero) followed the last digit."
// Pinned tree: FAILS (the last digit is silently dropped). With findings/decode_hex_odd_digit_dropped_fix.diff: passes.
use pdf::enc::decode_hex;

#[test]
fn odd_final_digit_is_padded_with_zero() {
    assert_eq!(decode_hex(b"7>").unwrap(), vec![0x70u8]);
    assert_eq!(decode_hex(b"901FA>").unwrap(), vec![0x90u8, 0x1F, 0xA0]);   // the standard's own example style
    assert_eq!(decode_hex(b"4 1 4").unwrap(), vec![0x41u8, 0x40]);          // no EOD marker, white space between digits
    // even inputs are unaffected
    assert_eq!(decode_hex(b"41 42>zz").unwrap(), vec![0x41u8, 0x42]);
    assert_eq!(decode_hex(b">").unwrap(), Vec::<u8>::new());
}
