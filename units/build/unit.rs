// Unit `build` (C10): documents built from scratch.
//   pdf/src/build.rs        : CatalogBuilder::{from_pages, build}, PdfBuilder::{info, id, build}, PageBuilder::{size, from_content, from_page}
//   pdf/src/object/types.rs : PagesRc::create (+ PagesRc::to_primitive for the writer part)
//   pdf/src/object/mod.rs   : Ref::new, MaybeRef::data, From<RcRef<T>> for MaybeRef<T>
//   pdf/src/file.rs         : PromisedRef::get_inner
//   expanded:pdf            : derived ToDict::to_dict of Page, PageTree, Catalog (pdf_derive output)
//
// Part A (builder): the Updater is abstract, with a GHOST STORE (`objs()`: what every object number holds).  Its
//   create / promise / fulfill contracts restate what units/updater proves of `impl Updater for Storage`.
//   Postcondition of `CatalogBuilder::build`: the store afterwards holds ONE /Pages root whose tree is `wf_tree`
//   (the page-tree specification of units/pagetree, same text) with `leaves` == the builder's pages in order, every
//   leaf carrying the builder's fields, every leaf's /Parent the root, and no promise left dangling.
// Part B (derived writers): whole-dictionary model of units/expansions for Page / PageTree / Catalog.
use vstd::prelude::*;
use std::sync::Arc;
use core::marker::PhantomData;
//@@ INCLUDE _common/error_macros.rs
verus! {
global size_of usize == 8;

//@@ PDFERROR
//@@ DEVIATIONS

pub type ObjNr = u64;
pub type GenNr = u64;
pub type Shared<T> = Arc<T>;

// ====================================================================================================================
// env: value model of the crate's primitives (same as units/expansions: ghost payloads, Dictionary = ghost map)
pub struct SmallString { pub chars: Ghost<Seq<char>> }
impl SmallString {
    pub open spec fn view(&self) -> Seq<char> { self.chars@ }
}
impl From<&str> for SmallString {
    #[verifier::external_body]
    fn from(s: &str) -> (r: SmallString) ensures r == (SmallString { chars: Ghost(s@) }) { unimplemented!() }
}
pub struct Name(pub SmallString);
impl From<&str> for Name {
    #[verifier::external_body]
    fn from(s: &str) -> (r: Name) ensures r == Name(SmallString { chars: Ghost(s@) }) { unimplemented!() }
}
pub struct PdfString { pub data: Ghost<Seq<u8>> }
impl From<&str> for PdfString {
    #[verifier::external_body]
    fn from(s: &str) -> (r: PdfString) { unimplemented!() }
}
pub struct PdfStream { pub info: Dictionary, pub data: Ghost<Seq<u8>> }
pub enum Primitive {
    Null,
    Integer(i32),
    Number(f32),
    Boolean(bool),
    String(PdfString),
    Stream(PdfStream),
    Dictionary(Dictionary),
    Array(Vec<Primitive>),
    Reference(PlainRef),
    Name(SmallString),
}
impl<T> From<RcRef<T>> for Primitive {
    #[verifier::external_body]
    fn from(value: RcRef<T>) -> (r: Primitive) ensures r == Primitive::Reference(value.inner) { unimplemented!() }
}
pub type DMap = Map<Seq<char>, Primitive>;
pub struct Dictionary { pub m: Ghost<DMap> }
impl Dictionary {
    pub open spec fn view(&self) -> DMap { self.m@ }
    #[verifier::external_body]
    pub fn new() -> (r: Dictionary) ensures r@ == Map::<Seq<char>, Primitive>::empty() { unimplemented!() }
    #[verifier::external_body]
    pub fn insert(&mut self, key: &str, val: Primitive) -> (r: Option<Primitive>)
        ensures final(self)@ == old(self)@.insert(key@, val),
            r == (if old(self)@.dom().contains(key@) { Some(old(self)@[key@]) } else { None::<Primitive> })
    { unimplemented!() }
}
impl Clone for Dictionary {
    #[verifier::external_body]
    fn clone(&self) -> (r: Dictionary) ensures r@ == self@ { unimplemented!() }
}

// opaque payload types: nothing in this unit looks inside them
pub struct Op { opaque: u8 }
pub struct Resources { opaque: u8 }
pub struct Content { opaque: u8 }
pub struct Annot { opaque: u8 }
pub struct Date { opaque: u8 }        // object/types.rs: an entry type of InfoDict; nothing looks inside
pub struct CryptDict { opaque: u8 }
pub struct NameDictionary { opaque: u8 }
pub struct Outlines { opaque: u8 }
pub struct InteractiveFormDictionary { opaque: u8 }
pub struct StructTreeRoot { opaque: u8 }
pub struct PageLabel { opaque: u8 }
pub struct NumberTree<T> { opaque: u8, _marker: PhantomData<T> }
pub struct Stream<T> { opaque: u8, _marker: PhantomData<T> }
pub struct Lazy<T> { opaque: u8, _marker: PhantomData<T> }
pub uninterp spec fn lazy_default<T>() -> Lazy<T>;     // `Lazy { primitive: Null, .. }`: "no entry" (object/mod.rs:489)
impl<T> Lazy<T> {
    #[verifier::external_body]
    pub fn default_() -> (r: Lazy<T>) ensures r == lazy_default::<T>() { unimplemented!() }
}
pub uninterp spec fn resources_default() -> Resources;
impl Clone for Resources {
    #[verifier::external_body]
    fn clone(&self) -> (r: Resources) ensures r == *self { unimplemented!() }
}
impl Clone for Primitive {
    #[verifier::external_body]
    fn clone(&self) -> (r: Primitive) ensures r == *self { unimplemented!() }
}

// the operation sequence a content stream denotes.  `from_ops` serialises, `operations` parses: that the two are
// inverse is C08 (units/ops, units/serialize_ops); here both are abstract (TRUSTED).
pub uninterp spec fn content_ops(c: Content) -> Seq<Op>;
pub uninterp spec fn content_readable(c: Content) -> bool;
impl Content {
    #[verifier::external_body]
    pub fn from_ops(operations: Vec<Op>) -> (r: Content) ensures content_ops(r) == operations@ { unimplemented!() }
    #[verifier::external_body]
    pub fn operations(&self, resolve: &impl Resolve) -> (r: Result<Vec<Op>>)
        ensures r is Ok <==> content_readable(*self), r matches Ok(v) ==> v@ == content_ops(*self)
    { unimplemented!() }
}
pub trait Resolve {}

// ====================================================================================================================
// data types taken from /repo
//@@ struct PlainRef
//@@ struct Ref
//@@ struct RcRef
//@@ enum MaybeRef
//@@ struct PromisedRef
//@@ struct Rectangle
//@@ enum PagesNode
//@@ struct PagesRc
//@@ struct PageTree
//@@ struct Page
//@@ struct Catalog
//@@ enum Trapped
//@@ struct InfoDict
//@@ struct Trailer
//@@ struct PageBuilder
//@@ struct CatalogBuilder
//@@ struct PdfBuilder

impl<T> Ref<T> {
//@@ Ref::new
}
impl<T> PromisedRef<T> {
//@@ PromisedRef::get_inner
}
impl<T> MaybeRef<T> {
//@@ MaybeRef::data
}
impl<T> vstd::std_specs::convert::FromSpecImpl<RcRef<T>> for MaybeRef<T> {
    open spec fn obeys_from_spec() -> bool { true }
    open spec fn from_spec(r: RcRef<T>) -> Self { MaybeRef::Indirect(r) }
}
impl<T> From<RcRef<T>> for MaybeRef<T> {
//@@ MaybeRef::from
}

// ====================================================================================================================
// Part A env: the abstract Updater with a ghost store
// What an object number holds.  `Nested` = an object allocated by the writer of another object while that one was
// stored (a content stream, an `indirect` entry): the builder never sees it.
pub enum Slot { Promised, Node(PagesNode), Res(Resources), Cat(Catalog), Nested }
pub type Store = Seq<Slot>;
pub trait Object {}
pub trait ObjectWrite: Sized { spec fn slot(&self) -> Slot; }
impl Object for PagesNode {}
impl ObjectWrite for PagesNode { open spec fn slot(&self) -> Slot { Slot::Node(*self) } }
impl ObjectWrite for Resources { open spec fn slot(&self) -> Slot { Slot::Res(*self) } }
impl ObjectWrite for Catalog { open spec fn slot(&self) -> Slot { Slot::Cat(*self) } }

// the reference under which object number `i` of a store that this builder fills is known (new objects: generation 0,
// units/updater create_id / promise_id)
pub open spec fn ref_of(i: int) -> PlainRef { PlainRef { id: i as u64, gen: 0 } }
// `b` extends `a`: object numbers are only appended, nothing that existed is touched   (units/updater: `extends`)
pub open spec fn extends(a: Store, b: Store) -> bool {
    a.len() <= b.len() && forall|i: int| 0 <= i < a.len() ==> #[trigger] b[i] == a[i]
}
// like `extends`, but object number `id` may differ                                      (units/updater: `extends_except`)
pub open spec fn extends_except(a: Store, b: Store, id: int) -> bool {
    a.len() <= b.len() && forall|i: int| 0 <= i < a.len() && i != id ==> #[trigger] b[i] == a[i]
}
// every object number allocated between `a` and `b`, other than `own`, belongs to a nested writer
pub open spec fn rest_nested(a: Store, b: Store, own: int) -> bool {
    forall|i: int| a.len() <= i < b.len() && i != own ==> #[trigger] b[i] is Nested
}

pub trait Updater: Sized {
    spec fn objs(&self) -> Store;
    // proved in units/updater: Storage::create/{create_id, create_table, create_value, create_frame}.  The value is
    // recorded under a NEW number (the old length), generation 0; every other object is untouched.  Numbers above it
    // are taken by nested writers (ObjectWrite::to_primitive only ever calls `create`: units/updater NOTES "central
    // assumption"); when the whole call is Ok each of them returned Ok, i.e. holds a value.
    fn create<T: ObjectWrite>(&mut self, obj: T) -> (r: Result<RcRef<T>>)
        ensures
            extends(old(self).objs(), final(self).objs()),
            r matches Ok(rc) ==> rc.inner == ref_of(old(self).objs().len() as int) && *rc.data == obj
                && old(self).objs().len() < final(self).objs().len() <= u64::MAX   // object numbers are u64
                && final(self).objs()[old(self).objs().len() as int] == obj.slot()
                && rest_nested(old(self).objs(), final(self).objs(), old(self).objs().len() as int);
    // proved in units/updater: Storage::promise/{promise_id, promise_table, promise_frame}
    fn promise<T: Object>(&mut self) -> (r: PromisedRef<T>)
        ensures
            final(self).objs() == old(self).objs().push(Slot::Promised),
            r.inner == ref_of(old(self).objs().len() as int);
    // proved in units/updater: Storage::fulfill/{fulfill_same_ref, fulfill_value, fulfill_frame, fulfill_err_range,
    // fulfill_err_frame}.  Its precondition there (the target's table entry is neither Free nor Invalid, else panic!) is
    // implied by: the number still holds the promise.
    fn fulfill<T: ObjectWrite>(&mut self, promise: PromisedRef<T>, obj: T) -> (r: Result<RcRef<T>>)
        requires
            promise.inner.id < old(self).objs().len() ==> old(self).objs()[promise.inner.id as int] is Promised,
        ensures
            promise.inner.id >= old(self).objs().len() ==> r is Err,
            r is Err ==> extends(old(self).objs(), final(self).objs()),
            r matches Ok(rc) ==> rc.inner == promise.inner && *rc.data == obj
                && extends_except(old(self).objs(), final(self).objs(), promise.inner.id as int)
                && final(self).objs()[promise.inner.id as int] == obj.slot()
                && final(self).objs().len() <= u64::MAX
                && rest_nested(old(self).objs(), final(self).objs(), -1);
}

// ====================================================================================================================
// the page-tree wrapper and its type invariant (same as units/pagetree)
impl PagesRc {
    #[verifier::type_invariant]
    pub closed spec fn inv(&self) -> bool { *self.0.data is Tree }
    pub closed spec fn tree(&self) -> PageTree { (*self.0.data)->Tree_0 }
    pub closed spec fn rc(&self) -> RcRef<PagesNode> { self.0 }
    pub proof fn lemma_rc(&self) requires self.inv() ensures *self.rc().data == PagesNode::Tree(self.tree()) {}
//@@ PagesRc::create
}
// derived `Clone` of the wrapper (an `Arc` clone and a `Copy`): TRUSTED
impl Clone for PagesRc {
    #[verifier::external_body]
    fn clone(&self) -> (r: PagesRc) ensures r == *self { unimplemented!() }
}

// ====================================================================================================================
// specification: leaves in document order -- text of units/pagetree (ISO 32000-1 7.7.3.2)
pub type World = Map<PlainRef, PagesNode>;
pub open spec fn node_leaves(w: World, k: Ref<PagesNode>, d: nat) -> Seq<PlainRef>
    decreases d, 0nat
{
    match w[k.inner] {
        PagesNode::Leaf(_) => seq![k.inner],
        PagesNode::Tree(t) => if d <= 1 { Seq::empty() } else { leaves(w, t.kids@, (d - 1) as nat) },
    }
}
pub open spec fn leaves(w: World, kids: Seq<Ref<PagesNode>>, d: nat) -> Seq<PlainRef>
    decreases d, 1 + kids.len()
{
    if kids.len() == 0 { Seq::empty() } else { node_leaves(w, kids[0], d) + leaves(w, kids.skip(1), d) }
}
pub open spec fn wf_kids(w: World, kids: Seq<Ref<PagesNode>>, d: nat) -> bool
    decreases d, kids.len()
{
    kids.len() == 0 || (
        w.dom().contains(kids[0].inner)
        && (match w[kids[0].inner] {
            PagesNode::Leaf(_) => true,
            PagesNode::Tree(t) => d >= 2 && t.count == leaves(w, t.kids@, (d - 1) as nat).len() && wf_kids(w, t.kids@, (d - 1) as nat),
        })
        && wf_kids(w, kids.skip(1), d))
}
pub open spec fn wf_tree(w: World, t: PageTree, d: nat) -> bool {
    d >= 1 && wf_kids(w, t.kids@, d) && t.count == leaves(w, t.kids@, d).len()
}
pub open spec fn tree_leaves(w: World, t: PageTree, d: nat) -> Seq<PlainRef> { leaves(w, t.kids@, d) }

// `w` (what a `Resolve` hands out for page-tree references: the `world()` of units/pagetree) reads the store `s`:
// a reference is defined iff its object number holds a page-tree node (new objects: generation 0), and denotes that node
pub open spec fn reads_store(w: World, s: Store) -> bool {
    forall|r: PlainRef| ((#[trigger] w.dom().contains(r)) <==> (r.gen == 0 && r.id < s.len() && s[r.id as int] is Node))
        && (w.dom().contains(r) ==> w[r] == s[r.id as int]->Node_0)
}

// `reads_store` is satisfiable (so `built`, which quantifies over every such `w`, is not vacuous)
pub proof fn lemma_world_exists(s: Store)
    requires s.len() <= u64::MAX
    ensures exists|w: World| reads_store(w, s)
    decreases s.len()
{
    if s.len() == 0 {
        let w = Map::<PlainRef, PagesNode>::empty();
        assert(reads_store(w, s));
    } else {
        let k = (s.len() - 1) as int;
        let s0 = s.drop_last();
        lemma_world_exists(s0);
        let w0 = choose|w: World| reads_store(w, s0);
        let w = match s[k] { Slot::Node(n) => w0.insert(ref_of(k), n), _ => w0 };
        assert forall|r: PlainRef| ((#[trigger] w.dom().contains(r)) <==> (r.gen == 0 && r.id < s.len() && s[r.id as int] is Node))
            && (w.dom().contains(r) ==> w[r] == s[r.id as int]->Node_0) by {
            assert(w0.dom().contains(r) <==> (r.gen == 0 && r.id < s0.len() && s0[r.id as int] is Node));
            if r.id < s0.len() { assert(s0[r.id as int] == s[r.id as int]); }
            if r == ref_of(k) { assert(r.id == k); }
        }
        assert(reads_store(w, s));
    }
}

// a /Kids list whose members are all pages: well formed at any height, and its leaves are the kids themselves
pub proof fn lemma_flat(w: World, kids: Seq<Ref<PagesNode>>, d: nat)
    requires d >= 1, forall|i: int| 0 <= i < kids.len() ==> w.dom().contains(#[trigger] kids[i].inner) && w[kids[i].inner] is Leaf,
    ensures wf_kids(w, kids, d), leaves(w, kids, d) =~= Seq::new(kids.len(), |i: int| kids[i].inner),
    decreases kids.len()
{
    if kids.len() > 0 {
        let rest = kids.skip(1);
        assert forall|i: int| 0 <= i < rest.len() implies w.dom().contains(#[trigger] rest[i].inner) && w[rest[i].inner] is Leaf by {
            assert(rest[i] == kids[i + 1]);
            assert(w.dom().contains(kids[i + 1].inner) && w[kids[i + 1].inner] is Leaf);
        }
        lemma_flat(w, rest, d);
        assert(w.dom().contains(kids[0].inner) && w[kids[0].inner] is Leaf);
        assert(node_leaves(w, kids[0], d) =~= seq![kids[0].inner]);
        let l = leaves(w, kids, d);
        assert(l == node_leaves(w, kids[0], d) + leaves(w, rest, d));
        assert(l.len() == kids.len());
        assert forall|i: int| 0 <= i < kids.len() implies l[i] == kids[i].inner by {
            if i > 0 { assert(leaves(w, rest, d)[i - 1] == rest[i - 1].inner); assert(rest[i - 1] == kids[i]); }
        }
    } else {
        assert(leaves(w, kids, d) =~= Seq::<PlainRef>::empty());
    }
}

// ====================================================================================================================
// specification of the builder (written from C10: "the same number of pages in the same order with equal boxes,
// rotation, extra entries and operation sequences"; ISO 32000-1 7.7.3: one /Pages root, /Kids, /Count, /Parent)

// page `p` of the store `s` is what the builder `b` describes, under the root `root`
pub open spec fn page_of(b: PageBuilder, p: Page, root: PagesRc, s: Store) -> bool {
    &&& p.parent == root
    &&& p.media_box == b.media_box && p.crop_box == b.crop_box && p.trim_box == b.trim_box
    &&& p.rotate == b.rotate
    &&& p.metadata == b.metadata && p.lgi == b.lgi && p.vp == b.vp
    &&& p.other == b.other
    &&& p.contents matches Some(c) && content_ops(c) == b.ops@
    // its resources are the builder's; when held by reference, the reference is defined in the store
    &&& p.resources matches Some(m) && *maybe_data(m) == b.resources
        && (m matches MaybeRef::Indirect(rc) ==> rc.inner.gen == 0 && rc.inner.id < s.len() && s[rc.inner.id as int] == Slot::Res(b.resources))
    &&& p.annotations == lazy_default::<Vec<MaybeRef<Annot>>>()
}
pub open spec fn maybe_data<T>(m: MaybeRef<T>) -> Shared<T> {
    match m { MaybeRef::Direct(t) => t, MaybeRef::Indirect(r) => r.data }
}
// `cat` is a catalog for the pages `bs`, built into `post` from `pre`
pub open spec fn built(pre: Store, post: Store, bs: Seq<PageBuilder>, cat: Catalog) -> bool {
    forall|w: World| #[trigger] reads_store(w, post) ==> built_w(pre, post, bs, cat, w)
}
pub open spec fn built_w(pre: Store, post: Store, bs: Seq<PageBuilder>, cat: Catalog, w: World) -> bool {
    let root = cat.pages;
    let t = root.tree();
    let lv = tree_leaves(w, t, 1);
    // ONE /Pages root, stored, without parent
    &&& root.rc().inner.gen == 0 && pre.len() <= root.rc().inner.id < post.len()
    &&& post[root.rc().inner.id as int] == Slot::Node(PagesNode::Tree(t))
    &&& t.parent is None
    // whose tree is well formed (every kid defined, /Count = number of leaves) ...
    &&& wf_tree(w, t, 1)
    // (and at the depth budget of `PageTree::page`, so that the hypothesis of units/pagetree `get_page_lookup` holds)
    &&& wf_tree(w, t, 16) && tree_leaves(w, t, 16) == lv
    // ... with exactly the given pages as leaves, in the given order, each carrying its builder's fields
    &&& lv.len() == bs.len()
    &&& forall|i: int| 0 <= i < bs.len() ==> (#[trigger] w[lv[i]] matches PagesNode::Leaf(p) && page_of(bs[i], p, root, post))
    // each page is ONE new object: the leaves are pairwise distinct new objects and no other page object was made
    &&& forall|i: int, j: int| 0 <= i < j < lv.len() ==> lv[i] != lv[j]
    &&& forall|i: int| 0 <= i < lv.len() ==> pre.len() <= (#[trigger] lv[i]).id
    &&& forall|k: int| pre.len() <= k < post.len() && (#[trigger] post[k] matches Slot::Node(PagesNode::Leaf(_))) ==> lv.contains(ref_of(k))
    // every promise made is fulfilled
    &&& forall|k: int| pre.len() <= k < post.len() ==> !(#[trigger] post[k] is Promised)
    // what existed is untouched
    &&& extends(pre, post)
    // nothing invented in the catalog
    &&& cat.names is None && cat.dests is None && cat.metadata is None && cat.outlines is None
        && cat.struct_tree_root is None && cat.forms is None && cat.page_labels is None
}

// The shape `CatalogBuilder::build` produces, in terms of object numbers: promises `n0 .. n0+n` hold the pages in
// order, the root sits right above them, nothing above the root is a promise or a page-tree node.
// `lemma_built` derives the property-level statement `built` from it.
pub open spec fn flat_built(pre: Store, post: Store, bs: Seq<PageBuilder>, cat: Catalog) -> bool {
    let root = cat.pages;
    let t = root.tree();
    let n0 = pre.len() as int;
    let n = bs.len() as int;
    &&& post.len() <= u64::MAX
    &&& root.rc().inner == ref_of(n0 + n) && n0 + n < post.len()
    &&& post[n0 + n] == Slot::Node(PagesNode::Tree(t))
    &&& t.parent is None && t.count == n && t.kids@.len() == n
    &&& forall|j: int| 0 <= j < n ==> (#[trigger] t.kids@[j]).inner == ref_of(n0 + j)
    &&& forall|j: int| 0 <= j < n ==> ((#[trigger] post[n0 + j]) matches Slot::Node(PagesNode::Leaf(p)) && page_of(bs[j], p, root, post))
    &&& forall|k: int| n0 + n < k < post.len() ==> !((#[trigger] post[k]) is Promised) && !(post[k] is Node)
    &&& extends(pre, post)
    &&& cat.names is None && cat.dests is None && cat.metadata is None && cat.outlines is None
        && cat.struct_tree_root is None && cat.forms is None && cat.page_labels is None
}
pub proof fn lemma_built(pre: Store, post: Store, bs: Seq<PageBuilder>, cat: Catalog)
    ensures flat_built(pre, post, bs, cat) ==> built(pre, post, bs, cat)
{
    assert forall|w: World| #[trigger] reads_store(w, post) && flat_built(pre, post, bs, cat) implies built_w(pre, post, bs, cat, w) by {
        lemma_built_w(pre, post, bs, cat, w);
    }
}
pub proof fn lemma_built_w(pre: Store, post: Store, bs: Seq<PageBuilder>, cat: Catalog, w: World)
    ensures flat_built(pre, post, bs, cat) && reads_store(w, post) ==> built_w(pre, post, bs, cat, w)
{
    if flat_built(pre, post, bs, cat) && reads_store(w, post) {
        let root = cat.pages;
        let t = root.tree();
        let n0 = pre.len() as int;
        let n = bs.len() as int;
        let kids = t.kids@;
        assert forall|i: int| 0 <= i < kids.len() implies w.dom().contains(#[trigger] kids[i].inner) && w[kids[i].inner] is Leaf by {
            assert(kids[i].inner == ref_of(n0 + i));
            assert(post[n0 + i] is Node);
            assert(ref_of(n0 + i).id == n0 + i && ref_of(n0 + i).gen == 0);
            assert(w.dom().contains(ref_of(n0 + i)));
        }
        lemma_flat(w, kids, 1);
        lemma_flat(w, kids, 16);
        let lv = tree_leaves(w, t, 1);
        assert(tree_leaves(w, t, 16) =~= lv);
        assert(lv =~= Seq::new(kids.len(), |i: int| kids[i].inner));
        assert forall|i: int| 0 <= i < bs.len() implies (#[trigger] w[lv[i]] matches PagesNode::Leaf(p) && page_of(bs[i], p, root, post)) by {
            assert(lv[i] == ref_of(n0 + i));
            assert(post[n0 + i] is Node);
        }
        assert forall|i: int, j: int| 0 <= i < j < lv.len() implies lv[i] != lv[j] by {
            assert(lv[i] == ref_of(n0 + i) && lv[j] == ref_of(n0 + j));
        }
        assert forall|i: int| 0 <= i < lv.len() implies pre.len() <= (#[trigger] lv[i]).id by {
            assert(lv[i] == ref_of(n0 + i));
        }
        assert forall|k: int| pre.len() <= k < post.len() && (#[trigger] post[k] matches Slot::Node(PagesNode::Leaf(_))) implies lv.contains(ref_of(k)) by {
            assert(k < n0 + n);
            assert(lv[k - n0] == ref_of(k));
        }
        assert forall|k: int| pre.len() <= k < post.len() implies !(#[trigger] post[k] is Promised) by {
            if k < n0 + n { assert(post[n0 + (k - n0)] is Node); }
        }
    }
}
// the resources of page `p`, when held by reference, have an object number above `m`
pub open spec fn page_res_above(p: Page, m: int) -> bool {
    p.resources matches Some(MaybeRef::Indirect(rc)) ==> rc.inner.id > m
}

// ---- R6/R7: `self.pages.into_iter().zip(kids_promise)` -- the by-value iterator of the third loop, as an opaque env
// type with the iterator protocol (`next` hands out the pairs front to back).  TRUSTED (std: IntoIter, Zip).
#[verifier::external_body]
pub struct ZipPairs { it: std::iter::Zip<std::vec::IntoIter<PageBuilder>, std::vec::IntoIter<PromisedRef<PagesNode>>> }
impl ZipPairs {
    pub uninterp spec fn rest(&self) -> Seq<(PageBuilder, PromisedRef<PagesNode>)>;
    #[verifier::external_body]
    pub fn next(&mut self) -> (r: Option<(PageBuilder, PromisedRef<PagesNode>)>)
        ensures
            old(self).rest().len() == 0 ==> r is None && final(self).rest() == old(self).rest(),
            old(self).rest().len() > 0 ==> r == Some(old(self).rest()[0]) && final(self).rest() == old(self).rest().skip(1),
    { self.it.next() }
}
#[verifier::external_body]
pub fn hoist_zip(a: Vec<PageBuilder>, b: Vec<PromisedRef<PagesNode>>) -> (z: ZipPairs)
    ensures
        z.rest().len() == (if a@.len() <= b@.len() { a@.len() } else { b@.len() }),
        forall|i: int| 0 <= i < z.rest().len() ==> #[trigger] z.rest()[i] == (a@[i], b@[i]),
{ ZipPairs { it: a.into_iter().zip(b) } }

impl CatalogBuilder {
//@@ CatalogBuilder::from_pages
//@@ CatalogBuilder::build
}

// ====================================================================================================================
// PageBuilder
pub uninterp spec fn f32_zero() -> f32;
#[verifier::external_body]
pub fn hoist_f32_zero() -> (r: f32) ensures r == f32_zero() { 0. }
// derived `Default` of PageBuilder: TRUSTED (every field its type's default: no operations, no boxes, empty
// resources, rotation 0, no metadata / LGIDict / VP, no extra entries)
pub open spec fn page_builder_default(b: PageBuilder) -> bool { b.ops@.len() == 0 && page_builder_rest_default(b) }
pub open spec fn page_builder_rest_default(b: PageBuilder) -> bool {
    b.media_box is None && b.crop_box is None && b.trim_box is None
    && b.resources == resources_default() && b.rotate == 0 && b.metadata is None && b.lgi is None && b.vp is None
    && b.other@ == Map::<Seq<char>, Primitive>::empty()
}
// ISO 32000-1 7.9.5: a rectangle is written by two diagonally opposite corners; `b` spans (x0,y0)-(x1,y1)
pub open spec fn rect_spans(b: Rectangle, x0: f32, y0: f32, x1: f32, y1: f32) -> bool {
    ((b.left == x0 && b.right == x1) || (b.left == x1 && b.right == x0))
    && ((b.bottom == y0 && b.top == y1) || (b.bottom == y1 && b.top == y0))
}
pub open spec fn same_but_media_box(a: PageBuilder, b: PageBuilder) -> bool {
    b.ops == a.ops && b.crop_box == a.crop_box && b.trim_box == a.trim_box && b.resources == a.resources
    && b.rotate == a.rotate && b.metadata == a.metadata && b.lgi == a.lgi && b.vp == a.vp && b.other == a.other
}
// a builder made from an existing page: the page's EFFECTIVE boxes and resources (own or inherited, so that the new
// page under a new root shows what the old one showed), its own trim box, rotation, metadata, LGIDict, VP and extra
// entries, and the operations of its content (none if it has no content)
pub open spec fn from_page_spec(p: Page, b: PageBuilder) -> bool {
    &&& b.ops@ =~= (match p.contents { Some(c) => content_ops(c), None => Seq::<Op>::empty() })
    &&& b.media_box == eff_media_box(p) && b.media_box is Some
    &&& b.crop_box == eff_crop_box(p) && b.crop_box is Some
    &&& b.trim_box == p.trim_box
    &&& b.rotate == p.rotate
    &&& b.metadata == p.metadata && b.lgi == p.lgi && b.vp == p.vp && b.other@ == p.other@
    &&& (eff_resources(p) matches Some(m) && b.resources == *maybe_data(m))
}
pub open spec fn from_page_readable(p: Page) -> bool {
    (p.contents matches Some(c) ==> content_readable(c)) && eff_media_box(p) is Some && eff_resources(p) is Some
}
impl PageBuilder {
    #[verifier::external_body]
    pub fn default() -> (r: PageBuilder) ensures page_builder_default(r) { unimplemented!() }
//@@ PageBuilder::size
//@@ PageBuilder::from_content
//@@ PageBuilder::from_page
}
// the effective (own or inherited) attributes of a page.
// proved in units/pagetree: Page::media_box/media_box_effective, Page::crop_box/crop_box_effective,
// Page::resources/resources_effective -- `eff_*` stand for `effective(own entry, parent, selector)` of that unit
pub uninterp spec fn eff_media_box(p: Page) -> Option<Rectangle>;
pub uninterp spec fn eff_crop_box(p: Page) -> Option<Rectangle>;      // falls back to the media box
pub uninterp spec fn eff_resources(p: Page) -> Option<MaybeRef<Resources>>;
impl Page {
    #[verifier::external_body]
    pub fn media_box(&self) -> (r: Result<Rectangle>)
        ensures match eff_media_box(*self) { Some(b) => r == Ok::<Rectangle, PdfError>(b), None => r is Err }
    { unimplemented!() }
    #[verifier::external_body]
    pub fn crop_box(&self) -> (r: Result<Rectangle>)
        ensures match eff_crop_box(*self) { Some(b) => r == Ok::<Rectangle, PdfError>(b), None => r is Err },
            eff_crop_box(*self) is None <==> eff_media_box(*self) is None,
    { unimplemented!() }
    #[verifier::external_body]
    pub fn resources(&self) -> (r: Result<&MaybeRef<Resources>>)
        ensures match eff_resources(*self) { Some(x) => r matches Ok(y) && *y == x, None => r is Err }
    { unimplemented!() }
}
// R7: `page.contents.as_ref().map(|c| c.operations(resolve)).transpose()?.unwrap_or_default()`
#[verifier::external_body]
pub fn hoist_contents_ops(contents: &Option<Content>, resolve: &impl Resolve) -> (r: Result<Vec<Op>>)
    ensures match *contents {
        None => r matches Ok(v) && v@.len() == 0,
        Some(c) => (r is Ok <==> content_readable(c)) && (r matches Ok(v) ==> v@ == content_ops(c)),
    }
{ Ok(contents.as_ref().map(|c| c.operations(resolve)).transpose()?.unwrap_or_default()) }

// ====================================================================================================================
// PdfBuilder: env Storage (the concrete Updater of pdf/src/file.rs, reduced to the ghost store and the byte buffer)
pub struct Storage { pub g: Ghost<Store>, pub backend: Vec<u8> }
// what `Storage::save` leaves in the buffer: a file whose body holds the objects of `s`, whose trailer names `root` as
// /Root and carries `info` as /Info, with /Size `size`.
// proved in units/updater: Storage::save/{save_prefix, save_ok} (every pending object placed under its own header, the
// cross-reference stream object written last, `startxref` pointing at it, /Size above every object number);
// units/xrefstm for the cross-reference stream itself; units/expansions Trailer::to_dict for the trailer entries.
pub uninterp spec fn saved(bytes: Seq<u8>, s: Store, root: PlainRef, info: Option<InfoDict>, size: int) -> bool;
impl Updater for Storage {
    open spec fn objs(&self) -> Store { self.g@ }
    #[verifier::external_body]
    fn create<T: ObjectWrite>(&mut self, obj: T) -> (r: Result<RcRef<T>>) { unimplemented!() }
    #[verifier::external_body]
    fn promise<T: Object>(&mut self) -> (r: PromisedRef<T>) { unimplemented!() }
    #[verifier::external_body]
    fn fulfill<T: ObjectWrite>(&mut self, promise: PromisedRef<T>, obj: T) -> (r: Result<RcRef<T>>) { unimplemented!() }
}
impl Storage {
    #[verifier::external_body]
    pub fn save(&mut self, trailer: &mut Trailer) -> (r: Result<&[u8]>)
        ensures r is Ok ==> saved(final(self).backend@, old(self).objs(), old(trailer).root.inner, old(trailer).info_dict, final(trailer).size as int)
            && final(trailer).size > old(self).objs().len(),
    { unimplemented!() }
    #[verifier::external_body]
    pub fn into_inner(self) -> (r: Vec<u8>) ensures r@ == self.backend@ { unimplemented!() }
}
// R7: `vec!["foo".into(), "bar".into()]`
#[verifier::external_body]
pub fn hoist_placeholder_id() -> (r: Vec<PdfString>) { vec!["foo".into(), "bar".into()] }

// what PdfBuilder::build hands back for the pages `bs` and the information dictionary `info`, starting from store `pre`
pub open spec fn built_file(bytes: Seq<u8>, pre: Store, bs: Seq<PageBuilder>, info: Option<InfoDict>) -> bool {
    exists|mid: Store, post: Store, cat: Catalog, size: int| #[trigger] built_file_w(bytes, pre, bs, info, mid, post, cat, size)
}
pub open spec fn built_file_w(bytes: Seq<u8>, pre: Store, bs: Seq<PageBuilder>, info: Option<InfoDict>, mid: Store, post: Store, cat: Catalog, size: int) -> bool {
    // the page tree, as for CatalogBuilder::build
    &&& built(pre, mid, bs, cat)
    // the catalog is stored after it, as a new object; nothing else of the tree moved
    &&& extends(mid, post) && mid.len() < post.len() && post[mid.len() as int] == Slot::Cat(cat)
    &&& forall|k: int| mid.len() <= k < post.len() ==> !(#[trigger] post[k] is Promised)
    // the bytes are that store saved with /Root = the catalog, /Info = the given information, /Size above every number
    &&& saved(bytes, post, ref_of(mid.len() as int), info, size) && size > post.len()
}

impl PdfBuilder {
//@@ PdfBuilder::info
//@@ PdfBuilder::id
//@@ PdfBuilder::build
}

// ====================================================================================================================
// Part B: the DERIVED WRITERS of Page / PageTree / Catalog (pdf_derive output) under the whole-dictionary model of
// units/expansions: for each declared (key, field) the entry `writes(field)` unless that is Null, the /Type tag, on top
// of the catch-all -- nothing else.  Writer-world traits (the expansions name them by full path) live in `pdf::object`;
// they are the abstract field codecs of units/expansions ("a writer is a function of the value, may fail only if `wfail`,
// never forgets created objects").
pub mod pdf {
    pub mod error { pub use crate::PdfError; pub use crate::Result; }
    pub mod primitive { pub use crate::Primitive; pub use crate::Dictionary; pub use crate::SmallString; pub use crate::Name; }
    pub mod object {
        use vstd::prelude::*;
        use crate::{PlainRef, RcRef, Primitive, Result};
        pub open spec fn submap(a: Map<PlainRef, Primitive>, b: Map<PlainRef, Primitive>) -> bool {
            forall|r: PlainRef| #![trigger a.dom().contains(r)] a.dom().contains(r) ==> b.dom().contains(r) && b[r] == a[r]
        }
        pub trait Updater: Sized {
            spec fn created(&self) -> Map<PlainRef, Primitive>;
            // the crate's `create<T: ObjectWrite>`; the expansions instantiate it at T = Primitive only (units/expansions)
            fn create(&mut self, obj: Primitive) -> (r: Result<RcRef<Primitive>>)
                ensures
                    r is Err ==> final(self).created() == old(self).created(),
                    r matches Ok(rc) ==> !old(self).created().dom().contains(rc.inner)
                        && final(self).created() == old(self).created().insert(rc.inner, obj)
                        && final(self).created().dom().contains(rc.inner) && final(self).created()[rc.inner] == obj;
        }
        pub trait ObjectWrite: Sized {
            spec fn writes(&self) -> Primitive;
            spec fn wfail(&self) -> bool;
            fn to_primitive<U: Updater>(&self, update: &mut U) -> (r: Result<Primitive>)
                ensures
                    r matches Ok(p) ==> p == self.writes(),
                    r is Err ==> self.wfail(),
                    submap(old(update).created(), final(update).created());
        }
    }
}
use pdf::object::ObjectWrite as WObjectWrite;
use pdf::object::submap;

// ---- field codecs.  Concrete where the C10 statement needs the value:
pub uninterp spec fn abs_writes<T>(x: T) -> Primitive;
pub uninterp spec fn abs_wfail<T>(x: T) -> bool;
// proved in units/expansions_hw: i32_to_primitive/wr_value
impl WObjectWrite for i32 {
    open spec fn writes(&self) -> Primitive { Primitive::Integer(*self) }
    open spec fn wfail(&self) -> bool { false }
    #[verifier::external_body]
    fn to_primitive<U: pdf::object::Updater>(&self, update: &mut U) -> Result<Primitive> { unimplemented!() }
}
// proved in units/expansions_hw: u32_to_primitive/wr_value (`writes_nat`: the Integer denoting that number, or an error)
impl WObjectWrite for u32 {
    open spec fn writes(&self) -> Primitive { if *self <= i32::MAX { Primitive::Integer(*self as i32) } else { abs_writes(*self) } }
    open spec fn wfail(&self) -> bool { *self > i32::MAX }
    #[verifier::external_body]
    fn to_primitive<U: pdf::object::Updater>(&self, update: &mut U) -> Result<Primitive> { unimplemented!() }
}
// proved in units/expansions_hw: Option to_primitive (None => Null, Some(t) => what t writes)
impl<T: WObjectWrite> WObjectWrite for Option<T> {
    open spec fn writes(&self) -> Primitive { match *self { None => Primitive::Null, Some(t) => t.writes() } }
    open spec fn wfail(&self) -> bool { match *self { None => false, Some(t) => t.wfail() } }
    #[verifier::external_body]
    fn to_primitive<U: pdf::object::Updater>(&self, update: &mut U) -> Result<Primitive> { unimplemented!() }
}
impl WObjectWrite for Name {
    open spec fn writes(&self) -> Primitive { Primitive::Name(self.0) }
    open spec fn wfail(&self) -> bool { false }
    #[verifier::external_body]
    fn to_primitive<U: pdf::object::Updater>(&self, update: &mut U) -> Result<Primitive> { unimplemented!() }
}
impl WObjectWrite for Primitive {
    open spec fn writes(&self) -> Primitive { *self }
    open spec fn wfail(&self) -> bool { false }
    #[verifier::external_body]
    fn to_primitive<U: pdf::object::Updater>(&self, update: &mut U) -> Result<Primitive> { unimplemented!() }
}
// object/mod.rs:276 (RcRef), :206 (Ref): the reference itself
impl<T> WObjectWrite for RcRef<T> {
    open spec fn writes(&self) -> Primitive { Primitive::Reference(self.inner) }
    open spec fn wfail(&self) -> bool { false }
    #[verifier::external_body]
    fn to_primitive<U: pdf::object::Updater>(&self, update: &mut U) -> Result<Primitive> { unimplemented!() }
}
impl<T> WObjectWrite for Ref<T> {
    open spec fn writes(&self) -> Primitive { Primitive::Reference(self.inner) }
    open spec fn wfail(&self) -> bool { false }
    #[verifier::external_body]
    fn to_primitive<U: pdf::object::Updater>(&self, update: &mut U) -> Result<Primitive> { unimplemented!() }
}
// abstract (a function of the value): containers and the opaque models
impl<T: WObjectWrite> WObjectWrite for Vec<T> {
    open spec fn writes(&self) -> Primitive { abs_writes(*self) }
    open spec fn wfail(&self) -> bool { abs_wfail(*self) }
    #[verifier::external_body]
    fn to_primitive<U: pdf::object::Updater>(&self, update: &mut U) -> Result<Primitive> { unimplemented!() }
}
impl<T> WObjectWrite for MaybeRef<T> {
    open spec fn writes(&self) -> Primitive { abs_writes(*self) }
    open spec fn wfail(&self) -> bool { abs_wfail(*self) }
    #[verifier::external_body]
    fn to_primitive<U: pdf::object::Updater>(&self, update: &mut U) -> Result<Primitive> { unimplemented!() }
}
impl<T> WObjectWrite for Lazy<T> {
    open spec fn writes(&self) -> Primitive { abs_writes(*self) }
    open spec fn wfail(&self) -> bool { abs_wfail(*self) }
    #[verifier::external_body]
    fn to_primitive<U: pdf::object::Updater>(&self, update: &mut U) -> Result<Primitive> { unimplemented!() }
}
impl<T> WObjectWrite for NumberTree<T> {
    open spec fn writes(&self) -> Primitive { abs_writes(*self) }
    open spec fn wfail(&self) -> bool { abs_wfail(*self) }
    #[verifier::external_body]
    fn to_primitive<U: pdf::object::Updater>(&self, update: &mut U) -> Result<Primitive> { unimplemented!() }
}
impl WObjectWrite for Rectangle {
    open spec fn writes(&self) -> Primitive { abs_writes(*self) }
    open spec fn wfail(&self) -> bool { abs_wfail(*self) }
    #[verifier::external_body]
    fn to_primitive<U: pdf::object::Updater>(&self, update: &mut U) -> Result<Primitive> { unimplemented!() }
}
impl WObjectWrite for Content {
    open spec fn writes(&self) -> Primitive { abs_writes(*self) }
    open spec fn wfail(&self) -> bool { abs_wfail(*self) }
    #[verifier::external_body]
    fn to_primitive<U: pdf::object::Updater>(&self, update: &mut U) -> Result<Primitive> { unimplemented!() }
}
impl WObjectWrite for Outlines {
    open spec fn writes(&self) -> Primitive { abs_writes(*self) }
    open spec fn wfail(&self) -> bool { abs_wfail(*self) }
    #[verifier::external_body]
    fn to_primitive<U: pdf::object::Updater>(&self, update: &mut U) -> Result<Primitive> { unimplemented!() }
}
impl WObjectWrite for InteractiveFormDictionary {
    open spec fn writes(&self) -> Primitive { abs_writes(*self) }
    open spec fn wfail(&self) -> bool { abs_wfail(*self) }
    #[verifier::external_body]
    fn to_primitive<U: pdf::object::Updater>(&self, update: &mut U) -> Result<Primitive> { unimplemented!() }
}
impl WObjectWrite for StructTreeRoot {
    open spec fn writes(&self) -> Primitive { abs_writes(*self) }
    open spec fn wfail(&self) -> bool { abs_wfail(*self) }
    #[verifier::external_body]
    fn to_primitive<U: pdf::object::Updater>(&self, update: &mut U) -> Result<Primitive> { unimplemented!() }
}
// the page-tree wrapper: its hand-written writer (types.rs) is extracted and proved to write the reference to the node
impl PagesRc {
//@@ PagesRc::to_primitive
}
impl WObjectWrite for PagesRc {
    open spec fn writes(&self) -> Primitive { Primitive::Reference(self.rc().inner) }
    open spec fn wfail(&self) -> bool { false }
    fn to_primitive<U: pdf::object::Updater>(&self, update: &mut U) -> Result<Primitive> { PagesRc::to_primitive(self, update) }
}

// ---- the derive's documented meaning of the field attributes (units/expansions)
// an entry is written under its key unless the field's primitive form is Null
pub open spec fn put(m: DMap, k: Seq<char>, v: Primitive) -> DMap { if v is Null { m } else { m.insert(k, v) } }
pub open spec fn nm(s: Seq<char>) -> Primitive { Primitive::Name(SmallString { chars: Ghost(s) }) }
// `#[pdf(indirect)]`: the entry `e` written for a field whose primitive form is `v` -- nothing for Null, a reference as
// it is, anything else stored as a NEW object through the updater and referenced
pub open spec fn indirect_entry(v: Primitive, e: Primitive, c0: Map<PlainRef, Primitive>, c1: Map<PlainRef, Primitive>) -> bool {
    match v {
        Primitive::Null => e is Null,
        Primitive::Reference(rf) => e == v,
        p => e matches Primitive::Reference(rf) && !c0.dom().contains(rf) && c1.dom().contains(rf) && c1[rf] == p,
    }
}

// Page (types.rs): /Type /Page, the `#[pdf(other)]` catch-all underneath, `/Resources` indirect
pub open spec fn page_dict(x: Page, res: Primitive) -> DMap {
    put(put(put(put(put(put(put(put(put(put(put(x.other@.insert("Type"@, nm("Page"@)),
        "Parent"@, x.parent.writes()),
        "Resources"@, res),
        "MediaBox"@, x.media_box.writes()),
        "CropBox"@, x.crop_box.writes()),
        "TrimBox"@, x.trim_box.writes()),
        "Contents"@, x.contents.writes()),
        "Rotate"@, x.rotate.writes()),
        "Metadata"@, x.metadata.writes()),
        "LGIDict"@, x.lgi.writes()),
        "VP"@, x.vp.writes()),
        "Annots"@, x.annotations.writes())
}
pub open spec fn page_written(x: Page, d: DMap, c0: Map<PlainRef, Primitive>, c1: Map<PlainRef, Primitive>) -> bool {
    match x.resources.writes() {
        Primitive::Null => d =~= page_dict(x, Primitive::Null),
        Primitive::Reference(rf) => d =~= page_dict(x, Primitive::Reference(rf)),
        p => d.dom().contains("Resources"@) && d =~= page_dict(x, d["Resources"@])
            && indirect_entry(p, d["Resources"@], c0, c1),
    }
}
// PageTree (types.rs): /Type /Pages and six entries
pub open spec fn pagetree_dict(x: PageTree) -> DMap {
    put(put(put(put(put(put(Map::<Seq<char>, Primitive>::empty().insert("Type"@, nm("Pages"@)),
        "Parent"@, x.parent.writes()),
        "Kids"@, x.kids.writes()),
        "Count"@, x.count.writes()),
        "Resources"@, x.resources.writes()),
        "MediaBox"@, x.media_box.writes()),
        "CropBox"@, x.crop_box.writes())
}
// Catalog (types.rs): /Type /Catalog and nine entries
pub open spec fn catalog_dict(x: Catalog) -> DMap {
    put(put(put(put(put(put(put(put(put(Map::<Seq<char>, Primitive>::empty().insert("Type"@, nm("Catalog"@)),
        "Version"@, x.version.writes()),
        "Pages"@, x.pages.writes()),
        "PageLabels"@, x.page_labels.writes()),
        "Names"@, x.names.writes()),
        "Dests"@, x.dests.writes()),
        "Outlines"@, x.outlines.writes()),
        "AcroForm"@, x.forms.writes()),
        "Metadata"@, x.metadata.writes()),
        "StructTreeRoot"@, x.struct_tree_root.writes())
}
impl Page {
//@@ Page::to_dict
}
impl PageTree {
//@@ PageTree::to_dict
}
impl Catalog {
//@@ Catalog::to_dict
}

// ---- C10: the entries a reader REQUIRES are in the written dictionary whatever their value -- in particular
// `/Count 0` of an empty page list and `/Rotate 0` (ISO 32000-1 Table 29 /Count, /Kids, /Type required; Table 30 /Parent
// required, /Rotate optional with default 0: the writer may omit it at 0 only because the reader's default is 0 -- the
// derive never omits it)
pub proof fn lemma_pagetree_required(x: PageTree)
    ensures
        pagetree_dict(x).dom().contains("Type"@) && pagetree_dict(x)["Type"@] == nm("Pages"@),
        x.count <= i32::MAX ==> pagetree_dict(x).dom().contains("Count"@) && pagetree_dict(x)["Count"@] == Primitive::Integer(x.count as i32),
        !(x.kids.writes() is Null) ==> pagetree_dict(x).dom().contains("Kids"@) && pagetree_dict(x)["Kids"@] == x.kids.writes(),
        x.parent is None ==> !pagetree_dict(x).dom().contains("Parent"@),
{
    reveal_strlit("Type"); reveal_strlit("Parent"); reveal_strlit("Kids"); reveal_strlit("Count"); reveal_strlit("Resources"); reveal_strlit("MediaBox"); reveal_strlit("CropBox"); reveal_strlit("Pages"); assert("Count"@.len() == 5); assert("Count"@[0] == 'C'); assert("CropBox"@.len() == 7); assert("Kids"@.len() == 4); assert("Kids"@[0] == 'K'); assert("MediaBox"@.len() == 8); assert("Pages"@.len() == 5); assert("Pages"@[0] == 'P'); assert("Parent"@.len() == 6); assert("Resources"@.len() == 9); assert("Type"@.len() == 4); assert("Type"@[0] == 'T');
}
pub proof fn lemma_page_required(x: Page, e: Primitive)
    ensures
        page_dict(x, e).dom().contains("Type"@) && page_dict(x, e)["Type"@] == nm("Page"@),
        page_dict(x, e).dom().contains("Parent"@) && page_dict(x, e)["Parent"@] == Primitive::Reference(x.parent.rc().inner),
        page_dict(x, e).dom().contains("Rotate"@) && page_dict(x, e)["Rotate"@] == Primitive::Integer(x.rotate),
        // the catch-all never hides a declared entry, and its other entries are all there
        forall|k: Seq<char>| #![trigger x.other@.dom().contains(k)] x.other@.dom().contains(k) && !page_known(k) ==> page_dict(x, e).dom().contains(k) && page_dict(x, e)[k] == x.other@[k],
{
    reveal_strlit("Type"); reveal_strlit("Parent"); reveal_strlit("Resources"); reveal_strlit("MediaBox"); reveal_strlit("CropBox"); reveal_strlit("TrimBox"); reveal_strlit("Contents"); reveal_strlit("Rotate"); reveal_strlit("Metadata"); reveal_strlit("LGIDict"); reveal_strlit("VP"); reveal_strlit("Annots"); reveal_strlit("Page"); assert("Annots"@.len() == 6); assert("Annots"@[0] == 'A'); assert("Contents"@.len() == 8); assert("Contents"@[0] == 'C'); assert("CropBox"@.len() == 7); assert("CropBox"@[0] == 'C'); assert("LGIDict"@.len() == 7); assert("LGIDict"@[0] == 'L'); assert("MediaBox"@.len() == 8); assert("MediaBox"@[0] == 'M'); assert("MediaBox"@[2] == 'd'); assert("Metadata"@.len() == 8); assert("Metadata"@[0] == 'M'); assert("Metadata"@[2] == 't'); assert("Page"@.len() == 4); assert("Page"@[0] == 'P'); assert("Parent"@.len() == 6); assert("Parent"@[0] == 'P'); assert("Resources"@.len() == 9); assert("Rotate"@.len() == 6); assert("Rotate"@[0] == 'R'); assert("TrimBox"@.len() == 7); assert("TrimBox"@[0] == 'T'); assert("Type"@.len() == 4); assert("Type"@[0] == 'T'); assert("VP"@.len() == 2);
}
pub open spec fn page_known(k: Seq<char>) -> bool {
    k == "Type"@ || k == "Parent"@ || k == "Resources"@ || k == "MediaBox"@ || k == "CropBox"@ || k == "TrimBox"@ || k == "Contents"@
    || k == "Rotate"@ || k == "Metadata"@ || k == "LGIDict"@ || k == "VP"@ || k == "Annots"@
}
pub proof fn lemma_catalog_required(x: Catalog)
    ensures
        catalog_dict(x).dom().contains("Type"@) && catalog_dict(x)["Type"@] == nm("Catalog"@),
        catalog_dict(x).dom().contains("Pages"@) && catalog_dict(x)["Pages"@] == Primitive::Reference(x.pages.rc().inner),
{
    reveal_strlit("Type"); reveal_strlit("Version"); reveal_strlit("Pages"); reveal_strlit("PageLabels"); reveal_strlit("Names"); reveal_strlit("Dests"); reveal_strlit("Outlines"); reveal_strlit("AcroForm"); reveal_strlit("Metadata"); reveal_strlit("StructTreeRoot"); reveal_strlit("Catalog"); assert("AcroForm"@.len() == 8); assert("AcroForm"@[0] == 'A'); assert("Catalog"@.len() == 7); assert("Catalog"@[0] == 'C'); assert("Dests"@.len() == 5); assert("Dests"@[0] == 'D'); assert("Metadata"@.len() == 8); assert("Metadata"@[0] == 'M'); assert("Names"@.len() == 5); assert("Names"@[0] == 'N'); assert("Outlines"@.len() == 8); assert("Outlines"@[0] == 'O'); assert("PageLabels"@.len() == 10); assert("Pages"@.len() == 5); assert("Pages"@[0] == 'P'); assert("StructTreeRoot"@.len() == 14); assert("Type"@.len() == 4); assert("Version"@.len() == 7); assert("Version"@[0] == 'V');
}

}
fn main(){}
