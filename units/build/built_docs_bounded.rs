// BOUNDED native stand-in for property C10 (documents built from scratch reload with the same pages and are valid PDF).
// Placed at pdf/tests/verif_build_bounded.rs by the framework (unit build, `native`).  NOT a proof: a finite universe of
// documents, every one built with the crate's REAL public API (PdfBuilder / CatalogBuilder / PageBuilder, Storage::create for
// indirect resources), saved to memory, and then
//   (1) read by an INDEPENDENT structural scanner (mod scan below: its own tokenizer / object reader / cross-reference stream
//       decoder; it shares no code with the crate): header first; startxref points at the cross-reference section; every in-use
//       entry points at the `n g obj` header of that very object; /Size is above every object number; every stream's /Length
//       equals its byte count (`endstream` follows exactly /Length bytes after the `stream` line); no reference to an undefined
//       object anywhere (bodies and trailer); the body is a gap-free sequence of well-formed objects;
//   (2) reloaded with FileOptions::uncached().load and compared with what was GIVEN to the builder: number and order of pages,
//       MediaBox / CropBox / TrimBox (presence and f32 bits), /Rotate, Metadata / LGIDict / VP, the extra entries, the operation
//       sequence, the resources (one font of every kind the crate can write, an ExtGState) and every information entry.
//
// Universe (the bound):
//   * pages: 0, 1, 2, 3 pages per document (page order made observable through /Rotate and the boxes);
//   * boxes: all 8 present/absent patterns of media/crop/trim x 1..3 pages; every coordinate of COORDS (0, +-1, fractional, 2^24,
//     2147483520 = largest f32 below 2^31, +-2^31, 2^32, +-3e9, 4e9, +-1e12, 1e-3, f32::MAX) at each of the 4 positions of a
//     rectangle, as MediaBox, CropBox and TrimBox;
//   * rotation: 0 90 180 270 -90 360 i32::MAX i32::MIN;
//   * extra entries: 4 sets (none; a real; name + integer + string + boolean + array + nested dictionary; a reference to a stream
//     object created in the same storage) and Metadata (reference to a stream) / LGIDict / VP given or not;
//   * operations: 6 sequences (empty; path; text; the shorthand triggers ' TD v y s b b*; graphics state / colour / marked content;
//     all of them concatenated) -- the operation codec itself is C08's, here: the sequence survives build + save + reload;
//   * resources: none | Type1 + TrueType + Type0/CIDFontType0 + Type0/CIDFontType2 fonts (indirect, through Lazy) and an ExtGState
//     with every public entry set incl. /Font [ref size]; a Type3 font (FontData::Other) must be refused by the writer or reload
//     as Type3;
//   * information: none | every entry given; 3 string sets (ASCII, delimiters ( ) \ and CR/LF, UTF-16BE with BOM, empty string);
//     Trapped True/False/Unknown/absent; CreationDate / ModDate over ZONES (Z, no zone = Z00'00, +HH'00, +HH'mm, +00'mm, -HH'00,
//     -HH'mm with mm != 0 (03'30, 09'30, 23'59), -00'30, -00'45, Z with a non-zero zone) x 4 boundary date-times
//     (0000-01-01 00:00:00, 9999-12-31 23:59:59, ordinary, month/day 99).
// Not compared: Font::_other / CIDFont::_other / GraphicsStateParameters::_other (catch-alls: the reader fills them with the
// entries the typed fields do not take, e.g. /Type), the dictionary entry ORDER, -0.0 / NaN / infinities (outside the domain).
#![allow(clippy::all)]
use pdf::build::{CatalogBuilder, PageBuilder, PdfBuilder};
use pdf::content::{Cmyk, Color, Matrix, Op, Point, Rgb, TextDrawAdjusted, TextMode, ViewRect, Winding};
use pdf::encoding::{BaseEncoding, Encoding};
use pdf::file::{FileOptions, NoCache, NoLog};
use pdf::font::{CIDFont, CidToGidMap, Font, FontData, FontDescriptor, FontStretch, FontType, TFont, Type0Font};
use pdf::object::{GraphicsStateParameters, InfoDict, Lazy, MaybeRef, NoResolve, Object, Rectangle, Ref, Resources, Stream, Trapped, Updater};
use pdf::primitive::{Date, Dictionary, Name, PdfString, Primitive, TimeRel};

// =====================================================================================================================
// (1) the independent structural reading of the bytes
// =====================================================================================================================
mod scan {
    use std::collections::BTreeMap;

    #[derive(Debug, Clone, PartialEq)]
    pub enum Val {
        Null,
        Bool(bool),
        Int(i64),
        Real(f64),
        Name(Vec<u8>),
        Str(Vec<u8>),
        Arr(Vec<Val>),
        Dict(Vec<(Vec<u8>, Val)>),
        Ref(u64, u64),
    }
    impl Val {
        pub fn get(&self, key: &str) -> Option<&Val> {
            match self {
                Val::Dict(d) => d.iter().rev().find(|(k, _)| k == key.as_bytes()).map(|(_, v)| v),
                _ => None,
            }
        }
        fn refs(&self, out: &mut Vec<(u64, u64)>) {
            match self {
                Val::Ref(n, g) => out.push((*n, *g)),
                Val::Arr(a) => a.iter().for_each(|v| v.refs(out)),
                Val::Dict(d) => d.iter().for_each(|(_, v)| v.refs(out)),
                _ => {}
            }
        }
    }
    #[derive(Debug)]
    pub struct Obj {
        pub num: u64,
        pub gen: u64,
        pub offset: usize,
        pub val: Val,
        pub stream: Option<(usize, usize)>,
    }
    #[derive(Debug)]
    pub struct Summary {
        pub objects: usize,
        pub streams: usize,
        pub references: usize,
    }

    fn is_ws(c: u8) -> bool { matches!(c, 0 | 9 | 10 | 12 | 13 | 32) }
    fn is_delim(c: u8) -> bool { matches!(c, b'(' | b')' | b'<' | b'>' | b'[' | b']' | b'{' | b'}' | b'/' | b'%') }
    fn is_regular(c: u8) -> bool { !is_ws(c) && !is_delim(c) }

    struct P<'a> { b: &'a [u8], i: usize }
    type R<T> = Result<T, String>;

    impl<'a> P<'a> {
        fn err<T>(&self, what: &str) -> R<T> {
            let lo = self.i.saturating_sub(20);
            let hi = (self.i + 20).min(self.b.len());
            Err(format!("{} at byte {} (near {:?})", what, self.i, String::from_utf8_lossy(&self.b[lo..hi])))
        }
        fn peek(&self) -> Option<u8> { self.b.get(self.i).copied() }
        fn ws(&mut self) {
            while let Some(c) = self.peek() {
                if is_ws(c) { self.i += 1; }
                else if c == b'%' { while let Some(c) = self.peek() { if c == b'\n' || c == b'\r' { break; } self.i += 1; } }
                else { break; }
            }
        }
        fn starts(&self, s: &[u8]) -> bool { self.b[self.i.min(self.b.len())..].starts_with(s) }
        // a keyword: the bytes, then a non-regular character (or the end)
        fn keyword(&mut self, s: &[u8]) -> bool {
            if self.starts(s) && self.b.get(self.i + s.len()).map_or(true, |&c| !is_regular(c)) { self.i += s.len(); true } else { false }
        }
        fn regular_run(&mut self) -> &'a [u8] {
            let s = self.i;
            while self.peek().map_or(false, is_regular) { self.i += 1; }
            &self.b[s..self.i]
        }
        fn uint(&mut self) -> R<u64> {
            let s = self.i;
            while self.peek().map_or(false, |c| c.is_ascii_digit()) { self.i += 1; }
            if s == self.i || self.peek().map_or(false, is_regular) { self.i = s; return self.err("unsigned integer expected"); }
            std::str::from_utf8(&self.b[s..self.i]).unwrap().parse::<u64>().or_else(|_| self.err("integer too large"))
        }
        fn number(&mut self) -> R<Val> {
            let t = self.regular_run();
            let s = std::str::from_utf8(t).map_err(|_| "non-ASCII number".to_string())?;
            let body = s.strip_prefix(|c| c == '+' || c == '-').unwrap_or(s);
            if body.is_empty() || !body.bytes().all(|c| c.is_ascii_digit() || c == b'.') || body.bytes().filter(|&c| c == b'.').count() > 1 || body == "." {
                self.i -= t.len();
                return self.err("not a number");
            }
            if body.contains('.') { Ok(Val::Real(s.parse::<f64>().map_err(|e| e.to_string())?)) }
            else { match s.parse::<i64>() { Ok(n) => Ok(Val::Int(n)), Err(_) => Ok(Val::Real(s.parse::<f64>().map_err(|e| e.to_string())?)) } }
        }
        fn name(&mut self) -> R<Vec<u8>> {
            self.i += 1; // '/'
            let raw = self.regular_run();
            let mut out = Vec::new();
            let mut k = 0;
            while k < raw.len() {
                if raw[k] == b'#' {
                    let h = raw.get(k + 1..k + 3).and_then(|h| std::str::from_utf8(h).ok()).and_then(|h| u8::from_str_radix(h, 16).ok());
                    match h { Some(v) => { out.push(v); k += 3; } None => return self.err("bad #xx escape in a name") }
                } else { out.push(raw[k]); k += 1; }
            }
            Ok(out)
        }
        fn literal_string(&mut self) -> R<Vec<u8>> {
            self.i += 1; // '('
            let mut depth = 1;
            let mut out = Vec::new();
            loop {
                let c = match self.peek() { Some(c) => c, None => return self.err("unterminated string") };
                self.i += 1;
                match c {
                    b'(' => { depth += 1; out.push(c); }
                    b')' => { depth -= 1; if depth == 0 { return Ok(out); } out.push(c); }
                    b'\\' => {
                        let e = match self.peek() { Some(e) => e, None => return self.err("unterminated string") };
                        self.i += 1;
                        match e {
                            b'n' => out.push(10), b'r' => out.push(13), b't' => out.push(9), b'b' => out.push(8), b'f' => out.push(12),
                            b'(' | b')' | b'\\' => out.push(e),
                            b'\r' => { if self.peek() == Some(b'\n') { self.i += 1; } }
                            b'\n' => {}
                            b'0'..=b'7' => {
                                let mut v = (e - b'0') as u32;
                                for _ in 0..2 { match self.peek() { Some(d @ b'0'..=b'7') => { v = v * 8 + (d - b'0') as u32; self.i += 1; } _ => break } }
                                out.push(v as u8);
                            }
                            other => out.push(other),
                        }
                    }
                    b'\r' => { if self.peek() == Some(b'\n') { self.i += 1; } out.push(10); }
                    _ => out.push(c),
                }
            }
        }
        fn hex_string(&mut self) -> R<Vec<u8>> {
            self.i += 1; // '<'
            let mut digits = Vec::new();
            loop {
                match self.peek() {
                    Some(b'>') => { self.i += 1; break; }
                    Some(c) if is_ws(c) => self.i += 1,
                    Some(c) if c.is_ascii_hexdigit() => { digits.push((c as char).to_digit(16).unwrap() as u8); self.i += 1; }
                    _ => return self.err("bad hex string"),
                }
            }
            if digits.len() % 2 == 1 { digits.push(0); }
            Ok(digits.chunks(2).map(|p| p[0] * 16 + p[1]).collect())
        }
        fn value(&mut self, depth: usize) -> R<Val> {
            if depth > 64 { return self.err("nesting too deep"); }
            self.ws();
            let c = match self.peek() { Some(c) => c, None => return self.err("value expected") };
            match c {
                b'/' => Ok(Val::Name(self.name()?)),
                b'(' => Ok(Val::Str(self.literal_string()?)),
                b'[' => {
                    self.i += 1;
                    let mut a = Vec::new();
                    loop {
                        self.ws();
                        if self.peek() == Some(b']') { self.i += 1; return Ok(Val::Arr(a)); }
                        a.push(self.value(depth + 1)?);
                    }
                }
                b'<' if self.starts(b"<<") => {
                    self.i += 2;
                    let mut d = Vec::new();
                    loop {
                        self.ws();
                        if self.starts(b">>") { self.i += 2; return Ok(Val::Dict(d)); }
                        if self.peek() != Some(b'/') { return self.err("dictionary key must be a name"); }
                        let k = self.name()?;
                        let v = self.value(depth + 1)?;
                        d.push((k, v));
                    }
                }
                b'<' => Ok(Val::Str(self.hex_string()?)),
                b'0'..=b'9' | b'+' | b'-' | b'.' => {
                    let first = self.number()?;
                    // `n g R`
                    if let Val::Int(n) = first {
                        if n >= 0 && c.is_ascii_digit() {
                            let save = self.i;
                            self.ws();
                            if self.peek().map_or(false, |d| d.is_ascii_digit()) {
                                if let Ok(g) = self.uint() {
                                    self.ws();
                                    if self.keyword(b"R") { return Ok(Val::Ref(n as u64, g)); }
                                }
                            }
                            self.i = save;
                        }
                    }
                    Ok(first)
                }
                _ => {
                    if self.keyword(b"true") { Ok(Val::Bool(true)) }
                    else if self.keyword(b"false") { Ok(Val::Bool(false)) }
                    else if self.keyword(b"null") { Ok(Val::Null) }
                    else { self.err("unknown token") }
                }
            }
        }
        fn header(&mut self) -> R<(u64, u64)> {
            let n = self.uint()?;
            self.ws();
            let g = self.uint()?;
            self.ws();
            if !self.keyword(b"obj") { return self.err("`obj` expected"); }
            Ok((n, g))
        }
        /// one `n g obj ... endobj`; `length_of` resolves an indirect /Length
        fn object(&mut self, length_of: &dyn Fn(u64, u64) -> R<i64>) -> R<Obj> {
            let offset = self.i;
            let (num, gen) = self.header()?;
            let val = self.value(0)?;
            self.ws();
            let mut stream = None;
            if self.keyword(b"stream") {
                // the keyword is followed by CR LF or LF, never by CR alone
                if self.starts(b"\r\n") { self.i += 2; } else if self.starts(b"\n") { self.i += 1; } else { return self.err("`stream` must be followed by CRLF or LF"); }
                let len = match val.get("Length") {
                    Some(Val::Int(n)) => *n,
                    Some(Val::Ref(n, g)) => length_of(*n, *g)?,
                    other => return Err(format!("object {} {}: stream /Length is {:?}", num, gen, other)),
                };
                if len < 0 || self.i + len as usize > self.b.len() { return Err(format!("object {} {}: /Length {} runs past the end of the file", num, gen, len)); }
                let start = self.i;
                self.i += len as usize;
                let end = self.i;
                // an end-of-line marker may precede `endstream`; it is not part of the data
                if self.starts(b"\r\n") { self.i += 2; } else if self.starts(b"\n") || self.starts(b"\r") { self.i += 1; }
                if !self.keyword(b"endstream") {
                    let actual = find(&self.b[start..], b"endstream").map(|p| p as i64);
                    return Err(format!("object {} {}: /Length {} is not the byte count of the stream data: `endstream` does not follow the data (it is found {:?} bytes after the `stream` line)", num, gen, len, actual));
                }
                stream = Some((start, end));
                self.ws();
            }
            if !self.keyword(b"endobj") { return self.err(&format!("object {} {}: `endobj` expected", num, gen)); }
            Ok(Obj { num, gen, offset, val, stream })
        }
    }

    pub fn find(hay: &[u8], needle: &[u8]) -> Option<usize> { hay.windows(needle.len()).position(|w| w == needle) }
    fn rfind(hay: &[u8], needle: &[u8]) -> Option<usize> { hay.windows(needle.len()).rposition(|w| w == needle) }

    fn int_of(v: Option<&Val>, what: &str) -> R<i64> {
        match v { Some(Val::Int(n)) => Ok(*n), other => Err(format!("{} is {:?}, an integer is required", what, other)) }
    }

    /// The structural check of C10.
    pub fn check(b: &[u8]) -> R<Summary> {
        // ---- header first
        if !b.starts_with(b"%PDF-") { return Err(format!("the file does not start with %PDF- but with {:?}", String::from_utf8_lossy(&b[..b.len().min(12)]))); }
        let v = &b[5..b.len().min(8)];
        if !(v.len() == 3 && v[0].is_ascii_digit() && v[1] == b'.' && v[2].is_ascii_digit()) { return Err("no version after %PDF-".into()); }
        // ---- startxref <pos> %%EOF at the end
        let sx = rfind(b, b"startxref").ok_or("no startxref")?;
        let mut t = P { b, i: sx + 9 };
        t.ws();
        let xref_pos = t.uint()? as usize;
        t.ws_no_comment();
        if !t.starts(b"%%EOF") { return t.err("%%EOF expected after the startxref position"); }
        t.i += 5;
        while t.peek().map_or(false, is_ws) { t.i += 1; }
        if t.i != b.len() { return t.err("bytes after %%EOF"); }
        if xref_pos >= sx { return Err(format!("startxref {} does not point before the startxref keyword (at {})", xref_pos, sx)); }
        // ---- the cross-reference section it points at (a cross-reference stream: what Storage::save writes)
        let mut p = P { b, i: xref_pos };
        if p.starts(b"xref") { return Err("startxref points at a classic table: not produced by the builder, not read by this scanner".into()); }
        let no_indirect = |n: u64, g: u64| -> R<i64> { Err(format!("indirect /Length {} {} R in the cross-reference stream", n, g)) };
        let xo = p.object(&no_indirect).map_err(|e| format!("startxref {} does not point at a cross-reference stream object: {}", xref_pos, e))?;
        if xo.val.get("Type") != Some(&Val::Name(b"XRef".to_vec())) { return Err(format!("the object at startxref {} is not /Type /XRef: {:?}", xref_pos, xo.val)); }
        let (ds, de) = xo.stream.ok_or("the object at startxref is not a stream")?;
        if xo.val.get("Filter").is_some() || xo.val.get("DecodeParms").is_some() { return Err("filtered cross-reference stream: not read by this scanner".into()); }
        if xo.val.get("Prev").is_some() { return Err("a freshly built file has a /Prev section".into()); }
        let size = int_of(xo.val.get("Size"), "/Size")?;
        let w: Vec<usize> = match xo.val.get("W") {
            Some(Val::Arr(a)) if a.len() == 3 => a.iter().map(|x| match x { Val::Int(n) if *n >= 0 && *n <= 8 => Ok(*n as usize), o => Err(format!("/W element {:?}", o)) }).collect::<R<_>>()?,
            o => return Err(format!("/W is {:?}", o)),
        };
        let index: Vec<i64> = match xo.val.get("Index") {
            None => vec![0, size],
            Some(Val::Arr(a)) if a.len() % 2 == 0 => a.iter().map(|x| int_of(Some(x), "/Index element")).collect::<R<_>>()?,
            o => return Err(format!("/Index is {:?}", o)),
        };
        let width = w[0] + w[1] + w[2];
        let total: i64 = index.chunks(2).map(|c| c[1]).sum();
        if width == 0 || (de - ds) as i64 != total * width as i64 {
            return Err(format!("cross-reference stream data is {} bytes, /Index {:?} x /W {:?} needs {}", de - ds, index, w, total * width as i64));
        }
        let field = |bytes: &[u8]| bytes.iter().fold(0u64, |a, &c| (a << 8) | c as u64);
        let mut table: BTreeMap<u64, (u64, u64, u64)> = BTreeMap::new();
        let mut at = ds;
        for c in index.chunks(2) {
            if c[0] < 0 || c[1] < 0 { return Err(format!("negative /Index {:?}", index)); }
            for k in 0..c[1] {
                let num = (c[0] + k) as u64;
                let ty = if w[0] == 0 { 1 } else { field(&b[at..at + w[0]]) };
                let f2 = field(&b[at + w[0]..at + w[0] + w[1]]);
                let f3 = field(&b[at + w[0] + w[1]..at + width]);
                at += width;
                if num as i64 >= size { return Err(format!("cross-reference entry for object {} but /Size is {}", num, size)); }
                if table.insert(num, (ty, f2, f3)).is_some() { return Err(format!("two cross-reference entries for object {}", num)); }
            }
        }
        // ---- every in-use entry points at the header of that object
        for (&num, &(ty, off, gen)) in &table {
            match ty {
                0 => {}
                1 => {
                    let mut h = P { b, i: off as usize };
                    if off as usize >= b.len() { return Err(format!("entry of object {} points at {} beyond the end of the file ({})", num, off, b.len())); }
                    match h.header() {
                        Ok((n, g)) if n == num && g == gen => {}
                        Ok((n, g)) => return Err(format!("entry of object {} {} points at byte {}, where object {} {} starts", num, gen, off, n, g)),
                        Err(e) => return Err(format!("entry of object {} {} points at byte {}, which is not an object header: {}", num, gen, off, e)),
                    }
                }
                2 => return Err(format!("object {} is in an object stream: not produced by the builder, not read by this scanner", num)),
                t => return Err(format!("entry of object {} has type {}", num, t)),
            }
        }
        // ---- the body: a gap-free sequence of objects from the header line to startxref
        let length_of = |n: u64, g: u64| -> R<i64> {
            match table.get(&n) {
                Some(&(1, off, gen)) if gen == g => {
                    let mut q = P { b, i: off as usize };
                    let o = q.object(&|_, _| Err("nested indirect /Length".to_string()))?;
                    int_of(Some(&o.val), "indirect /Length")
                }
                _ => Err(format!("/Length {} {} R refers to an undefined object", n, g)),
            }
        };
        let mut p = P { b, i: 0 };
        let mut objects = Vec::new();
        loop {
            p.ws();
            if p.i == sx { break; }
            if p.i > sx { return p.err("object runs into startxref"); }
            let o = p.object(&length_of)?;
            objects.push(o);
        }
        let mut streams = 0;
        for o in &objects {
            if o.num as i64 >= size { return Err(format!("object {} {} is defined but /Size is {}", o.num, o.gen, size)); }
            match table.get(&o.num) {
                Some(&(1, off, gen)) if off as usize == o.offset && gen == o.gen => {}
                e => return Err(format!("object {} {} at byte {} has the cross-reference entry {:?}", o.num, o.gen, o.offset, e)),
            }
            if o.stream.is_some() { streams += 1; }
        }
        if !objects.iter().any(|o| o.offset == xref_pos) { return Err("the cross-reference stream is not one of the body objects".into()); }
        // ---- no reference to an undefined object
        let mut refs = Vec::new();
        for o in &objects {
            let mut r = Vec::new();
            o.val.refs(&mut r);
            refs.extend(r.into_iter().map(|x| (o.num, x)));
        }
        for &(from, (n, g)) in &refs {
            match table.get(&n) {
                Some(&(1, _, gen)) if gen == g => {}
                e => return Err(format!("object {} refers to {} {} R, which is not defined (cross-reference entry {:?}, /Size {})", from, n, g, e, size)),
            }
        }
        if xo.val.get("Root").is_none() { return Err("no /Root in the trailer".into()); }
        Ok(Summary { objects: objects.len(), streams, references: refs.len() })
    }
    impl<'a> P<'a> {
        fn ws_no_comment(&mut self) { while self.peek().map_or(false, is_ws) { self.i += 1; } }
    }

    /// the decoded bytes of the value of an entry of object `num` (test support: none of the checks uses it)
    #[allow(dead_code)]
    pub fn dump(b: &[u8]) -> String { String::from_utf8_lossy(b).into_owned() }
}

// =====================================================================================================================
// (2) what is given to the builder (plain data, so that it can be built twice and compared with the reloaded file)
// =====================================================================================================================
type B = PdfBuilder<NoCache, NoCache, NoLog>;

#[derive(Clone, Copy, Debug, PartialEq)]
struct R4(f32, f32, f32, f32); // left bottom right top
fn rect(r: R4) -> Rectangle { Rectangle { left: r.0, bottom: r.1, right: r.2, top: r.3 } }
fn same_rect(got: Option<Rectangle>, want: Option<R4>) -> bool {
    match (got, want) {
        (None, None) => true,
        (Some(g), Some(w)) => g.left.to_bits() == w.0.to_bits() && g.bottom.to_bits() == w.1.to_bits() && g.right.to_bits() == w.2.to_bits() && g.top.to_bits() == w.3.to_bits(),
        _ => false,
    }
}

const COORDS: [f32; 21] = [
    0.0, 1.0, -1.0, 0.5, -0.25, 595.276, 612.0, 841.89, 0.001,
    16777216.0, -16777216.0, 2147483520.0, 2147483648.0, -2147483648.0, 4294967296.0,
    3.0e9, -3.0e9, 4.0e9, 1.0e12, -1.0e12, f32::MAX,
];
const ROTATIONS: [i32; 8] = [0, 90, 180, 270, -90, 360, i32::MAX, i32::MIN];

#[derive(Clone, Debug)]
struct PageSpec {
    media: Option<R4>, crop: Option<R4>, trim: Option<R4>,
    rotate: i32,
    ops: usize,      // index for ops_seq
    extra: usize,    // index for extra_entries
    res: usize,      // 0 none, 1 fonts + graphics state
    aux: bool,       // Metadata (reference to a stream) / LGIDict / VP given
}
impl Default for PageSpec {
    fn default() -> Self { PageSpec { media: Some(R4(0., 0., 612., 792.)), crop: None, trim: None, rotate: 0, ops: 1, extra: 0, res: 0, aux: false } }
}
#[derive(Clone, Debug)]
struct InfoSpec { strings: usize, creation: Option<Date>, modified: Option<Date>, trapped: Option<u8> }
#[derive(Clone, Debug, Default)]
struct DocSpec { pages: Vec<PageSpec>, info: Option<InfoSpec> }

fn p(x: f32, y: f32) -> Point { Point { x, y } }
fn name(s: &str) -> Name { Name::from(s) }
fn pstr(b: &[u8]) -> PdfString { PdfString::new(b.into()) }

const N_OPS: usize = 6;
fn ops_seq(k: usize) -> Vec<Op> {
    let path = vec![
        Op::MoveTo { p: p(10., 10.) }, Op::LineTo { p: p(20.5, -20.25) }, Op::CurveTo { c1: p(1., 2.), c2: p(3., 4.), p: p(5., 6.) },
        Op::Rect { rect: ViewRect { x: 0., y: 0., width: 100., height: 50. } }, Op::Close, Op::Fill { winding: Winding::EvenOdd },
        Op::MoveTo { p: p(0., 0.) }, Op::LineTo { p: p(1., 1.) }, Op::Stroke,
    ];
    let text = vec![
        Op::BeginText, Op::TextFont { name: name("F1"), size: 12. }, Op::CharSpacing { char_space: 0.5 }, Op::WordSpacing { word_space: 1.5 },
        Op::TextScaling { horiz_scale: 90. }, Op::TextRenderMode { mode: TextMode::FillThenStroke }, Op::TextRise { rise: -2. },
        Op::SetTextMatrix { matrix: Matrix { a: 1., b: 0., c: 0., d: 1., e: 72., f: 700. } },
        Op::TextDraw { text: pstr(b"Hello (world) \\ \r\n") }, Op::MoveTextPosition { translation: p(0., -14.) },
        Op::TextDrawAdjusted { array: vec![TextDrawAdjusted::Text(pstr(b"A")), TextDrawAdjusted::Spacing(-120.), TextDrawAdjusted::Text(pstr(&[0xfe, 0xff, 0x20, 0x09]))] },
        Op::EndText,
    ];
    let shorthands = vec![
        Op::BeginText,
        Op::TextNewline, Op::TextDraw { text: pstr(b"quote") },                                    // '
        Op::Leading { leading: 14. }, Op::MoveTextPosition { translation: p(3., -14.) },           // TD
        Op::Leading { leading: 14. }, Op::MoveTextPosition { translation: p(3., -15.) },           // near miss
        Op::WordSpacing { word_space: 1. }, Op::CharSpacing { char_space: 2. }, Op::TextNewline, Op::TextDraw { text: pstr(b"dq") }, // "
        Op::TextNewline, Op::TextNewline,
        Op::EndText,
        Op::MoveTo { p: p(1., 1.) }, Op::CurveTo { c1: p(1., 1.), c2: p(2., 3.), p: p(4., 5.) },   // v
        Op::CurveTo { c1: p(6., 7.), c2: p(8., 9.), p: p(8., 9.) },                               // y
        Op::Close, Op::Stroke,                                                                   // s
        Op::MoveTo { p: p(0., 0.) }, Op::LineTo { p: p(5., 5.) }, Op::Close, Op::FillAndStroke { winding: Winding::NonZero }, // b
        Op::MoveTo { p: p(0., 0.) }, Op::LineTo { p: p(5., 5.) }, Op::Close, Op::FillAndStroke { winding: Winding::EvenOdd }, // b*
        Op::MoveTo { p: p(0., 0.) }, Op::LineTo { p: p(5., 5.) }, Op::Close, Op::EndPath,
    ];
    let gfx = vec![
        Op::Save, Op::Transform { matrix: Matrix { a: 0.5, b: 0., c: 0., d: 0.5, e: -10., f: 3.0e9 } },
        Op::LineWidth { width: 2.5 }, Op::Dash { pattern: vec![3., 1.5], phase: 0. }, Op::LineJoin { join: pdf::content::LineJoin::Round },
        Op::LineCap { cap: pdf::content::LineCap::Square }, Op::MiterLimit { limit: 4. }, Op::Flatness { tolerance: 1. },
        Op::GraphicsState { name: name("GS1") }, Op::StrokeColor { color: Color::Gray(0.5) },
        Op::FillColor { color: Color::Rgb(Rgb { red: 1., green: 0.25, blue: 0. }) }, Op::StrokeColor { color: Color::Cmyk(Cmyk { cyan: 0.1, magenta: 0.2, yellow: 0.3, key: 0.4 }) },
        Op::FillColorSpace { name: name("Cs1") }, Op::StrokeColorSpace { name: name("DeviceRGB") },
        Op::FillColor { color: Color::Other(vec![Primitive::Number(0.5), Primitive::Name("P1".into())]) },
        Op::RenderingIntent { intent: pdf::object::RenderingIntent::Perceptual },
        Op::BeginMarkedContent { tag: name("Span"), properties: None }, Op::MarkedContentPoint { tag: name("Pt"), properties: Some(Primitive::Name("MC0".into())) }, Op::EndMarkedContent,
        Op::Rect { rect: ViewRect { x: 1., y: 2., width: 3., height: 4. } }, Op::Clip { winding: Winding::NonZero }, Op::EndPath,
        Op::Shade { name: name("Sh1") }, Op::XObject { name: name("Im1") }, Op::Restore,
    ];
    match k {
        0 => vec![],
        1 => path,
        2 => text,
        3 => shorthands,
        4 => gfx,
        _ => path.into_iter().chain(text).chain(gfx).chain(shorthands).collect(),
    }
}

const N_EXTRA: usize = 4;
/// the extra entries of a page; set 3 refers to a stream object created in the builder's storage
fn extra_entries(k: usize, b: &mut B) -> Dictionary {
    let mut d = Dictionary::new();
    match k {
        0 => {}
        1 => { d.insert("UserUnit", Primitive::Number(2.5)); }
        2 => {
            d.insert("Tabs", Primitive::Name("S".into()));
            d.insert("StructParents", Primitive::Integer(-3));
            d.insert("XNote", Primitive::String(pstr(b"a (nested) \\ note\n")));
            d.insert("XFlag", Primitive::Boolean(true));
            d.insert("XArr", Primitive::Array(vec![Primitive::Integer(1), Primitive::Number(0.5), Primitive::Name("N#1".into()), Primitive::Array(vec![])]));
            let mut inner = Dictionary::new();
            inner.insert("LastModified", Primitive::String(pstr(b"D:20240101")));
            let mut piece = Dictionary::new();
            piece.insert("App", Primitive::Dictionary(inner));
            d.insert("PieceInfo", Primitive::Dictionary(piece));
        }
        _ => {
            let thumb = b.storage.create(Stream::new((), vec![0u8, 1, 2, 255, b'e', b'n', b'd', b's', b't', b'r', b'e', b'a', b'm', 10, 13])).expect("create stream");
            d.insert("XThumbLike", Primitive::Reference(thumb.get_ref().get_inner()));
        }
    }
    d
}

fn descriptor(n: &str) -> FontDescriptor {
    FontDescriptor {
        font_name: name(n), font_family: Some(pstr(b"Fam")), font_stretch: Some(FontStretch::SemiCondensed), font_weight: Some(400.),
        flags: 1 << 5, font_bbox: Rectangle { left: -166.5, bottom: -225., right: 1000., top: 931. }, italic_angle: -12.,
        ascent: Some(718.), descent: Some(-207.), leading: 33., cap_height: Some(718.), xheight: 523., stem_v: 88., stem_h: 76.,
        avg_width: 441., max_width: 1500., missing_width: 278., font_file: None, font_file2: None, font_file3: None, char_set: None,
    }
}
fn simple_font(n: &str, ty: FontType) -> Font {
    let t = TFont { base_font: Some(name(n)), first_char: Some(32), last_char: Some(34), widths: Some(vec![278., 333.5, 474.]), font_descriptor: Some(descriptor(n)) };
    let mut differences = std::collections::HashMap::new();
    differences.insert(39u32, "quotesingle".into());
    differences.insert(40u32, "parenleft".into());
    differences.insert(96u32, "grave".into());
    Font {
        subtype: ty, name: Some(name(n)),
        data: match ty { FontType::Type1 => FontData::Type1(t), _ => FontData::TrueType(t) },
        encoding: Some(Encoding { base: BaseEncoding::WinAnsiEncoding, differences }),
        to_unicode: None, _other: Dictionary::new(),
    }
}
fn cid_font(n: &str, ty: FontType) -> Font {
    let mut system_info = Dictionary::new();
    system_info.insert("Registry", Primitive::String(pstr(b"Adobe")));
    system_info.insert("Ordering", Primitive::String(pstr(b"Identity")));
    system_info.insert("Supplement", Primitive::Integer(0));
    let two = matches!(ty, FontType::CIDFontType2);
    let c = CIDFont {
        system_info, font_descriptor: descriptor(n), default_width: 500.,
        widths: vec![Primitive::Integer(1), Primitive::Array(vec![Primitive::Integer(600), Primitive::Number(612.5)]), Primitive::Integer(10), Primitive::Integer(20), Primitive::Integer(700)],
        cid_to_gid_map: if two { Some(CidToGidMap::Identity) } else { None },
        _other: Dictionary::new(),
    };
    Font { subtype: ty, name: Some(name(n)), data: if two { FontData::CIDFontType2(c) } else { FontData::CIDFontType0(c) }, encoding: None, to_unicode: None, _other: Dictionary::new() }
}
fn composite_font(n: &str, descendant: FontType) -> Font {
    Font {
        subtype: FontType::Type0, name: Some(name(n)),
        data: FontData::Type0(Type0Font { descendant_fonts: vec![MaybeRef::from(cid_font(n, descendant))], to_unicode: None }),
        encoding: Some(Encoding { base: BaseEncoding::IdentityH, differences: Default::default() }),
        to_unicode: None, _other: Dictionary::new(),
    }
}
const FONT_KEYS: [&str; 4] = ["F1", "F2", "F3", "F4"];
fn font_of(key: &str) -> Font {
    match key {
        "F1" => simple_font("Helvetica", FontType::Type1),
        "F2" => simple_font("ABCDEF+Arial", FontType::TrueType),
        "F3" => composite_font("ABCDEF+SourceHan", FontType::CIDFontType0),
        _ => composite_font("ABCDEF+NotoSans", FontType::CIDFontType2),
    }
}
fn dict_print(d: &Dictionary) -> String {
    let mut v: Vec<String> = d.iter().map(|(k, v)| format!("{}={:?}", k.as_str(), v)).collect();
    v.sort();
    v.join(";")
}
fn bits(r: &Rectangle) -> String { format!("[{:?} {:?} {:?} {:?}]", r.left, r.bottom, r.right, r.top) }
fn descriptor_print(d: &FontDescriptor) -> String {
    format!("name={:?} family={:?} stretch={:?} weight={:?} flags={} bbox={} italic={:?} ascent={:?} descent={:?} leading={:?} cap={:?} xh={:?} stemv={:?} stemh={:?} avg={:?} max={:?} missing={:?} files={}{}{} charset={:?}",
        d.font_name, d.font_family, d.font_stretch, d.font_weight, d.flags, bits(&d.font_bbox), d.italic_angle, d.ascent, d.descent, d.leading, d.cap_height,
        d.xheight, d.stem_v, d.stem_h, d.avg_width, d.max_width, d.missing_width, d.font_file.is_some() as u8, d.font_file2.is_some() as u8, d.font_file3.is_some() as u8, d.char_set)
}
/// what a font IS, for comparison: /Subtype, the variant of the data and all its typed entries, recursively through the descendants
fn font_print(f: &Font) -> String {
    let enc = match &f.encoding {
        None => "none".to_string(),
        Some(e) => { let mut d: Vec<String> = e.differences.iter().map(|(k, v)| format!("{}:{}", k, v.as_str())).collect(); d.sort(); format!("{:?}{{{}}}", e.base, d.join(",")) }
    };
    let tfont = |t: &TFont| format!("base={:?} first={:?} last={:?} widths={:?} descriptor=({})", t.base_font, t.first_char, t.last_char, t.widths, t.font_descriptor.as_ref().map(descriptor_print).unwrap_or_default());
    let cid = |c: &CIDFont| format!("sysinfo=({}) descriptor=({}) dw={:?} w={:?} cidtogid={:?}", dict_print(&c.system_info), descriptor_print(&c.font_descriptor), c.default_width, c.widths, c.cid_to_gid_map);
    let data = match &f.data {
        FontData::Type1(t) => format!("Type1<{}>", tfont(t)),
        FontData::TrueType(t) => format!("TrueType<{}>", tfont(t)),
        FontData::Type0(t) => format!("Type0<descendants=[{}] tounicode={}>", t.descendant_fonts.iter().map(|d| font_print(d)).collect::<Vec<_>>().join(" | "), t.to_unicode.is_some()),
        FontData::CIDFontType0(c) => format!("CIDFontType0<{}>", cid(c)),
        FontData::CIDFontType2(c) => format!("CIDFontType2<{}>", cid(c)),
        FontData::Other(d) => format!("Other<{}>", dict_print(d)),
    };
    format!("/Subtype {:?} /BaseFont {:?} /Encoding {} tounicode={} data={}", f.subtype, f.name, enc, f.to_unicode.is_some(), data)
}
fn graphics_state(font: Option<Ref<Font>>) -> GraphicsStateParameters {
    // no public constructor: the reader on an empty dictionary gives the all-absent value, the public entries are then set
    let mut g = GraphicsStateParameters::from_primitive(Primitive::Dictionary(Dictionary::new()), &NoResolve).expect("empty ExtGState");
    g.line_width = Some(2.5);
    g.line_cap = Some(pdf::object::LineCap::Round);
    g.line_join = Some(pdf::object::LineJoin::Bevel);
    g.miter_limit = Some(10.);
    g.dash_pattern = Some(vec![Primitive::Array(vec![Primitive::Integer(3), Primitive::Number(1.5)]), Primitive::Integer(0)]);
    g.rendering_intent = Some(name("RelativeColorimetric"));
    g.overprint = Some(true);
    g.overprint_fill = Some(false);
    g.overprint_mode = Some(1);
    g.font = font.map(|f| (f, 9.5));
    g.blend_mode = Some(Primitive::Name("Multiply".into()));
    g.smask = Some(Primitive::Name("None".into()));
    g.stroke_alpha = Some(0.5);
    g.fill_alpha = Some(0.25);
    g.alpha_is_shape = Some(false);
    g.text_knockout = Some(true);
    g
}
fn gs_print(g: &GraphicsStateParameters) -> String {
    format!("LW={:?} LC={:?} LJ={:?} ML={:?} D={:?} RI={:?} OP={:?} op={:?} OPM={:?} Font={:?} BM={:?} SMask={:?} CA={:?} ca={:?} AIS={:?} TK={:?}",
        g.line_width, g.line_cap, g.line_join, g.miter_limit, g.dash_pattern, g.rendering_intent, g.overprint, g.overprint_fill, g.overprint_mode,
        g.font.as_ref().map(|(r, s)| (r.get_inner(), *s)), g.blend_mode, g.smask, g.stroke_alpha, g.fill_alpha, g.alpha_is_shape, g.text_knockout)
}

const N_STRINGS: usize = 3;
fn info_strings(k: usize) -> [Option<PdfString>; 6] {
    match k {
        0 => [Some(PdfString::from("A title")), Some(PdfString::from("An author")), Some(PdfString::from("subject")), Some(PdfString::from("k1, k2")), Some(PdfString::from("creator")), Some(PdfString::from("producer 1.0"))],
        1 => [Some(pstr(b"(unbalanced ( and ) \\ back\\slash")), Some(pstr(b"line\r\nbreak\rcr\nlf\ttab")), Some(pstr(b"")), None, Some(pstr(&[0xfe, 0xff, 0x00, 0x41, 0x20, 0x09, 0xd8, 0x3d, 0xde, 0x00])), Some(pstr(&[0x00, 0x7f, 0x80, 0xff, b'(', b'<']))],
        _ => [None, None, None, None, None, None],
    }
}
fn trapped_of(k: u8) -> Trapped { match k { 0 => Trapped::True, 1 => Trapped::False, _ => Trapped::Unknown } }
fn info_of(s: &InfoSpec) -> InfoDict {
    let [title, author, subject, keywords, creator, producer] = info_strings(s.strings);
    let mut i = InfoDict::default();
    i.title = title; i.author = author; i.subject = subject; i.keywords = keywords; i.creator = creator; i.producer = producer;
    i.creation_date = s.creation.clone();
    i.mod_date = s.modified.clone();
    i.trapped = s.trapped.map(trapped_of);
    i
}
fn date(kind: usize, rel: TimeRel, tz_hour: u8, tz_minute: u8) -> Date {
    match kind {
        0 => Date { year: 2024, month: 3, day: 10, hour: 8, minute: 15, second: 7, rel, tz_hour, tz_minute },
        1 => Date { year: 0, month: 1, day: 1, hour: 0, minute: 0, second: 0, rel, tz_hour, tz_minute },
        2 => Date { year: 9999, month: 12, day: 31, hour: 23, minute: 59, second: 59, rel, tz_hour, tz_minute },
        _ => Date { year: 1999, month: 99, day: 99, hour: 12, minute: 30, second: 30, rel, tz_hour, tz_minute },
    }
}
const ZONES: [(TimeRel, u8, u8); 16] = [
    (TimeRel::Universal, 0, 0),  // Z, and what a date without a zone reads as
    (TimeRel::Later, 1, 0), (TimeRel::Later, 5, 30), (TimeRel::Later, 14, 0), (TimeRel::Later, 0, 45), (TimeRel::Later, 23, 59), (TimeRel::Later, 0, 0),
    (TimeRel::Earlier, 8, 0), (TimeRel::Earlier, 3, 30), (TimeRel::Earlier, 9, 30), (TimeRel::Earlier, 0, 30), (TimeRel::Earlier, 0, 45),
    (TimeRel::Earlier, 12, 0), (TimeRel::Earlier, 23, 59), (TimeRel::Earlier, 0, 0),
    (TimeRel::Universal, 5, 30),
];

// =====================================================================================================================
// (3) build, scan, reload, compare
// =====================================================================================================================
struct Built { bytes: Vec<u8>, fonts: Vec<Vec<(String, String)>>, gs: Vec<Option<String>>, extras: Vec<Dictionary>, aux: Vec<Option<(Primitive, Primitive, Primitive)>> }

fn build(doc: &DocSpec) -> Result<Built, String> {
    let mut b: B = PdfBuilder::new(FileOptions::uncached());
    let mut pages = Vec::new();
    let (mut fonts, mut gss, mut extras, mut auxs) = (Vec::new(), Vec::new(), Vec::new(), Vec::new());
    for ps in &doc.pages {
        let mut page = PageBuilder::default();
        page.ops = ops_seq(ps.ops);
        page.media_box = ps.media.map(rect);
        page.crop_box = ps.crop.map(rect);
        page.trim_box = ps.trim.map(rect);
        page.rotate = ps.rotate;
        let extra = extra_entries(ps.extra, &mut b);
        page.other = extra.clone();
        extras.push(extra);
        if ps.aux {
            let meta = b.storage.create(Stream::new((), b"<x:xmpmeta/>".to_vec())).map_err(|e| format!("create metadata stream: {:?}", e))?;
            let metadata = Primitive::Reference(meta.get_ref().get_inner());
            let mut lgi = Dictionary::new();
            lgi.insert("Type", Primitive::Name("LGIDict".into()));
            lgi.insert("Version", Primitive::Number(2.1));
            let lgi = Primitive::Dictionary(lgi);
            let mut vp0 = Dictionary::new();
            vp0.insert("BBox", Primitive::Array(vec![Primitive::Integer(0), Primitive::Integer(0), Primitive::Number(100.5), Primitive::Integer(200)]));
            let vp = Primitive::Array(vec![Primitive::Dictionary(vp0)]);
            page.metadata = Some(metadata.clone());
            page.lgi = Some(lgi.clone());
            page.vp = Some(vp.clone());
            auxs.push(Some((metadata, lgi, vp)));
        } else { auxs.push(None); }
        let mut want_fonts = Vec::new();
        let mut want_gs = None;
        if ps.res == 1 {
            let mut res = Resources::default();
            let mut first = None;
            for key in FONT_KEYS {
                let r = b.storage.create(font_of(key)).map_err(|e| format!("create font {}: {:?}", key, e))?;
                if first.is_none() { first = Some(r.get_ref()); }
                res.fonts.insert(name(key), Lazy::from(r));
                want_fonts.push((key.to_string(), font_print(&font_of(key))));
            }
            let g = graphics_state(first);
            want_gs = Some(gs_print(&g));
            res.graphics_states.insert(name("GS1"), g);
            page.resources = res;
        }
        fonts.push(want_fonts);
        gss.push(want_gs);
        pages.push(page);
    }
    if let Some(i) = &doc.info { b = b.info(info_of(i)); }
    let bytes = b.build(CatalogBuilder::from_pages(pages)).map_err(|e| format!("PdfBuilder::build failed: {:?}", e))?;
    Ok(Built { bytes, fonts, gs: gss, extras, aux: auxs })
}

/// where two descriptions part: `given ...X... -- reloaded ...Y...` with some context before the first differing character
fn first_difference(given: &str, got: &str) -> String {
    let k = given.chars().zip(got.chars()).take_while(|(a, b)| a == b).count();
    let from = k.saturating_sub(60);
    let cut = |s: &str| s.chars().skip(from).take(200).collect::<String>();
    format!("differs at character {}: given `...{}` -- reloaded `...{}`", k, cut(given), cut(got))
}
fn ops_print(ops: &[Op]) -> Vec<String> { ops.iter().map(|o| format!("{:?}", o)).collect() }

/// all the ways in which the produced file differs from what was given (empty = C10 holds for this document)
fn check_doc(doc: &DocSpec) -> Vec<String> {
    let mut bad = Vec::new();
    let built = match build(doc) { Ok(b) => b, Err(e) => return vec![e] };
    let bytes = built.bytes.clone();
    // (1) independent structural reading
    if let Err(e) = scan::check(&bytes) { bad.push(format!("STRUCTURE: {}", e)); }
    // (2) reload
    let file = match FileOptions::uncached().load(bytes) {
        Ok(f) => f,
        Err(e) => { bad.push(format!("the produced bytes do not open: {:?}", e)); return bad; }
    };
    let resolver = file.resolver();
    if file.num_pages() as usize != doc.pages.len() { bad.push(format!("{} pages given, num_pages() = {}", doc.pages.len(), file.num_pages())); }
    let listed: Vec<_> = file.pages().collect();
    if listed.len() != doc.pages.len() { bad.push(format!("{} pages given, pages() yields {}", doc.pages.len(), listed.len())); }
    for (n, ps) in doc.pages.iter().enumerate() {
        let page = match file.get_page(n as u32) { Ok(p) => p, Err(e) => { bad.push(format!("page {}: get_page fails: {:?}", n, e)); continue; } };
        match listed.get(n) { Some(Ok(q)) if q.get_ref().get_inner() == page.get_ref().get_inner() => {}, other => bad.push(format!("page {}: pages() item is {:?}, get_page is {:?}", n, other.map(|r| r.as_ref().map(|q| q.get_ref().get_inner())), page.get_ref().get_inner())) }
        if !same_rect(page.media_box, ps.media) { bad.push(format!("page {}: MediaBox given {:?}, reloaded {:?}", n, ps.media, page.media_box)); }
        if !same_rect(page.crop_box, ps.crop) { bad.push(format!("page {}: CropBox given {:?}, reloaded {:?}", n, ps.crop, page.crop_box)); }
        if !same_rect(page.trim_box, ps.trim) { bad.push(format!("page {}: TrimBox given {:?}, reloaded {:?}", n, ps.trim, page.trim_box)); }
        if page.rotate != ps.rotate { bad.push(format!("page {}: Rotate given {}, reloaded {}", n, ps.rotate, page.rotate)); }
        if page.other != built.extras[n] { bad.push(format!("page {}: extra entries given {{{}}}, reloaded {{{}}}", n, dict_print(&built.extras[n]), dict_print(&page.other))); }
        let aux_got = (page.metadata.clone(), page.lgi.clone(), page.vp.clone());
        let aux_want = match &built.aux[n] { Some((a, b, c)) => (Some(a.clone()), Some(b.clone()), Some(c.clone())), None => (None, None, None) };
        if aux_got != aux_want { bad.push(format!("page {}: Metadata/LGIDict/VP given {:?}, reloaded {:?}", n, aux_want, aux_got)); }
        let given_ops = ops_print(&ops_seq(ps.ops));
        match page.contents.as_ref().map(|c| c.operations(&resolver)) {
            Some(Ok(ops)) => { let got = ops_print(&ops); if got != given_ops {
                let k = got.iter().zip(&given_ops).position(|(a, b)| a != b).unwrap_or(got.len().min(given_ops.len()));
                bad.push(format!("page {}: operations differ at #{}: given {:?} ({} ops), reloaded {:?} ({} ops)", n, k, given_ops.get(k), given_ops.len(), got.get(k), got.len())); } }
            Some(Err(e)) => bad.push(format!("page {}: operations() fails: {:?}", n, e)),
            None => bad.push(format!("page {}: no /Contents", n)),
        }
        match page.resources() {
            Err(e) => bad.push(format!("page {}: resources() fails: {:?}", n, e)),
            Ok(res) => {
                if res.fonts.len() != built.fonts[n].len() { bad.push(format!("page {}: {} fonts given, {} reloaded", n, built.fonts[n].len(), res.fonts.len())); }
                for (key, want) in &built.fonts[n] {
                    match res.fonts.get(&name(key)).map(|l| l.load(&resolver)) {
                        Some(Ok(f)) => { let got = font_print(&f); if &got != want { bad.push(format!("page {}: font /{} {}", n, key, first_difference(want, &got))); } }
                        Some(Err(e)) => bad.push(format!("page {}: font /{} does not load: {:?}", n, key, e)),
                        None => bad.push(format!("page {}: font /{} is not listed", n, key)),
                    }
                }
                let got_gs = res.graphics_states.get(&name("GS1")).map(gs_print);
                if got_gs != built.gs[n] { bad.push(format!("page {}: ExtGState /GS1 given {:?} -- reloaded {:?}", n, built.gs[n], got_gs)); }
                if res.graphics_states.len() != built.gs[n].is_some() as usize { bad.push(format!("page {}: {} graphics states reloaded", n, res.graphics_states.len())); }
                if !(res.color_spaces.is_empty() && res.pattern.is_empty() && res.xobjects.is_empty() && res.properties.is_empty()) { bad.push(format!("page {}: resources nobody gave: {:?}", n, res)); }
            }
        }
    }
    for extra in 0..2u32 {
        if file.get_page(doc.pages.len() as u32 + extra).is_ok() { bad.push(format!("get_page({}) succeeds on a document of {} pages", doc.pages.len() as u32 + extra, doc.pages.len())); }
    }
    // information entries
    match (&doc.info, file.trailer.info_dict.as_ref()) {
        (None, None) => {}
        (None, Some(i)) => bad.push(format!("no information given, reloaded {:?}", i)),
        (Some(_), None) => bad.push("information given, none reloaded".to_string()),
        (Some(s), Some(i)) => {
            let [title, author, subject, keywords, creator, producer] = info_strings(s.strings);
            for (what, given, got) in [("Title", &title, &i.title), ("Author", &author, &i.author), ("Subject", &subject, &i.subject), ("Keywords", &keywords, &i.keywords), ("Creator", &creator, &i.creator), ("Producer", &producer, &i.producer)] {
                if given != got { bad.push(format!("info /{} given {:?}, reloaded {:?}", what, given, got)); }
            }
            if i.creation_date != s.creation { bad.push(format!("info /CreationDate given {:?}, reloaded {:?}", s.creation, i.creation_date)); }
            if i.mod_date != s.modified { bad.push(format!("info /ModDate given {:?}, reloaded {:?}", s.modified, i.mod_date)); }
            let t_given = s.trapped.map(|k| format!("{:?}", trapped_of(k)));
            let t_got = i.trapped.as_ref().map(|t| format!("{:?}", t));
            if t_given != t_got { bad.push(format!("info /Trapped given {:?}, reloaded {:?}", t_given, t_got)); }
        }
    }
    bad
}

/// runs every document, panics with the concrete failing inputs (one line each, no blank line: the framework copies the block)
fn run(what: &str, docs: Vec<DocSpec>) {
    let mut report = Vec::new();
    let mut failing = 0;
    let n = docs.len();
    for d in &docs {
        let bad = check_doc(d);
        if !bad.is_empty() {
            failing += 1;
            // the difference first, then the input; kept short: the framework stores 3000 characters
            let mut line = format!("{} <= FAILING INPUT {:?}", bad.join(" || "), d);
            if line.len() > 1300 { let mut cut = 1300; while !line.is_char_boundary(cut) { cut -= 1; } line.truncate(cut); line.push_str(" ..."); }
            if report.len() < 2 { report.push(line); }
        }
    }
    assert!(report.is_empty(), "C10 {}: {} of {} documents fail, first ones: {}", what, failing, n, report.join(" ### "));
    println!("{}: {} documents", what, n); // after the assertion: nothing but the panic message in the output of a failing test
}

#[test]
fn c10_page_counts_and_box_patterns() {
    let boxes = [R4(0., 0., 612., 792.), R4(10.5, -0.25, 602., 782.75), R4(-100., -200., 300., 400.), R4(0.001, 1., 595.276, 841.89)];
    let mut docs = vec![DocSpec::default()]; // no page at all
    for pattern in 0..8usize {
        for npages in 1..=3usize {
            let pages = (0..npages).map(|k| PageSpec {
                media: if pattern & 1 != 0 { Some(boxes[(k + pattern) % 4]) } else { None },
                crop: if pattern & 2 != 0 { Some(boxes[(k + pattern + 1) % 4]) } else { None },
                trim: if pattern & 4 != 0 { Some(boxes[(k + pattern + 2) % 4]) } else { None },
                rotate: 90 * k as i32, ops: k % N_OPS, ..PageSpec::default()
            }).collect();
            docs.push(DocSpec { pages, info: None });
        }
    }
    run("page counts x box presence", docs);
}

#[test]
fn c10_box_coordinates() {
    // every boundary coordinate at every position, in each of the three boxes
    let mut rects = Vec::new();
    for &v in COORDS.iter() {
        for pos in 0..4 {
            let mut r = [0.0f32, 0.0, 612.0, 792.0];
            r[pos] = v;
            rects.push(R4(r[0], r[1], r[2], r[3]));
        }
        rects.push(R4(v, v, v, v));
    }
    let mut docs = Vec::new();
    for chunk in rects.chunks(3) {
        let mut pages = Vec::new();
        for role in 0..3 {
            // page `role`: the chunk rotated, so that each rectangle is once MediaBox, once CropBox, once TrimBox
            let at = |k: usize| chunk.get((k + role) % chunk.len()).copied();
            pages.push(PageSpec { media: at(0), crop: at(1), trim: at(2), ..PageSpec::default() });
        }
        docs.push(DocSpec { pages, info: None });
    }
    run("box coordinates", docs);
}

#[test]
fn c10_rotation_extra_entries_operations() {
    let mut docs = Vec::new();
    for (k, &rotate) in ROTATIONS.iter().enumerate() {
        docs.push(DocSpec { pages: vec![PageSpec { rotate, ops: k % N_OPS, extra: k % N_EXTRA, ..PageSpec::default() }], info: None });
    }
    for extra in 0..N_EXTRA {
        for ops in 0..N_OPS {
            for aux in [false, true] {
                // the page under test between two ordinary pages: order and separation of the pages
                let pages = vec![PageSpec { rotate: 90, ..PageSpec::default() }, PageSpec { ops, extra, aux, rotate: 180, ..PageSpec::default() }, PageSpec { rotate: 270, ops: (ops + 1) % N_OPS, ..PageSpec::default() }];
                docs.push(DocSpec { pages, info: None });
            }
        }
    }
    run("rotation x extra entries x operations", docs);
}

#[test]
fn c10_resources_fonts_and_graphics_state() {
    let mut docs = Vec::new();
    for npages in 1..=3usize {
        for with in 0..(1usize << npages) {
            let pages = (0..npages).map(|k| PageSpec { res: (with >> k) & 1, ops: if (with >> k) & 1 == 1 { 5 } else { 1 }, rotate: 90 * k as i32, extra: k % N_EXTRA, ..PageSpec::default() }).collect();
            docs.push(DocSpec { pages, info: Some(InfoSpec { strings: 0, creation: None, modified: None, trapped: None }) });
        }
    }
    run("resources", docs);
    // every font kind alone, written and read through the storage (what Lazy<Font> / MaybeRef<Font> do on reload)
    for key in FONT_KEYS {
        let mut b: B = PdfBuilder::new(FileOptions::uncached());
        let r = b.storage.create(font_of(key)).expect("create font");
        let mut res = Resources::default();
        res.fonts.insert(name(key), Lazy::from(r));
        let mut page = PageBuilder::default();
        page.resources = res;
        let bytes = b.build(CatalogBuilder::from_pages(vec![page])).expect("build");
        scan::check(&bytes).unwrap_or_else(|e| panic!("C10 font {} alone: STRUCTURE: {}", key, e));
        let file = FileOptions::uncached().load(bytes).expect("opens");
        let page = file.get_page(0).expect("page 0");
        let got = page.resources().expect("resources").fonts.get(&name(key)).expect("font listed").load(&file.resolver()).expect("font loads");
        assert_eq!(font_print(&got), font_print(&font_of(key)), "C10 FAILING INPUT: a page whose resources hold the one font /{} = {}", key, font_print(&font_of(key)));
    }
    // a Type3 font: FontData::Other has no writer -- it must be refused, never written as something else
    let mut other = Dictionary::new();
    other.insert("FontBBox", Primitive::Array(vec![Primitive::Integer(0), Primitive::Integer(0), Primitive::Integer(1), Primitive::Integer(1)]));
    let t3 = Font { subtype: FontType::Type3, name: None, data: FontData::Other(other), encoding: None, to_unicode: None, _other: Dictionary::new() };
    let mut b: B = PdfBuilder::new(FileOptions::uncached());
    match b.storage.create(t3) {
        Err(_) => {}
        Ok(r) => {
            let mut res = Resources::default();
            res.fonts.insert(name("T3"), Lazy::from(r));
            let mut page = PageBuilder::default();
            page.resources = res;
            let bytes = b.build(CatalogBuilder::from_pages(vec![page])).expect("build");
            let file = FileOptions::uncached().load(bytes).expect("opens");
            let page = file.get_page(0).expect("page 0");
            let got = page.resources().expect("resources").fonts.get(&name("T3")).expect("font listed").load(&file.resolver()).expect("font loads");
            assert!(matches!(got.subtype, FontType::Type3), "C10 FAILING INPUT: a Type3 font was written and reloads as {:?}", got.subtype);
        }
    }
}

#[test]
fn c10_information_entries() {
    let mut docs = Vec::new();
    // every zone x every boundary date-time, as CreationDate and (shifted by one zone) ModDate
    for (z, &(rel, h, m)) in ZONES.iter().enumerate() {
        let (rel2, h2, m2) = ZONES[(z + 1) % ZONES.len()];
        for kind in 0..4 {
            docs.push(DocSpec { pages: vec![PageSpec::default()], info: Some(InfoSpec { strings: (z + kind) % N_STRINGS, creation: Some(date(kind, rel, h, m)), modified: Some(date((kind + 1) % 4, rel2, h2, m2)), trapped: Some(((z + kind) % 3) as u8) }) });
        }
    }
    // presence patterns of the two dates and /Trapped, every string set, 0..2 pages
    for strings in 0..N_STRINGS {
        for pattern in 0..8usize {
            let pages = (0..pattern % 3).map(|_| PageSpec::default()).collect();
            docs.push(DocSpec { pages, info: Some(InfoSpec {
                strings,
                creation: if pattern & 1 != 0 { Some(date(0, TimeRel::Earlier, 3, 30)) } else { None },
                modified: if pattern & 2 != 0 { Some(date(0, TimeRel::Later, 5, 45)) } else { None },
                trapped: if pattern & 4 != 0 { Some((pattern % 3) as u8) } else { None } }) });
        }
    }
    run("information entries", docs);
}

#[test]
fn c10_scanner_rejects_broken_files() {
    // the structural scanner is not vacuous: each single damage to a good file is reported
    let doc = DocSpec { pages: vec![PageSpec { res: 1, ops: 5, extra: 3, aux: true, ..PageSpec::default() }, PageSpec::default()], info: Some(InfoSpec { strings: 0, creation: Some(date(0, TimeRel::Universal, 0, 0)), modified: None, trapped: Some(0) }) };
    let good = build(&doc).expect("build").bytes;
    let s = scan::check(&good).expect("good file passes");
    assert!(s.objects >= 12 && s.streams >= 4 && s.references >= 10, "{:?}", s);
    let damage = |what: &str, f: &dyn Fn(&mut Vec<u8>)| {
        let mut b = good.clone();
        f(&mut b);
        assert!(scan::check(&b).is_err(), "scanner accepts a file with {}", what);
    };
    let replace = |b: &mut Vec<u8>, from: &[u8], to: &[u8], last: bool| {
        let at = if last { b.windows(from.len()).rposition(|w| w == from) } else { scan::find(b, from) }.expect("pattern present");
        b.splice(at..at + from.len(), to.iter().copied());
    };
    damage("a byte before the header", &|b| { b.insert(0, b' '); });
    damage("a wrong startxref", &|b| { let at = b.windows(9).rposition(|w| w == b"startxref").unwrap(); let digit = at + 10; b[digit] = if b[digit] == b'1' { b'2' } else { b'1' }; });
    damage("a shifted body (offsets one too small)", &|b| { b.insert(9, b'\n'); });
    damage("a stream one byte longer than its /Length", &|b| replace(b, b"endstream", b" endstream", false));
    damage("a reference to an undefined object", &|b| replace(b, b"/XThumbLike ", b"/XThumbLike 999 0 R %", false));
    damage("no %%EOF", &|b| { let n = b.len(); b.truncate(n - 5); });
    damage("/Size not above every object number", &|b| { let at = b.windows(6).rposition(|w| w == b"/Size ").unwrap() + 6; let mut e = at; while b[e].is_ascii_digit() { e += 1; } b.splice(at..e, b"3".iter().copied()); });
    damage("an in-use entry made free", &|b| { let at = b.windows(7).rposition(|w| w == b"stream\n").unwrap() + 7; let w = 5; b[at + 4 * w] = 0; });
    damage("a renumbered object header", &|b| replace(b, b"\n3 0 obj", b"\n7 0 obj", false));
}
