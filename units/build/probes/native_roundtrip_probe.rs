use pdf::build::*;
use pdf::content::*;
use pdf::file::FileOptions;
use pdf::object::*;
use pdf::primitive::{Primitive, PdfString, Dictionary};

fn pb(i: usize) -> PageBuilder {
    let mut p = PageBuilder::default();
    p.ops = vec![Op::Save, Op::Restore];
    p.size(100.0 + i as f32, 200.0 + i as f32);
    p.crop_box = Some(Rectangle { left: 1., bottom: 2., right: 3. + i as f32, top: 4. });
    p.trim_box = Some(Rectangle { left: 5., bottom: 6., right: 7. + i as f32, top: 8. });
    p.rotate = (i as i32) * 90;
    p.lgi = Some(Primitive::Integer(1000 + i as i32));
    p.vp = Some(Primitive::Integer(2000 + i as i32));
    p.metadata = Some(Primitive::Integer(3000 + i as i32));
    let mut d = Dictionary::new();
    d.insert("Foo", Primitive::Integer(i as i32));
    p.other = d;
    p
}

fn roundtrip(n: usize, info: bool) {
    let pages: Vec<_> = (0..n).map(pb).collect();
    let mut b = PdfBuilder::new(FileOptions::uncached());
    if info {
        let mut i = InfoDict::default();
        i.title = Some(PdfString::from("hello"));
        b = b.info(i);
    }
    b = b.id("aaaa".into(), "bbbb".into());
    let data = b.build(CatalogBuilder::from_pages(pages)).expect("build");
    println!("{}", String::from_utf8_lossy(&data));
    let file = FileOptions::uncached().load(data).expect("load");
    assert_eq!(file.num_pages() as usize, n);
    let r = file.resolver();
    for i in 0..n {
        let p = file.get_page(i as u32).expect("get_page");
        let e = pb(i);
        assert_eq!(format!("{:?}", p.media_box), format!("{:?}", e.media_box));
        assert_eq!(format!("{:?}", p.crop_box), format!("{:?}", e.crop_box));
        assert_eq!(format!("{:?}", p.trim_box), format!("{:?}", e.trim_box));
        assert_eq!(p.rotate, e.rotate);
        assert_eq!(p.lgi, e.lgi);
        assert_eq!(p.vp, e.vp);
        assert_eq!(p.metadata, e.metadata);
        assert_eq!(p.other.get("Foo"), e.other.get("Foo"));
        let ops = p.contents.as_ref().unwrap().operations(&r).unwrap();
        assert_eq!(format!("{:?}", ops), format!("{:?}", e.ops));
        assert!(p.resources().is_ok());
    }
    assert_eq!(file.trailer.info_dict.is_some(), info);
    if info { assert_eq!(file.trailer.info_dict.as_ref().unwrap().title.as_ref().unwrap().to_string_lossy(), "hello"); }
    println!("ID = {:?}", file.trailer.id);
}

#[test] fn zero_pages() { roundtrip(0, false); }
#[test] fn one_page() { roundtrip(1, true); }
#[test] fn three_pages() { roundtrip(3, true); }
