B = 'pdf/src/build.rs'
T = 'pdf/src/object/types.rs'
M = 'pdf/src/object/mod.rs'
FILE = 'pdf/src/file.rs'
X = 'expanded:pdf'
P = ['C10']
PB = r'^impl<SC, OC, L> PdfBuilder<SC, OC, L>'


def pub(*fields):
    return [{'rule': 'R2', 'regex': r'(?<!pub )\b%s:' % f, 'replace': 'pub %s:' % f} for f in fields]


# ---------------------------------------------------------------------------------------------------------------------
# R6: `let v: Vec<_> = SRC.iter()[.rev()].map(|x| BODY).collect();` -> index loop pushing BODY (verbatim, by
# back-reference) for every element of SRC front to back [back to front].  The closure of the first chain captures
# `update` mutably (R8: inlined).
def collect_loop(rev, var, ty):
    # the element type the compiler infers for `Vec<_>` is spelled out (R2): an invariant mentions the vector before its first push
    return {'rule': 'R6', 'count': '*',
            'regex': r'let (%s): Vec<_> = ([\w.]+)\.iter\(\)\s*%s\.map\(\|(\w+)\|\s*(.*?)\)\s*\.collect\(\);' % (var, r'\.rev\(\)\s*' if rev else ''),
            'replace': r'let mut \1: Vec<%s> = Vec::new(); { let src_ = &\2; let mut i_: usize = 0; while i_ < src_.len() '
                       r'{ let \3 = &src_[%s]; \1.push(\4); i_ = i_ + 1; } }' % (ty, 'src_.len() - 1 - i_' if rev else 'i_')}


# R2: `mut self` (unsupported binding mode) -> `self` + `let mut self_ = self;`, every use renamed
MUT_SELF = [{'where': 'sig', 'rule': 'R2', 'find': 'mut self', 'replace': 'self'},
            {'rule': 'R2', 'regex': r'\bself\b', 'replace': 'self_', 'count': '*'},
            {'rule': 'R2', 'regex': r'\A\s*\{', 'replace': '{ let mut self_ = self;'}]
BUILD_LOOPS = {
    # promises: one per page, consecutive numbers from the old length on
    1: {'invariant': [
            'pre == old(update).objs()',
            'i_ <= src_@.len()', 'src_@ == bs', 'kids_promise@.len() == i_',
            'update.objs().len() == pre.len() + i_', 'extends(pre, update.objs())',
            ('promises_consecutive', 'forall|j: int| 0 <= j < i_ ==> (#[trigger] kids_promise@[j]).inner == ref_of(pre.len() + j)'),
            ('promises_pending', 'forall|j: int| 0 <= j < i_ ==> #[trigger] update.objs()[pre.len() + j] is Promised'),
        ], 'decreases': 'src_@.len() - i_'},
    # /Kids: the promised references in the order of the pages
    2: {'invariant': [
            'i_ <= src_@.len()', 'src_@ == kids_promise@', 'kids@.len() == i_',
            ('kids_in_order', 'forall|j: int| 0 <= j < i_ ==> (#[trigger] kids@[j]).inner == kids_promise@[j].inner'),
        ], 'decreases': 'src_@.len() - i_'},
    # pages: page number k = n - rest is stored under promise number k
    3: {'invariant': [
            'pre == old(update).objs()',
            'zip_.rest().len() <= bs.len()',
            ('zip_in_step', 'forall|j: int| 0 <= j < zip_.rest().len() ==> (#[trigger] zip_.rest()[j]).0 == bs[bs.len() - zip_.rest().len() + j] '
                            '&& zip_.rest()[j].1.inner == ref_of(pre.len() + bs.len() - zip_.rest().len() + j)'),
            'extends(pre, update.objs())', 'pre.len() + bs.len() < update.objs().len() <= u64::MAX',
            ('root_stays', 'update.objs()[(pre.len() + bs.len()) as int] == Slot::Node(PagesNode::Tree(tree.tree()))'),
            ('pages_stored', 'forall|j: int| 0 <= j < bs.len() - zip_.rest().len() ==> '
                             '((#[trigger] update.objs()[pre.len() + j]) matches Slot::Node(PagesNode::Leaf(p)) && page_of(bs[j], p, tree, update.objs()) && page_res_above(p, (pre.len() + bs.len()) as int))'),
            ('promises_left', 'forall|j: int| bs.len() - zip_.rest().len() <= j < bs.len() ==> #[trigger] update.objs()[pre.len() + j] is Promised'),
            ('above_root', 'forall|k: int| pre.len() + bs.len() < k < update.objs().len() ==> '
                           '!((#[trigger] update.objs()[k]) is Promised) && !(update.objs()[k] is Node)'),
        ],
        'ensures': ['zip_.rest().len() == 0'],
        'decreases': 'zip_.rest().len()'},
}

BUILD_RW = [
    {'rule': 'R1', 'regex': r'\A\s*\{', 'replace': '{ let ghost pre = update.objs(); let ghost bs = self.pages@;'},
    collect_loop(True, 'kids_promise', 'PromisedRef<PagesNode>'), collect_loop(False, 'kids_promise', 'PromisedRef<PagesNode>'),
    collect_loop(True, 'kids', 'Ref<PagesNode>'), collect_loop(False, 'kids', 'Ref<PagesNode>'),
    {'rule': 'R1', 'find': 'let tree = PagesRc::create(',
     'replace': 'proof { assert(kids_promise@.len() == bs.len()); } let tree = PagesRc::create('},
    # R6/R7: by-value zip iterator -> the iterator protocol on an opaque env iterator (hoist_zip's body is the expression)
    {'rule': 'R6', 'regex': r'for \((\w+), (\w+)\) in ([\w.]+)\.into_iter\(\)\.zip\(([\w.]+)\)\s*\{',
     'replace': r'let mut zip_ = hoist_zip(\3, \4); loop { let ghost s0 = update.objs(); '
                r'let (\1, \2) = match zip_.next() { Some(pair_) => pair_, None => { break; } }; '
                r'let ghost k_ = bs.len() - zip_.rest().len() - 1; '
                r'proof { assert(\2.inner == ref_of(pre.len() + k_)); assert(s0[pre.len() + k_] is Promised); }'},
    {'rule': 'R1', 'count': '*', 'find': 'update.fulfill(',
     'replace': 'proof { assert(update.objs()[pre.len() + k_] == s0[pre.len() + k_]); } update.fulfill('},
    # R7: `Default::default()` of the Lazy annotations entry (trait-static call with an inferred Self)
    {'rule': 'R7', 'find': 'annotations: Default::default(),', 'replace': 'annotations: Lazy::default_(),'},
    # R1: the result is named so that the lemma deriving the property-level statement can be called on it
    {'rule': 'R1', 'regex': r'Ok\(Catalog \{(.*?)\}\)\s*\}\s*\Z',
     'replace': r'let ghost post = update.objs(); let r_ = Catalog {\1}; proof { lemma_built(pre, post, bs, r_); } Ok(r_) }'},
]

CREATE_ENS = [
    ('create_frame', 'extends(old(update).objs(), final(update).objs())'),
    ('create_stored', 'r matches Ok(x) ==> x.rc().inner == ref_of(old(update).objs().len() as int) && x.tree() == tree '
                      '&& old(update).objs().len() < final(update).objs().len() <= u64::MAX '
                      '&& final(update).objs()[old(update).objs().len() as int] == Slot::Node(PagesNode::Tree(tree)) '
                      '&& rest_nested(old(update).objs(), final(update).objs(), old(update).objs().len() as int)'),
]


# ---------------------------------------------------------------------------------------------------------------------
# Part B helpers (same as units/expansions)
def lits(*keys):
    """R1 ghost block: facts that make the key literals pairwise distinct (length, or first differing character)."""
    out = []
    facts = set()
    for k in keys:
        out.append('reveal_strlit("%s");' % k)
        facts.add('"%s"@.len() == %d' % (k, len(k)))
    for a in keys:
        for b in keys:
            if a < b and len(a) == len(b):
                i = [j for j in range(len(a)) if a[j] != b[j]][0]
                facts.add('"%s"@[%d] == \'%s\'' % (a, i, a[i]))
                facts.add('"%s"@[%d] == \'%s\'' % (b, i, b[i]))
    for f in sorted(facts):
        out.append('assert(%s);' % f)
    return 'proof { ' + ' '.join(out) + ' }'


def body_start(text):
    return {'rule': 'R1', 'regex': r'\A\s*\{', 'replace': '{ ' + text}


# R2: trait dispatch dropped (the method is emitted as an inherent fn)
PUBFN = {'where': 'sig', 'rule': 'R2', 'regex': r'\Afn ', 'replace': 'pub fn '}
TYPES = [r'^pub mod object$', r'^mod types$']
PAGE_KEYS = ['Type', 'Parent', 'Resources', 'MediaBox', 'CropBox', 'TrimBox', 'Contents', 'Rotate', 'Metadata', 'LGIDict', 'VP', 'Annots']
PT_KEYS = ['Type', 'Parent', 'Kids', 'Count', 'Resources', 'MediaBox', 'CropBox']
CAT_KEYS = ['Type', 'Version', 'Pages', 'PageLabels', 'Names', 'Dests', 'Outlines', 'AcroForm', 'Metadata', 'StructTreeRoot']
C0, C1 = 'old(updater).created()', 'final(updater).created()'


def to_dict(ty, keys, ensures, extra=()):
    return {'kind': 'fn', 'file': X, 'container': TYPES + [r'^impl pdf::object::ToDict for %s$' % ty], 'name': 'to_dict',
            'props': P, 'ensures': ensures,
            'rewrites': [PUBFN, body_start(lits(*keys))] + list(extra)}


FILTER_INLINED = r'let \1\2 = match \3 { Some(v__) => { let keep__: bool = { let \4 = &v__; \5 }; if keep__ { Some(v__) } else { None } }, None => None };'

UNIT = {
 'name': 'build',
 'doc': 'documents built from scratch: page tree with promised references, trailer assembly, derived writers of Page/PageTree/Catalog',
 'timeout': 900,
 'rlimit': 30,
 # BOUNDED native stand-in for the end-to-end sentence of C10 (never counted as proved): the real public API on a finite
 # universe of documents, an independent structural scanner of the bytes, reload and comparison with what was given.
 'native': {'tests': [
    {'name': 'built_documents_reload_equal_and_are_well_formed', 'code': 'built_docs_bounded.rs', 'place': 'pdf/tests/verif_build_bounded.rs',
     'fn': 'PdfBuilder::build', 'props': ['C10'], 'tier': 'quick', 'timeout': 900,
     'bound': '218 documents built with PdfBuilder / CatalogBuilder / PageBuilder (+ Storage::create for indirect fonts and streams), saved to memory, '
              'reloaded with FileOptions::uncached(): 0..3 pages; all 8 present/absent patterns of Media/Crop/TrimBox x 1..3 pages; each of 21 coordinates '
              '{0, +-1, 0.5, -0.25, 595.276, 612, 841.89, 0.001, +-2^24, 2147483520, +-2^31, 2^32, +-3e9, 4e9, +-1e12, f32::MAX} at each position of '
              'a rectangle and at all four, as MediaBox, CropBox and TrimBox; /Rotate in {0, 90, 180, 270, -90, 360, i32::MAX, i32::MIN}; 4 sets of extra '
              'entries (none / real / name+integer+string+boolean+array+nested dictionary / reference to a stream) x Metadata+LGIDict+VP given or not x '
              '6 operation sequences (empty, path, text, the shorthand triggers \' " TD v y s b b*, graphics state + colour + marked content, all '
              'concatenated); resources = none | Type1 + TrueType + Type0/CIDFontType0 + Type0/CIDFontType2 fonts (indirect, Lazy) + an ExtGState with '
              'every public entry incl. /Font [ref size], on every subset of 1..3 pages, each font kind also alone; a Type3 font (FontData::Other) must be '
              'refused or reload as Type3; information dictionary = none | 3 string sets (ASCII; delimiters, CR, LF, empty, UTF-16BE, bytes 00 7f 80 ff; '
              'all absent) x Trapped True/False/Unknown/absent x CreationDate/ModDate over 16 zones (Z00\'00 = also what a date without a zone '
              'reads as, +01\'00 +05\'30 +14\'00 +00\'45 +23\'59 +00\'00 -08\'00 -03\'30 -09\'30 -00\'30 -00\'45 -12\'00 -23\'59 -00\'00 Z05\'30) x 4 date-times '
              '(0000-01-01 00:00:00, 9999-12-31 23:59:59, 2024-03-10 08:15:07, month/day 99) x presence patterns. Not compared: catch-all `_other` of '
              'Font / CIDFont / GraphicsStateParameters, dictionary entry order; no -0.0 / NaN / infinity. + 9 single damages to a good file that the '
              'scanner must report. ~0.2 s run, ~15 s build',
     'contract': 'C10 on the real bytes: the file opens; num_pages() and pages() give the pages in the given order (same object as get_page(i), '
                 'get_page(n), get_page(n+1) fail); MediaBox/CropBox/TrimBox equal (presence and f32 bits); Rotate, Metadata, LGIDict, VP, the extra '
                 'entries, the operation sequence (Debug text), every font (/Subtype, FontData variant, every typed entry, descendants) and the '
                 'ExtGState equal; every information entry equal; AND an independent hand-written scanner (own tokenizer, object reader and '
                 'cross-reference stream decoder, no crate code) finds: %PDF-x.y first; startxref = offset of a /Type /XRef stream object, %%EOF last; '
                 'every in-use entry points at the `n g obj` header of that object; /Size above every object number defined or listed; for every '
                 'stream `endstream` follows exactly /Length bytes after the `stream` line; the body is a gap-free sequence of well-formed objects, '
                 'each with its own in-use entry; every `n g R` in any object or the trailer has an in-use entry with that generation'},
 ]},
 'tolerances': {
   'TOL_PAGE_COUNT_FITS_U32': 'page lists longer than u32::MAX (beyond every architectural limit of PDF, ISO 32000-1 Annex C: '
                              'integers up to 2^31-1, 8,388,607 indirect objects) are not constrained: `/Count` is `len as u32`',
 },
 'items': {
  # ---------------------------------------------------------------- data types
  'struct PlainRef': {'kind': 'decl', 'file': M, 'header': r'^pub struct PlainRef$', 'attrs': ['#[derive(Clone, Copy)]']},
  'struct Ref': {'kind': 'decl', 'file': M, 'header': r'^pub struct Ref<T>$', 'rewrites': pub('inner', '_marker')},
  'struct RcRef': {'kind': 'decl', 'file': M, 'header': r'^pub struct RcRef<T>$', 'rewrites': pub('inner', 'data')},
  'enum MaybeRef': {'kind': 'decl', 'file': M, 'header': r'^pub enum MaybeRef<T>$'},
  'struct PromisedRef': {'kind': 'decl', 'file': FILE, 'header': r'^pub struct PromisedRef<T>$', 'rewrites': pub('inner', '_marker')},
  'struct Rectangle': {'kind': 'decl', 'file': T, 'header': r'^pub struct Rectangle$', 'attrs': ['#[derive(Clone, Copy)]']},
  'enum PagesNode': {'kind': 'decl', 'file': T, 'header': r'^pub enum PagesNode$'},
  # the tuple field stays private, as in /repo: that is what makes the type invariant sound
  'struct PagesRc': {'kind': 'decl', 'file': T, 'header': r'^pub struct PagesRc\('},
  'struct PageTree': {'kind': 'decl', 'file': T, 'header': r'^pub struct PageTree$'},
  'struct Page': {'kind': 'decl', 'file': T, 'header': r'^pub struct Page$'},
  'struct Catalog': {'kind': 'decl', 'file': T, 'header': r'^pub struct Catalog$'},
  # the information dictionary with its nine optional entries (so that code that looks at the entries reaches the verifier)
  'enum Trapped': {'kind': 'decl', 'file': T, 'header': r'^pub enum Trapped$'},
  'struct InfoDict': {'kind': 'decl', 'file': T, 'header': r'^pub struct InfoDict$'},
  'struct Trailer': {'kind': 'decl', 'file': FILE, 'header': r'^pub struct Trailer$'},
  'struct PageBuilder': {'kind': 'decl', 'file': B, 'header': r'^pub struct PageBuilder$'},
  'struct CatalogBuilder': {'kind': 'decl', 'file': B, 'header': r'^pub struct CatalogBuilder$', 'rewrites': pub('pages')},
  # R2 (shape): the three cache/log type parameters of the storage dropped
  'struct PdfBuilder': {'kind': 'decl', 'file': B, 'header': r'^pub struct PdfBuilder<SC, OC, L>$',
      'rewrites': [{'rule': 'R2', 'find': 'pub struct PdfBuilder<SC, OC, L>', 'replace': 'pub struct PdfBuilder'},
                   {'rule': 'R2', 'find': 'Storage<Vec<u8>, SC, OC, L>', 'replace': 'Storage'}]},

  # ---------------------------------------------------------------- small accessors the builder goes through
  'Ref::new': {'kind': 'fn', 'file': M, 'container': r'^impl<T> Ref<T>$', 'name': 'new', 'props': P,
      'ensures': [('new_inner', 'r.inner == inner')]},
  'PromisedRef::get_inner': {'kind': 'fn', 'file': FILE, 'container': r'^impl<T> PromisedRef<T>$', 'name': 'get_inner', 'props': P,
      'ensures': [('get_inner_is_inner', 'r == self.inner')]},
  'MaybeRef::data': {'kind': 'fn', 'file': M, 'container': r'^impl<T> MaybeRef<T>$', 'name': 'data', 'props': P,
      'ensures': [('data_is_data', '*r == maybe_data(*self)')]},
  'MaybeRef::from': {'kind': 'fn', 'file': M, 'container': r'^impl<T> From<RcRef<T>> for MaybeRef<T>$', 'name': 'from', 'props': P,
      'canary': False,   # trait-impl method: no twin possible
      'ret': 'res', 'ensures': [('from_is_indirect', 'res == MaybeRef::Indirect(r)')]},
  'PagesRc::create': {'kind': 'fn', 'file': T, 'container': r'^impl PagesRc$', 'name': 'create', 'props': P,
      'ensures': CREATE_ENS},

  # ---------------------------------------------------------------- CatalogBuilder
  'CatalogBuilder::from_pages': {'kind': 'fn', 'file': B, 'container': r'^impl CatalogBuilder$', 'name': 'from_pages', 'props': P,
      'ensures': [('from_pages_keeps_list', 'r.pages@ == pages@')]},
  'CatalogBuilder::build': {'kind': 'fn', 'file': B, 'container': r'^impl CatalogBuilder$', 'name': 'build', 'props': P,
      'ensures': [
          ('built', 'r matches Ok(cat) ==> (self.pages@.len() <= u32::MAX || !TOL_PAGE_COUNT_FITS_U32()) ==> '
                    'built(old(update).objs(), final(update).objs(), self.pages@, cat)'),
          ('frame', 'extends(old(update).objs(), final(update).objs())'),
      ],
      'rewrites': BUILD_RW, 'loops': BUILD_LOOPS},

  # ---------------------------------------------------------------- PageBuilder
  'PageBuilder::size': {'kind': 'fn', 'file': B, 'container': r'^impl PageBuilder$', 'name': 'size', 'props': P,
      'ensures': [
          # ISO 32000-1 7.9.5: a rectangle is given by two diagonally opposite corners; here (0,0) and (width,height)
          ('size_media_box', 'final(self).media_box matches Some(b) && rect_spans(b, f32_zero(), f32_zero(), width, height)'),
          ('size_frame', 'same_but_media_box(*old(self), *final(self))'),
      ],
      'rewrites': [{'rule': 'R7', 'regex': r'\b0\.(?![0-9])', 'replace': 'hoist_f32_zero()', 'count': 2}]},
  'PageBuilder::from_content': {'kind': 'fn', 'file': B, 'container': r'^impl PageBuilder$', 'name': 'from_content', 'props': P,
      'ensures': [
          ('from_content_ops', 'r matches Ok(b) ==> b.ops@ == content_ops(content) && page_builder_rest_default(b)'),
          ('from_content_err', 'r is Ok <==> content_readable(content)'),
      ]},
  'PageBuilder::from_page': {'kind': 'fn', 'file': B, 'container': r'^impl PageBuilder$', 'name': 'from_page', 'props': P,
      'ensures': [
          ('from_page_fields', 'r matches Ok(b) ==> from_page_spec(*page, b)'),
          ('from_page_err', 'r is Ok <==> from_page_readable(*page)'),
      ],
      'rewrites': [
          {'rule': 'R7', 'regex': r'([\w.]+)\.as_ref\(\)\.map\(\|c\| c\.operations\(resolve\)\)\.transpose\(\)\?\.unwrap_or_default\(\)',
           'replace': r'hoist_contents_ops(&\1, resolve)?'},
      ]},

  # ---------------------------------------------------------------- PdfBuilder
  'PdfBuilder::info': {'kind': 'fn', 'file': B, 'container': PB, 'name': 'info', 'props': P,
      'ensures': [('info_set', 'r.info == Some(info) && r.storage == self.storage && r.id == self.id')], 'rewrites': MUT_SELF},
  'PdfBuilder::id': {'kind': 'fn', 'file': B, 'container': PB, 'name': 'id', 'props': P,
      'ensures': [('id_keeps_rest', 'r.info == self.info && r.storage == self.storage')], 'rewrites': MUT_SELF},
  'PdfBuilder::build': {'kind': 'fn', 'file': B, 'container': PB, 'name': 'build', 'props': P,
      'ensures': [
          ('built_file', 'r matches Ok(bytes) ==> (catalog.pages@.len() <= u32::MAX || !TOL_PAGE_COUNT_FITS_U32()) ==> '
                         'built_file(bytes@, self.storage.objs(), catalog.pages@, self.info)'),
      ],
      'rewrites': MUT_SELF + [
          {'rule': 'R1', 'regex': r'\A\s*\{', 'replace': '{ let ghost pre = self.storage.objs(); let ghost bs = catalog.pages@; let ghost info0 = self.info;'},
          {'rule': 'R1', 'find': 'let mut trailer = Trailer {',
           'replace': 'let ghost mid = self_.storage.objs(); let ghost cat0 = catalog; let mut trailer = Trailer {'},
          # R8 by shape: forwarding closure of Option::filter inlined (std: `Some(v)` is kept iff the predicate holds of `&v`); receiver,
          # binder and predicate text verbatim.  `Option::take` / `is_some` / `is_none` are read through vstd.
          # (block-bodied predicate first: its text ends at the first `})`+`;`; then the expression-bodied one: ends at the first `)`+`;`)
          {'rule': 'R8', 'count': '*', 'regex': r'let\s+(mut\s+)?(\w+)\s*=\s*([^;|]*?)\s*\.\s*filter\(\s*\|\s*(\w+)\s*\|\s*(\{.*?\})\s*\)\s*;',
           'replace': FILTER_INLINED},
          {'rule': 'R8', 'count': '*', 'regex': r'let\s+(mut\s+)?(\w+)\s*=\s*([^;|]*?)\s*\.\s*filter\(\s*\|\s*(\w+)\s*\|\s*(?!\{)(.*?)\)\s*;',
           'replace': FILTER_INLINED},
          {'rule': 'R7', 'find': 'vec!["foo".into(), "bar".into()]', 'replace': 'hoist_placeholder_id()'},
          {'rule': 'R1', 'find': 'self_.storage.save(&mut trailer)?;',
           'replace': 'let ghost post = self_.storage.objs(); self_.storage.save(&mut trailer)?; '
                      'proof { let ghost w_ = built_file_w(self_.storage.backend@, pre, bs, info0, mid, post, cat0, trailer.size as int); }'},
      ]},

  # ---------------------------------------------------------------- Part B: derived writers (compiler expansion) and PagesRc's own
  'PagesRc::to_primitive': {'kind': 'fn', 'file': T, 'container': r'^impl ObjectWrite for PagesRc$', 'name': 'to_primitive', 'props': P,
      'ensures': [('wr_model', 'r == Ok::<Primitive, PdfError>(Primitive::Reference(self.rc().inner))'),
                  ('wr_frame', 'submap(old(update).created(), final(update).created())')],
      'rewrites': [PUBFN, {'where': 'sig', 'rule': 'R2', 'find': 'impl Updater', 'replace': 'impl pdf::object::Updater'}]},
  'Page::to_dict': to_dict('Page', PAGE_KEYS, [
      ('wr_model', 'r matches Ok(d) ==> page_written(*self, d@, %s, %s)' % (C0, C1)),
      ('wr_frame', 'submap(%s, %s)' % (C0, C1))],
      extra=[# '*': a writer that lost the entry must reach the verifier
             {'rule': 'R1', 'count': '*', 'find': 'dict.insert("Resources", val2);',
              'replace': 'proof { assert(submap(old(updater).created(), updater.created())); } dict.insert("Resources", val2);'}]),
  'PageTree::to_dict': to_dict('PageTree', PT_KEYS, [
      ('wr_model', 'r matches Ok(d) ==> d@ =~= pagetree_dict(*self)'),
      ('wr_ok', 'r is Err ==> self.parent.wfail() || self.kids.wfail() || self.count.wfail() || self.resources.wfail() '
                '|| self.media_box.wfail() || self.crop_box.wfail()'),
      ('wr_frame', 'submap(%s, %s)' % (C0, C1))]),
  'Catalog::to_dict': to_dict('Catalog', CAT_KEYS, [
      ('wr_model', 'r matches Ok(d) ==> d@ =~= catalog_dict(*self)'),
      ('wr_frame', 'submap(%s, %s)' % (C0, C1))]),
 },
}
