// ---- shared by units `unfilter` and `flate` (textually included inside `verus! { }`) ----
// Spec of PNG filtering, written from the PNG specification (ISO/IEC 15948:2003 / W3C PNG 2nd ed.),
// section 9.2 "Filter types for filter method 0", 9.3 "Filter type 3: Average", 9.4 "Filter type 4: Paeth".
// Nothing here is derived from pdf/src/enc.rs.

// filter type byte of each reconstruction function (PNG table 9.1: 0 None, 1 Sub, 2 Up, 3 Average, 4 Paeth)
pub open spec fn tag_of(ft: PredictorType) -> int {
    match ft {
        PredictorType::NoFilter => 0,
        PredictorType::Sub => 1,
        PredictorType::Up => 2,
        PredictorType::Avg => 3,
        PredictorType::Paeth => 4,
    }
}

// "unsigned arithmetic modulo 256"
pub open spec fn add8(a: u8, b: u8) -> u8 { ((a as int + b as int) % 256) as u8 }

// 9.4: p = a + b - c; pa = |p - a|; pb = |p - b|; pc = |p - c|;
//      if pa <= pb and pa <= pc then a else if pb <= pc then b else c   (order of the tests is normative)
pub open spec fn iabs(x: int) -> int { if x >= 0 { x } else { -x } }
pub open spec fn paeth_spec(a: u8, b: u8, c: u8) -> u8 {
    let p = a as int + b as int - c as int;
    let pa = iabs(p - a as int);
    let pb = iabs(p - b as int);
    let pc = iabs(p - c as int);
    if pa <= pb && pa <= pc { a } else if pb <= pc { b } else { c }
}

// 9.2: Recon(x) for byte x of a scanline. a = Recon(x - bpp), b = Prior(x), c = Prior(x - bpp); bytes to the left of
// the first pixel are 0. `tag` is the filter type byte, `bpp` the number of bytes per complete pixel (>= 1),
// `prev` the reconstructed previous scanline, `filt` the filtered bytes of this one.
pub open spec fn png_recon(tag: int, bpp: int, prev: Seq<u8>, filt: Seq<u8>, x: int) -> u8
    decreases x
{
    if x < 0 || x >= filt.len() || bpp < 1 { 0 } else {
        let a: u8 = if x >= bpp { png_recon(tag, bpp, prev, filt, x - bpp) } else { 0 };
        let b: u8 = prev[x];
        let c: u8 = if x >= bpp { prev[x - bpp] } else { 0 };
        if tag == 0 { filt[x] }
        else if tag == 1 { add8(filt[x], a) }
        else if tag == 2 { add8(filt[x], b) }
        else if tag == 3 { add8(filt[x], ((a as int + b as int) / 2) as u8) }     // floor((a + b) / 2), no overflow
        else { add8(filt[x], paeth_spec(a, b, c)) }
    }
}

// one unfolding of the definition (pure definitional step, proved by Verus)
pub proof fn lemma_recon_unfold(tag: int, bpp: int, prev: Seq<u8>, filt: Seq<u8>, x: int)
    requires 0 <= x < filt.len(), bpp >= 1
    ensures png_recon(tag, bpp, prev, filt, x) == ({
        let a: u8 = if x >= bpp { png_recon(tag, bpp, prev, filt, x - bpp) } else { 0 };
        let b: u8 = prev[x];
        let c: u8 = if x >= bpp { prev[x - bpp] } else { 0 };
        if tag == 0 { filt[x] }
        else if tag == 1 { add8(filt[x], a) }
        else if tag == 2 { add8(filt[x], b) }
        else if tag == 3 { add8(filt[x], ((a as int + b as int) / 2) as u8) }
        else { add8(filt[x], paeth_spec(a, b, c)) }
    })
{}

// the whole reconstructed scanline
pub open spec fn png_recon_row(tag: int, bpp: int, prev: Seq<u8>, filt: Seq<u8>) -> Seq<u8> {
    Seq::new(filt.len(), |x: int| png_recon(tag, bpp, prev, filt, x))
}

// ---- L0 helper (R7): `i16::abs` has no Verus specification; body is the hoisted source expression ----
#[verifier::external_body]
fn hoist_abs_i16(x: i16) -> (r: i16)
    requires x > i16::MIN,          // abs(i16::MIN) overflows (panics in the test profile)
    ensures r as int == iabs(x as int),
{
    x.abs()
}
