// Unit `unfilter` (C05, C01): PNG scanline reconstruction `unfilter` and the Paeth predictor `filter_paeth`
// of pdf/src/enc.rs against the reconstruction recurrence of the PNG specification.
use vstd::prelude::*;
verus! {
global size_of usize == 8;

//@@ enum PredictorType

//@@ INCLUDE unfilter/png_spec.rs

//@@ filter_paeth

//@@ filter_avg
//@@ unfilter
}
fn main(){}
