E = 'pdf/src/enc.rs'

RECON = 'png_recon(tag_of(filter), bpp as int, prev@, inp@, %s)'

def inv(arm):
    """Invariant of every row loop of `unfilter`: the bytes written so far are Recon(0..i). Loops are verified in
    isolation, so the match arm the loop lives in (`filter is <arm>`) and the lengths are restated."""
    return {'invariant': [
        'out@.len() == len', 'inp@.len() == len', 'prev@.len() == len', 'bpp <= len',
        ('loop_in_arm', 'filter is %s' % arm),
        ('recon_prefix', 'bpp >= 1 ==> forall|j: int| 0 <= j < i ==> out@[j] == ' + RECON % 'j'),
    ]}

UNFOLD_ALL = ('proof { if bpp >= 1 { assert forall|j: int| 0 <= j < %s implies out@[j] == ' + RECON % 'j' +
              ' by { lemma_recon_unfold(tag_of(filter), bpp as int, prev@, inp@, j); } } }')

ENUM_PREDICTOR = {'kind': 'decl', 'file': E, 'header': r'^pub enum PredictorType$',
                  'attrs': ['#[derive(Clone, Copy, PartialEq, Eq, Structural)]']}

FILTER_PAETH = {'kind': 'fn', 'file': E, 'name': 'filter_paeth', 'props': ['C05', 'C01'],
    'ensures': [('paeth_is_png', 'r == paeth_spec(a, b, c)')],
    'rewrites': [
        # R7: i16::abs is not readable by Verus; the argument expression stays verbatim under proof
        {'rule': 'R7', 'regex': r'\((p - i[abc])\)\.abs\(\)', 'replace': r'hoist_abs_i16(\1)', 'count': 3},
    ]}

# OPTIONAL (hardening round 3): a helper `filter_avg(<left>, <up>) -> u8` that the Average arm may be factored into (it is not in
# the pinned text, where the mean is computed inline). Its contract is the PNG specification 9.3: "Average(x) + floor((Recon(a) +
# Recon(b)) / 2)", the sum formed WITHOUT overflow (over the integers). The parameter names are read off the tree under verification
# (the contract is about the two arguments, whatever they are called). With the contract in place `unfilter` verifies against the
# helper's POSTCONDITION, and the helper's own body is checked against it: a correct extraction verifies, one that loses the carry
# (`left / 2 + up / 2`) fails `filter_avg/avg_is_png`. On a tree without the helper the item renders as nothing.
def _avg_params():
    import re
    from vlib import assemble
    try:
        _raw, sig, _body = assemble.locate({'kind': 'fn', 'file': E, 'name': 'filter_avg'})
        m = re.search(r'fn\s+filter_avg\s*\(\s*(\w+)\s*:\s*u8\s*,\s*(\w+)\s*:\s*u8\s*,?\s*\)', sig)
        if m:
            return m.group(1), m.group(2)
    except Exception:
        pass
    return 'left', 'up'


_A, _B = _avg_params()
FILTER_AVG = {'kind': 'fn', 'file': E, 'name': 'filter_avg', 'props': ['C05', 'C01'], 'optional': True,
    'ensures': [('avg_is_png', 'r == ((%s as int + %s as int) / 2) as u8' % (_A, _B))]}

UNFILTER = {'kind': 'fn', 'file': E, 'name': 'unfilter', 'props': ['C05', 'C01'],
    # the two assert_eq! at the top of the function; the only call site in /repo (flate_decode) passes three
    # slices of length `stride`
    'requires': ['inp@.len() == old(out)@.len()', 'inp@.len() == prev@.len()'],
    'ensures': [
        ('len_kept', 'final(out)@.len() == old(out)@.len()'),
        # PNG 9.2: every byte of the scanline is Recon(x), for every filter type, pixel distance and row
        ('png_recon', '1 <= bpp <= inp@.len() ==> forall|x: int| 0 <= x < inp@.len() ==> final(out)@[x] == ' + RECON % 'x'),
    ],
    'loops': {1: inv('Sub'), 2: inv('Up'), 3: inv('Avg'), 4: inv('Avg'), 5: inv('Paeth'), 6: inv('Paeth')},
    'rewrites': [
        {'rule': 'R4', 'find': 'assert_eq!(len, out.len());', 'replace': 'assert!(len == out.len());'},
        {'rule': 'R4', 'find': 'assert_eq!(len, prev.len());', 'replace': 'assert!(len == prev.len());'},
        # R1 ghost: after the two slice copies, every copied byte is Recon(x) (one unfolding of the definition)
        {'rule': 'R1', 'find': 'out[..len].copy_from_slice(&inp[..len]);',
         'replace': 'out[..len].copy_from_slice(&inp[..len]); ' + UNFOLD_ALL % 'len'},
        {'rule': 'R1', 'find': 'out[..bpp].copy_from_slice(&inp[..bpp]);',
         'replace': 'out[..bpp].copy_from_slice(&inp[..bpp]); ' + UNFOLD_ALL % 'bpp'},
        # R1 ghost: one unfolding of Recon at the byte about to be written
        {'rule': 'R1', 'regex': r'out\[i\] = ', 'count': 6,
         'replace': 'proof { if bpp >= 1 { lemma_recon_unfold(tag_of(filter), bpp as int, prev@, inp@, i as int); } } out[i] = '},
    ]}

UNIT = {
 'name': 'unfilter',
 'doc': 'PNG scanline reconstruction (all five filter types) and the Paeth predictor against the PNG specification',
 'items': {
   'enum PredictorType': ENUM_PREDICTOR,
   'filter_paeth': FILTER_PAETH,
   'filter_avg': FILTER_AVG,
   'unfilter': UNFILTER,
 },
 'kani': {
   'modules': [{'file': E, 'code': 'kani_unfilter.rs'}],
   'harnesses': [
     {'name': 'unfilter_%s_le6' % n, 'fn': 'unfilter', 'file': E, 'props': ['C05', 'C01'], 'kind': 'bounded',
      'bound': 'rows of 0..=6 bytes, bpp 1..=3, filter type %d, unwind 8' % k, 'tier': 'thorough', 'covers': True,
      'contract': 'no panic; bpp <= len ==> forall x < len. out[x] == PNG Recon(x) for filter type %d (independent reference)' % k}
     for k, n in enumerate(['none', 'sub', 'up', 'avg', 'paeth'])],
   'jobs': 5, 'timeout': 3000,
 },
}
