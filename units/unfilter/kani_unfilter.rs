// Kani second opinion on the REAL `unfilter` of pdf/src/enc.rs (appended as a #[cfg(kani)] module): bounded, but it
// produces concrete counterexamples (Verus does not). Rows of 0..=6 bytes, pixel distance 1..=3, one harness per
// PNG filter type. The reference below is written from the PNG specification (9.2-9.4), not from `unfilter`.

const L: usize = 6;

// PNG 9.4
fn paeth_png(a: u8, b: u8, c: u8) -> u8 {
    let p = a as i32 + b as i32 - c as i32;
    let pa = (p - a as i32).abs();
    let pb = (p - b as i32).abs();
    let pc = (p - c as i32).abs();
    if pa <= pb && pa <= pc { a } else if pb <= pc { b } else { c }
}

// PNG 9.2: Recon(x), a = Recon(x - bpp), b = Prior(x), c = Prior(x - bpp), 0 left of the first pixel
fn recon_png(tag: u8, bpp: usize, prior: &[u8; L], filt: &[u8; L], n: usize) -> [u8; L] {
    let mut recon = [0u8; L];
    let mut x = 0;
    while x < n {
        let a = if x >= bpp { recon[x - bpp] } else { 0 };
        let b = prior[x];
        let c = if x >= bpp { prior[x - bpp] } else { 0 };
        let pred = match tag {
            0 => 0,
            1 => a,
            2 => b,
            3 => ((a as u16 + b as u16) / 2) as u8,
            _ => paeth_png(a, b, c),
        };
        recon[x] = ((filt[x] as u16 + pred as u16) % 256) as u8;
        x += 1;
    }
    recon
}

fn check(tag: u8, ft: PredictorType) {
    let n: usize = kani::any();
    kani::assume(n <= L);
    let bpp: usize = kani::any();
    kani::assume(bpp >= 1 && bpp <= 3);
    let prior: [u8; L] = kani::any();
    let filt: [u8; L] = kani::any();
    let mut out = [0u8; L];
    unfilter(ft, bpp, &prior[..n], &filt[..n], &mut out[..n]);      // must not panic for any of these
    kani::cover!(n == L && bpp == 3);
    kani::cover!(n == 0);
    if bpp <= n {
        let want = recon_png(tag, bpp, &prior, &filt, n);
        let mut x = 0;
        while x < n {
            assert!(out[x] == want[x]);
            x += 1;
        }
    }
}

#[kani::proof] #[kani::unwind(8)]
fn unfilter_none_le6() { check(0, PredictorType::NoFilter); }
#[kani::proof] #[kani::unwind(8)]
fn unfilter_sub_le6() { check(1, PredictorType::Sub); }
#[kani::proof] #[kani::unwind(8)]
fn unfilter_up_le6() { check(2, PredictorType::Up); }
#[kani::proof] #[kani::unwind(8)]
fn unfilter_avg_le6() { check(3, PredictorType::Avg); }
#[kani::proof] #[kani::unwind(8)]
fn unfilter_paeth_le6() { check(4, PredictorType::Paeth); }
