// BOUNDED native differential harness for write_cmap / parse_cmap (C19). NOT a proof: exhaustive over the small
// universes spelled out below, nothing beyond them. Append to pdf/src/font.rs of a scratch copy (parse_cmap is private):
//   cat units/cmap/bounded_roundtrip_harness.rs >> /tmp/x/pdf/src/font.rs
//   cd /tmp/x && CARGO_TARGET_DIR=/tmp/cmap_target cargo test --offline -p pdf --lib cmap_bounded -- --nocapture
#[cfg(test)]
mod cmap_bounded {
    use super::*;
    use std::collections::BTreeMap;

    fn check(entries: &BTreeMap<u16, &str>) -> std::result::Result<(), String> {
        let map = ToUnicodeMap::create(entries.iter().map(|(&c, &s)| (c, SmallString::from(s))));
        let text = write_cmap(&map);
        let back = parse_cmap(text.as_bytes()).map_err(|e| format!("parse_cmap failed: {e:?}\n{text}"))?;
        let got: BTreeMap<u16, String> = back.iter().map(|(c, s)| (c, s.to_string())).collect();
        let want: BTreeMap<u16, String> = entries.iter().map(|(&c, &s)| (c, s.to_string())).collect();
        if got == want { Ok(()) } else { Err(format!("map {want:?}\nwritten as\n{text}read back as {got:?}")) }
    }

    // Universe A: EVERY map over the codes {0,1,2,3,4} with each code absent or mapped to one of
    // "A", "\u{FF}" (last byte 0xFF), "\u{1D11E}" (surrogate pair): 4^5 = 1024 maps (every run/gap pattern of length <= 5).
    #[test]
    fn universe_a_all_maps_over_5_codes() {
        let vals = ["A", "\u{FF}", "\u{1D11E}"];
        let (mut n, mut bad, mut first) = (0, 0, None);
        for code in 0..4u32.pow(5) {
            let mut m = BTreeMap::new();
            let mut k = code;
            for c in 0..5u16 { let d = k % 4; k /= 4; if d > 0 { m.insert(c, vals[(d - 1) as usize]); } }
            n += 1;
            if let Err(e) = check(&m) { bad += 1; first.get_or_insert(e); }
        }
        println!("universe A: {n} maps, {bad} do not read back");
        if let Some(e) = first { panic!("first failure:\n{}", e); }
    }
    // Universe B: every subset of the codes {0, 1, 2, 0xFE, 0xFF, 0x100, 0xFFFD, 0xFFFE, 0xFFFF} (one- and two-byte
    // boundaries, top of the code space) x 5 rotations of the value list
    // ["A", "\u{FF}", "ab", "\u{1D11E}", "\u{10FFFF}z"]: 512 x 5 = 2560 maps.
    #[test]
    fn universe_b_boundary_codes() {
        let keys = [0u16, 1, 2, 0xFE, 0xFF, 0x100, 0xFFFD, 0xFFFE, 0xFFFF];
        let vals = ["A", "\u{FF}", "ab", "\u{1D11E}", "\u{10FFFF}z"];
        let (mut n, mut bad, mut first) = (0, 0, None);
        for mask in 0..(1u32 << keys.len()) {
            for rot in 0..vals.len() {
                let mut m = BTreeMap::new();
                let mut j = rot;
                for (i, &k) in keys.iter().enumerate() {
                    if mask & (1 << i) != 0 { m.insert(k, vals[j % vals.len()]); j += 1; }
                }
                n += 1;
                if let Err(e) = check(&m) { bad += 1; first.get_or_insert(e); }
            }
        }
        println!("universe B: {n} maps, {bad} do not read back");
        if let Some(e) = first { panic!("first failure:\n{}", e); }
    }

    // Universe C: LINEAR runs — codes c0..c0+len mapped to the consecutive characters u0..u0+len (what a range
    // form `<lo> <hi> <dst>` can abbreviate), for every start code in {0, 1, 0xFD, 0xFE, 0xFF, 0x1FD, 0xFFF0},
    // every length 1..=6 and every first character in {U+0041, U+00FC..U+0101, U+01FE, U+D7FD, U+FFFB, U+1D11E}
    // (runs crossing an xxFF -> (xx+1)00 boundary of the destination, the surrogate gap and the top of the BMP),
    // each also with one code of the run removed (a gap): 7 * 6 * 11 * (1 + len) maps.
    #[test]
    fn universe_c_linear_runs() {
        let starts = [0u16, 1, 0xFD, 0xFE, 0xFF, 0x1FD, 0xFFF0];
        let firsts = [0x41u32, 0xFC, 0xFD, 0xFE, 0xFF, 0x100, 0x101, 0x1FE, 0xD7FD, 0xFFFB, 0x1D11E];
        let (mut n, mut bad, mut first) = (0, 0, None);
        for &c0 in &starts { for len in 1..=6u32 { for &u0 in &firsts {
            let mut strs: Vec<(u16, String)> = Vec::new();
            let mut u = u0;
            for i in 0..len {
                while char::from_u32(u).is_none() { u += 1; }
                strs.push((c0 + i as u16, char::from_u32(u).unwrap().to_string()));
                u += 1;
            }
            for skip in 0..=len as usize {
                let mut m: BTreeMap<u16, &str> = BTreeMap::new();
                for (i, (c, s)) in strs.iter().enumerate() { if i + 1 != skip { m.insert(*c, s.as_str()); } }
                n += 1;
                if let Err(e) = check(&m) { bad += 1; first.get_or_insert(e); }
            }
        } } }
        println!("universe C: {n} maps, {bad} do not read back");
        if let Some(e) = first { panic!("first failure:\n{}", e); }
    }

    // Reader against an independent reading of ISO 32000-1 9.10.3 on texts from a small conformant generator:
    // sections drawn from the list below in every order of every subset of size <= 3 (1 + 5 + 20 + 60 = 86 texts).
    #[test]
    fn reader_on_generated_texts() {
        // (text, entries the section defines)
        let secs: Vec<(&str, Vec<(u16, &str)>)> = vec![
            ("2 beginbfchar\n<0041> <0041>\n<42> <00660066>\nendbfchar\n", vec![(0x41, "A"), (0x42, "ff")]),
            ("1 beginbfrange\n<0050> <0053> <0061>\nendbfrange\n", vec![(0x50, "a"), (0x51, "b"), (0x52, "c"), (0x53, "d")]),
            ("1 beginbfrange\n<0060> <0061> <D834DD1E>\nendbfrange\n", vec![(0x60, "\u{1D11E}"), (0x61, "\u{1D11F}")]),
            ("1 beginbfrange\n<0070> <0072> [<0078> <00790079> <D834DD1E>]\nendbfrange\n", vec![(0x70, "x"), (0x71, "yy"), (0x72, "\u{1D11E}")]),
            ("1 beginbfrange\n<0080> <0081> <004100FE>\nendbfrange\n", vec![(0x80, "A\u{FE}"), (0x81, "A\u{FF}")]),
        ];
        let pre = "/CIDInit /ProcSet findresource begin\n12 dict begin\nbegincmap\n/CMapName /Adobe-Identity-UCS def\n1 begincodespacerange\n<0000> <FFFF>\nendcodespacerange\n";
        let post = "endcmap\nCMapName currentdict /CMap defineresource pop\nend\nend\n";
        let n = secs.len();
        let mut orders: Vec<Vec<usize>> = vec![vec![]];
        for a in 0..n { orders.push(vec![a]); for b in 0..n { if b != a { orders.push(vec![a, b]); for c in 0..n { if c != a && c != b { orders.push(vec![a, b, c]); } } } } }
        for o in &orders {
            let mut text = String::from(pre);
            let mut want = BTreeMap::new();
            for &i in o { text.push_str(secs[i].0); for &(c, s) in &secs[i].1 { want.insert(c, s.to_string()); } }
            text.push_str(post);
            let got: BTreeMap<u16, String> = parse_cmap(text.as_bytes()).unwrap().iter().map(|(c, s)| (c, s.to_string())).collect();
            assert_eq!(got, want, "text:\n{text}");
        }
        println!("reader: {} generated texts read as ISO 32000-1 9.10.3 defines", orders.len());
    }
}
