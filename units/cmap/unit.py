F = 'pdf/src/font.rs'
M = 'pdf/src/object/mod.rs'
P = 'pdf/src/primitive.rs'

B = 'data@'
TOTAL = 'cmap_from(%s, 0, Map::<u16, Seq<char>>::empty())' % B
LEX = ['lexer.buf@ == %s' % B, 'lexer.pos <= %s.len()' % B]

def section(fn):
    return {
        'invariant': LEX + ['s0 <= lexer.pos'],
        # what is still to be read of the section + what has been read = the whole section
        'invariant_except_break': [('section_prefix_read', '%s(%s, lexer.pos as int, map@) == %s(%s, s0, m0)' % (fn, B, fn, B))],
        'ensures': [('section_read', '%s(%s, s0, m0) == Some((map@, lexer.pos as int))' % (fn, B))],
        'decreases': '%s.len() - lexer.pos' % B,
    }

HOIST_WRITES = [
    {'rule': 'R7', 'regex': r'write!\(\s*(\w+)\s*,\s*("[^"{}]*")\s*\)\.unwrap\(\)', 'replace': r'hoist_write_lit(\1, \2)', 'count': '*'},
    {'rule': 'R7', 'regex': r'write!\(\s*(\w+)\s*,\s*"\{:04X\}"\s*,\s*(.*?)\)\.unwrap\(\)', 'replace': r'hoist_write_hex4(\1, (\2) as u32)', 'count': '*'},
    {'rule': 'R7', 'regex': r'write!\(\s*(\w+)\s*,\s*"<\{:04X\}>"\s*,\s*(.*?)\)\.unwrap\(\)', 'replace': r'hoist_write_angle_hex4(\1, (\2) as u32)', 'count': '*'},
]
PRE = 'old(out)@ + seq![\'<\']'
TAKE_I = '__chars@.take(__i as int)'

UNIT = {
 'name': 'cmap',
 'doc': 'ToUnicode character maps: reader (bfchar, both bfrange forms) over token-level contracts; spelling of codes and texts by the writer',
 'timeout': 900,
 'items': {
  'struct PlainRef': {'kind': 'decl', 'file': M, 'header': r'^pub struct PlainRef$', 'attrs': ['#[derive(Clone, Copy)]']},
  'struct PdfString': {'kind': 'decl', 'file': P, 'header': r'^pub struct PdfString$'},
  'enum Primitive': {'kind': 'decl', 'file': P, 'header': r'^pub enum Primitive$'},
  'struct ToUnicodeMap': {'kind': 'decl', 'file': F, 'header': r'^pub struct ToUnicodeMap$',
      'rewrites': [{'rule': 'R2', 'find': 'inner:', 'replace': 'pub inner:'}]},
  'Primitive::as_string': {'kind': 'fn', 'file': P, 'container': r'^impl Primitive$', 'name': 'as_string', 'props': ['C19'],
      'ensures': [('as_string_spec', '(r is Ok <==> self is String) && (r matches Ok(s) ==> *s == self->String_0)')]},
  'ToUnicodeMap::new': {'kind': 'fn', 'file': F, 'container': r'^impl ToUnicodeMap$', 'name': 'new', 'props': ['C19'],
      'ensures': [('new_is_empty', 'r@ == Map::<u16, Seq<char>>::empty()')],
      'rewrites': [{'rule': 'R7', 'find': 'Self::default()', 'replace': 'hoist_tounicode_default()'}]},
  'ToUnicodeMap::insert': {'kind': 'fn', 'file': F, 'container': r'^impl ToUnicodeMap$', 'name': 'insert', 'props': ['C19'],
      'ensures': [('insert_is_map_update', 'final(self)@ =~= old(self)@.insert(gid, unicode@)')],
      'rewrites': [{'rule': 'R1', 'regex': r'\A\s*\{', 'replace': '{ broadcast use vstd::std_specs::hash::group_hash_axioms;'}]},
  'parse_cid': {'kind': 'fn', 'file': F, 'container': None, 'name': 'parse_cid', 'props': ['C19', 'C14'],
      # a source code is one or two bytes, big-endian; anything else is an error
      'ensures': [('cid_is_big_endian_code', 'match code_of_bytes(s.data@) { Some(c) => r matches Ok(v) && v == c, None => r matches Err(PdfError::CidDecode) }')],
      'rewrites': [{'rule': 'R7', 'regex': r'u16::from_be_bytes\((\w+)\.try_into\(\)\.unwrap\(\)\)', 'replace': r'hoist_u16_from_be2(\1)'}]},
  'parse_cmap': {'kind': 'fn', 'file': F, 'container': None, 'name': 'parse_cmap', 'props': ['C19', 'C14'],
      'attrs': ['#[verifier::loop_isolation(false)]', '#[verifier::allow_complex_invariants]'],
      'ensures': [
          # every bfchar entry and both bfrange forms assign each code the text ISO 32000-1 9.10.3 defines (cmap_from)
          ('cmap_reads_iso_entries', 'match %s { Some(m) => r matches Ok(t) && t@ == m, None => r is Err }' % TOTAL),
      ],
      'loops': {
          1: {'invariant': LEX,
              'invariant_except_break': [('cmap_prefix_read', 'cmap_from(%s, lexer.pos as int, map@) == %s' % (B, TOTAL))],
              'ensures': [('cmap_read', '%s == Some(map@)' % TOTAL)],
              'decreases': '%s.len() - lexer.pos' % B},
          2: section('bfchar_sec'),
          3: section('bfrange_sec'),
          4: {'invariant': [('destination_not_empty', 'unicode_data@.len() > 0'), '__rg.end@ == cid_end + 1', 'cid_start <= __rg.nxt@'],
              'invariant_except_break': [('range_prefix_mapped', 'range_str(map@, __rg.nxt@, cid_end as int, unicode_data@) == range_str(m1, cid_start as int, cid_end as int, d0)')],
              'ensures': [('range_mapped', 'map@ == range_str(m1, cid_start as int, cid_end as int, d0)')],
              'decreases': '__rg.end@ - __rg.nxt@'},
          5: {'invariant': ['__i <= __arr@.len()', '__rg.end@ == cid_end + 1', '__rg.nxt@ == cid_start + __i',
                            ('array_prefix_mapped', 'range_arr(map@, cid_start as int, cid_end as int, __arr@, __i as int) == range_arr(m1, cid_start as int, cid_end as int, __arr@, 0)')],
              'ensures': [('array_mapped', 'range_arr(m1, cid_start as int, cid_end as int, __arr@, 0) == Some(map@)')],
              'decreases': '__arr@.len() - __i'},
      },
      'rewrites': [
          # R9: byte-string literal patterns -> guards over slice equality (same arm order, same fall-through)
          {'rule': 'R9', 'regex': r'b"(\w+)" =>', 'replace': r'_ if kw_eq(substr.as_slice(), blit("\1")) =>', 'count': 3},
          # R4: log macro in expression position
          {'rule': 'R4', 'regex': r'warn!\([^()]*\)', 'replace': '()', 'count': 3},
          # R7: `|` of the bitflags type
          {'rule': 'R7', 'regex': r'ParseFlags::(\w+) \| ParseFlags::(\w+)', 'replace': r'hoist_flags_or(ParseFlags::\1, ParseFlags::\2)'},
          # R2: implicit Deref coercion &IBytes -> &[u8]
          {'rule': 'R2', 'find': 'utf16be_to_string(&unicode_data)', 'replace': 'utf16be_to_string(unicode_data.as_slice())'},
          # R6: RangeInclusive<u16> -> env iterator with the same protocol (body verbatim, incl. the `break`)
          {'rule': 'R6', 'regex': r'for cid in cid_start\s*\.\.=\s*cid_end \{',
           'replace': 'let ghost m1 = map@; let ghost d0 = unicode_data@; let mut __rg = CidRange::inclusive(cid_start, cid_end); while let Some(cid) = __rg.next() {'},
          # R6: zip(range, Vec) -> index loop over the Vec, the range stepped by its protocol (zip: first the range, then the Vec)
          {'rule': 'R6', 'regex': r'for \(cid, unicode_data\) in \(cid_start\s*\.\.=\s*cid_end\)\.zip\(unicode_data_arr\) \{',
           'replace': 'let __arr = unicode_data_arr; let ghost m1 = map@; let mut __rg = CidRange::inclusive(cid_start, cid_end); let mut __i: usize = 0; '
                      'while __i < __arr.len() { let cid = match __rg.next() { Some(c) => c, None => break }; let unicode_data = &__arr[__i]; __i += 1;'},
          # R1 ghost: the position and the map when a section starts
          {'rule': 'R1', 'find': 'while let Ok(substr) = lexer.next() {',
           'replace': 'while let Ok(substr) = lexer.next() { let ghost s0 = lexer.pos as int; let ghost m0 = map@;'},
      ]},
  'write_cid': {'kind': 'fn', 'file': F, 'container': None, 'name': 'write_cid', 'props': ['C19'],
      'ensures': [('cid_spelling', 'final(w)@ == old(w)@ + spell_cid(cid)')],
      'rewrites': HOIST_WRITES},
  'write_unicode': {'kind': 'fn', 'file': F, 'container': None, 'name': 'write_unicode', 'props': ['C19'],
      'attrs': ['#[verifier::loop_isolation(false)]'],
      # the text is spelled as a hexadecimal string of its UTF-16BE code units (surrogate pairs beyond the BMP)
      'ensures': [('unicode_spelling', 'final(out)@ =~= old(out)@ + spell_unicode(unicode@)')],
      'loops': {
          1: {'invariant': ['__chars@ == unicode@',
                            ('unicode_spelling', 'out@ =~= %s + hex_units(utf16_of(%s))' % (PRE, TAKE_I))]},
          2: {'invariant': ['slice@ == utf16_units(c)',
                            ('unicode_spelling', 'out@ =~= %s + hex_units(utf16_of(%s) + slice@.take(__j as int))' % (PRE, TAKE_I))]},
      },
      'rewrites': HOIST_WRITES + [
          {'rule': 'R6', 'find': 'for c in unicode.chars() {',
           'replace': 'let __chars = hoist_chars(unicode); proof { reveal_strlit("<"); reveal_strlit(">"); assert(__chars@.take(0) =~= Seq::<char>::empty()); } for __i in 0..__chars.len() { let c = __chars[__i]; '
                      'proof { lemma_utf16_of_push(%s, c); assert(__chars@.take(__i + 1) =~= %s.push(c)); }' % (TAKE_I, TAKE_I)},
          {'rule': 'R7', 'regex': r'c\.encode_utf16\(&mut buf\)', 'replace': 'hoist_encode_utf16(c, &mut buf)', 'count': '*'},
          {'rule': 'R6', 'regex': r'for &word in slice\.iter\(\) \{',
           'replace': 'proof { assert(slice@.take(0) =~= Seq::<u16>::empty()); assert(utf16_of(%s) + Seq::<u16>::empty() =~= utf16_of(%s)); } '
                      'for __j in 0..slice.len() { let word = slice[__j]; '
                      'proof { lemma_hex_units_push(utf16_of(%s) + slice@.take(__j as int), word); '
                      'assert((utf16_of(%s) + slice@.take(__j as int)).push(word) =~= utf16_of(%s) + slice@.take(__j + 1)); }' % (TAKE_I, TAKE_I, TAKE_I, TAKE_I, TAKE_I)},
          {'rule': 'R1', 'regex': r'(hoist_write_hex4\(out, [^;]*\);\s*\})', 'replace': r'\1 proof { assert(slice@.take(slice@.len() as int) =~= slice@); }'},
          {'rule': 'R1', 'regex': r'hoist_write_lit\(out, ">"\)', 'replace': 'proof { assert(__chars@.take(__chars@.len() as int) =~= __chars@); } hoist_write_lit(out, ">")'},
      ]},
 },
 'native': {'tests': [
    {'name': 'write_cmap_roundtrip_small_universes', 'code': 'bounded_roundtrip_harness.rs', 'place': 'pdf/src/font.rs',
     'filter': 'cmap_bounded', 'fn': 'write_cmap', 'props': ['C19'], 'tier': 'quick',
     'bound': 'all 1024 maps over codes 0..4 x {absent, "A", U+00FF, U+1D11E}; 2560 maps over boundary codes; 2079 linear runs (7 start codes x length 1..6 x 11 first characters, each with every single gap) crossing the xxFF, surrogate and BMP boundaries; 86 generated conformant texts',
     'contract': 'parse_cmap(write_cmap(m)) == m (write_cmap itself is outside both verifiers: HashMap iteration + itertools group_by + from_fn closure)'},
 ]},
}
