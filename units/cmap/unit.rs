// Unit `cmap` (C19): ToUnicode character maps of pdf/src/font.rs.
//   reader: parse_cid, ToUnicodeMap::insert, Primitive::as_string, parse_cmap  (bfchar entries, both bfrange forms)
//   writer: write_cid, write_unicode                                           (the spelling of one code / one text)
// parse_cmap sits on Lexer::next and parse_with_lexer: both are abstracted by TOKEN-LEVEL contracts (what word /
// what object stands at a position and where it ends; units `lexer` and `parser_obj` prove those readers).
// write_cmap itself (HashMap iteration + closure over a slice cursor + itertools::group_by) is NOT under contract:
// see NOTES.md (bounded native differential harness, finding cmap_range_separator).
use vstd::prelude::*;
use std::collections::HashMap;
//@@ INCLUDE _common/error_macros.rs
// R4: `unexpected_primitive!` of pdf/src/error.rs, same control flow (it `return`s the error)
macro_rules! unexpected_primitive {
    ($expected:ident, $found:expr) => ( return Err(PdfError::UnexpectedPrimitive { expected: stringify!($expected), found: $found }) )
}
verus! {
global size_of usize == 8;

//@@ PDFERROR

// ------------------------------------------------------------------ environment: types not under contract
pub struct PdfStream { opaque: u8 }
pub struct Dictionary { opaque: u8 }
pub type ObjNr = u64;
pub type GenNr = u64;
// istring::SmallString: an owned string; only its text matters
pub struct SmallString { opaque: u8 }
impl SmallString { pub uninterp spec fn view(&self) -> Seq<char>; }
// istring::IBytes: an owned byte string (derefs to [u8])
pub struct IBytes { pub v: Vec<u8> }
impl IBytes {
    pub open spec fn view(&self) -> Seq<u8> { self.v@ }
    #[verifier::external_body]
    pub fn len(&self) -> (r: usize) ensures r == self@.len() { self.v.len() }
    // R2: the implicit Deref coercion `&IBytes -> &[u8]` spelled out
    #[verifier::external_body]
    pub fn as_slice(&self) -> (r: &[u8]) ensures r@ == self@ { &self.v }
    // <[u8]>::last_mut / first_mut through DerefMut
    #[verifier::external_body]
    pub fn last_mut(&mut self) -> (r: Option<&mut u8>)
        ensures old(self)@.len() == 0 ==> r is None,
            old(self)@.len() > 0 ==> (r matches Some(p) && *p == old(self)@.last()
                && final(self)@ == old(self)@.update(old(self)@.len() - 1, *final(p))),
    { self.v.last_mut() }
    #[verifier::external_body]
    pub fn first_mut(&mut self) -> (r: Option<&mut u8>)
        ensures old(self)@.len() == 0 ==> r is None,
            old(self)@.len() > 0 ==> (r matches Some(p) && *p == old(self)@[0] && final(self)@ == old(self)@.update(0, *final(p))),
    { self.v.first_mut() }
}
//@@ struct PlainRef
//@@ struct PdfString
//@@ enum Primitive
//@@ struct ToUnicodeMap
impl PdfString {
    // pdf/src/primitive.rs: `&self.data` / `self.data`
    #[verifier::external_body]
    pub fn as_bytes(&self) -> (r: &[u8]) ensures r@ == self.data@ { &self.data.v }
    #[verifier::external_body]
    pub fn into_bytes(self) -> (r: IBytes) ensures r@ == self.data@ { self.data }
}
impl Primitive {
    #[verifier::external_body]
    pub fn get_debug_name(&self) -> (r: &'static str) { unimplemented!() }
//@@ Primitive::as_string
}
pub open spec fn str_bytes(p: Primitive) -> Option<Seq<u8>> { match p { Primitive::String(s) => Some(s.data@), _ => None } }

// bitflags! struct of pdf/src/parser/mod.rs (values restated; nothing below depends on them)
#[derive(Clone, Copy)]
pub struct ParseFlags { pub bits: u16 }
impl ParseFlags {
    pub const ARRAY: ParseFlags = ParseFlags { bits: 32 };
    pub const STRING: ParseFlags = ParseFlags { bits: 64 };
}
// R7: `a | b` on the bitflags type
#[verifier::external_body]
fn hoist_flags_or(a: ParseFlags, b: ParseFlags) -> (r: ParseFlags) ensures r == flags_or(a, b) { ParseFlags { bits: a.bits | b.bits } }
pub open spec fn flags_or(a: ParseFlags, b: ParseFlags) -> ParseFlags { ParseFlags { bits: a.bits | b.bits } }
pub struct NoResolve;

// ---- the two readers parse_cmap is built on, as token-level contracts --------------------------------------------
// word_at(buf, pos): the token the word reader returns at `pos` (white-space and comments skipped) and the position
//                    after it; None at the end of the data.           [units/lexer: Lexer::next/next_is_iso_token, next_eof_keeps_pos]
// obj_at(buf, pos, flags): the object of an admitted kind that stands at `pos` and the position after it; None when
//                    there is none (then the reader restores the position). [units/parser_obj: parse_with_lexer/value, err_restores_position, ok_consumes]
pub uninterp spec fn word_at(buf: Seq<u8>, pos: int) -> Option<(Seq<u8>, int)>;
pub uninterp spec fn obj_at(buf: Seq<u8>, pos: int, flags: ParseFlags) -> Option<(Primitive, int)>;
pub struct Substr<'a> { pub slice: &'a [u8] }
impl<'a> Substr<'a> {
    #[verifier::external_body]
    pub fn as_slice(&self) -> (r: &'a [u8]) ensures r@ == self.slice@ { self.slice }
}
pub struct Lexer<'a> { pub pos: usize, pub buf: &'a [u8] }
impl<'a> Lexer<'a> {
    #[verifier::external_body]
    pub fn new(buf: &'a [u8]) -> (r: Lexer<'a>) ensures r.buf@ == buf@, r.pos == 0 { unimplemented!() }
    #[verifier::external_body]
    pub fn next(&mut self) -> (r: Result<Substr<'a>>)
        ensures
            final(self).buf@ == old(self).buf@,
            word_at(old(self).buf@, old(self).pos as int) is None ==> r is Err && final(self).pos == old(self).pos,
            word_at(old(self).buf@, old(self).pos as int) matches Some(x) ==> (r matches Ok(s) && s.slice@ == x.0 && final(self).pos == x.1
                && old(self).pos < final(self).pos <= old(self).buf@.len()),
    { unimplemented!() }
}
#[verifier::external_body]
pub fn parse_with_lexer(lexer: &mut Lexer, r: &NoResolve, flags: ParseFlags) -> (res: Result<Primitive>)
    ensures
        final(lexer).buf@ == old(lexer).buf@,
        obj_at(old(lexer).buf@, old(lexer).pos as int, flags) is None ==> res is Err && final(lexer).pos == old(lexer).pos,
        obj_at(old(lexer).buf@, old(lexer).pos as int, flags) matches Some(x) ==> (res matches Ok(p) && p == x.0 && final(lexer).pos == x.1
            && old(lexer).pos < final(lexer).pos <= old(lexer).buf@.len()),
{ unimplemented!() }

// ---- L0 helpers (R7) ---------------------------------------------------------------------------------------------
pub open spec fn ascii(s: Seq<char>) -> Seq<u8> { Seq::new(s.len(), |i: int| s[i] as u8) }
/// a byte-string literal `b"lit"` read through `str::as_bytes` (Verus knows the length of `b".."` but not its bytes)
#[verifier::external_body]
pub fn blit(s: &'static str) -> (r: &'static [u8]) ensures r@ == ascii(s@) { s.as_bytes() }
/// byte-string pattern `b"lit" =>` : slice equality
#[verifier::external_body]
pub fn kw_eq(a: &[u8], k: &[u8]) -> (r: bool) ensures r == (a@ == k@) { a == k }
/// `u16::from_be_bytes(b.try_into().unwrap())` on a two-byte slice
#[verifier::external_body]
fn hoist_u16_from_be2(b: &[u8]) -> (r: u16)
    requires b@.len() == 2
    ensures r as int == b@[0] as int * 256 + b@[1] as int
{ u16::from_be_bytes(b.try_into().unwrap()) }
/// derived `Default` of ToUnicodeMap (`Self::default()`): the empty HashMap
#[verifier::external_body]
fn hoist_tounicode_default() -> (r: ToUnicodeMap) ensures r@ == Map::<u16, Seq<char>>::empty() { ToUnicodeMap { inner: HashMap::new() } }
/// pdf/src/font.rs utf16be_to_string: the env stub of units/utf16, same file, same contract
/// (checked in units/utf16: utf16be_to_char_is_d91 -- Kani, real iterator chain, bounded; `map` + `collect` trusted std)
//@@ INCLUDE utf16/utf16_stub.rs
/// `s.chars()` collected (R6)
#[verifier::external_body]
fn hoist_chars(s: &str) -> (r: Vec<char>) ensures r@ == s@ { s.chars().collect() }
/// `c.encode_utf16(&mut buf)`: the UTF-16 code units of one scalar value (std; Unicode Standard D91)
#[verifier::external_body]
fn hoist_encode_utf16(c: char, buf: &mut [u16; 2]) -> (r: Vec<u16>) ensures r@ == utf16_units(c) { c.encode_utf16(buf).to_vec() }
/// `write!(out, "lit").unwrap()` on a String: appends the literal (String's fmt::Write never fails)
#[verifier::external_body]
fn hoist_write_lit(out: &mut String, lit: &str) ensures final(out)@ == old(out)@ + lit@ { out.push_str(lit) }
/// `write!(out, "{:04X}", v).unwrap()`: upper-case hexadecimal, zero-padded to at least 4 digits
#[verifier::external_body]
fn hoist_write_hex4(out: &mut String, v: u32) ensures final(out)@ == old(out)@ + upper_hex_min4(v) { use std::fmt::Write; write!(out, "{:04X}", v).unwrap() }
/// `write!(w, "<{:04X}>", v).unwrap()`
#[verifier::external_body]
fn hoist_write_angle_hex4(out: &mut String, v: u32) ensures final(out)@ == old(out)@ + seq!['<'] + upper_hex_min4(v) + seq!['>'] { use std::fmt::Write; write!(out, "<{:04X}>", v).unwrap() }

// R6: `RangeInclusive<u16>` as an env type whose `next()` is the Iterator protocol over the ghost interval [nxt, end)
pub struct CidRange { pub nxt: Ghost<int>, pub end: Ghost<int> }
impl CidRange {
    #[verifier::external_body]
    pub fn inclusive(a: u16, b: u16) -> (r: CidRange) ensures r.nxt@ == a, r.end@ == b + 1 { unimplemented!() }
    #[verifier::external_body]
    pub fn next(&mut self) -> (r: Option<u16>)
        ensures
            final(self).end@ == old(self).end@,
            old(self).nxt@ < old(self).end@ ==> r == Some(old(self).nxt@ as u16) && final(self).nxt@ == old(self).nxt@ + 1,
            old(self).nxt@ >= old(self).end@ ==> r is None && final(self).nxt@ == old(self).nxt@,
    { unimplemented!() }
}

// ------------------------------------------------------------------ specification: UTF-16 (Unicode Standard 3.9, D91)
// is_high, is_low, units_of, text_of, utf16be_text: the spec file of units/utf16 (which checks the real decoder against it)
//@@ INCLUDE utf16/utf16_spec.rs
#[verifier::opaque]
pub open spec fn utf16_units(c: char) -> Seq<u16> {
    if (c as int) < 0x10000 { seq![c as u16] }
    else { seq![(0xD800 + (c as int - 0x10000) / 0x400) as u16, (0xDC00 + (c as int - 0x10000) % 0x400) as u16] }
}
pub open spec fn utf16_of(s: Seq<char>) -> Seq<u16> decreases s.len() {
    if s.len() == 0 { Seq::empty() } else { utf16_units(s[0]) + utf16_of(s.skip(1)) }
}
pub open spec fn be_bytes(u: Seq<u16>) -> Seq<u8> decreases u.len() {
    if u.len() == 0 { Seq::empty() } else { seq![(u[0] as int / 256) as u8, (u[0] as int % 256) as u8] + be_bytes(u.skip(1)) }
}

// upper-case hexadecimal
pub open spec fn hexd(d: int) -> char { if d < 10 { (48 + d) as char } else { (55 + d) as char } }
pub uninterp spec fn upper_hex_long(v: u32) -> Seq<char>;    // 5..8 digits, v >= 0x10000 (never produced by the pinned code)
#[verifier::opaque]
pub open spec fn upper_hex_min4(v: u32) -> Seq<char> {
    if v < 0x10000 { seq![hexd(v as int / 4096), hexd(v as int / 256 % 16), hexd(v as int / 16 % 16), hexd(v as int % 16)] } else { upper_hex_long(v) }
}
pub open spec fn hex_units(u: Seq<u16>) -> Seq<char> decreases u.len() {
    if u.len() == 0 { Seq::empty() } else { hex_units(u.drop_last()) + upper_hex_min4(u.last() as u32) }
}
// the spelling of one text: a hexadecimal string holding its UTF-16BE code units (ISO 32000-1 9.10.3)
pub open spec fn spell_unicode(s: Seq<char>) -> Seq<char> { seq!['<'] + hex_units(utf16_of(s)) + seq!['>'] }
pub open spec fn spell_cid(c: u16) -> Seq<char> { seq!['<'] + upper_hex_min4(c as u32) + seq!['>'] }

pub proof fn lemma_utf16_of_push(s: Seq<char>, c: char)
    ensures utf16_of(s.push(c)) == utf16_of(s) + utf16_units(c)
    decreases s.len()
{
    if s.len() == 0 {
        assert(s.push(c).skip(1) =~= Seq::<char>::empty());
        assert(utf16_of(s.push(c)) =~= utf16_units(c) + utf16_of(Seq::<char>::empty()));
        assert(utf16_of(s.push(c)) =~= utf16_of(s) + utf16_units(c));
    } else {
        assert(s.push(c).skip(1) =~= s.skip(1).push(c));
        lemma_utf16_of_push(s.skip(1), c);
        assert(utf16_of(s.push(c)) =~= utf16_of(s) + utf16_units(c));
    }
}
pub proof fn lemma_hex_units_push(u: Seq<u16>, w: u16)
    ensures hex_units(u.push(w)) == hex_units(u) + upper_hex_min4(w as u32)
{
    assert(u.push(w).drop_last() =~= u);
}
// ---- the writer's spelling reads back: decoding the UTF-16BE bytes of a text gives the text ------------------------
pub proof fn lemma_units_of_be_bytes(u: Seq<u16>)
    ensures units_of(be_bytes(u)) == u
    decreases u.len()
{
    if u.len() > 0 {
        lemma_units_of_be_bytes(u.skip(1));
        let b = be_bytes(u);
        assert(b.skip(2) =~= be_bytes(u.skip(1)));
        assert(units_of(b) =~= u);
    } else {
        assert(units_of(be_bytes(u)) =~= u);
    }
}
pub proof fn lemma_text_of_utf16(s: Seq<char>)
    ensures text_of(utf16_of(s)) == Some(s)
    decreases s.len()
{
    reveal(utf16_units);
    if s.len() == 0 {
        assert(text_of(utf16_of(s)) == Some(Seq::<char>::empty()));
        assert(s =~= Seq::<char>::empty());
    } else {
        lemma_text_of_utf16(s.skip(1));
        let c = s[0];
        let u = utf16_of(s);
        let rest = utf16_of(s.skip(1));
        if (c as int) < 0x10000 {
            assert(u =~= seq![c as u16] + rest);
            assert(u.skip(1) =~= rest);
            assert(text_of(u) == Some(seq![(u[0] as int) as char] + s.skip(1)));
            assert(seq![c] + s.skip(1) =~= s);
        } else {
            let v = c as int - 0x10000;
            assert(0 <= v < 0x100000);
            assert(u.skip(2) =~= rest);
            assert(0x10000 + (u[0] as int - 0xD800) * 0x400 + (u[1] as int - 0xDC00) == c as int) by {
                assert(v == (v / 0x400) * 0x400 + v % 0x400) by (nonlinear_arith) requires 0 <= v;
                assert(0 <= v / 0x400 < 0x400) by (nonlinear_arith) requires 0 <= v < 0x100000;
            }
            assert(seq![c] + s.skip(1) =~= s);
        }
    }
}
pub proof fn lemma_utf16_roundtrip(s: Seq<char>)
    ensures utf16be_text(be_bytes(utf16_of(s))) == Some(s)
{
    lemma_units_of_be_bytes(utf16_of(s));
    lemma_text_of_utf16(s);
}

// ------------------------------------------------------------------ specification: ToUnicode CMap entries, ISO 32000-1 9.10.3
pub type CMap = Map<u16, Seq<char>>;
impl ToUnicodeMap {
    pub open spec fn view(&self) -> CMap { Map::new(self.inner@.dom(), |k: u16| self.inner@[k]@) }
//@@ ToUnicodeMap::new
//@@ ToUnicodeMap::insert
}
// a source code: one or two bytes, big-endian
pub open spec fn code_of_bytes(b: Seq<u8>) -> Option<u16> {
    if b.len() == 2 { Some((b[0] as int * 256 + b[1] as int) as u16) } else if b.len() == 1 { Some(b[0] as u16) } else { None }
}
// "srcCode dstString": the code maps to the text whose UTF-16BE encoding dstString is.
// TOLERANCE (non-conformant input): a dstString that is not UTF-16BE text defines nothing (the reader warns and goes on).
pub open spec fn put_text(m: CMap, code: u16, dst: Seq<u8>) -> CMap {
    match utf16be_text(dst) { Some(t) => m.insert(code, t), None => m }
}
pub open spec fn bump_last(d: Seq<u8>) -> Seq<u8> { d.update(d.len() - 1, (d.last() + 1) as u8) }
// "srcCode1 srcCode2 dstString": consecutive codes map to consecutive strings, "the last byte of the string shall be
// incremented for each consecutive code".  lo is an int: lo + 1 may be 65536 (then the interval is empty).
// TOLERANCE (non-conformant input): a range that would carry the last byte beyond 255 ends there.
pub open spec fn range_str(m: CMap, lo: int, hi: int, d: Seq<u8>) -> CMap
    decreases hi - lo + 1
{
    if lo > hi || d.len() == 0 || lo < 0 || lo > 0xFFFF { m }
    else if d.last() < 255 { range_str(put_text(m, lo as u16, d), lo + 1, hi, bump_last(d)) }
    else { put_text(m, lo as u16, d) }
}
// "srcCode1 srcCode2 [dstString1 ... dstStringN]": the i-th code maps to the i-th string. None: an element that is
// not a string (error).
pub open spec fn range_arr(m: CMap, lo: int, hi: int, arr: Seq<Primitive>, i: int) -> Option<CMap>
    decreases arr.len() - i
{
    if i < 0 || i >= arr.len() || lo + i > hi || lo + i > 0xFFFF || lo < 0 { Some(m) }
    else { match str_bytes(arr[i]) { Some(b) => range_arr(put_text(m, (lo + i) as u16, b), lo, hi, arr, i + 1), None => None } }
}

// ---- the range form in closed form (ISO 32000-1 9.10.3): for a conformant range (the last byte does not overflow),
// code lo+k maps to the text of dstString with its LAST byte increased by k, every other code is untouched.
pub open spec fn bump_by(d: Seq<u8>, k: int) -> Seq<u8> { d.update(d.len() - 1, (d.last() + k) as u8) }
pub open spec fn same_at(a: CMap, b: CMap, code: u16) -> bool {
    a.dom().contains(code) == b.dom().contains(code) && (a.dom().contains(code) ==> a[code] == b[code])
}
pub open spec fn maps_to(r: CMap, m: CMap, code: u16, dst: Seq<u8>) -> bool {
    match utf16be_text(dst) { Some(t) => r.dom().contains(code) && r[code] == t, None => same_at(r, m, code) }
}
pub proof fn lemma_range_str_closed_form(m: CMap, lo: int, hi: int, d: Seq<u8>, code: u16)
    requires 0 <= lo <= hi <= 0xFFFF, d.len() > 0, d.last() + (hi - lo) <= 255,
    ensures
        lo <= code <= hi ==> maps_to(range_str(m, lo, hi, d), m, code, bump_by(d, code - lo)),
        !(lo <= code <= hi) ==> same_at(range_str(m, lo, hi, d), m, code),
    decreases hi - lo
{
    let m1 = put_text(m, lo as u16, d);
    assert(bump_by(d, 0) =~= d);
    if lo < hi {
        let d1 = bump_last(d);
        assert(d1.len() == d.len() && d1.last() == d.last() + 1);
        lemma_range_str_closed_form(m1, lo + 1, hi, d1, code);
        if lo < code <= hi { assert(bump_by(d1, code - lo - 1) =~= bump_by(d, code - lo)); }
    } else {
        assert(range_str(m1, lo + 1, hi, bump_last(d)) == m1);
    }
}
pub open spec fn KW_BFCHAR() -> Seq<u8> { ascii("beginbfchar"@) }
pub open spec fn KW_BFRANGE() -> Seq<u8> { ascii("beginbfrange"@) }
pub open spec fn KW_ENDCMAP() -> Seq<u8> { ascii("endcmap"@) }
pub open spec fn F_STR() -> ParseFlags { ParseFlags::STRING }
pub open spec fn F_STR_ARR() -> ParseFlags { flags_or(ParseFlags::STRING, ParseFlags::ARRAY) }
pub open spec fn end_of(x: Option<(Primitive, int)>, p: int) -> int { match x { Some(y) => y.1, None => p } }
pub open spec fn is_str(x: Option<(Primitive, int)>) -> bool { x matches Some(y) && y.0 is String }
pub open spec fn bytes_of(x: Option<(Primitive, int)>) -> Seq<u8> { x->Some_0.0->String_0.data@ }
// the body of a bfchar section from `pos`: pairs `srcCode dstString` as long as there are any; returns the map and the
// position where the section body ends (the `endbfchar` operator is an ordinary word for the caller).
// None: a source code that is neither one nor two bytes long (error).
pub open spec fn bfchar_sec(buf: Seq<u8>, pos: int, m: CMap) -> Option<(CMap, int)>
    decreases buf.len() - pos
{
    let a = obj_at(buf, pos, F_STR());
    let p1 = end_of(a, pos);
    let b = obj_at(buf, p1, F_STR());
    let p2 = end_of(b, p1);
    if a is None || !(pos < p1 <= p2 <= buf.len()) { Some((m, pos)) }
    else if is_str(a) && is_str(b) {
        match code_of_bytes(bytes_of(a)) { Some(c) => bfchar_sec(buf, p2, put_text(m, c, bytes_of(b))), None => None }
    } else { Some((m, p2)) }
}
// the body of a bfrange section from `pos`: triples `srcCode1 srcCode2 dst`, dst a non-empty string or an array
pub open spec fn bfrange_sec(buf: Seq<u8>, pos: int, m: CMap) -> Option<(CMap, int)>
    decreases buf.len() - pos
{
    let a = obj_at(buf, pos, F_STR());
    let p1 = end_of(a, pos);
    let b = obj_at(buf, p1, F_STR());
    let p2 = end_of(b, p1);
    let c = obj_at(buf, p2, F_STR_ARR());
    let p3 = end_of(c, p2);
    if a is None || !(pos < p1 <= p2 <= p3 <= buf.len()) { Some((m, pos)) }
    else if is_str(a) && is_str(b) && is_str(c) && bytes_of(c).len() > 0 {
        match (code_of_bytes(bytes_of(a)), code_of_bytes(bytes_of(b))) {
            (Some(lo), Some(hi)) => bfrange_sec(buf, p3, range_str(m, lo as int, hi as int, bytes_of(c))),
            _ => None,
        }
    } else if is_str(a) && is_str(b) && (c matches Some(y) && y.0 is Array) {
        match (code_of_bytes(bytes_of(a)), code_of_bytes(bytes_of(b))) {
            (Some(lo), Some(hi)) => match range_arr(m, lo as int, hi as int, c->Some_0.0->Array_0@, 0) {
                Some(m2) => bfrange_sec(buf, p3, m2),
                None => None,
            },
            _ => None,
        }
    } else { Some((m, p3)) }
}
// the character map a CMap program defines, read word by word from `pos`: `beginbfchar` / `beginbfrange` open a
// section, `endcmap` ends the map, every other word (header, codespace ranges, `endbfchar`, ...) defines nothing.
pub open spec fn cmap_from(buf: Seq<u8>, pos: int, m: CMap) -> Option<CMap>
    decreases buf.len() - pos
{
    match word_at(buf, pos) {
        None => Some(m),
        Some(x) => {
            let (w, p) = x;
            if !(pos < p <= buf.len()) { Some(m) }
            else if w == KW_BFCHAR() { match bfchar_sec(buf, p, m) { Some(y) => if p <= y.1 <= buf.len() { cmap_from(buf, y.1, y.0) } else { Some(m) }, None => None } }
            else if w == KW_BFRANGE() { match bfrange_sec(buf, p, m) { Some(y) => if p <= y.1 <= buf.len() { cmap_from(buf, y.1, y.0) } else { Some(m) }, None => None } }
            else if w == KW_ENDCMAP() { Some(m) }
            else { cmap_from(buf, p, m) }
        }
    }
}

//@@ parse_cid
//@@ parse_cmap
//@@ write_cid
//@@ write_unicode
}
fn main(){}
