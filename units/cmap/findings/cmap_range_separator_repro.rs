// Repro for finding `cmap_range_separator` (C19). Append to pdf/src/font.rs of a scratch copy (parse_cmap is private):
//   cat units/cmap/findings/cmap_range_separator_repro.rs >> /tmp/x/pdf/src/font.rs
//   cd /tmp/x && CARGO_TARGET_DIR=/tmp/cmap_target cargo test --offline -p pdf --lib cmap_findings -- --nocapture
#[cfg(test)]
mod cmap_findings {
    use super::*;
    use std::collections::BTreeMap;

    fn roundtrip(entries: &[(u16, &str)]) -> (String, BTreeMap<u16, String>, BTreeMap<u16, String>) {
        let map = ToUnicodeMap::create(entries.iter().map(|&(c, s)| (c, SmallString::from(s))));
        let text = write_cmap(&map);
        let back = parse_cmap(text.as_bytes()).expect("parse_cmap never fails on writer output");
        let want: BTreeMap<u16, String> = entries.iter().map(|&(c, s)| (c, s.to_string())).collect();
        let got: BTreeMap<u16, String> = back.iter().map(|(c, s)| (c, s.to_string())).collect();
        (text, want, got)
    }

    // 8 entries: a run of three consecutive codes, two isolated codes, another run of three
    #[test]
    fn runs_of_consecutive_codes_read_back() {
        let (text, want, got) = roundtrip(&[(1, "a"), (2, "b"), (3, "c"), (5, "x"), (7, "y"), (10, "A"), (11, "B"), (12, "C")]);
        println!("--- writer output ---\n{text}--- {} written, {} read back: {:?}", want.len(), got.len(), got);
        assert_eq!(want, got);
    }
    // smallest failing map: two consecutive codes
    #[test]
    fn two_consecutive_codes_read_back() {
        let (text, want, got) = roundtrip(&[(0x41, "A"), (0x42, "B")]);
        println!("--- writer output ---\n{text}--- {} written, {} read back: {:?}", want.len(), got.len(), got);
        assert_eq!(want, got);
    }
    // sanity: isolated codes, multi-character text and a supplementary-plane character (surrogate pair) do read back
    #[test]
    fn isolated_codes_read_back() {
        let (text, want, got) = roundtrip(&[(0x41, "A"), (0x43, "ffi"), (0x1000, "\u{1D11E}"), (0xFFFF, "\u{10FFFF}z")]);
        println!("--- writer output ---\n{text}");
        assert_eq!(want, got);
    }
    // the reader itself handles the array form when the elements are separated by white-space (ISO 32000-1 9.10.3)
    #[test]
    fn reader_accepts_white_space_separated_array() {
        let m = parse_cmap(b"1 beginbfrange\n<0041> <0042> [<0041> <0042>]\nendbfrange\n").unwrap();
        assert_eq!(m.get(0x41), Some("A"));
        assert_eq!(m.get(0x42), Some("B"));
    }
}
