// Kani harnesses on the REAL PdfString::serialize (appended to pdf/src/primitive.rs as a #[cfg(kani)] module).
// Bounded second opinion and counterexample source for the Verus obligation PdfString::serialize/string_spelling:
// the sink is a real Vec<u8>, the formatting machinery (`write!`, `{:02x}`, io::Write for Vec<u8>) is executed, not
// assumed. Oracles are executable twins of spell_hex / spell_lit of unit.rs (ISO 32000-1 7.3.4.2 / 7.3.4.3),
// built in fixed arrays so that CBMC sees no second allocator-heavy computation.

fn hexdig(n: u8) -> u8 { if n < 10 { b'0' + n } else { b'a' + (n - 10) } }

// 7.3.4.2: `\`, `(`, `)` behind a REVERSE SOLIDUS, CARRIAGE RETURN as `\r` (an unescaped end-of-line marker reads as
// LINE FEED), every other byte as itself. Returns the spelling in a buffer and its length.
fn spell_lit2(d: [u8; 2]) -> ([u8; 6], usize) {
    let mut o = [0u8; 6];
    let mut n = 0;
    o[n] = b'('; n += 1;
    let mut i = 0;
    while i < 2 {
        let b = d[i];
        if b == b'\\' || b == b'(' || b == b')' { o[n] = b'\\'; o[n + 1] = b; n += 2; }
        else if b == b'\r' { o[n] = b'\\'; o[n + 1] = b'r'; n += 2; }
        else { o[n] = b; n += 1; }
        i += 1;
    }
    o[n] = b')'; n += 1;
    (o, n)
}

fn same(out: &[u8], exp: &[u8], n: usize) -> bool {
    if out.len() != n { return false; }
    let mut i = 0;
    while i < n { if out[i] != exp[i] { return false; } i += 1; }
    true
}

// literal form: all strings of 2 bytes below 0x80
#[kani::proof]
fn serialize_lit2_iso() {
    let d: [u8; 2] = kani::any();
    kani::assume(d[0] < 0x80 && d[1] < 0x80);
    let s = PdfString::new(IBytes::from(&d[..]));
    let mut out: Vec<u8> = Vec::new();
    let r = s.serialize(&mut out);
    let ok = r.is_ok();
    std::mem::forget(r);
    assert!(ok);                                   // a Vec<u8> sink never fails; no panic on the way
    let (exp, n) = spell_lit2(d);
    kani::cover!(d[0] == b'(' && d[1] == b'\\');
    assert!(same(&out, &exp, n));
}

// hexadecimal form: all strings of 1 byte from 0x80 up
#[kani::proof]
fn serialize_hex1_iso() {
    let b: u8 = kani::any();
    kani::assume(b >= 0x80);
    let d = [b];
    let s = PdfString::new(IBytes::from(&d[..]));
    let mut out: Vec<u8> = Vec::new();
    let r = s.serialize(&mut out);
    let ok = r.is_ok();
    std::mem::forget(r);
    assert!(ok);
    let exp = [b'<', hexdig(b >> 4), hexdig(b & 15), b'>'];
    kani::cover!(b == 0xaf);
    assert!(same(&out, &exp, 4));
}
