// Repro for findings name_escape.md / name_panic.md (property C04).
// Drop into a scratch copy of /repo as pdf/tests/name_escape_repro.rs and run
//   CARGO_TARGET_DIR=/tmp/serial_leaf_target cargo test --offline -p pdf --test name_escape_repro -- --test-threads 1
// On the pinned tree all three tests FAIL; with findings/name_escape_fix.diff applied all three pass.
use pdf::object::NoResolve;
use pdf::parser::{parse, ParseFlags};
use pdf::primitive::{serialize_name, Primitive};

fn ser(s: &str) -> std::thread::Result<Vec<u8>> {
    let s = s.to_string();
    std::panic::catch_unwind(move || {
        let mut out = Vec::new();
        serialize_name(&s, &mut out).unwrap();
        out
    })
}
// placed where the writer places it: as an array element, i.e. followed by a delimiter
fn back(spelling: &[u8]) -> Option<String> {
    let mut v = b"[".to_vec();
    v.extend_from_slice(spelling);
    v.extend_from_slice(b"]");
    match parse(&v, &NoResolve, ParseFlags::ANY) {
        Ok(Primitive::Array(a)) if a.len() == 1 => match &a[0] {
            Primitive::Name(n) => Some(n.as_str().to_string()),
            _ => None,
        },
        _ => None,
    }
}

// ISO 32000-1 7.3.5: the spelling of a name is '/' and then only regular characters, '#' only as the start of #xx
fn conformant(spelling: &[u8]) -> bool {
    let ws = |b: u8| matches!(b, 0 | 9 | 10 | 12 | 13 | 32);
    let delim = |b: u8| b"()<>[]{}/%".contains(&b);
    spelling.first() == Some(&b'/') && spelling[1..].iter().all(|&b| !ws(b) && !delim(b))
}

#[test]
fn every_ascii_name_reads_back() {
    let mut bad = Vec::new();
    for c in 1u8..=0x7e {
        let s = (c as char).to_string();
        match ser(&s) {
            Err(_) => bad.push(format!("{:?}: panic", s)),
            Ok(o) => {
                let r = back(&o);
                if r.as_deref() != Some(&s[..]) || !conformant(&o) {
                    bad.push(format!("{:?}: written {:?}, read back {:?}", s, String::from_utf8_lossy(&o), r));
                }
            }
        }
    }
    assert!(bad.is_empty(), "{} of 126 one-character names are not written conformantly / do not read back:\n{}", bad.len(), bad.join("\n"));
}

#[test]
fn name_with_space_and_hash() {
    for s in ["A B", "a#b", "Lime Green", "paired()parentheses", "back\\slash"] {
        let o = ser(s).expect("no panic");
        assert!(conformant(&o), "{:?} written as {:?}", s, String::from_utf8_lossy(&o));
        assert_eq!(back(&o).as_deref(), Some(s), "{:?} written as {:?}", s, String::from_utf8_lossy(&o));
    }
}

#[test]
fn non_ascii_name_does_not_panic() {
    for s in ["\u{7f}", "\u{e9}", "\u{65e5}\u{672c}"] {
        let o = ser(s).unwrap_or_else(|_| panic!("serialize_name({:?}) panicked", s));
        assert!(conformant(&o));
        assert_eq!(back(&o).as_deref(), Some(s));
    }
}
