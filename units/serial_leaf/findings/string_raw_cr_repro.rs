// Repro for finding string_raw_cr.md (property C04, conformance of the spelling).
// Drop into a scratch copy of /repo as pdf/tests/string_raw_cr_repro.rs and run
//   CARGO_TARGET_DIR=/tmp/serial_leaf_target cargo test --offline -p pdf --test string_raw_cr_repro -- --test-threads 1
// Pinned tree: `iso_reader_gets_the_same_bytes` FAILS, `own_parser_gets_the_same_bytes` passes (the crate's lexer
// keeps a raw CR, which is itself a deviation from 7.3.4.2 and hides the writer's defect from a self round trip).
// With findings/string_raw_cr_fix.diff applied both pass.
use pdf::object::NoResolve;
use pdf::parser::{parse, ParseFlags};
use pdf::primitive::{PdfString, Primitive};

fn ser(data: &[u8]) -> Vec<u8> {
    let mut out = Vec::new();
    PdfString::new(data.into()).serialize(&mut out).unwrap();
    out
}

// A reader of literal strings written from ISO 32000-1 7.3.4.2 (Table 3 escapes, balanced parentheses, and
// "an end-of-line marker appearing within a literal string without a preceding REVERSE SOLIDUS shall be treated as a
// byte value of (0Ah), irrespective of whether the end-of-line marker was a CR, a LF, or both").
fn iso_read_literal(b: &[u8]) -> Option<Vec<u8>> {
    if b.first() != Some(&b'(') { return None; }
    let (mut i, mut depth, mut out) = (1usize, 0i32, Vec::new());
    while i < b.len() {
        match b[i] {
            b'\\' => {
                i += 1;
                let c = *b.get(i)?;
                match c {
                    b'n' => out.push(b'\n'), b'r' => out.push(b'\r'), b't' => out.push(b'\t'),
                    b'b' => out.push(8), b'f' => out.push(12),
                    b'(' | b')' | b'\\' => out.push(c),
                    b'\r' => { if b.get(i + 1) == Some(&b'\n') { i += 1; } }
                    b'\n' => {}
                    b'0'..=b'7' => {
                        let mut v = (c - b'0') as u32;
                        for _ in 0..2 { if let Some(&d @ b'0'..=b'7') = b.get(i + 1) { v = v * 8 + (d - b'0') as u32; i += 1; } }
                        out.push(v as u8);
                    }
                    other => out.push(other), // backslash ignored
                }
                i += 1;
            }
            b'(' => { depth += 1; out.push(b'('); i += 1; }
            b')' => { if depth == 0 { return Some(out); } depth -= 1; out.push(b')'); i += 1; }
            b'\r' => { out.push(b'\n'); i += 1; if b.get(i) == Some(&b'\n') { i += 1; } }
            c => { out.push(c); i += 1; }
        }
    }
    None
}

const SAMPLES: [&[u8]; 4] = [b"\r", b"a\rb", b"line1\r\nline2", b"\n\r"];

#[test]
fn iso_reader_gets_the_same_bytes() {
    for d in SAMPLES {
        let o = ser(d);
        if o[0] == b'<' { continue; } // hexadecimal form is always safe
        assert_eq!(iso_read_literal(&o).as_deref(), Some(d), "content {:?} was written as {:?}", d, String::from_utf8_lossy(&o));
    }
}

#[test]
fn own_parser_gets_the_same_bytes() {
    for d in SAMPLES {
        let o = ser(d);
        match parse(&o, &NoResolve, ParseFlags::ANY) {
            Ok(Primitive::String(s)) => assert_eq!(s.as_bytes(), d),
            _ => panic!("does not parse"),
        }
    }
}

// exhaustive self round trip for all contents of length <= 2 (what the Kani harness bounds): holds before and after
#[test]
fn own_parser_all_short_strings() {
    for a in 0..=255u8 {
        let o = ser(&[a]);
        assert!(matches!(parse(&o, &NoResolve, ParseFlags::ANY), Ok(Primitive::String(s)) if s.as_bytes() == [a]));
        for b in 0..=255u8 {
            let o = ser(&[a, b]);
            assert!(matches!(parse(&o, &NoResolve, ParseFlags::ANY), Ok(Primitive::String(s)) if s.as_bytes() == [a, b]));
        }
    }
}
