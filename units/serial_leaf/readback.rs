// =====================================================================================================
// read-back: the spellings above, placed in front of ANY following bytes, are read to the same content by the
// C03 lexer specification. (Included into unit.rs inside `verus!`.)
// =====================================================================================================

// ---- literal strings: one lexeme, ISO 32000-1 7.3.4.2 Table 3 = `lit_step` of
// design_probes/c03_next_lexeme_lit_step_proved.rs (the contract of StringLexer::next_lexeme). The places where readers
// disagree — an unknown escape (ISO: backslash ignored; this crate: NUL) and an UNESCAPED CARRIAGE RETURN (ISO: reads as
// LINE FEED, CR LF as one LINE FEED; this crate: kept) — are left uninterpreted, so the lemma holds for every reading.
pub struct Step { pub eof: bool, pub out: Option<u8>, pub pos: int, pub nested: int }
pub uninterp spec fn unknown_escape_step(buf: Seq<u8>, pos: int, nested: int) -> Step;
pub uninterp spec fn raw_cr_step(buf: Seq<u8>, pos: int, nested: int) -> Step;
// what this crate's StringLexer does with a raw CR (needed only when the writer leaves CR raw: DEV_LITERAL_RAW_CR)
pub open spec fn reader_keeps_raw_cr() -> bool {
    forall|buf: Seq<u8>, pos: int, nested: int| #[trigger] raw_cr_step(buf, pos, nested) == (Step { eof: false, out: Some(13u8), pos: pos + 1, nested })
}
pub open spec fn is_oct(c: u8) -> bool { 48 <= c <= 55 }
pub open spec fn oct_len(buf: Seq<u8>, p: int) -> int {
    if p < buf.len() && is_oct(buf[p]) { if p + 1 < buf.len() && is_oct(buf[p+1]) { if p + 2 < buf.len() && is_oct(buf[p+2]) { 3 } else { 2 } } else { 1 } } else { 0 }
}
pub open spec fn oct_val(buf: Seq<u8>, p: int, n: int) -> int decreases n {
    if n <= 0 { 0 } else { oct_val(buf, p, n - 1) * 8 + (buf[p + n - 1] - 48) }
}
pub open spec fn lit_step(buf: Seq<u8>, pos: int, nested: int) -> Step decreases buf.len() - pos {
    if pos < 0 || pos >= buf.len() { Step { eof: true, out: None, pos, nested } } else {
    let c = buf[pos];
    if c == 92 {
        if pos + 1 >= buf.len() { Step { eof: true, out: None, pos: pos + 1, nested } } else {
        let d = buf[pos + 1];
        if d == 110 { Step { eof: false, out: Some(10u8), pos: pos + 2, nested } }
        else if d == 114 { Step { eof: false, out: Some(13u8), pos: pos + 2, nested } }
        else if d == 116 { Step { eof: false, out: Some(9u8), pos: pos + 2, nested } }
        else if d == 98 { Step { eof: false, out: Some(8u8), pos: pos + 2, nested } }
        else if d == 102 { Step { eof: false, out: Some(12u8), pos: pos + 2, nested } }
        else if d == 40 { Step { eof: false, out: Some(40u8), pos: pos + 2, nested } }
        else if d == 41 { Step { eof: false, out: Some(41u8), pos: pos + 2, nested } }
        else if d == 92 { Step { eof: false, out: Some(92u8), pos: pos + 2, nested } }
        else if d == 10 { lit_step(buf, if pos + 2 < buf.len() && buf[pos + 2] == 13 { pos + 3 } else { pos + 2 }, nested) }
        else if d == 13 { lit_step(buf, if pos + 2 < buf.len() && buf[pos + 2] == 10 { pos + 3 } else { pos + 2 }, nested) }
        else {
            let n = oct_len(buf, pos + 1);
            if n == 0 { unknown_escape_step(buf, pos, nested) }
            else if n < 3 && pos + 1 + n >= buf.len() { Step { eof: true, out: None, pos: pos + 1 + n, nested } }
            else { Step { eof: false, out: Some((oct_val(buf, pos + 1, n) % 256) as u8), pos: pos + 1 + n, nested } }
        } }
    } else if c == 40 { Step { eof: false, out: Some(40u8), pos: pos + 1, nested: nested + 1 } }
    else if c == 41 { if nested - 1 < 0 { Step { eof: false, out: None, pos: pos + 1, nested: nested - 1 } } else { Step { eof: false, out: Some(41u8), pos: pos + 1, nested: nested - 1 } } }
    else if c == 13 { raw_cr_step(buf, pos, nested) }
    else { Step { eof: false, out: Some(c), pos: pos + 1, nested } } }
}
// the parser's use of the lexer (`for character in string_lexer.iter() { string.push(t!(character)) }` followed by
// `get_offset()`): lexemes until the balancing ')' ; result = (content, position just past the string)
pub open spec fn read_lit(buf: Seq<u8>, pos: int, nested: int) -> Option<(Seq<u8>, int)> decreases buf.len() - pos {
    let st = lit_step(buf, pos, nested);
    if pos < 0 || pos >= buf.len() || st.eof { None } else {
        match st.out {
            None => Some((Seq::<u8>::empty(), st.pos)),
            Some(b) => if st.pos <= pos || st.pos > buf.len() { None } else { match read_lit(buf, st.pos, st.nested) { None => None, Some(t) => Some((seq![b] + t.0, t.1)) } },
        }
    }
}

// ---- hexadecimal strings: `hex_step` of design_probes/c03_hex_lexer_skip_proved.rs (contract of next_hex_byte).
// Whether NUL counts as white-space (ISO: yes; this crate: no) is left uninterpreted.
pub uninterp spec fn nul_is_hex_ws() -> bool;
pub open spec fn hex_ws(b: u8) -> bool { b == 32 || b == 9 || b == 10 || b == 13 || b == 12 || (nul_is_hex_ws() && b == 0) }
pub open spec fn hexval(c: u8) -> Option<u8> {
    if 48 <= c <= 57 { Some((c - 48) as u8) } else if 65 <= c <= 70 { Some((c - 55) as u8) } else if 97 <= c <= 102 { Some((c - 87) as u8) } else { None }
}
pub open spec fn skip(buf: Seq<u8>, p: int) -> int decreases buf.len() - p { if 0 <= p < buf.len() && hex_ws(buf[p]) { skip(buf, p + 1) } else { p } }
pub struct HStep { pub eof: bool, pub bad: bool, pub out: Option<u8>, pub pos: int }
pub open spec fn hex_step(buf: Seq<u8>, pos: int) -> HStep {
    let p1 = skip(buf, pos);
    if p1 >= buf.len() { HStep { eof: true, bad: false, out: None, pos: p1 } } else {
    let c1 = buf[p1];
    if c1 == 62 { HStep { eof: false, bad: false, out: None, pos: p1 + 1 } }
    else { match hexval(c1) { None => HStep { eof: false, bad: true, out: None, pos: p1 + 1 }, Some(h) => {
        let p2 = skip(buf, p1 + 1);
        if p2 >= buf.len() { HStep { eof: true, bad: false, out: None, pos: p2 } } else {
        let c2 = buf[p2];
        if c2 == 62 { HStep { eof: false, bad: false, out: Some((h * 16) as u8), pos: p2 } }
        else { match hexval(c2) { None => HStep { eof: false, bad: true, out: None, pos: p2 + 1 }, Some(l) => HStep { eof: false, bad: false, out: Some((h * 16 + l) as u8), pos: p2 + 1 } } } }
    } } } }
}
pub open spec fn read_hex(buf: Seq<u8>, pos: int) -> Option<(Seq<u8>, int)> decreases buf.len() - pos {
    let st = hex_step(buf, pos);
    if pos < 0 || pos >= buf.len() || st.eof || st.bad { None } else {
        match st.out {
            None => Some((Seq::<u8>::empty(), st.pos)),
            Some(b) => if st.pos <= pos { None } else { match read_hex(buf, st.pos) { None => None, Some(t) => Some((seq![b] + t.0, t.1)) } },
        }
    }
}
// the parser's dispatch on the first lexeme: `(` starts a literal string, `<` not followed by `<` a hexadecimal one
pub open spec fn read_string(buf: Seq<u8>) -> Option<(Seq<u8>, int)> {
    if buf.len() >= 1 && buf[0] == 40 { read_lit(buf, 1, 0) }
    else if buf.len() >= 2 && buf[0] == 60 && buf[1] != 60 { read_hex(buf, 1) }
    else { None }
}

// ---- proofs
proof fn lemma_lit_front(d: Seq<u8>)
    requires d.len() > 0
    ensures lit_body(d) == lit_byte(d[0]) + lit_body(d.drop_first())
    decreases d.len()
{
    if d.len() == 1 {
        assert(d.drop_last() =~= Seq::<u8>::empty()); assert(d.drop_first() =~= Seq::<u8>::empty());
        assert(lit_body(d.drop_last()) =~= Seq::<u8>::empty());
        assert(lit_body(d) =~= lit_byte(d[0]) + lit_body(d.drop_first()));
    } else {
        lemma_lit_front(d.drop_last());
        assert(d.drop_last().drop_first() =~= d.drop_first().drop_last());
        assert(lit_body(d) =~= lit_byte(d[0]) + lit_body(d.drop_first()));
    }
}
proof fn lemma_hex_front(d: Seq<u8>)
    requires d.len() > 0
    ensures hex_body(d) == hex_byte(d[0]) + hex_body(d.drop_first())
    decreases d.len()
{
    if d.len() == 1 {
        assert(d.drop_last() =~= Seq::<u8>::empty()); assert(d.drop_first() =~= Seq::<u8>::empty());
        assert(hex_body(d.drop_last()) =~= Seq::<u8>::empty());
        assert(hex_body(d) =~= hex_byte(d[0]) + hex_body(d.drop_first()));
    } else {
        lemma_hex_front(d.drop_last());
        assert(d.drop_last().drop_first() =~= d.drop_first().drop_last());
        assert(hex_body(d) =~= hex_byte(d[0]) + hex_body(d.drop_first()));
    }
}

// buf carries lit_body(d) at p, then ')': reading from p at nesting 0 yields d and stops just past the ')'
proof fn lemma_lit_reads_back(buf: Seq<u8>, p: int, d: Seq<u8>)
    requires
        0 <= p, p + lit_body(d).len() < buf.len(),
        buf.subrange(p, p + lit_body(d).len()) == lit_body(d),
        buf[p + lit_body(d).len()] == 41,
        DEV_LITERAL_RAW_CR() ==> reader_keeps_raw_cr(),
    ensures read_lit(buf, p, 0) == Some((d, p + lit_body(d).len() + 1))
    decreases d.len()
{
    if d.len() == 0 {
        assert(lit_body(d) =~= Seq::<u8>::empty());
    } else {
        lemma_lit_front(d);
        let b = d[0];
        let t = d.drop_first();
        let w = lit_byte(b);
        let body = lit_body(d);
        assert(body == w + lit_body(t));
        assert(forall|i: int| 0 <= i < body.len() ==> buf[p + i] == #[trigger] buf.subrange(p, p + body.len())[i]);
        assert(forall|i: int| 0 <= i < w.len() ==> body[i] == w[i]);
        let q = p + w.len();
        assert(buf.subrange(q, q + lit_body(t).len()) =~= lit_body(t)) by {
            assert(forall|i: int| 0 <= i < lit_body(t).len() ==> body[w.len() + i] == lit_body(t)[i]);
        }
        lemma_lit_reads_back(buf, q, t);
        let st = lit_step(buf, p, 0);
        if b == 92 || b == 40 || b == 41 {
            assert(buf[p] == w[0] && buf[p + 1] == w[1]);
            assert(st == Step { eof: false, out: Some(b), pos: p + 2, nested: 0 });
        } else if b == 13 && !DEV_LITERAL_RAW_CR() {
            assert(buf[p] == w[0] && buf[p + 1] == w[1]);
            assert(st == Step { eof: false, out: Some(13u8), pos: p + 2, nested: 0 });
        } else {
            assert(buf[p] == w[0]);
            assert(st == Step { eof: false, out: Some(b), pos: p + 1, nested: 0 });
        }
        assert(seq![b] + t =~= d);
    }
}

proof fn lemma_hexdig(n: int)
    requires 0 <= n < 16
    ensures hexval(hexdig(n)) == Some(n as u8), !hex_ws(hexdig(n)), hexdig(n) != 62, hexdig(n) != 60
{}

proof fn lemma_hex_reads_back(buf: Seq<u8>, p: int, d: Seq<u8>)
    requires
        0 <= p, p + hex_body(d).len() < buf.len(),
        buf.subrange(p, p + hex_body(d).len()) == hex_body(d),
        buf[p + hex_body(d).len()] == 62,
    ensures read_hex(buf, p) == Some((d, p + hex_body(d).len() + 1))
    decreases d.len()
{
    if d.len() == 0 {
        assert(hex_body(d) =~= Seq::<u8>::empty());
        assert(!hex_ws(62u8));
        assert(skip(buf, p) == p);
    } else {
        lemma_hex_front(d);
        let b = d[0];
        let t = d.drop_first();
        let w = hex_byte(b);
        let body = hex_body(d);
        assert(body == w + hex_body(t));
        assert(forall|i: int| 0 <= i < body.len() ==> buf[p + i] == #[trigger] buf.subrange(p, p + body.len())[i]);
        assert(forall|i: int| 0 <= i < w.len() ==> body[i] == w[i]);
        let q = p + 2;
        assert(buf.subrange(q, q + hex_body(t).len()) =~= hex_body(t)) by {
            assert(forall|i: int| 0 <= i < hex_body(t).len() ==> body[w.len() + i] == hex_body(t)[i]);
        }
        lemma_hex_reads_back(buf, q, t);
        let hi = b as int / 16;
        let lo = b as int % 16;
        lemma_hexdig(hi); lemma_hexdig(lo);
        assert(buf[p] == w[0] && buf[p + 1] == w[1]);
        assert(skip(buf, p) == p);
        assert(skip(buf, p + 1) == p + 1);
        assert(hi * 16 + lo == b);
        assert(hex_step(buf, p) == HStep { eof: false, bad: false, out: Some(b), pos: p + 2 });
        assert(seq![b] + t =~= d);
    }
}

// THEOREM (C04 for strings, over the specification functions): whichever form PdfString::serialize chooses, and
// whatever bytes follow it in the file, the C03 string lexers read back exactly the content and stop just past it.
proof fn theorem_string_reads_back(d: Seq<u8>, rest: Seq<u8>)
    requires DEV_LITERAL_RAW_CR() ==> reader_keeps_raw_cr()
    ensures
        read_string(spell_lit(d) + rest) == Some((d, spell_lit(d).len() as int)),
        read_string(spell_hex(d) + rest) == Some((d, spell_hex(d).len() as int)),
{
    let bl = spell_lit(d) + rest;
    let nl = lit_body(d).len() as int;
    assert(bl[0] == 40);
    assert(bl.subrange(1, 1 + nl) =~= lit_body(d));
    assert(bl[1 + nl] == 41);
    lemma_lit_reads_back(bl, 1, d);
    let bh = spell_hex(d) + rest;
    assert(bh[0] == 60);
    let nh = hex_body(d).len() as int;
    assert(bh.subrange(1, 1 + nh) =~= hex_body(d));
    assert(bh[1 + nh] == 62);
    if d.len() > 0 { lemma_hex_front(d); lemma_hexdig(d[0] as int / 16); assert(bh[1] == hex_body(d)[0]); } else { assert(hex_body(d) =~= Seq::<u8>::empty()); }
    assert(bh[1] != 60);
    lemma_hex_reads_back(bh, 1, d);
}

// ---- names. C03 has no specification of `#xx` decoding (the parser half is not reached), so the reader is written
// here from ISO 32000-1 7.3.5: the token is the maximal run of regular characters after the SOLIDUS, and every `#xx`
// in it stands for the byte with that hexadecimal code (either digit case).
pub open spec fn name_tok_end(buf: Seq<u8>, p: int) -> int decreases buf.len() - p {
    if 0 <= p < buf.len() && is_regular(buf[p]) { name_tok_end(buf, p + 1) } else { p }
}
pub open spec fn name_decode(tok: Seq<u8>) -> Option<Seq<u8>> decreases tok.len() {
    if tok.len() == 0 { Some(Seq::<u8>::empty()) }
    else if tok[0] == 35 {
        if tok.len() < 3 { None } else {
            match (hexval(tok[1]), hexval(tok[2])) {
                (Some(h), Some(l)) => match name_decode(tok.skip(3)) { Some(r) => Some(seq![(h * 16 + l) as u8] + r), None => None },
                _ => None,
            }
        }
    } else { match name_decode(tok.skip(1)) { Some(r) => Some(seq![tok[0]] + r), None => None } }
}
pub open spec fn read_name(buf: Seq<u8>) -> Option<(Seq<u8>, int)> {
    if buf.len() >= 1 && buf[0] == 47 {
        let e = name_tok_end(buf, 1);
        match name_decode(buf.subrange(1, e)) { Some(bs) => Some((bs, e)), None => None }
    } else { None }
}

proof fn lemma_name_front(d: Seq<u8>)
    requires d.len() > 0
    ensures name_body(d) == name_byte(d[0]) + name_body(d.drop_first())
    decreases d.len()
{
    if d.len() == 1 {
        assert(d.drop_last() =~= Seq::<u8>::empty()); assert(d.drop_first() =~= Seq::<u8>::empty());
        assert(name_body(d.drop_last()) =~= Seq::<u8>::empty());
        assert(name_body(d) =~= name_byte(d[0]) + name_body(d.drop_first()));
    } else {
        lemma_name_front(d.drop_last());
        assert(d.drop_last().drop_first() =~= d.drop_first().drop_last());
        assert(name_body(d) =~= name_byte(d[0]) + name_body(d.drop_first()));
    }
}
proof fn lemma_hexdig_regular(n: int)
    requires 0 <= n < 16
    ensures is_regular(hexdig(n)), hexdig(n) != 35, hexval(hexdig(n)) == Some(n as u8)
{}
// the spelling of a name consists of regular characters only: the token cannot end early
proof fn lemma_name_all_regular(d: Seq<u8>)
    ensures forall|i: int| 0 <= i < name_body(d).len() ==> is_regular(#[trigger] name_body(d)[i])
    decreases d.len()
{
    if d.len() > 0 {
        lemma_name_all_regular(d.drop_last());
        let b = d.last();
        lemma_hexdig_regular(b as int / 16); lemma_hexdig_regular(b as int % 16);
        assert(is_regular(35u8));
        let w = name_byte(b);
        assert(forall|i: int| 0 <= i < w.len() ==> is_regular(#[trigger] w[i]));
        let pre = name_body(d.drop_last());
        assert(name_body(d) == pre + w);
        assert forall|i: int| 0 <= i < name_body(d).len() implies is_regular(#[trigger] name_body(d)[i]) by {
            if i < pre.len() { assert(name_body(d)[i] == pre[i]); } else { assert(name_body(d)[i] == w[i - pre.len()]); }
        }
    } else {
        assert(name_body(d) =~= Seq::<u8>::empty());
    }
}
proof fn lemma_tok_end(buf: Seq<u8>, p: int, e: int)
    requires 0 <= p <= e <= buf.len(), forall|i: int| p <= i < e ==> is_regular(buf[i]), e < buf.len() ==> !is_regular(buf[e])
    ensures name_tok_end(buf, p) == e
    decreases e - p
{ if p < e { lemma_tok_end(buf, p + 1, e); } }
proof fn lemma_name_decode(d: Seq<u8>)
    ensures name_decode(name_body(d)) == Some(d)
    decreases d.len()
{
    if d.len() == 0 {
        assert(name_body(d) =~= Seq::<u8>::empty());
    } else {
        lemma_name_front(d);
        let b = d[0];
        let t = d.drop_first();
        let w = name_byte(b);
        let tok = name_body(d);
        lemma_name_decode(t);
        assert(tok == w + name_body(t));
        if name_plain(b) {
            assert(tok[0] == b);
            assert(tok.skip(1) =~= name_body(t));
        } else {
            let hi = b as int / 16; let lo = b as int % 16;
            lemma_hexdig_regular(hi); lemma_hexdig_regular(lo);
            assert(tok[0] == 35 && tok[1] == hexdig(hi) && tok[2] == hexdig(lo));
            assert(tok.skip(3) =~= name_body(t));
            assert(hi * 16 + lo == b);
        }
        assert(seq![b] + t =~= d);
    }
}
// THEOREM (C04 for names, over the specification functions): the spelling of a name, followed by the end of the
// data or by any white-space or delimiter character (which is what the writer puts after it: ' ', ']', '>>', '/',
// '\n'), reads back to the same bytes and the token ends exactly where the spelling ends.
proof fn theorem_name_reads_back(s: Seq<char>, rest: Seq<u8>)
    requires rest.len() == 0 || !is_regular(rest[0])
    ensures read_name(spell_name(s) + rest) == Some((encode_utf8(s), spell_name(s).len() as int))
{
    let d = encode_utf8(s);
    let buf = spell_name(s) + rest;
    let e = 1 + name_body(d).len() as int;
    lemma_name_all_regular(d);
    assert(forall|i: int| 1 <= i < e ==> buf[i] == name_body(d)[i - 1]);
    assert(e < buf.len() ==> buf[e] == rest[0]);
    lemma_tok_end(buf, 1, e);
    assert(buf.subrange(1, e) =~= name_body(d));
    lemma_name_decode(d);
}
