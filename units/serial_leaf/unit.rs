// Unit `serial_leaf` (C04): the leaf serialisers of pdf/src/primitive.rs — PdfString::serialize, serialize_name —
// emit a conformant spelling (ISO 32000-1 7.3.4.2, 7.3.4.3, 7.3.5) of their input on an abstract byte sink,
// and that spelling is read back to the same bytes by the C03 lexer specification (lit_step / hex_step) and by a
// name reader written from 7.3.5.  Every write!/write_all is hoisted (R7) as "appends exactly these bytes".
use vstd::prelude::*;
use vstd::utf8::*;
verus! {
global size_of usize == 8;

//@@ PDFERROR
//@@ DEVIATIONS

// =====================================================================================================
// env: abstract callees
// =====================================================================================================

// istring::IBytes — an owned byte buffer; `as_slice` returns its contents (model, not extracted: foreign crate)
pub struct IBytes { pub v: Vec<u8> }
impl View for IBytes { type V = Seq<u8>; open spec fn view(&self) -> Seq<u8> { self.v@ } }
impl IBytes {
    pub fn as_slice(&self) -> (r: &[u8]) ensures r@ == self@ { self.v.as_slice() }
}

// `impl io::Write`: an abstract sink. view = the bytes it has accepted so far. `infallible` = its write_all never
// returns Err (true of Vec<u8>, the sink `File::save`/`Storage` use, and of Cursor<Vec<u8>>).
#[verifier::external_body]
pub struct Sink { w: Box<dyn std::io::Write> }
impl Sink {
    pub uninterp spec fn view(&self) -> Seq<u8>;
    pub uninterp spec fn infallible(&self) -> bool;
}
// what one hoisted write promises: on Ok exactly `bytes` were appended; an infallible sink answers Ok
pub open spec fn wrote(o: &Sink, n: &Sink, r: Result<()>, bytes: Seq<u8>) -> bool {
    &&& r is Ok ==> n@ == o@ + bytes
    &&& o.infallible() ==> r is Ok
    &&& n.infallible() == o.infallible()
}
// bytes of an ASCII string literal
pub open spec fn lit_bytes(s: Seq<char>) -> Seq<u8> { Seq::new(s.len(), |i: int| s[i] as u8) }
// lower-case hexadecimal digit of a nibble
pub open spec fn hexdig(n: int) -> u8 { if n < 10 { (48 + n) as u8 } else { (87 + n) as u8 } }

// ---- L0 helpers (R7): formatting machinery Verus cannot read. Bodies are the hoisted source expressions
//      (io::Error -> PdfError::Io is the `?` conversion of the original statement).
#[verifier::external_body]
fn hoist_write_lit(out: &mut Sink, s: &str) -> (r: Result<()>)
    // trusted: write!(out, "<literal without {}>") hands exactly the literal's bytes to write_all
    ensures wrote(old(out), final(out), r, lit_bytes(s@))
{ use std::io::Write; match write!(out.w, "{}", s) { Ok(()) => Ok(()), Err(_) => Err(PdfError::Io) } }

#[verifier::external_body]
fn hoist_write_hex2(out: &mut Sink, b: u8) -> (r: Result<()>)
    // trusted: `{:02x}` of a u8 prints exactly two lower-case hexadecimal digits, high nibble first
    ensures wrote(old(out), final(out), r, seq![hexdig(b as int / 16), hexdig(b as int % 16)])
{ use std::io::Write; match write!(out.w, "{:02x}", b) { Ok(()) => Ok(()), Err(_) => Err(PdfError::Io) } }

#[verifier::external_body]
fn hoist_write_hash_hex2(out: &mut Sink, b: u8) -> (r: Result<()>)
    // trusted: `#{:02x}` prints '#' and then as above
    ensures wrote(old(out), final(out), r, seq![35u8, hexdig(b as int / 16), hexdig(b as int % 16)])
{ use std::io::Write; match write!(out.w, "#{:02x}", b) { Ok(()) => Ok(()), Err(_) => Err(PdfError::Io) } }

#[verifier::external_body]
fn hoist_write_char(out: &mut Sink, c: char) -> (r: Result<()>)
    // trusted: `{}` of a char prints its UTF-8 encoding
    ensures wrote(old(out), final(out), r, encode_utf8(seq![c]))
{ use std::io::Write; match write!(out.w, "{}", c) { Ok(()) => Ok(()), Err(_) => Err(PdfError::Io) } }

// Any other one-argument format string (fallback of the R7 hoists): what `write!(out, FMT, a)` prints is a function of the
// format string and of the argument's value -- and nothing more is known about it (`fmt_spec` is uninterpreted), so a
// format that is not one of the three above proves no spelling. Body: the format string of `write!` must be a literal, so
// the hoisted expression `write!(out.w, <fmt>, a)` cannot be written generically; the helper is a pure env stub.
pub trait FmtArg { spec fn repr(&self) -> int; }
impl FmtArg for u8 { open spec fn repr(&self) -> int { *self as int } }
impl FmtArg for char { open spec fn repr(&self) -> int { *self as int } }
pub uninterp spec fn fmt_spec(fmt: Seq<char>, arg: int) -> Seq<u8>;
#[verifier::external_body]
fn hoist_write_fmt<T: FmtArg>(out: &mut Sink, fmt: &str, a: T) -> (r: Result<()>)
    // trusted: formatting a u8 / char never fails by itself; the bytes handed to write_all depend on (fmt, a) only
    ensures wrote(old(out), final(out), r, fmt_spec(fmt@, a.repr()))
{ unimplemented!() /* write!(out.w, <fmt>, a) */ }

#[verifier::external_body]
fn hoist_write_all(out: &mut Sink, buf: &[u8]) -> (r: Result<()>)
    // trusted: io::Write::write_all appends the whole slice or returns Err
    ensures wrote(old(out), final(out), r, buf@)
{ use std::io::Write; match out.w.write_all(buf) { Ok(()) => Ok(()), Err(_) => Err(PdfError::Io) } }

#[verifier::external_body]
fn hoist_any_ge_0x80(data: &IBytes) -> (r: bool)
    // no contract needed: either spelling is conformant for every content (see string_spelling)
{ data.v.iter().any(|&b| b >= 0x80) }

#[verifier::external_body]
fn hoist_slice_contains(s: &[u8], b: &u8) -> (r: bool)
    // trusted: `<[u8]>::contains` is membership
    ensures r == s@.contains(*b)
{ s.contains(b) }

// R4: panic!(msg) as a function that must be proved unreachable
#[verifier::external_body]
fn verif_panic(msg: &str) -> !
    requires false
{ panic!("{}", msg) }

// the two string forms cannot be confused: whatever was written before, `<` is not `(` (lets ONE loop invariant serve both byte loops)
proof fn lemma_forms_differ(s: Seq<u8>)
    ensures s + seq![60u8] != s + seq![40u8]
{ assert((s + seq![60u8])[s.len() as int] == 60u8); assert((s + seq![40u8])[s.len() as int] == 40u8); }
proof fn lemma_lits()
    ensures
        lit_bytes("<"@) == seq![60u8], lit_bytes(">"@) == seq![62u8],
        lit_bytes(r"("@) == seq![40u8], lit_bytes(r")"@) == seq![41u8],
        lit_bytes(r"\"@) == seq![92u8], lit_bytes("/"@) == seq![47u8],
        lit_bytes(r"\r"@) == seq![92u8, 114u8],
{
    reveal_strlit("<"); reveal_strlit(">"); reveal_strlit(r"("); reveal_strlit(r")"); reveal_strlit(r"\");
    reveal_strlit("/"); reveal_strlit(r"\r");
    assert(lit_bytes("<"@) =~= seq![60u8]); assert(lit_bytes(">"@) =~= seq![62u8]);
    assert(lit_bytes(r"("@) =~= seq![40u8]); assert(lit_bytes(r")"@) =~= seq![41u8]);
    assert(lit_bytes(r"\"@) =~= seq![92u8]); assert(lit_bytes("/"@) =~= seq![47u8]);
    assert(lit_bytes(r"\r"@) =~= seq![92u8, 114u8]);
}

// =====================================================================================================
// spec: conformant spellings, written from ISO 32000-1:2008 7.3.4 and 7.3.5 (not from the code)
// =====================================================================================================

// 7.3.4.3 hexadecimal string: '<', two hexadecimal digits per byte (high nibble first), '>'
pub open spec fn hex_byte(b: u8) -> Seq<u8> { seq![hexdig(b as int / 16), hexdig(b as int % 16)] }
pub open spec fn hex_body(d: Seq<u8>) -> Seq<u8> decreases d.len() {
    if d.len() == 0 { Seq::empty() } else { hex_body(d.drop_last()) + hex_byte(d.last()) }
}
pub open spec fn spell_hex(d: Seq<u8>) -> Seq<u8> { seq![60u8] + hex_body(d) + seq![62u8] }

// 7.3.4.2 literal string: '(' ... ')'. REVERSE SOLIDUS and every parenthesis are written with a preceding
// REVERSE SOLIDUS (always legal; needed for unbalanced ones). An end-of-line marker that is not preceded by a
// REVERSE SOLIDUS is read as LINE FEED whatever it was: LF may stay raw, CARRIAGE RETURN must be written `\r`.
// Every other byte stands for itself.
pub open spec fn lit_byte(b: u8) -> Seq<u8> {
    if b == 92 || b == 40 || b == 41 { seq![92u8, b] }
    else if b == 13 && !DEV_LITERAL_RAW_CR() { seq![92u8, 114u8] }
    else { seq![b] }
}
pub open spec fn lit_body(d: Seq<u8>) -> Seq<u8> decreases d.len() {
    if d.len() == 0 { Seq::empty() } else { lit_body(d.drop_last()) + lit_byte(d.last()) }
}
pub open spec fn spell_lit(d: Seq<u8>) -> Seq<u8> { seq![40u8] + lit_body(d) + seq![41u8] }

// 7.3.5 name: SOLIDUS, then the bytes of the name (its UTF-8 bytes, Table 3 note / 7.3.5 NOTE 4). A byte that is not
// a regular character (Table 1 white-space, Table 2 delimiters) and NUMBER SIGN itself shall be written `#xx`; regular
// characters outside '!'..'~' should be. Everything else is written as itself.
pub open spec fn is_ws(b: u8) -> bool { b == 0 || b == 9 || b == 10 || b == 12 || b == 13 || b == 32 }
pub open spec fn is_delim(b: u8) -> bool {
    b == 40 || b == 41 || b == 60 || b == 62 || b == 91 || b == 93 || b == 123 || b == 125 || b == 47 || b == 37
}
pub open spec fn is_regular(b: u8) -> bool { !is_ws(b) && !is_delim(b) }
pub open spec fn name_plain(b: u8) -> bool { is_regular(b) && b != 35 && 33 <= b <= 126 }
pub open spec fn name_byte(b: u8) -> Seq<u8> {
    if name_plain(b) { seq![b] } else { seq![35u8, hexdig(b as int / 16), hexdig(b as int % 16)] }
}
pub open spec fn name_body(d: Seq<u8>) -> Seq<u8> decreases d.len() {
    if d.len() == 0 { Seq::empty() } else { name_body(d.drop_last()) + name_byte(d.last()) }
}
pub open spec fn spell_name(s: Seq<char>) -> Seq<u8> { seq![47u8] + name_body(encode_utf8(s)) }

// loop step lemmas: one more input byte appends its spelling
proof fn lemma_hex_step(d: Seq<u8>, i: int)
    requires 0 <= i < d.len()
    ensures hex_body(d.take(i + 1)) == hex_body(d.take(i)) + hex_byte(d[i])
{ assert(d.take(i + 1).drop_last() =~= d.take(i)); }
proof fn lemma_lit_step(d: Seq<u8>, i: int)
    requires 0 <= i < d.len()
    ensures lit_body(d.take(i + 1)) == lit_body(d.take(i)) + lit_byte(d[i])
{ assert(d.take(i + 1).drop_last() =~= d.take(i)); }
proof fn lemma_name_step(d: Seq<u8>, i: int)
    requires 0 <= i < d.len()
    ensures name_body(d.take(i + 1)) == name_body(d.take(i)) + name_byte(d[i])
{ assert(d.take(i + 1).drop_last() =~= d.take(i)); }

// =====================================================================================================
// the functions under contract (text extracted from /repo)
// =====================================================================================================

//@@ struct PdfString

impl PdfString {
//@@ PdfString::serialize
}

//@@ const bytes
//@@ serialize_name

//@@ INCLUDE serial_leaf/readback.rs
}
fn main(){}
