F = 'pdf/src/primitive.rs'

# R7 hoists shared by both functions: only the un-readable call shape is replaced, arguments stay verbatim.
# count '*': the same unit must read the pinned text and the repaired text (findings/*_fix.diff); a write that is
# not matched by any of these stays a `write!` and stops Verus (undecided), never an alarm.
HOISTS = [
    {'rule': 'R7', 'regex': r'write!\(\s*out\s*,\s*(r?"[^"{}]*")\s*\)', 'replace': r'hoist_write_lit(out, \1)', 'count': '*'},
    {'rule': 'R7', 'regex': r'write!\(\s*out\s*,\s*"\{:02x\}"\s*,\s*(.*?)\)\?', 'replace': r'hoist_write_hex2(out, \1)?', 'count': '*'},
    {'rule': 'R7', 'regex': r'write!\(\s*out\s*,\s*"#\{:02x\}"\s*,\s*(.*?)\)\?', 'replace': r'hoist_write_hash_hex2(out, \1)?', 'count': '*'},
    {'rule': 'R7', 'regex': r'write!\(\s*out\s*,\s*"\{\}"\s*,\s*(.*?)\)\?', 'replace': r'hoist_write_char(out, \1)?', 'count': '*'},
    # fallback: any OTHER one-argument format string. The helper appends `fmt_spec(<format string>, <argument>)`, an
    # uninterpreted function: a format this unit does not know can never prove a spelling postcondition (=> the change is
    # reported at `*_spelling`), and never stops the verifier as an unreadable `write!`.
    {'rule': 'R7', 'regex': r'write!\(\s*out\s*,\s*(r?"[^"]*")\s*,\s*([^,;]*?)\)\?', 'replace': r'hoist_write_fmt(out, \1, \2)?', 'count': '*'},
    {'rule': 'R7', 'regex': r'out\.write_all\((.*?)\)\?', 'replace': r'hoist_write_all(out, \1)?', 'count': '*'},
    # R5: `for &x in e {` -> `for x_ in e { let x = *x_;`
    {'rule': 'R5', 'regex': r'for &(\w+) in (.*?) \{', 'replace': r'for \1_ in \2 { let \1 = *\1_;', 'count': '*'},
]
SIG = [{'where': 'sig', 'rule': 'R2', 'find': 'out: &mut impl io::Write', 'replace': 'out: &mut Sink'}]

UNIT = {
 'name': 'serial_leaf',
 'doc': 'Leaf serialisers (PdfString::serialize, serialize_name) emit a conformant spelling that the lexer spec reads back',
 'timeout': 600,
 'deviations': {
   'DEV_LITERAL_RAW_CR': 'PdfString::serialize writes CARRIAGE RETURN raw inside a literal string; ISO 32000-1 7.3.4.2 '
                         'reads an unescaped end-of-line marker as LINE FEED (this crate\'s own lexer keeps it, so the '
                         'self round trip is unaffected). See findings/string_raw_cr.md',
 },
 'allowed_assumes': [],
 'items': {
  'struct PdfString': {'kind': 'decl', 'file': F, 'header': r'^pub struct PdfString$'},
  'PdfString::serialize': {'kind': 'fn', 'file': F, 'container': r'^impl PdfString$', 'name': 'serialize', 'props': ['C04'],
     'attrs': ['#[verifier::loop_isolation(false)]'],
     'ensures': [
        ('string_spelling', 'r is Ok ==> (final(out)@ == old(out)@ + spell_hex(self.data@) || final(out)@ == old(out)@ + spell_lit(self.data@))'),
        ('string_ok_on_infallible_sink', 'old(out).infallible() ==> r is Ok'),
        ('string_sink_kind_kept', 'final(out).infallible() == old(out).infallible()'),
     ],
     'loops': {
        1: {'for_ghost': 'it', 'invariant': [
              'out.infallible() == old(out).infallible()',
              ('string_spelling', 'out@ == old(out)@ + seq![60u8] + hex_body(self.data@.take(it.index@ as int))')]},
        2: {'for_ghost': 'it', 'invariant': [
              'out.infallible() == old(out).infallible()',
              ('string_spelling', 'out@ == old(out)@ + seq![40u8] + lit_body(self.data@.take(it.index@ as int))')]},
     },
     'rewrites': SIG + [
        {'rule': 'R7', 'find': 'self.data.iter().any(|&b| b >= 0x80)', 'replace': 'hoist_any_ge_0x80(&self.data)'},
     ] + HOISTS + [
        # R1 ghost injections
        {'rule': 'R1', 'regex': r'\A\s*\{', 'replace': '{ proof { lemma_lits(); }'},
        {'rule': 'R1', 'regex': r'(in self\.data\.as_slice\(\) \{ let \w+ = \*\w+;)',
         'replace': r'\1 proof { lemma_hex_step(self.data@, it.index@ as int); lemma_lit_step(self.data@, it.index@ as int); }',
         'count': 2},
        {'rule': 'R1', 'regex': r'hoist_write_lit\(out, (">"|r"\)")\)', 'replace': r'proof { assert(self.data@.take(self.data@.len() as int) =~= self.data@); } hoist_write_lit(out, \1)', 'count': 2},
     ]},
  'serialize_name': {'kind': 'fn', 'file': F, 'container': None, 'name': 'serialize_name', 'props': ['C04'],
     'attrs': ['#[verifier::loop_isolation(false)]'],
     'ensures': [
        ('name_spelling', 'r is Ok ==> final(out)@ == old(out)@ + spell_name(s@)'),
        ('name_ok_on_infallible_sink', 'old(out).infallible() ==> r is Ok'),
        ('name_sink_kind_kept', 'final(out).infallible() == old(out).infallible()'),
     ],
     'loops': {
        1: {'for_ghost': 'it', 'invariant': [
              'out.infallible() == old(out).infallible()',
              ('name_spelling', 'out@ == old(out)@ + seq![47u8] + name_body(encode_utf8(s@).take(it.index@ as int))')]},
     },
     'rewrites': SIG + HOISTS + [
        # R4: `panic!(msg)` -> a diverging fn with `requires false` (same control flow). Needed because the framework
        # cannot attribute a failure whose primary span lies inside a std macro expansion to the extracted item.
        {'rule': 'R4', 'regex': r'panic!\(("[^"]*")\)', 'replace': r'verif_panic(\1)', 'count': '*'},
        {'rule': 'R1', 'regex': r'\A\s*\{', 'replace': '{ proof { lemma_lits(); }'},
        {'rule': 'R1', 'regex': r'(for \w+ in [^{]*\{)( let \w+ = \*\w+;)?',
         'replace': r'\1\2 proof { if it.index@ < encode_utf8(s@).len() { lemma_name_step(encode_utf8(s@), it.index@ as int); } }'},
        {'rule': 'R1', 'regex': r'Ok\(\(\)\)\s*\}\s*\Z', 'replace': 'proof { assert(encode_utf8(s@).take(encode_utf8(s@).len() as int) =~= encode_utf8(s@)); } Ok(()) }'},
     ]},
 }, 'kani': {
   'modules': [{'file': F, 'code': 'kani_serial.rs'}],
   'harnesses': [
     {'name': 'serialize_hex1_iso', 'fn': 'PdfString::serialize', 'file': F, 'props': ['C04'], 'kind': 'bounded', 'tier': 'thorough',
      'bound': 'every string of exactly 1 byte >= 0x80 (hexadecimal form), real Vec<u8> sink', 'covers': True,
      'contract': 'serialize returns Ok and out == "<" hex(b>>4) hex(b&15) ">" (lower-case), never panics'},
     {'name': 'serialize_lit2_iso', 'fn': 'PdfString::serialize', 'file': F, 'props': ['C04'], 'kind': 'bounded', 'tier': 'thorough',
      'bound': 'every string of exactly 2 bytes < 0x80 (literal form), real Vec<u8> sink', 'covers': True,
      'contract': 'serialize returns Ok and out == spell_lit(d): ( ) \\ behind a backslash, CR as \\r, other bytes raw; never panics'},
   ],
   'jobs': 2, 'timeout': 3000,
 },
}
