F = 'pdf/src/primitive.rs'

# R7 hoists shared by both functions: only the un-readable call shape is replaced, arguments stay verbatim.
# count '*': the same unit must read the pinned text and the repaired text (findings/*_fix.diff); a write that is
# not matched by any of these stays a `write!` and stops Verus (undecided), never an alarm.
HOISTS = [
    {'rule': 'R7', 'regex': r'write!\(\s*out\s*,\s*(r?"[^"{}]*")\s*\)', 'replace': r'hoist_write_lit(out, \1)', 'count': '*'},
    {'rule': 'R7', 'regex': r'write!\(\s*out\s*,\s*"\{:02x\}"\s*,\s*(.*?)\)\?', 'replace': r'hoist_write_hex2(out, \1)?', 'count': '*'},
    {'rule': 'R7', 'regex': r'write!\(\s*out\s*,\s*"#\{:02x\}"\s*,\s*(.*?)\)\?', 'replace': r'hoist_write_hash_hex2(out, \1)?', 'count': '*'},
    {'rule': 'R7', 'regex': r'write!\(\s*out\s*,\s*"\{\}"\s*,\s*(.*?)\)\?', 'replace': r'hoist_write_char(out, \1)?', 'count': '*'},
    # fallback: any OTHER one-argument format string. The helper appends `fmt_spec(<format string>, <argument>)`, an
    # uninterpreted function: a format this unit does not know can never prove a spelling postcondition (=> the change is
    # reported at `*_spelling`), and never stops the verifier as an unreadable `write!`.
    {'rule': 'R7', 'regex': r'write!\(\s*out\s*,\s*(r?"[^"]*")\s*,\s*([^,;]*?)\)\?', 'replace': r'hoist_write_fmt(out, \1, \2)?', 'count': '*'},
    {'rule': 'R7', 'regex': r'out\.write_all\((.*?)\)\?', 'replace': r'hoist_write_all(out, \1)?', 'count': '*'},
    # R5: `for &x in e {` -> `for x_ in e { let x = *x_;`
    {'rule': 'R5', 'regex': r'for &(\w+) in (.*?) \{', 'replace': r'for \1_ in \2 { let \1 = *\1_;', 'count': '*'},
]
SIG = [{'where': 'sig', 'rule': 'R2', 'find': 'out: &mut impl io::Write', 'replace': 'out: &mut Sink'}]

# ---- PdfString::serialize: the two byte loops are recognised by SHAPE (any `for P in <expr> {`), not by name or order.
# Both loops carry the SAME invariant: "what has been written since the loop was entered is the hexadecimal body of the bytes
# taken so far, behind `<`  --or--  their literal body, behind `(`".  `o0__` (ghost, injected in front of every `for`) is the
# output at loop entry: which of the two delimiters it ends in is a fact about an unmodified ghost name, so the verifier knows
# inside the loop which form is being written -- whichever branch comes first in the source.
EITHER_FORM = ('(o0__ == old(out)@ + seq![60u8] && out@ =~= o0__ + hex_body(self.data@.take(it.index@ as int))) || '
               '(o0__ == old(out)@ + seq![40u8] && out@ =~= o0__ + lit_body(self.data@.take(it.index@ as int)))')
BYTE_LOOP = {'for_ghost': 'it', 'invariant': ['out.infallible() == old(out).infallible()', ('string_spelling', EITHER_FORM)]}


# ---- a `const NAME: &[u8] = b"...";` item next to the functions (optional item `const bytes`).  Verus knows nothing about
# the CONTENT of a byte-string literal, so the literal is re-spelled (R2) as the array literal of the same bytes -- computed
# here from the literal's own text by Rust's escape rules -- and the const gets that content as its (proved) `ensures`.
# A literal this function cannot read is left as it is behind an undefined macro: compile error => UNDECIDED, never an alarm.
def _byte_string_values(lit):
    out, i = [], 0
    simple = {'n': 10, 'r': 13, 't': 9, '\\': 92, '0': 0, "'": 39, '"': 34}
    hexd = '0123456789abcdefABCDEF'
    while i < len(lit):
        c = lit[i]
        if c == '\\':
            e = lit[i + 1:i + 2]
            if e in simple:
                out.append(simple[e])
                i += 2
            elif e == 'x' and len(lit[i + 2:i + 4]) == 2 and all(h in hexd for h in lit[i + 2:i + 4]):
                out.append(int(lit[i + 2:i + 4], 16))
                i += 4
            else:
                return None           # line continuation, unknown escape
        elif 32 <= ord(c) < 127:
            out.append(ord(c))
            i += 1
        else:
            return None
    return out


def _bytes_const(m):
    name, lit = m.group(1), m.group(2)
    vals = _byte_string_values(lit)
    if not vals:
        return 'unreadable_byte_string_literal!(); ' + m.group(0)
    arr = ', '.join('%du8' % v for v in vals)
    return "exec const %s: &'static [u8] ensures %s@ =~= seq![%s] { &[%s] }" % (name, name, arr, arr)


_CONST_HEAD = r"(?:pub(?:\s*\([^)]*\))?\s+)?const\s+(\w+)\s*:\s*&\s*(?:'static\s+)?\[\s*u8\s*\]\s*=\s*b"
BYTES_CONST_HEADER = '^' + _CONST_HEAD + '"'
BYTES_CONST_ITEM = _CONST_HEAD + r'"((?:[^"\\]|\\.)*)"\s*;'

UNIT = {
 'name': 'serial_leaf',
 'doc': 'Leaf serialisers (PdfString::serialize, serialize_name) emit a conformant spelling that the lexer spec reads back',
 'timeout': 600,
 'deviations': {
   'DEV_LITERAL_RAW_CR': 'PdfString::serialize writes CARRIAGE RETURN raw inside a literal string; ISO 32000-1 7.3.4.2 '
                         'reads an unescaped end-of-line marker as LINE FEED (this crate\'s own lexer keeps it, so the '
                         'self round trip is unaffected). See findings/string_raw_cr.md',
 },
 'allowed_assumes': [],
 'items': {
  'struct PdfString': {'kind': 'decl', 'file': F, 'header': r'^pub struct PdfString$'},
  'PdfString::serialize': {'kind': 'fn', 'file': F, 'container': r'^impl PdfString$', 'name': 'serialize', 'props': ['C04', 'C09', 'C10'],
     'attrs': ['#[verifier::loop_isolation(false)]'],
     'ensures': [
        ('string_spelling', 'r is Ok ==> (final(out)@ == old(out)@ + spell_hex(self.data@) || final(out)@ == old(out)@ + spell_lit(self.data@))'),
        ('string_ok_on_infallible_sink', 'old(out).infallible() ==> r is Ok'),
        ('string_sink_kind_kept', 'final(out).infallible() == old(out).infallible()'),
     ],
     'loops': {1: BYTE_LOOP, 2: BYTE_LOOP},
     'rewrites': SIG + [
        {'rule': 'R7', 'find': 'self.data.iter().any(|&b| b >= 0x80)', 'replace': 'hoist_any_ge_0x80(&self.data)'},
        # R2: deref coercion `IBytes -> [u8]` made explicit (vstd knows `<[u8]>::iter`)
        {'rule': 'R2', 'regex': r'self\.data\.iter\(\)', 'replace': 'self.data.as_slice().iter()', 'count': '*'},
     ] + HOISTS + [
        # R1 ghost injections, anchored on shapes (`for P in E {`, the closing delimiter); binder names captured.
        # A loop of another structure (`while let` over runs, index arithmetic) has no `it`: compile error => UNDECIDED
        # (the bounded native stand-in of units/primser then decides).
        {'rule': 'R1', 'regex': r'\A\s*\{', 'replace': '{ proof { lemma_lits(); lemma_forms_differ(old(out)@); }'},
        {'rule': 'R1', 'regex': r'(?<![\w.])(for \w+ in [^{]*\{)( let \w+ = \*\w+;)?', 'count': '*',
         'replace': r'let ghost o0__ = out@; \1\2 proof { if it.index@ < self.data@.len() { lemma_hex_step(self.data@, it.index@ as int); lemma_lit_step(self.data@, it.index@ as int); } }'},
        {'rule': 'R1', 'regex': r'hoist_write_lit\(out, (">"|r"\)"|"\)")\)', 'count': '*',
         'replace': r'proof { assert(self.data@.take(self.data@.len() as int) =~= self.data@); } hoist_write_lit(out, \1)'},
     ]},
  # a byte-set constant that serialize_name may refer to (none in the pinned text): extracted when exactly one exists
  'const bytes': {'kind': 'decl', 'file': F, 'header': BYTES_CONST_HEADER, 'optional': True,
     'rewrites': [{'rule': 'R2', 'regex': BYTES_CONST_ITEM, 'replace': _bytes_const}]},
  'serialize_name': {'kind': 'fn', 'file': F, 'container': None, 'name': 'serialize_name', 'props': ['C04', 'C09', 'C10'],
     'attrs': ['#[verifier::loop_isolation(false)]'],
     'ensures': [
        ('name_spelling', 'r is Ok ==> final(out)@ == old(out)@ + spell_name(s@)'),
        ('name_ok_on_infallible_sink', 'old(out).infallible() ==> r is Ok'),
        ('name_sink_kind_kept', 'final(out).infallible() == old(out).infallible()'),
     ],
     'loops': {
        1: {'for_ghost': 'it', 'invariant': [
              'out.infallible() == old(out).infallible()',
              ('name_spelling', 'out@ == old(out)@ + seq![47u8] + name_body(encode_utf8(s@).take(it.index@ as int))')]},
     },
     'rewrites': SIG + HOISTS + [
        # R7: `CONST.contains(&b)` on a byte slice -> helper whose contract is Seq::contains (arguments verbatim)
        {'rule': 'R7', 'regex': r'\b([A-Z][A-Z0-9_]*)\.contains\(\s*&\s*(\w+)\s*\)', 'replace': r'hoist_slice_contains(\1, &\2)', 'count': '*'},
        # R4: `panic!(msg)` -> a diverging fn with `requires false` (same control flow). Needed because the framework
        # cannot attribute a failure whose primary span lies inside a std macro expansion to the extracted item.
        {'rule': 'R4', 'regex': r'panic!\(("[^"]*")\)', 'replace': r'verif_panic(\1)', 'count': '*'},
        {'rule': 'R1', 'regex': r'\A\s*\{', 'replace': '{ proof { lemma_lits(); }'},
        {'rule': 'R1', 'regex': r'(for \w+ in [^{]*\{)( let \w+ = \*\w+;)?',
         'replace': r'\1\2 proof { if it.index@ < encode_utf8(s@).len() { lemma_name_step(encode_utf8(s@), it.index@ as int); } }'},
        {'rule': 'R1', 'regex': r'Ok\(\(\)\)\s*\}\s*\Z', 'replace': 'proof { assert(encode_utf8(s@).take(encode_utf8(s@).len() as int) =~= encode_utf8(s@)); } Ok(()) }'},
     ]},
 }, 'kani': {
   'modules': [{'file': F, 'code': 'kani_serial.rs'}],
   'harnesses': [
     {'name': 'serialize_hex1_iso', 'fn': 'PdfString::serialize', 'file': F, 'props': ['C04'], 'kind': 'bounded', 'tier': 'thorough',
      'bound': 'every string of exactly 1 byte >= 0x80 (hexadecimal form), real Vec<u8> sink', 'covers': True,
      'contract': 'serialize returns Ok and out == "<" hex(b>>4) hex(b&15) ">" (lower-case), never panics'},
     {'name': 'serialize_lit2_iso', 'fn': 'PdfString::serialize', 'file': F, 'props': ['C04'], 'kind': 'bounded', 'tier': 'thorough',
      'bound': 'every string of exactly 2 bytes < 0x80 (literal form), real Vec<u8> sink', 'covers': True,
      'contract': 'serialize returns Ok and out == spell_lit(d): ( ) \\ behind a backslash, CR as \\r, other bytes raw; never panics'},
   ],
   # the whole cargo-kani run (build + both harnesses, 32 s and 67 s on the pinned tree) holds the shared Kani lock: capped
   'jobs': 2, 'timeout': 900,
 },
}
