// BOUNDED native stand-in for C08, first sentence, on the REAL public API: for the operation sequences enumerated below,
//     parse_ops(serialize_ops(ops)) == ops.
// Placed at pdf/tests/verif_serops_bounded.rs of a scratch copy of the tree under check (vlib/native.py). It is a black-box
// test: it does not care how serialize_ops is structured (helper functions, tables, loops), which is what the Verus side of
// units/serops cannot offer for code that is restructured around NEW helper functions.
//
// Universe (the bound; also stated in unit.py):
//   G1 singles    every Op variant / writer arm alone (InlineImage excepted: the writer refuses it), operands from
//                 NUMS = {0, 1, -1, 0.5, -0.25, 0.001, 0.1, 255, 65535, 2^24, 2^31, -2^31, 2^32, -3e9, f32::MAX, f32::MIN_POSITIVE,
//                 the smallest subnormal}
//                 (1 number: all; a point: all pairs; 3/4/6 numbers: every position swept over NUMS, the others distinct primes),
//                 every Winding, LineCap, LineJoin, TextMode, RenderingIntent value, NAMES (empty, '#', blank, every delimiter,
//                 non-ASCII, tab), STRS (empty, ( ) \ CR LF NUL 0x7f 0x80 0xff, balanced and unbalanced parentheses),
//                 Color::Other with 0..4 operands: integers, whole-valued and fractional reals (all NUMS), names needing escapes,
//                 strings, arrays, booleans, null; BDC/DP with a name or a dictionary (nested) as property list;
//                 dash arrays of length 0, 1, 3; TJ arrays of length 0..3.
//   G2 pairs      every ORDERED pair of the 70 representatives REPS (one per writer arm, distinct operands).
//   G3 windows    every shorthand trigger (' " TD v y s b b*) and every near-miss (guard just failing: other leading,
//                 leading == -tx instead of -ty, c1 != current point, c2 != p, Close + something else), each alone,
//                 preceded by / followed by / interrupted at every gap by every representative, every proper prefix of a
//                 trigger followed by every representative, and every trigger between every two of 24 representatives;
//                 plus ALL sequences of length <= 4 over a 16-letter alphabet of the operations that take part in shorthands.
//   G4 path       ALL sequences of length <= 5 over 13 path operations (m, l, three kinds of c, h, re, n, S, q, Q, b-able
//                 painting) - the writer's current point against the reader's.
// Comparison: exact (f32 bit patterns, bytes of names and strings, Integer vs Number kept apart) except where the property
// allows the other sign of zero (units/serops NOTES "num_same"): Leading.leading, CurveTo.c1, CurveTo.c2 are compared with IEEE `==`.
// -0.0, NaN, infinities are not in the universe (outside the property's domain, NOTES "Findings" 5).
// (aliases: `use Op::*` below brings variants named like these types into scope)
use pdf::content::{
    parse_ops, serialize_ops, Cmyk, Color, LineCap as Cap, LineJoin as Join, Matrix, Op, Point, Rgb, TextDrawAdjusted as Tja, TextMode, ViewRect,
    Winding,
};
use pdf::object::{NoResolve, RenderingIntent as Intent};
use pdf::primitive::{Dictionary, Name, PdfString, Primitive};

const NUMS: [f32; 17] = [
    0.0, 1.0, -1.0, 0.5, -0.25, 1e-3, 0.1, 255.0, 65535.0, 16777216.0, 2147483648.0, -2147483648.0, 4294967296.0, -3.0e9,
    f32::MAX, f32::MIN_POSITIVE, 1.0e-45,
];
const PRIMES: [f32; 6] = [2.0, 3.0, 5.0, 7.0, 11.0, 13.0];
const NAMES: [&str; 18] = [
    "", "A", "F1", "#", "a#b", "A#20B", "a b", " ", "a/b", "(x)", "<y>", "[z]", "{w}", "%p", "Gr\u{e4}tings/2", "a\tb", "Hatch 45#(a)", ")(",
];
const STRS: [&[u8]; 18] = [
    b"", b"abc", b"(", b")", b"\\", b"\r", b"\n", b"\0", b"\x7f", b"\x80", b"\xff\xfe", b"a(b)c", b"((", b"))", b")(", b"\r\n",
    b"a (b) \\ c\r\n\0", b"\\(\\)\\\\ \x80 ( ) \\ \r \n \0",
];

// ------------------------------------------------------------------------------------------------ comparison
fn ex(a: f32, b: f32) -> bool { a.to_bits() == b.to_bits() }
fn ieee(a: f32, b: f32) -> bool { a == b }
fn pt_ex(a: Point, b: Point) -> bool { ex(a.x, b.x) && ex(a.y, b.y) }
fn pt_ieee(a: Point, b: Point) -> bool { ieee(a.x, b.x) && ieee(a.y, b.y) }
fn mx_ex(a: &Matrix, b: &Matrix) -> bool {
    ex(a.a, b.a) && ex(a.b, b.b) && ex(a.c, b.c) && ex(a.d, b.d) && ex(a.e, b.e) && ex(a.f, b.f)
}
fn prim_ex(a: &Primitive, b: &Primitive) -> bool {
    match (a, b) {
        (Primitive::Number(x), Primitive::Number(y)) => ex(*x, *y),
        (Primitive::Array(x), Primitive::Array(y)) => x.len() == y.len() && x.iter().zip(y).all(|(p, q)| prim_ex(p, q)),
        (Primitive::Dictionary(x), Primitive::Dictionary(y)) => {
            x.len() == y.len() && x.iter().zip(y.iter()).all(|((k1, v1), (k2, v2))| k1 == k2 && prim_ex(v1, v2))
        }
        _ => a == b,
    }
}
fn opt_prim_ex(a: &Option<Primitive>, b: &Option<Primitive>) -> bool {
    match (a, b) {
        (None, None) => true,
        (Some(x), Some(y)) => prim_ex(x, y),
        _ => false,
    }
}
fn color_ex(a: &Color, b: &Color) -> bool {
    match (a, b) {
        (Color::Gray(x), Color::Gray(y)) => ex(*x, *y),
        (Color::Rgb(x), Color::Rgb(y)) => ex(x.red, y.red) && ex(x.green, y.green) && ex(x.blue, y.blue),
        (Color::Cmyk(x), Color::Cmyk(y)) => ex(x.cyan, y.cyan) && ex(x.magenta, y.magenta) && ex(x.yellow, y.yellow) && ex(x.key, y.key),
        (Color::Other(x), Color::Other(y)) => x.len() == y.len() && x.iter().zip(y).all(|(p, q)| prim_ex(p, q)),
        _ => false,
    }
}
fn tja_ex(a: &Tja, b: &Tja) -> bool {
    match (a, b) {
        (Tja::Text(x), Tja::Text(y)) => x.as_bytes() == y.as_bytes(),
        (Tja::Spacing(x), Tja::Spacing(y)) => ex(*x, *y),
        _ => false,
    }
}
fn op_same(a: &Op, b: &Op) -> bool {
    use Op::*;
    match (a, b) {
        (BeginMarkedContent { tag: t1, properties: p1 }, BeginMarkedContent { tag: t2, properties: p2 }) => t1 == t2 && opt_prim_ex(p1, p2),
        (EndMarkedContent, EndMarkedContent) => true,
        (MarkedContentPoint { tag: t1, properties: p1 }, MarkedContentPoint { tag: t2, properties: p2 }) => t1 == t2 && opt_prim_ex(p1, p2),
        (Close, Close) => true,
        (MoveTo { p: p1 }, MoveTo { p: p2 }) => pt_ex(*p1, *p2),
        (LineTo { p: p1 }, LineTo { p: p2 }) => pt_ex(*p1, *p2),
        // c1 (v) and c2 (y) may be rebuilt from the other side of an f32 `==`: IEEE-equal (num_same)
        (CurveTo { c1: a1, c2: a2, p: a3 }, CurveTo { c1: b1, c2: b2, p: b3 }) => pt_ieee(*a1, *b1) && pt_ieee(*a2, *b2) && pt_ex(*a3, *b3),
        (Rect { rect: r1 }, Rect { rect: r2 }) => ex(r1.x, r2.x) && ex(r1.y, r2.y) && ex(r1.width, r2.width) && ex(r1.height, r2.height),
        (EndPath, EndPath) => true,
        (Stroke, Stroke) => true,
        (FillAndStroke { winding: w1 }, FillAndStroke { winding: w2 }) => w1 == w2,
        (Fill { winding: w1 }, Fill { winding: w2 }) => w1 == w2,
        (Shade { name: n1 }, Shade { name: n2 }) => n1 == n2,
        (Clip { winding: w1 }, Clip { winding: w2 }) => w1 == w2,
        (Save, Save) => true,
        (Restore, Restore) => true,
        (Transform { matrix: m1 }, Transform { matrix: m2 }) => mx_ex(m1, m2),
        (LineWidth { width: x }, LineWidth { width: y }) => ex(*x, *y),
        (Dash { pattern: p1, phase: x }, Dash { pattern: p2, phase: y }) => {
            ex(*x, *y) && p1.len() == p2.len() && p1.iter().zip(p2).all(|(u, v)| ex(*u, *v))
        }
        (LineJoin { join: x }, LineJoin { join: y }) => x == y,
        (LineCap { cap: x }, LineCap { cap: y }) => x == y,
        (MiterLimit { limit: x }, MiterLimit { limit: y }) => ex(*x, *y),
        (Flatness { tolerance: x }, Flatness { tolerance: y }) => ex(*x, *y),
        (GraphicsState { name: n1 }, GraphicsState { name: n2 }) => n1 == n2,
        (StrokeColor { color: c1 }, StrokeColor { color: c2 }) => color_ex(c1, c2),
        (FillColor { color: c1 }, FillColor { color: c2 }) => color_ex(c1, c2),
        (FillColorSpace { name: n1 }, FillColorSpace { name: n2 }) => n1 == n2,
        (StrokeColorSpace { name: n1 }, StrokeColorSpace { name: n2 }) => n1 == n2,
        (RenderingIntent { intent: x }, RenderingIntent { intent: y }) => format!("{:?}", x) == format!("{:?}", y),
        (BeginText, BeginText) => true,
        (EndText, EndText) => true,
        (CharSpacing { char_space: x }, CharSpacing { char_space: y }) => ex(*x, *y),
        (WordSpacing { word_space: x }, WordSpacing { word_space: y }) => ex(*x, *y),
        (TextScaling { horiz_scale: x }, TextScaling { horiz_scale: y }) => ex(*x, *y),
        // TD rebuilds the leading as -ty: IEEE-equal (num_same)
        (Leading { leading: x }, Leading { leading: y }) => ieee(*x, *y),
        (TextFont { name: n1, size: x }, TextFont { name: n2, size: y }) => n1 == n2 && ex(*x, *y),
        (TextRenderMode { mode: x }, TextRenderMode { mode: y }) => x == y,
        (TextRise { rise: x }, TextRise { rise: y }) => ex(*x, *y),
        (MoveTextPosition { translation: x }, MoveTextPosition { translation: y }) => pt_ex(*x, *y),
        (SetTextMatrix { matrix: m1 }, SetTextMatrix { matrix: m2 }) => mx_ex(m1, m2),
        (TextNewline, TextNewline) => true,
        (TextDraw { text: x }, TextDraw { text: y }) => x.as_bytes() == y.as_bytes(),
        (TextDrawAdjusted { array: x }, TextDrawAdjusted { array: y }) => x.len() == y.len() && x.iter().zip(y).all(|(u, v)| tja_ex(u, v)),
        (XObject { name: n1 }, XObject { name: n2 }) => n1 == n2,
        _ => false,
    }
}

// ------------------------------------------------------------------------------------------------ the check
struct Tally { group: &'static str, total: usize, failed: Vec<(usize, String)> }
impl Tally {
    fn new(group: &'static str) -> Tally { Tally { group, total: 0, failed: Vec::new() } }
    fn check(&mut self, ops: &[Op]) {
        self.total += 1;
        let verdict = match serialize_ops(ops) {
            Err(e) => Some(format!("serialize_ops -> Err({:?})", e)),
            Ok(data) => match parse_ops(&data, &NoResolve) {
                Err(e) => Some(format!("stream {:?} -> parse_ops Err({:?})", String::from_utf8_lossy(&data), e)),
                Ok(back) => {
                    if back.len() == ops.len() && back.iter().zip(ops).all(|(a, b)| op_same(a, b)) {
                        None
                    } else {
                        Some(format!("stream {:?} -> parsed back {:?}", String::from_utf8_lossy(&data), back))
                    }
                }
            },
        };
        if let Some(v) = verdict {
            if self.failed.len() < 10_000 {
                let msg = format!("ops {:?} -> {}", ops, v).replace("\n\n", "\n").replace('\n', " ");
                self.failed.push((ops.len(), msg));
            } else {
                self.failed.push((usize::MAX, String::new()));
            }
        }
    }
    fn finish(mut self) {
        if self.failed.is_empty() {
            println!("{}: {} sequences round-trip", self.group, self.total);
            return;
        }
        let n = self.failed.len();
        self.failed.sort_by(|a, b| (a.0, a.1.len(), &a.1).cmp(&(b.0, b.1.len(), &b.1)));
        self.failed.dedup_by(|a, b| a.1 == b.1);
        // the message goes to stdout, closed by an empty line: vlib/native.py takes the text up to the first empty line as
        // the failing input of the replay (the panic itself only adds a back trace)
        println!("{}: {} of {} sequences do NOT round-trip (parse_ops(serialize_ops(ops)) != ops); shortest:", self.group, n, self.total);
        for (_, m) in self.failed.iter().take(3) {
            let m: String = m.chars().take(600).collect();
            println!("  FAILING INPUT: {}", m);
        }
        println!();
        panic!("{}: {} of {} sequences do not round-trip", self.group, n, self.total);
    }
}

// ------------------------------------------------------------------------------------------------ generators
fn pt(x: f32, y: f32) -> Point { Point { x, y } }
fn nm(s: &str) -> Name { Name::from(s) }
fn ps(b: &[u8]) -> PdfString { PdfString::new(b.into()) }
fn pname(s: &str) -> Primitive { Primitive::Name(s.into()) }
fn mx(v: [f32; 6]) -> Matrix { Matrix { a: v[0], b: v[1], c: v[2], d: v[3], e: v[4], f: v[5] } }
fn sweep<const N: usize>() -> Vec<[f32; N]> {
    let mut base = [0.0f32; N];
    base.copy_from_slice(&PRIMES[..N]);
    let mut out = vec![base];
    for k in 0..N {
        for &n in NUMS.iter() {
            let mut v = base;
            v[k] = n;
            out.push(v);
        }
    }
    out
}
fn nested_dict() -> Primitive {
    let mut inner = Dictionary::new();
    inner.insert("K", Primitive::Integer(-3));
    inner.insert("a#b c", Primitive::Number(2.0));
    let mut d = Dictionary::new();
    d.insert("MCID", Primitive::Integer(7));
    d.insert("R", Primitive::Number(1.0));
    d.insert("F", Primitive::Number(-0.25));
    d.insert("N", pname("a b#/c"));
    d.insert("S", Primitive::String(ps(b"a (b) \\ c\r\n")));
    d.insert("H", Primitive::String(ps(b"\x80\xff")));
    d.insert("A", Primitive::Array(vec![Primitive::Integer(1), Primitive::Number(2.5), Primitive::Number(3.0), pname("N"), Primitive::Array(vec![])]));
    d.insert("B", Primitive::Boolean(true));
    d.insert("Z", Primitive::Null);
    d.insert("D", Primitive::Dictionary(inner));
    Primitive::Dictionary(d)
}
fn other_operand_lists() -> Vec<Vec<Primitive>> {
    use Primitive::*;
    let mut v: Vec<Vec<Primitive>> = vec![
        vec![],
        vec![Integer(1)],
        vec![Integer(0), Integer(-1), Integer(255)],
        vec![Number(1.0)],
        vec![Number(1.0), Number(0.0), Number(0.5), pname("P1")],
        vec![Number(0.25), Number(0.5), pname("P1")],
        vec![Integer(1), Number(1.0), Integer(1)],
        vec![Boolean(true), Boolean(false)],
        vec![Null],
        vec![Array(vec![])],
        vec![Array(vec![Integer(1), Number(2.5), Number(3.0), pname("N"), String(ps(b"(s)"))])],
        vec![String(ps(b"a (b) \\ c")), Array(vec![Integer(1), Number(2.5), pname("N")])],
        vec![Number(0.5), pname("Gr\u{e4}tings/2")],
        vec![nested_dict()],
    ];
    for &n in NUMS.iter() {
        v.push(vec![Number(n)]);
        v.push(vec![Number(n), Number(0.5), pname("P 1")]);
    }
    for n in NAMES.iter() {
        v.push(vec![pname(n)]);
        v.push(vec![Number(1.0), pname(n)]);
    }
    for s in STRS.iter() {
        v.push(vec![String(ps(s))]);
        v.push(vec![Array(vec![String(ps(s)), Number(1.0)])]);
    }
    v
}
fn modes() -> [TextMode; 6] {
    [TextMode::Fill, TextMode::Stroke, TextMode::FillThenStroke, TextMode::Invisible, TextMode::FillAndClip, TextMode::StrokeAndClip]
}
fn intents() -> [Intent; 4] {
    [Intent::AbsoluteColorimetric, Intent::RelativeColorimetric, Intent::Saturation, Intent::Perceptual]
}

fn singles() -> Vec<Op> {
    use Op::*;
    let mut v = vec![EndMarkedContent, Close, EndPath, Stroke, Save, Restore, BeginText, EndText, TextNewline];
    for w in [Winding::EvenOdd, Winding::NonZero] {
        v.push(FillAndStroke { winding: w });
        v.push(Fill { winding: w });
        v.push(Clip { winding: w });
    }
    for cap in [Cap::Butt, Cap::Round, Cap::Square] { v.push(LineCap { cap }); }
    for join in [Join::Miter, Join::Round, Join::Bevel] { v.push(LineJoin { join }); }
    for mode in modes() { v.push(TextRenderMode { mode }); }
    for intent in intents() { v.push(RenderingIntent { intent }); }
    for &n in NUMS.iter() {
        v.push(LineWidth { width: n });
        v.push(MiterLimit { limit: n });
        v.push(Flatness { tolerance: n });
        v.push(CharSpacing { char_space: n });
        v.push(WordSpacing { word_space: n });
        v.push(TextScaling { horiz_scale: n });
        v.push(Leading { leading: n });
        v.push(TextRise { rise: n });
        v.push(StrokeColor { color: Color::Gray(n) });
        v.push(FillColor { color: Color::Gray(n) });
        v.push(Dash { pattern: vec![], phase: n });
        v.push(Dash { pattern: vec![n], phase: 0.0 });
        v.push(Dash { pattern: vec![n], phase: n });
        v.push(Dash { pattern: vec![3.0, n, 0.5], phase: 1.0 });
        v.push(Dash { pattern: vec![n, 1.0, n], phase: 2.0 });
        v.push(TextDrawAdjusted { array: vec![Tja::Spacing(n)] });
        v.push(TextDrawAdjusted { array: vec![Tja::Text(ps(b"a")), Tja::Spacing(n), Tja::Text(ps(b"b"))] });
        v.push(TextDrawAdjusted { array: vec![Tja::Spacing(n), Tja::Spacing(-120.5), Tja::Text(ps(b"b"))] });
        for &m in NUMS.iter() {
            v.push(MoveTo { p: pt(n, m) });
            v.push(LineTo { p: pt(n, m) });
            v.push(MoveTextPosition { translation: pt(n, m) });
        }
    }
    for a in sweep::<3>() {
        v.push(StrokeColor { color: Color::Rgb(Rgb { red: a[0], green: a[1], blue: a[2] }) });
        v.push(FillColor { color: Color::Rgb(Rgb { red: a[0], green: a[1], blue: a[2] }) });
    }
    for a in sweep::<4>() {
        v.push(StrokeColor { color: Color::Cmyk(Cmyk { cyan: a[0], magenta: a[1], yellow: a[2], key: a[3] }) });
        v.push(FillColor { color: Color::Cmyk(Cmyk { cyan: a[0], magenta: a[1], yellow: a[2], key: a[3] }) });
        v.push(Rect { rect: ViewRect { x: a[0], y: a[1], width: a[2], height: a[3] } });
    }
    for a in sweep::<6>() {
        v.push(Transform { matrix: mx(a) });
        v.push(SetTextMatrix { matrix: mx(a) });
        v.push(CurveTo { c1: pt(a[0], a[1]), c2: pt(a[2], a[3]), p: pt(a[4], a[5]) });
        // the `y` shape (c2 == p) and the "c1 is the origin" shape (the reader starts at 0 0, the writer at "unknown")
        v.push(CurveTo { c1: pt(a[0], a[1]), c2: pt(a[4], a[5]), p: pt(a[4], a[5]) });
        v.push(CurveTo { c1: pt(0.0, 0.0), c2: pt(a[2], a[3]), p: pt(a[4], a[5]) });
    }
    for ops in other_operand_lists() {
        v.push(StrokeColor { color: Color::Other(ops.clone()) });
        v.push(FillColor { color: Color::Other(ops) });
    }
    for n in NAMES.iter() {
        v.push(Shade { name: nm(n) });
        v.push(GraphicsState { name: nm(n) });
        v.push(FillColorSpace { name: nm(n) });
        v.push(StrokeColorSpace { name: nm(n) });
        v.push(XObject { name: nm(n) });
        v.push(BeginMarkedContent { tag: nm(n), properties: None });
        v.push(MarkedContentPoint { tag: nm(n), properties: None });
        v.push(BeginMarkedContent { tag: nm(n), properties: Some(nested_dict()) });
        v.push(MarkedContentPoint { tag: nm(n), properties: Some(nested_dict()) });
        for m in NAMES.iter() {
            v.push(BeginMarkedContent { tag: nm(n), properties: Some(pname(m)) });
            v.push(MarkedContentPoint { tag: nm(n), properties: Some(pname(m)) });
        }
        for &s in NUMS.iter() {
            v.push(TextFont { name: nm(n), size: s });
        }
    }
    v.push(BeginMarkedContent { tag: nm("Span"), properties: Some(Primitive::Dictionary(Dictionary::new())) });
    for s in STRS.iter() {
        v.push(TextDraw { text: ps(s) });
        v.push(TextDrawAdjusted { array: vec![Tja::Text(ps(s))] });
        v.push(TextDrawAdjusted { array: vec![Tja::Text(ps(s)), Tja::Text(ps(s))] });
        v.push(TextDrawAdjusted { array: vec![Tja::Spacing(-250.0), Tja::Text(ps(s)), Tja::Spacing(0.5)] });
    }
    v.push(TextDrawAdjusted { array: vec![] });
    v
}

/// one representative per writer arm, operands pairwise distinct so that a leak or a swap shows
fn reps() -> Vec<Op> {
    use Op::*;
    vec![
        BeginMarkedContent { tag: nm("Span"), properties: Some(nested_dict()) },
        BeginMarkedContent { tag: nm("T g"), properties: Some(pname("P#1")) },
        BeginMarkedContent { tag: nm("Art"), properties: None },
        MarkedContentPoint { tag: nm("Pt"), properties: Some(nested_dict()) },
        MarkedContentPoint { tag: nm("M/P"), properties: None },
        EndMarkedContent,
        Close,
        MoveTo { p: pt(10.0, 20.0) },
        LineTo { p: pt(30.5, -40.0) },
        CurveTo { c1: pt(1.0, 2.0), c2: pt(3.0, 4.0), p: pt(5.0, 6.0) },
        CurveTo { c1: pt(10.0, 20.0), c2: pt(7.0, 8.0), p: pt(9.0, 10.0) },   // c1 = the MoveTo representative
        CurveTo { c1: pt(30.5, -40.0), c2: pt(7.5, 8.5), p: pt(9.5, 10.5) },  // c1 = the LineTo representative
        CurveTo { c1: pt(5.0, 6.0), c2: pt(11.0, 12.0), p: pt(13.0, 14.0) },  // c1 = end of the first curve
        CurveTo { c1: pt(15.0, 16.0), c2: pt(17.0, 18.0), p: pt(17.0, 18.0) }, // c2 == p
        CurveTo { c1: pt(0.0, 0.0), c2: pt(19.0, 21.0), p: pt(22.0, 23.0) },  // c1 = where the reader starts
        Rect { rect: ViewRect { x: 1.5, y: 2.5, width: 100.0, height: 200.0 } },
        EndPath,
        Stroke,
        FillAndStroke { winding: Winding::NonZero },
        FillAndStroke { winding: Winding::EvenOdd },
        Fill { winding: Winding::NonZero },
        Fill { winding: Winding::EvenOdd },
        Shade { name: nm("Sh 1") },
        Clip { winding: Winding::NonZero },
        Clip { winding: Winding::EvenOdd },
        Save,
        Restore,
        Transform { matrix: mx([1.0, 0.5, -0.5, 2.0, 100.0, 65535.0]) },
        LineWidth { width: 0.75 },
        Dash { pattern: vec![], phase: 0.0 },
        Dash { pattern: vec![3.0, 1.5, 2.0], phase: 4.0 },
        LineJoin { join: Join::Bevel },
        LineCap { cap: Cap::Round },
        MiterLimit { limit: 10.0 },
        Flatness { tolerance: 0.001 },
        GraphicsState { name: nm("GS#0") },
        StrokeColor { color: Color::Gray(0.25) },
        StrokeColor { color: Color::Rgb(Rgb { red: 0.1, green: 0.5, blue: 1.0 }) },
        StrokeColor { color: Color::Cmyk(Cmyk { cyan: 0.0, magenta: 0.25, yellow: 0.5, key: 1.0 }) },
        StrokeColor { color: Color::Other(vec![Primitive::Number(1.0), Primitive::Number(0.5), pname("P 1")]) },
        StrokeColor { color: Color::Other(vec![]) },
        FillColor { color: Color::Gray(1.0) },
        FillColor { color: Color::Rgb(Rgb { red: 1.0, green: 0.0, blue: 0.5 }) },
        FillColor { color: Color::Cmyk(Cmyk { cyan: 1.0, magenta: 0.5, yellow: 0.25, key: 0.0 }) },
        FillColor { color: Color::Other(vec![Primitive::Integer(1), Primitive::Number(2.0), Primitive::String(ps(b"(s)"))]) },
        FillColor { color: Color::Other(vec![pname("Pat#(1)")]) },
        FillColorSpace { name: nm("Pattern") },
        StrokeColorSpace { name: nm("CS/0") },
        RenderingIntent { intent: Intent::Perceptual },
        RenderingIntent { intent: Intent::Saturation },
        BeginText,
        EndText,
        CharSpacing { char_space: 2.0 },
        WordSpacing { word_space: 1.0 },
        TextScaling { horiz_scale: 90.0 },
        Leading { leading: 14.0 },
        Leading { leading: 5.0 },
        TextFont { name: nm("F 1"), size: 12.0 },
        TextRenderMode { mode: TextMode::FillAndClip },
        TextRenderMode { mode: TextMode::StrokeAndClip },
        TextRise { rise: -3.0 },
        MoveTextPosition { translation: pt(3.0, -5.0) },   // ty == -(Leading 5)
        MoveTextPosition { translation: pt(-5.0, 3.0) },   // tx == -(Leading 5)
        MoveTextPosition { translation: pt(0.0, -14.0) },  // ty == -(Leading 14)
        SetTextMatrix { matrix: mx([1.0, 0.0, 0.0, 1.0, 72.0, 720.0]) },
        TextNewline,
        TextDraw { text: ps(b"Hello (world) \\ \r\n") },
        TextDraw { text: ps(b"\x80bin") },
        TextDrawAdjusted { array: vec![Tja::Text(ps(b"A")), Tja::Spacing(-120.0), Tja::Text(ps(b"(B)")), Tja::Spacing(0.5)] },
        XObject { name: nm("Im#1") },
    ]
}

/// (name, sequence): shorthand triggers and their near-misses
fn triggers() -> Vec<(&'static str, Vec<Op>)> {
    use Op::*;
    let a = pt(10.0, 20.0);
    let b = pt(30.5, -40.0);
    let c = pt(7.0, 8.0);
    let d = pt(9.0, 10.0);
    let e = pt(-1.0, -2.0);
    let tj = |s: &[u8]| TextDraw { text: ps(s) };
    vec![
        ("quote", vec![TextNewline, tj(b"one")]),
        ("quote-miss:T* T*", vec![TextNewline, TextNewline]),
        ("quote x2", vec![TextNewline, tj(b"one"), TextNewline, tj(b"(two)")]),
        ("dquote", vec![WordSpacing { word_space: 1.0 }, CharSpacing { char_space: 2.0 }, TextNewline, tj(b"dq")]),
        ("dquote equal spacings", vec![WordSpacing { word_space: 0.5 }, CharSpacing { char_space: 0.5 }, TextNewline, tj(b"dq")]),
        ("dquote-miss:Tc Tw order", vec![CharSpacing { char_space: 2.0 }, WordSpacing { word_space: 1.0 }, TextNewline, tj(b"dq")]),
        ("dquote-miss:no T*", vec![WordSpacing { word_space: 1.0 }, CharSpacing { char_space: 2.0 }, tj(b"dq")]),
        ("dquote-miss:Tw Tw", vec![WordSpacing { word_space: 1.0 }, WordSpacing { word_space: 3.0 }, CharSpacing { char_space: 2.0 }, TextNewline, tj(b"dq")]),
        ("TD", vec![Leading { leading: 5.0 }, MoveTextPosition { translation: pt(3.0, -5.0) }]),
        ("TD frac", vec![Leading { leading: -0.25 }, MoveTextPosition { translation: pt(65535.0, 0.25) }]),
        ("TD zero (sign of zero)", vec![Leading { leading: 0.0 }, MoveTextPosition { translation: pt(1.0, 0.0) }]),
        ("TD big", vec![Leading { leading: 2147483648.0 }, MoveTextPosition { translation: pt(0.0, -2147483648.0) }]),
        ("TD-miss:leading == -tx", vec![Leading { leading: 5.0 }, MoveTextPosition { translation: pt(-5.0, 2.0) }]),
        ("TD-miss:leading == +ty", vec![Leading { leading: 5.0 }, MoveTextPosition { translation: pt(3.0, 5.0) }]),
        ("TD-miss:other leading", vec![Leading { leading: 5.5 }, MoveTextPosition { translation: pt(3.0, -5.0) }]),
        ("TD-miss:tx == ty == -leading", vec![Leading { leading: 5.0 }, MoveTextPosition { translation: pt(-5.0, -5.0) }]),
        ("TD-miss:TL TL Td", vec![Leading { leading: 1.0 }, Leading { leading: 5.0 }, MoveTextPosition { translation: pt(3.0, -5.0) }]),
        ("v after m", vec![MoveTo { p: a }, CurveTo { c1: a, c2: c, p: d }]),
        ("v after l", vec![MoveTo { p: a }, LineTo { p: b }, CurveTo { c1: b, c2: c, p: d }]),
        ("v after c", vec![MoveTo { p: a }, CurveTo { c1: e, c2: c, p: d }, CurveTo { c1: d, c2: e, p: b }]),
        ("v after v", vec![MoveTo { p: a }, CurveTo { c1: a, c2: c, p: d }, CurveTo { c1: d, c2: e, p: b }]),
        ("v and y both apply", vec![MoveTo { p: a }, CurveTo { c1: a, c2: d, p: d }]),
        ("v-miss:c1 = start of subpath after l", vec![MoveTo { p: a }, LineTo { p: b }, CurveTo { c1: a, c2: c, p: d }]),
        ("v-miss:c1 = start of subpath after l h", vec![MoveTo { p: a }, LineTo { p: b }, Close, CurveTo { c1: a, c2: c, p: d }]),
        ("v-miss:c1 = c2 of previous curve", vec![MoveTo { p: a }, CurveTo { c1: e, c2: c, p: d }, CurveTo { c1: c, c2: e, p: b }]),
        ("v-miss:c1.x only", vec![MoveTo { p: a }, CurveTo { c1: pt(10.0, 21.0), c2: c, p: d }]),
        ("v-miss:c1 swapped coordinates", vec![MoveTo { p: a }, CurveTo { c1: pt(20.0, 10.0), c2: c, p: d }]),
        ("v-miss:c1 = origin, nothing before", vec![CurveTo { c1: pt(0.0, 0.0), c2: c, p: d }]),
        ("v-miss:c1 = rect corner", vec![Rect { rect: ViewRect { x: 10.0, y: 20.0, width: 5.0, height: 6.0 } }, CurveTo { c1: a, c2: c, p: d }]),
        ("v after m re", vec![MoveTo { p: a }, Rect { rect: ViewRect { x: 1.0, y: 2.0, width: 5.0, height: 6.0 } }, CurveTo { c1: a, c2: c, p: d }]),
        ("v after m q Q", vec![MoveTo { p: a }, Save, Restore, CurveTo { c1: a, c2: c, p: d }]),
        ("v after m S", vec![MoveTo { p: a }, Stroke, CurveTo { c1: a, c2: c, p: d }]),
        ("y", vec![MoveTo { p: a }, CurveTo { c1: e, c2: d, p: d }]),
        ("y-miss:c2.x only", vec![MoveTo { p: a }, CurveTo { c1: e, c2: pt(9.0, 10.5), p: d }]),
        ("y-miss:c1 == p", vec![MoveTo { p: a }, CurveTo { c1: d, c2: c, p: d }]),
        ("y-miss:c1 == c2", vec![MoveTo { p: a }, CurveTo { c1: c, c2: c, p: d }]),
        ("s", vec![Close, Stroke]),
        ("b", vec![Close, FillAndStroke { winding: Winding::NonZero }]),
        ("b*", vec![Close, FillAndStroke { winding: Winding::EvenOdd }]),
        ("s-miss:h f", vec![Close, Fill { winding: Winding::NonZero }]),
        ("s-miss:h f*", vec![Close, Fill { winding: Winding::EvenOdd }]),
        ("s-miss:h n", vec![Close, EndPath]),
        ("s-miss:h h S", vec![Close, Close, Stroke]),
        ("s-miss:S h", vec![Stroke, Close]),
        ("s-miss:h W S", vec![Close, Clip { winding: Winding::NonZero }, Stroke]),
    ]
}

// all sequences over `alpha` of length 1..=maxlen
fn all_sequences(alpha: &[Op], maxlen: usize, t: &mut Tally) {
    let k = alpha.len();
    let mut seq: Vec<Op> = Vec::with_capacity(maxlen);
    for len in 1..=maxlen {
        for code in 0..k.pow(len as u32) {
            seq.clear();
            let mut c = code;
            for _ in 0..len {
                seq.push(alpha[c % k].clone());
                c /= k;
            }
            t.check(&seq);
        }
    }
}

// ------------------------------------------------------------------------------------------------ the tests
#[test]
fn c08_g1_every_variant_alone_boundary_operands() {
    let mut t = Tally::new("G1 singles");
    t.check(&[]);
    for op in singles() {
        t.check(std::slice::from_ref(&op));
    }
    t.finish();
}

#[test]
fn c08_g2_every_ordered_pair_of_variants() {
    let mut t = Tally::new("G2 ordered pairs");
    let r = reps();
    for x in r.iter() {
        for y in r.iter() {
            t.check(&[x.clone(), y.clone()]);
        }
    }
    t.finish();
}

#[test]
fn c08_g3_shorthand_windows_and_near_misses() {
    let mut t = Tally::new("G3 shorthand windows");
    let r = reps();
    let trig = triggers();
    for (_, seq) in trig.iter() {
        t.check(seq);
        // twice in a row, and followed by its own head (overlapping windows)
        let mut twice = seq.clone();
        twice.extend(seq.iter().cloned());
        t.check(&twice);
        for x in r.iter() {
            // preceded by x, followed by x
            let mut s = vec![x.clone()];
            s.extend(seq.iter().cloned());
            t.check(&s);
            let mut s = seq.clone();
            s.push(x.clone());
            t.check(&s);
            // x in every gap; every proper prefix followed by x
            for gap in 1..seq.len() {
                let mut s: Vec<Op> = seq[..gap].to_vec();
                s.push(x.clone());
                t.check(&s);
                s.extend(seq[gap..].iter().cloned());
                t.check(&s);
            }
        }
    }
    // every trigger between every two of a reduced set of representatives
    let small: Vec<Op> = r.iter().step_by(3).cloned().collect();
    for (_, seq) in trig.iter() {
        for x in small.iter() {
            for y in small.iter() {
                let mut s = vec![x.clone()];
                s.extend(seq.iter().cloned());
                s.push(y.clone());
                t.check(&s);
            }
        }
    }
    // all sequences of length <= 4 over the operations that take part in text / painting shorthands
    use Op::*;
    let alpha = vec![
        WordSpacing { word_space: 1.0 },
        CharSpacing { char_space: 2.0 },
        TextNewline,
        TextDraw { text: ps(b"a(b") },
        TextDrawAdjusted { array: vec![Tja::Text(ps(b"t")), Tja::Spacing(3.0)] },
        Leading { leading: 5.0 },
        Leading { leading: 0.0 },
        MoveTextPosition { translation: pt(3.0, -5.0) },
        MoveTextPosition { translation: pt(-5.0, 0.0) },
        Close,
        Stroke,
        FillAndStroke { winding: Winding::NonZero },
        FillAndStroke { winding: Winding::EvenOdd },
        Fill { winding: Winding::EvenOdd },
        EndPath,
        BeginText,
    ];
    all_sequences(&alpha, 4, &mut t);
    t.finish();
}

#[test]
fn c08_g4_current_point_all_short_path_sequences() {
    use Op::*;
    let a = pt(10.0, 20.0);
    let b = pt(30.5, -40.0);
    let c = pt(7.0, 8.0);
    let d = pt(9.0, 10.0);
    let alpha = vec![
        MoveTo { p: a },
        LineTo { p: b },
        CurveTo { c1: a, c2: c, p: d },            // v exactly when the current point is a
        CurveTo { c1: b, c2: d, p: d },            // v when at b, else y
        CurveTo { c1: d, c2: c, p: a },            // v when at d (after one of the two above)
        CurveTo { c1: pt(0.0, 0.0), c2: c, p: b }, // c1 = where the reader starts
        Close,
        Rect { rect: ViewRect { x: 10.0, y: 20.0, width: 30.5, height: -40.0 } },
        EndPath,
        Stroke,
        FillAndStroke { winding: Winding::NonZero },
        Save,
        Restore,
    ];
    let mut t = Tally::new("G4 path sequences");
    all_sequences(&alpha, 5, &mut t);
    t.finish();
}
