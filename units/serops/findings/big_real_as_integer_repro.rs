// Repro for finding `big_real_as_integer` (C08 "all operand values incl. boundary reals"; outside the reach of the
// Verus contract: it lives in the TRUSTED assumption about `Display for f32`, which is why `f32_ok` excludes |x| >= 2^31).
// Drop into a scratch copy of /repo as  pdf/tests/serops_big_real.rs  and run
//   cargo test --offline -p pdf --test serops_big_real
// On the pinned tree `large_finite_reals_read_back` FAILS; with findings/big_real_as_integer_fix.diff it passes.
// `f32_ok_domain_reads_back` is the (sampled) native check of the trusted assumption itself and passes on both trees.
use pdf::content::{parse_ops, serialize_ops, Op};
use pdf::object::NoResolve;

fn back(x: f32) -> Option<f32> {
    let written = serialize_ops(&[Op::LineWidth { width: x }]).unwrap();
    match parse_ops(&written, &NoResolve) {
        Ok(ops) => match ops.as_slice() { [Op::LineWidth { width }] => Some(*width), _ => None },
        Err(_) => None,
    }
}

#[test]
fn large_finite_reals_read_back() {
    for x in [2147483648.0f32, 4294967296.0, 1e20, 3.4e38, f32::MAX, -2147483904.0, -1e20, f32::MIN] {
        assert_eq!(back(x), Some(x), "{} written as {:?}", x, String::from_utf8_lossy(&serialize_ops(&[Op::LineWidth { width: x }]).unwrap()));
    }
}

#[test]
fn f32_ok_domain_reads_back() {
    // every 4099th bit pattern (about one million values) + the boundaries of the domain
    let mut n = 0u64;
    let mut bits = 0u32;
    loop {
        let x = f32::from_bits(bits);
        let ok = x.is_finite() && x >= -2147483648.0 && x < 2147483648.0 && !(x == 0.0 && x.is_sign_negative());
        if ok {
            let b = back(x);
            assert!(b.map(|y| y.to_bits()) == Some(x.to_bits()), "{:e} (bits {:#x}) read back as {:?}", x, bits, b);
            n += 1;
        }
        match bits.checked_add(4099) { Some(b) => bits = b, None => break }
    }
    for x in [0.0f32, 1.0, -1.0, 2147483520.0, -2147483648.0, f32::MIN_POSITIVE, 1e-45, -1e-45, 16777216.0, 0.1, 1e-7] {
        assert_eq!(back(x).map(|y| y.to_bits()), Some(x.to_bits()), "{:e}", x);
    }
    assert!(n > 400_000);
}

#[test]
fn outside_the_domain() {
    // documented, not claimed: the sign of zero is lost; NaN and infinities are written as bare words and do not parse
    assert_eq!(back(-0.0).map(|y| y.to_bits()), Some(0.0f32.to_bits()));
    assert_eq!(back(f32::NAN).map(|y| y.to_bits()), None);
    assert_eq!(back(f32::INFINITY), None);
}
