// Repro for finding `td_guard_x` (C08, obligation serops/serialize_ops/round_trip).
// Drop into a scratch copy of /repo as  pdf/tests/serops_td_guard_x.rs  and run
//   cargo test --offline -p pdf --test serops_td_guard_x
// On the pinned tree `td_merge_reads_back` FAILS; with findings/td_guard_x_fix.diff all three pass.
use pdf::content::{parse_ops, serialize_ops, Op, Point};
use pdf::object::NoResolve;

fn round_trip(ops: &[Op]) -> (String, String, String) {
    let written = serialize_ops(ops).unwrap();
    let back = parse_ops(&written, &NoResolve).unwrap();
    (String::from_utf8_lossy(&written).into_owned(), format!("{:?}", ops), format!("{:?}", back))
}

#[test]
fn td_merge_reads_back() {
    // leading == -translation.x, but != -translation.y: the pinned writer merges into `-5 2 TD`,
    // which means Leading{-2} (ISO 32000-1 Table 108: `tx ty TD` == `-ty TL tx ty Td`)
    let (text, a, b) = round_trip(&[Op::Leading { leading: 5.0 }, Op::MoveTextPosition { translation: Point { x: -5.0, y: 2.0 } }]);
    assert_eq!(a, b, "wrote {:?}", text);
}

#[test]
fn td_shorthand_is_chosen_when_it_applies() {
    // leading == -translation.y: the shorthand applies (the pinned writer does not take it; not a round-trip defect)
    let (text, a, b) = round_trip(&[Op::Leading { leading: 5.0 }, Op::MoveTextPosition { translation: Point { x: 3.0, y: -5.0 } }]);
    assert_eq!(a, b, "wrote {:?}", text);
}

#[test]
fn td_not_merged_across_other_ops() {
    let (text, a, b) = round_trip(&[Op::Leading { leading: 5.0 }, Op::TextNewline, Op::MoveTextPosition { translation: Point { x: 3.0, y: -5.0 } }]);
    assert_eq!(a, b, "wrote {:?}", text);
}
