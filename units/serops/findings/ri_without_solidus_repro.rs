// Repro for finding `ri_without_solidus` (C08, obligation serops/serialize_ops/round_trip).
// Drop into a scratch copy of /repo as  pdf/tests/serops_ri.rs  and run
//   cargo test --offline -p pdf --test serops_ri
// On the pinned tree both tests FAIL; with findings/ri_without_solidus_fix.diff they pass.
use pdf::content::{parse_ops, serialize_ops, Op};
use pdf::object::{NoResolve, RenderingIntent};

#[test]
fn rendering_intent_is_written_as_a_name() {
    let written = serialize_ops(&[Op::RenderingIntent { intent: RenderingIntent::Perceptual }]).unwrap();
    assert_eq!(String::from_utf8_lossy(&written), "/Perceptual ri\n");
}

#[test]
fn rendering_intent_reads_back() {
    for intent in [RenderingIntent::AbsoluteColorimetric, RenderingIntent::RelativeColorimetric,
                   RenderingIntent::Saturation, RenderingIntent::Perceptual] {
        let ops = [Op::Save, Op::RenderingIntent { intent }, Op::Restore];
        let written = serialize_ops(&ops).unwrap();
        let back = parse_ops(&written, &NoResolve).unwrap();
        assert_eq!(format!("{:?}", &ops[..]), format!("{:?}", back), "wrote {:?}", String::from_utf8_lossy(&written));
    }
}
