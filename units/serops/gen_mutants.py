#!/usr/bin/env python3
"""Regenerates mutants/*.diff and benign/*.diff against the CURRENT /repo (run by hand).
Every mutant = ONE property-breaking edit of /repo.  (On trees older than a36c21f / 0a73882 the two repairs of
findings/ are applied first and carried in the diff, because without them round_trip already fails.)"""
import os, subprocess, tempfile, shutil
HERE = os.path.dirname(os.path.abspath(__file__))
F = 'pdf/src/content.rs'
src = open('/repo/' + F).read()

FIXES = [
    ('[Op::MoveTextPosition { translation }, ..] if leading == -translation.x => {',
     '[Op::MoveTextPosition { translation }, ..] if leading == -translation.y => {'),
    ('            Op::RenderingIntent { intent } => writeln!(f, "{} ri", intent.to_str())?,\n',
     '            Op::RenderingIntent { intent } => {\n                serialize_name(intent.to_str(), f)?;\n                writeln!(f, " ri")?;\n            },\n'),
]


def fixed(text, skip=()):
    for i, (a, b) in enumerate(FIXES):
        if i in skip:
            continue
        if a in text:
            text = text.replace(a, b, 1)
        else:
            assert b in text, 'neither pinned nor fixed shape found: %r' % a
    return text


def edit(text, a, b):
    assert text.count(a) == 1, (text.count(a), a)
    return text.replace(a, b, 1)


MUTANTS = {
 'dquote_operands_swapped': ('serialize_ops/round_trip', '`"` written with its two numbers swapped (ac aw string instead of aw ac string)',
    lambda t: edit(t, 'write!(f, "{} {} ", word_space, char_space)?;', 'write!(f, "{} {} ", char_space, word_space)?;')),
 'quote_without_newline': ('serialize_ops/round_trip', "`'` emitted for a lone TextDraw (no preceding TextNewline in the input)",
    lambda t: edit(t, '                text.serialize(f)?;\n                writeln!(f, " Tj")?;', '                text.serialize(f)?;\n                writeln!(f, " \'")?;')),
 'v_when_c1_differs': ('serialize_ops/round_trip', '`v` chosen when c2 (not c1) equals the current point',
    lambda t: edit(t, 'if Some(c1) == current_point {', 'if Some(c2) == current_point {')),
 'window_dquote_drops_op': ('serialize_ops/', 'after the `"` merge the window advances by 5 instead of 4: the next operation is dropped (window_advance) and `ops[5..]` panics when the merge ends the input (panic_free)',
    lambda t: edit(t, 'advance += 3;', 'advance += 4;')),
 'window_td_duplicates_op': ('serialize_ops/window_advance', 'after the TD merge the window advances by 1: MoveTextPosition is written a second time',
    lambda t: edit(t, '                    writeln!(f, "{} {} TD", translation.x, translation.y)?;\n                    advance += 1;', '                    writeln!(f, "{} {} TD", translation.x, translation.y)?;')),
 'bstar_written_as_b': ('serialize_ops/round_trip', 'Close + FillAndStroke{EvenOdd} written as `b` (non-zero winding)',
    lambda t: edit(t, 'writeln!(f, "b*")?;', 'writeln!(f, "b")?;')),
 'lineto_keeps_current_point': ('serialize_ops/current_point', 'LineTo no longer updates the current point used for the `v` shorthand',
    lambda t: edit(t, '                writeln!(f, "{} l", p)?;\n                current_point = Some(p);', '                writeln!(f, "{} l", p)?;')),
 'tj_without_separator': ('serialize_ops/', 'TJ array elements written without the separating blank (`-5 3.5` becomes `-53.5`)',
    lambda t: edit(t, '                    if i > 0 {\n                        write!(f, " ")?;\n                    }\n', '')),
 'td_guard_on_x': ('serialize_ops/round_trip', 'TD merge guarded by leading == -translation.x again (reverts a36c21f; findings/td_guard_x.md)',
    lambda t: edit(t, 'if leading == -translation.y => {', 'if leading == -translation.x => {')),
 'ri_without_solidus': ('serialize_ops/round_trip', 'rendering intent written as a bare word again (reverts 0a73882; findings/ri_without_solidus.md)',
    lambda t: edit(t, '                serialize_name(intent.to_str(), f)?;\n                writeln!(f, " ri")?;', '                writeln!(f, "{} ri", intent.to_str())?;')),
 'quote_merge_across_gap': ('serialize_ops/', "`'` merge looks two operations ahead: TextNewline, X, TextDraw merged and X dropped",
    lambda t: edit(t, 'if let [Op::TextDraw { ref text }, ..] = ops[1..] {', 'if let [_, Op::TextDraw { ref text }, ..] = ops[1..] {')),
}
BENIGN = {
 'swap_save_restore_arms': lambda t: edit(t, '            Op::Save => writeln!(f, "q")?,\n            Op::Restore => writeln!(f, "Q")?,\n',
                                           '            Op::Restore => writeln!(f, "Q")?,\n            Op::Save => writeln!(f, "q")?,\n'),
 'moveto_sets_point_first': lambda t: edit(t, '                writeln!(f, "{} m", p)?;\n                current_point = Some(p);',
                                            '                current_point = Some(p);\n                writeln!(f, "{} m", p)?;'),
 'y_before_v': lambda t: edit(edit(t, 'if Some(c1) == current_point {\n                    writeln!(f, "{} {} v", c2, p)?;\n                } else if c2 == p {\n                    writeln!(f, "{} {} y", c1, p)?;',
                                     'if c2 == p {\n                    writeln!(f, "{} {} y", c1, p)?;\n                } else if Some(c1) == current_point {\n                    writeln!(f, "{} {} v", c2, p)?;'), 'zzzz_never', 'zzzz_never') if False else
               edit(t, 'if Some(c1) == current_point {\n                    writeln!(f, "{} {} v", c2, p)?;\n                } else if c2 == p {\n                    writeln!(f, "{} {} y", c1, p)?;',
                       'if c2 == p {\n                    writeln!(f, "{} {} y", c1, p)?;\n                } else if Some(c1) == current_point {\n                    writeln!(f, "{} {} v", c2, p)?;'),
}


def mkdiff(new_text, header, out):
    d = tempfile.mkdtemp()
    try:
        for side, text in (('a', src), ('b', new_text)):
            os.makedirs(os.path.join(d, side, os.path.dirname(F)))
            open(os.path.join(d, side, F), 'w').write(text)
        p = subprocess.run(['diff', '-u', 'a/' + F, 'b/' + F], cwd=d, capture_output=True, text=True)
        lines = p.stdout.split('\n')
        lines[0] = '--- a/' + F
        lines[1] = '+++ b/' + F
        open(out, 'w').write(header + '\n'.join(lines))
    finally:
        shutil.rmtree(d)


# a failing run costs 10-20 minutes (see NOTES.md "Performance"): bin/mutants runs mutants/, the rest sits in mutants_extra/
EXTRA = {'lineto_keeps_current_point', 'tj_without_separator', 'quote_merge_across_gap', 'ri_without_solidus', 'window_dquote_drops_op'}
for d in ('mutants', 'mutants_extra'):
    os.makedirs(os.path.join(HERE, d), exist_ok=True)
for name, (expect, what, fn) in MUTANTS.items():
    mkdiff(fn(fixed(src)), '# expect: %s\n# %s\n' % (expect, what),
           os.path.join(HERE, 'mutants_extra' if name in EXTRA else 'mutants', name + '.diff'))
for name, fn in BENIGN.items():
    mkdiff(fn(fixed(src)), '# benign edit: must NOT be reported as failed\n', os.path.join(HERE, 'benign', name + '.diff'))
print('mutants:', sorted(os.listdir(os.path.join(HERE, 'mutants'))))
print('benign:', sorted(os.listdir(os.path.join(HERE, 'benign'))))
