"""Unit `serops` (C08, write side): content::serialize_ops against the parse-side operator table of units/ops.
`python3 units/serops/gen_fmt.py` regenerates fmt_macros.rs (write!/writeln! arms); the operator table itself is
units/ops/table_spec.rs (generated there from ISO 32000-1 Annex A)."""
F = 'pdf/src/content.rs'
P = 'pdf/src/primitive.rs'
T = 'pdf/src/object/types.rs'

COPY = ['#[derive(Clone, Copy)]']


def decl(file, header, attrs=None, rewrites=None, container=None):
    return {'kind': 'decl', 'file': file, 'header': header, 'container': container, 'attrs': attrs or [], 'rewrites': rewrites or []}


# one operation pattern inside a slice pattern: `Op::X`, `Op::X { .. }`
PAT = r'(?:_|Op::\w+(?:\s*\{[^{}]*\})?)'


def display_fmt(ty, spec, facts):
    """`impl Display for <ty>`: fmt emitted as an inherent fn (R2); the formatter is the sink (R7)"""
    return {'kind': 'fn', 'file': F, 'container': r'^impl Display for %s$' % ty, 'name': 'fmt', 'props': ['C08'],
            'ensures': [('in_order', 'r is Ok && final(f).st() == %s(old(f).st(), *self)' % spec), ('token_facts', '%s(*self)' % facts)],
            'rewrites': [
                {'where': 'sig', 'rule': 'R7', 'find': 'f: &mut fmt::Formatter', 'replace': 'f: &mut Out'},
                {'where': 'sig', 'rule': 'R3', 'find': 'fmt::Result', 'replace': 'Result<()>'},
                {'where': 'sig', 'rule': 'R2', 'find': 'fn fmt', 'replace': 'pub fn fmt'}]}


H = 'all_ok(ops0)'

SER_REWRITES = [
    # R7: the sink (a local Vec<u8>) is the reader-state model `Out`
    {'where': 'sig', 'rule': 'R7', 'find': 'Result<Vec<u8>>', 'replace': 'Result<Out>'},
    # R2: `mut ops` parameter -> immutable parameter + `let mut ops` (the input stays nameable in the contract)
    {'where': 'sig', 'rule': 'R2', 'find': 'mut ops: &[Op]', 'replace': 'ops_in: &[Op]'},
    {'rule': 'R2', 'find': 'use std::io::Write;', 'replace': ''},
    {'rule': 'R1', 'find': 'Ok(data)', 'replace': 'proof { lemma_tail_end(ops@, ops0, n); lemma_reads_end(f.st(), cuts, lasts, ops0, n, f.st().last); } Ok(data)'},
    # R7 + R1: ghost bookkeeping (segmentation witnesses) declared next to the sink
    {'rule': 'R7', 'find': 'let mut data = Vec::new();',
     'replace': 'hide(group_k); hide(arity_k); hide(pre_k); hide(expected_k); hide(is_relational_k); hide(rel_relational_k); hide(new_last_k); let mut ops = ops_in; let mut data = Out::new(); let ghost ops0 = ops@; proof { lemma_tail_start(ops0); lemma_reads_start(ops0); } let ghost mut n: int = 0; '
                'let ghost mut cuts: Seq<int> = seq![0int]; let ghost mut lasts: Seq<Point> = seq![origin()];'},
    {'rule': 'R1', 'find': 'let mut advance = 1;', 'replace': 'let mut advance = 1; let ghost s0 = f.st(); proof { lemma_tail_idx(ops@, ops0, n); lemma_ok_idx(ops0, n); }'},
    # R1: the three per-iteration checks and the ghost bookkeeping, at the end of the loop body.
    #  (1) round_trip: exactly one record was completed and it stands, under the table, for the operations at the head
    #      of the window; (2) window_advance: the window advances by exactly the number of operations the record stands
    #      for; (3) current_point: the reader's current point moved as Table 59 says for the operation written.
    # The three predicates are opaque outside their own `by` block; lemma_merge turns them into the loop invariant.
    {'rule': 'R1', 'find': 'ops = &ops[advance..];',
     'replace': 'proof { match ops0[n] { Op::Dash { pattern, phase } => { lemma_dash(st_open(s0), pattern@); }, _ => {} }\n'
                ' assert(%s ==> arm_rt(s0, f.st(), ops0, n)) //@L round_trip\n by { reveal(arm_rt); }\n'
                ' assert(%s ==> arm_adv(s0, f.st(), advance as int)) //@L window_advance\n by { reveal(arm_rt); reveal(arm_adv); }\n'
                ' assert(%s ==> arm_cp(s0, f.st(), ops0, n)) //@L current_point\n by { reveal(arm_rt); reveal(arm_cp); }\n'
                ' lemma_tail(ops@, ops0, n, advance as int); lemma_merge(s0, f.st(), cuts, lasts, ops0, n, advance as int); '
                'lasts = lasts.push(f.st().last); n = n + advance; cuts = cuts.push(n); } ops = &ops[advance..];' % (H, H, H)},
    # R2: deref coercion `&Name -> &str` written out
    {'rule': 'R2', 'regex': r'serialize_name\((\w+), f\)', 'count': '*', 'replace': r'serialize_name(\1.as_str(), f)'},
    # R10: slice patterns over the look-ahead window `ops[1..]` -> the same patterns over (ops.get(1), ops.get(2), ..).
    # `[P1, .., Pk, ..] = ops[1..]` matches iff ops has the elements 1..k and each matches; the patterns stay verbatim.
    {'rule': 'R10', 'regex': r'if let \[\s*(%s)\s*,\s*(%s)\s*,\s*(%s)\s*,\s*\.\.\s*\]\s*=\s*ops\[1\.\.\]' % (PAT, PAT, PAT), 'count': '*',
     'replace': r'if let (Some(\1), Some(\2), Some(\3)) = (ops.get(1), ops.get(2), ops.get(3))'},
    {'rule': 'R10', 'regex': r'if let \[\s*(%s)\s*,\s*(%s)\s*,\s*\.\.\s*\]\s*=\s*ops\[1\.\.\]' % (PAT, PAT), 'count': '*',
     'replace': r'if let (Some(\1), Some(\2)) = (ops.get(1), ops.get(2))'},
    {'rule': 'R10', 'regex': r'if let \[\s*(%s)\s*,\s*\.\.\s*\]\s*=\s*ops\[1\.\.\]' % PAT, 'count': '*',
     'replace': r'if let Some(\1) = ops.get(1)'},
    {'rule': 'R10', 'regex': r'match ops\[1\.\.\]\s*\{\s*\[\s*(%s)\s*,\s*\.\.\s*\]' % PAT, 'count': '*',
     'replace': r'match ops.get(1) { Some(\1)'},
    # R7: f32 negation / comparison, derived PartialEq of Point / Option<Point>
    {'rule': 'R7', 'regex': r'(?<![\w.)\]])-\s*(translation\.\w+)', 'count': '*', 'replace': r'f32_neg(\1)'},
    {'rule': 'R7', 'regex': r'\bif (\w+) == (f32_neg\([^()]*\)) =>', 'count': '*', 'replace': r'if f32_eq(\1, \2) =>'},
    {'rule': 'R7', 'regex': r'\bif (Some\(\w+\)) == (\w+) \{', 'count': '*', 'replace': r'if opt_pt_eq(\1, \2) {'},
    {'rule': 'R7', 'regex': r'\bif (c1|c2|p) == (c1|c2|p|\w+) \{', 'count': '*', 'replace': r'if pt_eq(\1, \2) {'},
    # R7: itertools `format`
    {'rule': 'R7', 'regex': r'(\w+)\.iter\(\)\.format\(" "\)', 'count': '*', 'replace': r'iter_format_sp(\1)'},
    # R7: inline format argument `{s}` == `{}` with argument s
    {'rule': 'R7', 'regex': r'write!\(f, "\{(\w+)\}"\)', 'count': '*', 'replace': r'write!(f, "{}", \1)'},
    # R6: enumerate -> index loop
    {'rule': 'R6', 'find': 'for (i, val) in array.iter().enumerate() {',
     'replace': 'for i in 0..array.len() { let val = &array[i];'},
    # R1: lemma hint for TJ (statement position, in front of the closing `] TJ`)
    {'rule': 'R1', 'regex': r'(writeln!\(f, "\] TJ"\))', 'count': '*',
     'replace': r'proof { if f.st().arr is Some { lemma_tj(f.st().arr->Some_0, array@); } } \1'},
    # R4: the crate's own `unimplemented!()` (pdf/src/error.rs) is `bail!("Unimplemented @ file:line")`: an Err, not a panic
    {'rule': 'R4', 'regex': r'unimplemented!\(\)', 'count': '*', 'replace': 'bail!("Unimplemented")'},
]

INNER_ARGS_INV = [
    '%s ==> st_rest(s0)' % H, '%s ==> forall|j: int| 0 <= j < args@.len() ==> prim_ok(#[trigger] args@[j])' % H,
    '%s ==> (f.st().recs == s0.recs && f.st().last == s0.last && prefix_is(seq_of(f.st().pend), args@, it.index@ as int) && !f.st().bad && !f.st().glued && f.st().arr is None)' % H,
]
INNER_TJ_INV = [
    '%s ==> st_rest(s0)' % H, '%s ==> forall|j: int| 0 <= j < array@.len() ==> tja_ok(#[trigger] array@[j])' % H,
    '%s ==> (f.st().recs == s0.recs && f.st().last == s0.last && f.st().pend == s0.pend && !f.st().bad && (i == 0 ==> !f.st().glued) '
    '&& f.st().arr is Some && tj_prefix_is(f.st().arr->Some_0, array@, i as int))' % H,
]

UNIT = {
 'name': 'serops',
 'doc': 'serialize_ops (look-ahead merging writer) reads back, under the operator table of units/ops, as the sequence it was given',
 'rlimit': 250, 'timeout': 6000,
 'deviations': {},
 'allowed_assumes': [],
 'items': {
  'enum Primitive': decl(P, r'^pub enum Primitive$'),
  'struct Name': decl(P, r'^pub struct Name\b'),
  'enum RenderingIntent': decl(T, r'^pub enum RenderingIntent$', COPY),
  'enum Winding': decl(F, r'^pub enum Winding$', COPY),
  'enum LineCap': decl(F, r'^pub enum LineCap$', COPY),
  'enum LineJoin': decl(F, r'^pub enum LineJoin$', COPY),
  'struct Point': decl(F, r'^pub struct Point$', COPY),
  'struct ViewRect': decl(F, r'^pub struct ViewRect$', COPY),
  'struct Matrix': decl(F, r'^pub struct Matrix$', COPY),
  'enum Color': decl(F, r'^pub enum Color$'),
  'enum TextMode': decl(F, r'^pub enum TextMode$', COPY),
  'struct Rgb': decl(F, r'^pub struct Rgb$', COPY),
  'struct Cmyk': decl(F, r'^pub struct Cmyk$', COPY),
  'enum TextDrawAdjusted': decl(F, r'^pub enum TextDrawAdjusted$'),
  'enum Op': decl(F, r'^pub enum Op$'),

  'Point::fmt': display_fmt('Point', 'st_pt', 'pt_facts'),
  'ViewRect::fmt': display_fmt('ViewRect', 'st_rect', 'rect_facts'),
  'Matrix::fmt': display_fmt('Matrix', 'st_matrix', 'matrix_facts'),
  'Rgb::fmt': display_fmt('Rgb', 'st_rgb', 'rgb_facts'),
  'Cmyk::fmt': display_fmt('Cmyk', 'st_cmyk', 'cmyk_facts'),

  'RenderingIntent::to_str': {'kind': 'fn', 'file': T, 'container': r'^impl RenderingIntent$', 'name': 'to_str', 'props': ['C08'],
     'ensures': [('table70_intents', 'intent_of_str(r@) == Some(self)')],
     'rewrites': [{'rule': 'R1', 'regex': r'\A\s*\{', 'replace': '{ proof { lemma_literals(); }'}]},

  'serialize_ops': {'kind': 'fn', 'file': F, 'container': None, 'name': 'serialize_ops', 'props': ['C08'],
     'ensures': [
        # C08, first sentence: the stream reads back (operator table of units/ops) as exactly the sequence given
        ('round_trip', 'all_ok(ops_in@) ==> (r matches Ok(d) && round_trip(d.st(), ops_in@))'),
        ('accepts', 'all_ok(ops_in@) ==> r is Ok'),
     ],
     'loops': {
        1: {'invariant': [
               'ops0 == ops_in@', '0 <= n <= ops0.len()', 'is_tail(ops@, ops0, n)',
               ('round_trip', '%s ==> st_rest(f.st())' % H),
               ('round_trip', '%s ==> reads_to(f.st().recs, cuts, lasts, ops0, n, f.st().last)' % H),
               ('current_point', '%s ==> (current_point is Some ==> current_point == Some(f.st().last))' % H)],
            'decreases': 'ops@.len()'},
        2: {'for_ghost': 'it', 'invariant': INNER_ARGS_INV},
        3: {'for_ghost': 'it', 'invariant': INNER_ARGS_INV},
        4: {'invariant': INNER_TJ_INV},
     },
     'rewrites': SER_REWRITES},
 },
}
