#!/usr/bin/env python3
"""Generator of units/serops/fmt_macros.rs (run by hand: `python3 units/serops/gen_fmt.py`; output is committed).

R7 for `write!` / `writeln!`: Verus cannot read `std::fmt`.  The template shadows the two macros by `macro_rules!`
whose arms are *literal* format strings; an arm expands to the sequence of sink operations that std::fmt performs
for that format string:

    literal text is written verbatim, every `{}` is replaced by the `Display` output of the next argument (in
    order, each evaluated once), `writeln!` appends "\\n".

The translation of a format string into sink operations is done HERE (function `pieces`), mechanically:
    ' ' , '\\n'            -> put_sp      (white-space)
    '['  / ']'            -> put_open / put_close
    '{}'                  -> Disp::disp(&arg, f)        (trait `Disp` of the template = `Display`)
    maximal run of other  -> put_kw(f, "run")           (a bare word of regular characters: an operator keyword)
A format string that has no arm (e.g. after an edit of /repo) does not compile: the unit is UNDECIDED, never wrong.

The arms are NOT read from /repo: they are every keyword of ISO 32000-1 Annex A (the TABLE of units/ops/gen_table.py)
in each of the operand shapes below, plus the keyword-free shapes used by `write!` and the `Display` impls.
"""
import os, re, sys, importlib.util

HERE = os.path.dirname(os.path.abspath(__file__))
spec = importlib.util.spec_from_file_location('gen_table', os.path.join(HERE, '..', 'ops', 'gen_table.py'))
gt = importlib.util.module_from_spec(spec)
spec.loader.exec_module(gt)
KEYWORDS = [r[0] for r in gt.TABLE]
KROW = {r[0]: i for i, r in enumerate(gt.TABLE, 1)}      # row numbers as in table_spec.rs (`kw`)

# shapes: %s = keyword
LN_SHAPES = ['%s', ' %s', '{} %s', '{} {} %s', '{} {} {} %s', ' {} %s', '[{}] {} %s', '] %s']
# keyword-free format strings (write! and Display impls)
PLAIN = [' ', '[', ']', '{}', '{} ', '{} {}', '{} {} ', '{} {} {}', '{} {} {} {}', '{} {} {} {} {} {}']


def pieces(fmt):
    """std::fmt semantics of a format string made of `{}`, blanks, brackets and bare words."""
    out = []
    i = 0
    word = ''
    nargs = 0

    def flush():
        nonlocal word
        if word:
            out.append(('kw', word))
            word = ''
    while i < len(fmt):
        c = fmt[i]
        if fmt.startswith('{}', i):
            flush(); out.append(('arg', nargs)); nargs += 1; i += 2; continue
        if c in '{}':
            raise ValueError('unsupported format spec in %r' % fmt)
        if c in ' \n':
            flush(); out.append(('sp',))
        elif c == '[':
            flush(); out.append(('open',))
        elif c == ']':
            flush(); out.append(('close',))
        else:
            word += c
        i += 1
    flush()
    return out, nargs


def rlit(s):
    return '"%s"' % s.replace('\\', '\\\\').replace('"', '\\"')


def arm(fmt, newline):
    ps, n = pieces(fmt + ('\n' if newline else ''))
    params = ''.join(', $a%d:expr' % i for i in range(n))
    body = []
    j = 0
    while j < len(ps):
        p = ps[j]
        if p[0] == 'arg':
            body.append('Disp::disp(&$a%d, $f);' % p[1])
        elif p[0] == 'sp':
            body.append('put_sp($f);')
        elif p[0] == 'open':
            body.append('put_open($f);')
        elif p[0] == 'close':
            body.append('put_close($f);')
        elif p[0] == 'kw':
            if p[1] in KROW:
                body.append('put_kw_%d($f);' % KROW[p[1]])       # the table keyword of row KROW: see kw_fns.rs
            else:
                body.append('put_kw($f, %s);' % rlit(p[1]))
        j += 1
    return '    ($f:expr, %s%s) => { { %s wr_done() } };' % (rlit(fmt), params, ' '.join(body))


def subst(e, n, from_expr='from'):
    """table expression over the operand sequence `a` -> the same expression over the operand tokens t0..t{n-1}"""
    e = re.sub(r'pt_of\(a, (\d+)\)', lambda m: 'Point { x: num_of(t%d), y: num_of(t%d) }' % (int(m.group(1)), int(m.group(1)) + 1), e)
    e = re.sub(r'\ba\[(\d+)\]', lambda m: 't%d' % int(m.group(1)), e)
    e = re.sub(r'\ba\.len\(\) >= \d+', 'true', e)
    e = e.replace('ii is Ok', 'no_ii() is Ok').replace('ii->Ok_0', 'no_ii()->Ok_0')
    e = e.replace('out.len() == 1', 'true').replace('out[0]', 'ops[%s]' % from_expr)
    return e


def row_facts():
    """kw_fns.rs: one sink operation per table keyword.  `put_kw_<row>(f)` writes the keyword (body: put_kw); its
    VERIFIED postcondition is row <row> of table_spec.rs, pre-digested for the operands pending at that moment:
    what `row_ok_k(row, operands, last, ops, from, to)` means when the pending operands are exactly t0..t{n-1}
    (n = the arity the table lists).  The big function hides the table and row_ok_k and only uses these digests, so
    it never unfolds a 73-way `if` chain nor indexes into a sequence of operands.  The expressions are produced from
    gen_table.py's TABLE exactly as gen_table.main() produces table_spec.rs, with a[i] replaced by t<i>; a
    discrepancy makes the small wrapper fail (UNDECIDED), never the property."""
    o = ['// GENERATED by units/serops/gen_fmt.py from units/ops/gen_table.py TABLE. Do not edit by hand.']
    for i, (kw, g, sig, ops, last) in enumerate(gt.TABLE, 1):
        conds = []
        if sig not in ('*', '!') and len(sig) > 0:
            conds.append('a.len() >= %d' % len(sig))
            for j, k in enumerate(sig):
                pr = gt.KIND_PRED[k] % j if '%d' in gt.KIND_PRED[k] else gt.KIND_PRED[k]
                if pr != 'true':
                    conds.append(pr)
        extra = (gt.SPECIAL.get(kw) or gt.RELATIONAL.get(kw) or ('true',))[0]
        if extra != 'true':
            conds.append('(' + extra + ')')
        pre = ' && '.join(conds) if conds else 'true'
        n = -1 if (sig in ('*',) or kw in gt.ANY_OPERANDS) else (0 if sig == '!' else len(sig))
        rel = kw in gt.RELATIONAL
        if rel:
            c = 1
            body = [gt.RELATIONAL[kw][1]]
        else:
            ops2 = ops if ops is not None else gt.SPECIAL[kw][1]
            c = len(ops2)
            body = ['op_same(ops[from + %d], %s)' % (j, gt.expand(x)) if j else 'op_same(ops[from], %s)' % gt.expand(x) for j, x in enumerate(ops2)]
        nl = gt.expand(last) if last else 'last'
        if n >= 0:
            # fixed arity: digest over the tokens t0..t{n-1} of the pending list l (exactly n elements)
            lets = []
            cur = 'l'
            shape = []
            for j in range(n - 1, -1, -1):
                shape.append('%s is Snoc' % cur)
                lets.append('let t%d = tl_last(%s);' % (j, cur))
                cur = 'tl_init(%s)' % cur
            shape.append('%s is Nil' % cur)
            cond = ' && '.join(['0 <= from', 'to == from + %d' % c, 'to <= ops.len()', '(%s)' % subst(pre, n)] + ['(%s)' % subst(b, n) for b in body])
            ens = ['(%s) ==> ({ %s' % (' && '.join(shape), ' '.join(lets)),
                   '    row_count_k(%d, a, last) == %d && new_last_k(%d, a, last) == %s' % (i, c, i, subst(nl, n)),
                   '    && (forall|ops: Seq<Op>, from: int, to: int| #[trigger] row_ok_k(%d, a, last, ops, from, to) == (%s)) })' % (i, cond)]
        else:
            # variable arity: the operands stay a sequence
            cond = ' && '.join(['0 <= from', 'to == from + %d' % c, 'to <= ops.len()', '(%s)' % subst(pre, 0)] + ['(%s)' % subst(b, 0) for b in body])
            ens = ['(row_count_k(%d, a, last) == %d && new_last_k(%d, a, last) == %s' % (i, c, i, nl),
                   '    && (forall|ops: Seq<Op>, from: int, to: int| #[trigger] row_ok_k(%d, a, last, ops, from, to) == (%s)))' % (i, cond)]
        o.append('fn put_kw_%d(f: &mut Out)   // %s' % (i, kw))
        o.append('    ensures final(f).st() == st_kw(old(f).st(), %s@), kw(%s@) == %d,' % (gt.lit(kw), gt.lit(kw), i))
        o.append('        ({ let l = old(f).st().pend; let a = seq_of(l); let last = old(f).st().last;')
        o.append('           %s })' % '\n           '.join(ens))
        o.append('{ proof { lemma_kw_%d(); reveal(row_ok_k); reveal(row_count_k); reveal_with_fuel(seq_of, 8); } put_kw(f, %s); }' % (i - 1, gt.lit(kw)))
    with open(os.path.join(HERE, 'kw_fns.rs'), 'w') as fh:
        fh.write('\n'.join(o) + '\n')
    print('wrote kw_fns.rs: %d keyword writers' % len(gt.TABLE))


def main():
    row_facts()
    o = ['// GENERATED by units/serops/gen_fmt.py. Do not edit by hand.',
         '// R7: `write!`/`writeln!` as literal-format-string arms -> sink operations (std::fmt semantics, see gen_fmt.py).']
    o.append('macro_rules! writeln {')
    seen = set()
    for kw in KEYWORDS:
        for sh in LN_SHAPES:
            f = sh % kw
            if f in seen:
                continue
            seen.add(f)
            o.append(arm(f, True))
    o.append('}')
    o.append('macro_rules! write {')
    for f in PLAIN:
        o.append(arm(f, False))
    o.append('}')
    with open(os.path.join(HERE, 'fmt_macros.rs'), 'w') as fh:
        fh.write('\n'.join(o) + '\n')
    print('wrote fmt_macros.rs: %d writeln arms, %d write arms' % (len(seen), len(PLAIN)))


if __name__ == '__main__':
    main()
