// Repro for finding objstm_offset_overflow (unit objstm, obligation objstm/ObjectStream::get_object_slice/panic_free).
// Drop into a scratch copy of /repo as pdf/tests/objstm_offset_overflow.rs and run
//   cargo test --offline -p pdf --test objstm_offset_overflow
//
// A syntactically valid file: object 4 lives in object stream 3 (xref stream entry type 2). The header of the
// object stream gives object 4 the offset 18446744073709551615 (= usize::MAX), /First is 24.
// `ObjectStream::get_object_slice` computes `self.inner.info.first + self.offsets[index]` unchecked:
// with overflow checks on (every debug / test build) resolving `4 0 R` panics
// ("attempt to add with overflow"); with overflow checks off the sum wraps to 23 and the member is cut
// out of the wrong place. Expected (C14/C01): an error value, never a panic.
use pdf::file::FileOptions;
use pdf::object::{PlainRef, Resolve};

fn build(header: &str) -> Vec<u8> {
    let mut out: Vec<u8> = Vec::new();
    let mut pos = [0usize; 6];
    out.extend_from_slice(b"%PDF-1.5\n");
    pos[1] = out.len();
    out.extend_from_slice(b"1 0 obj\n<< /Type /Catalog /Pages 2 0 R >>\nendobj\n");
    pos[2] = out.len();
    out.extend_from_slice(b"2 0 obj\n<< /Type /Pages /Kids [] /Count 0 >>\nendobj\n");
    // object stream 3 with one member (object 4)
    let mut body = format!("{:<23}\n", header).into_bytes(); // header padded to 24 bytes = /First
    assert_eq!(body.len(), 24);
    body.extend_from_slice(b"<< /Foo 1 >>");
    pos[3] = out.len();
    out.extend_from_slice(format!("3 0 obj\n<< /Type /ObjStm /N 1 /First 24 /Length {} >>\nstream\n", body.len()).as_bytes());
    out.extend_from_slice(&body);
    out.extend_from_slice(b"\nendstream\nendobj\n");
    // xref stream 5, /W [1 2 1]
    pos[5] = out.len();
    let mut x: Vec<u8> = Vec::new();
    x.extend_from_slice(&[0, 0, 0, 0]);                                   // 0: free
    for id in 1..=3 { x.extend_from_slice(&[1, (pos[id] >> 8) as u8, pos[id] as u8, 0]); }
    x.extend_from_slice(&[2, 0, 3, 0]);                                   // 4: member 0 of object stream 3
    x.extend_from_slice(&[1, (pos[5] >> 8) as u8, pos[5] as u8, 0]);      // 5: this stream
    out.extend_from_slice(format!("5 0 obj\n<< /Type /XRef /Size 6 /W [1 2 1] /Root 1 0 R /Length {} >>\nstream\n", x.len()).as_bytes());
    out.extend_from_slice(&x);
    out.extend_from_slice(b"\nendstream\nendobj\n");
    out.extend_from_slice(format!("startxref\n{}\n%%EOF\n", pos[5]).as_bytes());
    out
}

#[test]
fn control_wellformed_member_is_read() {
    // same file with the conforming header "4 0": object 4 is the dictionary << /Foo 1 >>
    let file = FileOptions::uncached().load(build("4 0")).expect("load");
    let p = file.resolver().resolve(PlainRef { id: 4, gen: 0 }).expect("member 0 of the object stream");
    assert!(p.into_dictionary().expect("dictionary").get("Foo").is_some());
}

#[test]
fn hostile_offset_must_be_an_error_not_a_panic() {
    let file = FileOptions::uncached().load(build("4 18446744073709551615")).expect("load");
    let r = std::panic::catch_unwind(std::panic::AssertUnwindSafe(|| {
        file.resolver().resolve(PlainRef { id: 4, gen: 0 }).map(|_| ())
    }));
    match r {
        Err(_) => panic!("resolving 4 0 R panicked (first + offsets[index] overflows)"),
        Ok(Ok(())) => panic!("a member at offset usize::MAX cannot be read successfully"),
        Ok(Err(_)) => {}
    }
}
