// BOUNDED native stand-in of unit `objstm` for C11 on the REAL public API (placed at pdf/tests/verif_c11_storage.rs by
// vlib/native.py). A test, not a proof: it decides restructurings of the compressed-object path (Storage::resolve_ref ->
// ObjectStream::from_primitive / get_object_slice -> parse) that the Verus units cannot read, on an enumerated small universe.
//
// Statement (C11): a value other than a stream resolves to the same Primitive whether it is stored as an ordinary indirect object or
// inside an object stream, at any position, with any filter on that stream; a stream's data is the same whether its /Length is a direct
// integer or a reference to an integer stored in either way.
//
// Universe (the BOUND). The generator below is hand-written; both files of a pair carry the SAME object texts.
//   VALUES V (19): integers, reals, names (with #xx), literal strings with escapes / nested parentheses / an EOL, hex strings, arrays,
//     nested dictionaries, references (to an object of the file: resolve follows it in both files), null, true, false.
//   MEMBER LISTS: for n in 1..=6, V[start + j*stride] (j < n) for every start and stride in {1, 7} (n >= 5: stride 1): every value occurs
//     at every position.
//   FILE A (plain): `k 0 obj <text> endobj` for every member, classic xref table + trailer.
//   FILE B (object stream): the members inside object stream 3, xref STREAM with type-2 entries (/W [1 2 1]); /First and the offset
//     table computed here; /Extends absent. LAYOUTS (9): header pairs and members separated by single blanks / by newlines / by CR LF,
//     with and without trailing white-space behind the last member, extra white-space in front of the first member, members stored in
//     ascending and in descending object-number order, object stream unfiltered / `/Filter /ASCIIHexDecode` / `/Filter [/ASCIIHexDecode]`.
//     A tenth layout (`abutting`: no white-space at all between members where the syntax needs none) runs in its own test.
//   READERS: FileOptions::uncached() and ::cached(), strict and tolerant parse options.
//   ORDER OF ACCESS: every permutation of the members for n <= 4; n = 5, 6: every rotation of the ascending and of the descending order
//     and every 6th (n = 6: every 24th) permutation in lexicographic order (30 / 42 orders). uncached: one document pair, all orders; cached: a fresh document
//     pair per order (its caches start empty). Every member is read twice in a row at the end of each order.
//   STREAM LENGTH: object 4+n of both files is a stream holding `HELLO`; its /Length is a reference to the member `5` when the list has
//     one (stored plain in A, compressed in B), else the direct integer 5: raw data must be `HELLO` in both.
// Checked: both loads succeed; for every member and every order resolve(k 0 R) is Ok in both files with equal Primitives (and equal to the
// hand-written expected value where the table gives one).
use pdf::file::FileOptions;
use pdf::object::{ParseOptions, PlainRef, Resolve};
use pdf::primitive::{Dictionary, PdfString, Primitive};
use std::panic::{catch_unwind, AssertUnwindSafe};

struct Val { text: &'static [u8], want: Option<Primitive> }

fn int(i: i32) -> Primitive { Primitive::Integer(i) }
fn name(s: &str) -> Primitive { Primitive::Name(s.into()) }
fn string(b: &[u8]) -> Primitive { Primitive::String(PdfString::new(b.into())) }
fn rf(id: u64) -> Primitive { Primitive::Reference(PlainRef { id, gen: 0 }) }
fn dict(e: Vec<(&str, Primitive)>) -> Primitive {
    let mut d = Dictionary::new();
    for (k, v) in e { d.insert(k, v); }
    Primitive::Dictionary(d)
}

fn values() -> Vec<Val> {
    let v = |text: &'static [u8], want: Primitive| Val { text, want: Some(want) };
    vec![
        v(b"5", int(5)),
        v(b"-17", int(-17)),
        v(b"3.25", Primitive::Number(3.25)),
        v(b"-.5", Primitive::Number(-0.5)),
        v(b"/Name", name("Name")),
        v(b"/A#20B#23", name("A B#")),
        v(b"(plain text)", string(b"plain text")),
        v(b"(a\\)b\\\\c\\n\\101(x(y))\\\nz)", string(b"a)b\\c\nA(x(y))z")),
        v(b"(two\nlines)", string(b"two\nlines")),
        v(b"<48 656C6C6F2>", string(b"Hello ")),
        v(b"[1 2 3]", Primitive::Array(vec![int(1), int(2), int(3)])),
        v(b"[]", Primitive::Array(vec![])),
        v(b"[/A (s) 1.5 [null true] 2 0 R 7]", Primitive::Array(vec![name("A"), string(b"s"), Primitive::Number(1.5),
            Primitive::Array(vec![Primitive::Null, Primitive::Boolean(true)]), rf(2), int(7)])),
        v(b"<< /A 1 /B << /C [ (x) /N 2 0 R ] /D << >> >> /E#45 (v) >>", dict(vec![("A", int(1)),
            ("B", dict(vec![("C", Primitive::Array(vec![string(b"x"), name("N"), rf(2)])), ("D", dict(vec![]))])), ("EE", string(b"v"))])),
        v(b"<</K/V>>", dict(vec![("K", name("V"))])),
        Val { text: b"2 0 R", want: None },   // a reference-valued object: resolve follows it (to the page tree root) in both files
        v(b"null", Primitive::Null),
        v(b"true", Primitive::Boolean(true)),
        v(b"false", Primitive::Boolean(false)),
    ]
}

#[derive(Clone, Copy)]
struct Layout { label: &'static str, hdr_sep: &'static [u8], hdr_end: &'static [u8], between: &'static [u8], trailing: &'static [u8], hex: u8, rev: bool }

fn layouts() -> Vec<Layout> {
    let l = |label, hdr_sep, hdr_end, between, trailing, hex, rev| Layout { label, hdr_sep, hdr_end, between, trailing, hex, rev };
    vec![
        l("blanks", b" ", b" ", b" ", b"", 0, false),
        l("newlines", b"\n", b"\n", b"\n", b"", 0, false),
        l("blanks+trailing blank", b" ", b" ", b" ", b" ", 0, false),
        l("newlines+trailing newline, descending", b"\n", b"\n", b"\n", b"\n", 0, true),
        l("CRLF between, CRLF trailing, padded header", b" ", b"  \n\n", b"\r\n", b"\r\n", 0, false),
        l("blanks, ASCIIHex", b" ", b" ", b" ", b"", 1, false),
        l("newlines+trailing, ASCIIHex in an array, descending", b"\n", b"\n", b"\n", b"\n", 2, true),
        l("blanks+trailing, ASCIIHex, descending", b" ", b"\n", b" ", b" ", 1, true),
        l("blanks, descending", b" ", b" ", b" ", b"", 0, true),
    ]
}
const ABUTTING: Layout = Layout { label: "abutting members", hdr_sep: b" ", hdr_end: b" ", between: b"", trailing: b"", hex: 0, rev: false };

fn is_delim(c: u8) -> bool { matches!(c, b'(' | b')' | b'<' | b'>' | b'[' | b']' | b'/') }

const FIRST_MEMBER: u64 = 4;
const CATALOG: &[u8] = b"<< /Type /Catalog /Pages 2 0 R >>";
const PAGES: &[u8] = b"<< /Type /Pages /Kids [] /Count 0 >>";

fn push_obj(out: &mut Vec<u8>, id: u64, body: &[u8]) -> usize {
    let pos = out.len();
    out.extend_from_slice(format!("{} 0 obj\n", id).as_bytes());
    out.extend_from_slice(body);
    out.extend_from_slice(b"\nendobj\n");
    pos
}

fn hello_stream(members: &[&Val]) -> Vec<u8> {
    let length = match members.iter().position(|m| m.text == b"5") {
        Some(i) => format!("{} 0 R", FIRST_MEMBER + i as u64),
        None => "5".to_string(),
    };
    format!("<< /Length {} >>\nstream\nHELLO\nendstream", length).into_bytes()
}

/// FILE A: every member an ordinary indirect object, classic table
fn build_plain(members: &[&Val]) -> Vec<u8> {
    let n = members.len() as u64;
    let mut out = b"%PDF-1.5\n".to_vec();
    let p1 = push_obj(&mut out, 1, CATALOG);
    let p2 = push_obj(&mut out, 2, PAGES);
    let mut pos = Vec::new();
    for (i, m) in members.iter().enumerate() { pos.push(push_obj(&mut out, FIRST_MEMBER + i as u64, m.text)); }
    pos.push(push_obj(&mut out, FIRST_MEMBER + n, &hello_stream(members)));
    let xref = out.len();
    out.extend_from_slice(b"xref\n0 3\n0000000000 65535 f \n");
    out.extend_from_slice(format!("{:010} 00000 n \n{:010} 00000 n \n", p1, p2).as_bytes());
    out.extend_from_slice(format!("{} {}\n", FIRST_MEMBER, n + 1).as_bytes());
    for p in pos { out.extend_from_slice(format!("{:010} 00000 n \n", p).as_bytes()); }
    out.extend_from_slice(format!("trailer\n<< /Size {} /Root 1 0 R >>\nstartxref\n{}\n%%EOF\n", FIRST_MEMBER + n + 1, xref).as_bytes());
    out
}

/// FILE B: the members inside object stream 3; None when the layout cannot hold this list (abutting regular characters)
fn build_compressed(members: &[&Val], l: Layout) -> Option<Vec<u8>> {
    let n = members.len();
    let order: Vec<usize> = if l.rev { (0..n).rev().collect() } else { (0..n).collect() };   // order[k] = member stored at index k
    // body and offsets (relative to /First)
    let mut body = Vec::new();
    let mut offs = Vec::new();
    for (k, &m) in order.iter().enumerate() {
        if k > 0 {
            if l.between.is_empty() {
                let (a, b) = (*body.last().unwrap(), members[m].text[0]);
                if !(is_delim(a) || is_delim(b)) { return None; }
            }
            body.extend_from_slice(l.between);
        }
        offs.push(body.len());
        body.extend_from_slice(members[m].text);
    }
    body.extend_from_slice(l.trailing);
    let mut header = Vec::new();
    for (k, &m) in order.iter().enumerate() {
        if k > 0 { header.extend_from_slice(l.hdr_sep); }
        header.extend_from_slice(format!("{}", FIRST_MEMBER + m as u64).as_bytes());
        header.extend_from_slice(l.hdr_sep);
        header.extend_from_slice(format!("{}", offs[k]).as_bytes());
    }
    header.extend_from_slice(l.hdr_end);
    let first = header.len();
    let mut data = header;
    data.extend_from_slice(&body);
    let (stored, filter): (Vec<u8>, &str) = match l.hex {
        0 => (data, ""),
        h => {
            let mut s = Vec::new();
            for (i, b) in data.iter().enumerate() {
                if i > 0 && i % 20 == 0 { s.push(b'\n'); }
                s.extend_from_slice(format!("{:02X}", b).as_bytes());
            }
            s.push(b'>');
            (s, if h == 1 { " /Filter /ASCIIHexDecode" } else { " /Filter [/ASCIIHexDecode]" })
        }
    };
    let mut objstm = format!("<< /Type /ObjStm /N {} /First {}{} /Length {} >>\nstream\n", n, first, filter, stored.len()).into_bytes();
    objstm.extend_from_slice(&stored);
    objstm.extend_from_slice(b"\nendstream");

    let mut out = b"%PDF-1.5\n".to_vec();
    let p1 = push_obj(&mut out, 1, CATALOG);
    let p2 = push_obj(&mut out, 2, PAGES);
    let p3 = push_obj(&mut out, 3, &objstm);
    let ps = push_obj(&mut out, FIRST_MEMBER + n as u64, &hello_stream(members));
    let px = out.len();
    assert!(px < 65536);
    let mut x: Vec<u8> = vec![0, 0, 0, 0];
    for p in [p1, p2, p3] { x.extend_from_slice(&[1, (p >> 8) as u8, p as u8, 0]); }
    for m in 0..n {
        let index = order.iter().position(|&o| o == m).unwrap();
        x.extend_from_slice(&[2, 0, 3, index as u8]);
    }
    for p in [ps, px] { x.extend_from_slice(&[1, (p >> 8) as u8, p as u8, 0]); }
    let size = FIRST_MEMBER + n as u64 + 2;
    out.extend_from_slice(format!("{} 0 obj\n<< /Type /XRef /Size {} /W [1 2 1] /Root 1 0 R /Length {} >>\nstream\n", size - 1, size, x.len()).as_bytes());
    out.extend_from_slice(&x);
    out.extend_from_slice(b"\nendstream\nendobj\n");
    out.extend_from_slice(format!("startxref\n{}\n%%EOF\n", px).as_bytes());
    Some(out)
}

fn show(b: &[u8]) -> String { b.iter().map(|&c| std::ascii::escape_default(c).to_string()).collect() }

fn permutations(n: usize) -> Vec<Vec<usize>> {
    fn rec(cur: &mut Vec<usize>, used: &mut Vec<bool>, n: usize, out: &mut Vec<Vec<usize>>) {
        if cur.len() == n { out.push(cur.clone()); return; }
        for i in 0..n { if !used[i] { used[i] = true; cur.push(i); rec(cur, used, n, out); cur.pop(); used[i] = false; } }
    }
    let mut out = Vec::new();
    rec(&mut Vec::new(), &mut vec![false; n], n, &mut out);
    out
}
fn orders(n: usize) -> Vec<Vec<usize>> { if n <= 4 { permutations(n) } else { sparse_orders(n) } }
fn sparse_orders(n: usize) -> Vec<Vec<usize>> {
    let all = permutations(n);
    let mut out: Vec<Vec<usize>> = Vec::new();
    for r in 0..n {
        out.push((0..n).map(|i| (i + r) % n).collect());
        out.push((0..n).map(|i| (n - 1 - i + r) % n).collect());
    }
    out.extend(all.into_iter().step_by(if n <= 5 { 6 } else { 24 }));
    out
}

struct Fails { n: usize, checked: usize, shown: Vec<String> }
impl Fails {
    fn push(&mut self, s: String) {
        self.n += 1;
        if self.shown.len() < 5 {
            let mut t: String = s.replace('\n', " ");
            if t.len() > 900 { let mut cut = 900; while !t.is_char_boundary(cut) { cut -= 1; } t.truncate(cut); t.push_str(" ..."); }
            self.shown.push(t);
        }
    }
    fn finish(self, what: &str) {
        if self.n > 0 {
            panic!("C11 bounded storage independence `{}`: {} of {} reads differ; first ones:\n  {}", what, self.n, self.checked, self.shown.join("\n  "));
        }
        println!("{}: {} reads checked", what, self.checked);
    }
}

fn read(r: &impl Resolve, id: u64) -> Result<Primitive, String> {
    match catch_unwind(AssertUnwindSafe(|| r.resolve(PlainRef { id, gen: 0 }))) {
        Err(_) => Err("PANICKED".to_string()),
        Ok(Err(e)) => Err(format!("Err({:?})", e)),
        Ok(Ok(p)) => Ok(p),
    }
}
fn read_stream(r: &impl Resolve, id: u64) -> Result<Vec<u8>, String> {
    match read(r, id)? {
        Primitive::Stream(s) => match catch_unwind(AssertUnwindSafe(|| s.raw_data(r))) {
            Err(_) => Err("raw_data PANICKED".to_string()),
            Ok(Err(e)) => Err(format!("raw_data Err({:?})", e)),
            Ok(Ok(d)) => Ok(d.to_vec()),
        },
        p => Err(format!("not a stream: {:?}", p)),
    }
}

/// One (document pair, reader, order): reads every member in `order`, then each member twice, then the stream.
fn compare(ra: &impl Resolve, rb: &impl Resolve, members: &[&Val], order: &[usize], what: &dyn Fn() -> String, f: &mut Fails) {
    let n = members.len();
    let twice: Vec<usize> = (0..n).flat_map(|i| [i, i]).collect();
    for &m in order.iter().chain(twice.iter()) {
        f.checked += 1;
        let id = FIRST_MEMBER + m as u64;
        let (a, b) = (read(ra, id), read(rb, id));
        let bad = match (&a, &b) {
            (Ok(x), Ok(y)) => x != y || members[m].want.as_ref().map_or(false, |w| w != y),
            _ => true,
        };
        if bad {
            f.push(format!("{}: object {} `{}` (order {:?}): plain = {:?}, in the object stream = {:?}, denoted {:?}", what(), id, show(members[m].text), order, a, b, members[m].want));
        }
    }
    f.checked += 1;
    let sid = FIRST_MEMBER + n as u64;
    let (a, b) = (read_stream(ra, sid), read_stream(rb, sid));
    if a.as_deref() != Ok(&b"HELLO"[..]) || b.as_deref() != Ok(&b"HELLO"[..]) {
        f.push(format!("{}: stream {} `{}`: data with plain storage = {:?}, with compressed storage = {:?}, expected HELLO", what(), sid, show(&hello_stream(members)), a, b));
    }
}

fn run(layouts: &[Layout], ns: std::ops::RangeInclusive<usize>, what: &str, min_checked: usize) {
    std::panic::set_hook(Box::new(|info| {
        let m = info.payload().downcast_ref::<String>().cloned().or_else(|| info.payload().downcast_ref::<&str>().map(|s| s.to_string())).unwrap_or_default();
        if m.starts_with("C11 bounded") || m.starts_with("only ") { eprintln!("{}", m); }
    }));
    let v = values();
    let mut f = Fails { n: 0, checked: 0, shown: Vec::new() };
    for n in ns {
        let ords = orders(n);
        let cached_ords: Vec<Vec<usize>> = ords.clone();
        for stride in [1usize, 7] {
            if n >= 5 && stride == 7 { continue; }
            for start in 0..v.len() {
                if f.n > 300 { break; }   // enough failing inputs to report: do not spend minutes on a broken tree
                let members: Vec<&Val> = (0..n).map(|j| &v[(start + j * stride) % v.len()]).collect();
                let plain = build_plain(&members);
                for &l in layouts {
                    let comp = match build_compressed(&members, l) { Some(c) => c, None => continue };
                    for mode in ["strict", "tolerant"] {
                        let opts = || if mode == "strict" { ParseOptions::strict() } else { ParseOptions::tolerant() };
                        let what = |cache: &str| format!("[{}] {} {} members {:?}; FILE B = b\"{}\"", l.label, mode, cache,
                                                          members.iter().map(|m| show(m.text)).collect::<Vec<_>>(), show(&comp));
                        // uncached: one pair of documents, every order
                        match (FileOptions::uncached().parse_options(opts()).load(plain.clone()), FileOptions::uncached().parse_options(opts()).load(comp.clone())) {
                            (Ok(a), Ok(b)) => for o in &ords { compare(&a.resolver(), &b.resolver(), &members, o, &|| what("uncached"), &mut f); },
                            (a, b) => { f.checked += 1; f.push(format!("{}: load plain = {:?}, load compressed = {:?}", what("uncached"), a.err(), b.err())); }
                        }
                        // cached: a fresh pair per order
                        for o in &cached_ords {
                            match (FileOptions::cached().parse_options(opts()).load(plain.clone()), FileOptions::cached().parse_options(opts()).load(comp.clone())) {
                                (Ok(a), Ok(b)) => compare(&a.resolver(), &b.resolver(), &members, o, &|| what("cached"), &mut f),
                                (a, b) => { f.checked += 1; f.push(format!("{}: load plain = {:?}, load compressed = {:?}", what("cached"), a.err(), b.err())); }
                            }
                        }
                    }
                }
            }
        }
    }
    assert!(f.checked > min_checked || f.n > 0, "only {} reads", f.checked);
    f.finish(what);
}

// (one test per member count: the test harness runs them on parallel threads)
#[test]
fn same_value_plain_or_compressed_1_to_3_members() { run(&layouts(), 1..=3, "1..3 members x 9 layouts x {strict, tolerant} x {uncached, cached} x orders", 100_000); }
#[test]
fn same_value_plain_or_compressed_4_members() { run(&layouts(), 4..=4, "4 members x 9 layouts x {strict, tolerant} x {uncached, cached} x orders", 100_000); }
#[test]
fn same_value_plain_or_compressed_5_members() { run(&layouts(), 5..=5, "5 members x 9 layouts x {strict, tolerant} x {uncached, cached} x orders", 100_000); }
#[test]
fn same_value_plain_or_compressed_6_members() { run(&layouts(), 6..=6, "6 members x 9 layouts x {strict, tolerant} x {uncached, cached} x orders", 100_000); }

#[test]
fn same_value_plain_or_compressed_abutting_members() {
    run(&[ABUTTING], 1..=6, "members stored without white-space between them", 1_000);
}
