// Kani leaf harness on the real `Substr::to::<usize>()` / `Substr::to::<u64>()` of pdf/src/parser/lexer/mod.rs
// (appended as a #[cfg(kani)] module): the decimal-value contract assumed by unit objstm (`FromDec::dec`).
// Bounded: slices of at most 3 bytes, every byte value. The Result is forgotten, never dropped
// (drop glue of PdfError is beyond CBMC).

// spec: value of an unsigned decimal literal as `str::parse::<uN>` documents it: optional '+', >= 1 ASCII digit
fn dec_unsigned_spec(s: &[u8]) -> Option<u64> {
    let body = if s.len() > 0 && s[0] == b'+' { &s[1..] } else { s };
    if body.len() == 0 { return None; }
    let mut v: u64 = 0;
    let mut i = 0;
    while i < body.len() {
        if body[i] < b'0' || body[i] > b'9' { return None; }
        v = v * 10 + (body[i] - b'0') as u64;      // <= 999 within the bound
        i += 1;
    }
    Some(v)
}

#[kani::proof]
#[kani::unwind(5)]
fn substr_to_usize_dec() {
    let bytes: [u8; 3] = kani::any();
    let n: usize = kani::any();
    kani::assume(n <= 3);
    let sub = Substr::new(&bytes[..n], 0);
    let spec = dec_unsigned_spec(&bytes[..n]);
    kani::cover!(spec == Some(907));
    kani::cover!(spec.is_none() && n == 3);
    let r = sub.to::<usize>();
    match (&r, spec) {
        (Ok(v), Some(s)) => assert!(*v as u64 == s),
        (Err(_), None) => {}
        _ => assert!(false),
    }
    std::mem::forget(r);
}

#[kani::proof]
#[kani::unwind(5)]
fn substr_to_objnr_dec() {
    let bytes: [u8; 3] = kani::any();
    let n: usize = kani::any();
    kani::assume(n <= 3);
    let sub = Substr::new(&bytes[..n], 0);
    let spec = dec_unsigned_spec(&bytes[..n]);
    kani::cover!(spec == Some(42));
    let r = sub.to::<u64>();
    match (&r, spec) {
        (Ok(v), Some(s)) => assert!(*v == s),
        (Err(_), None) => {}
        _ => assert!(false),
    }
    std::mem::forget(r);
}
