S = 'pdf/src/object/stream.rs'
L = 'pdf/src/parser/lexer/mod.rs'
B = 'pdf/src/backend.rs'
IMPL = r'^impl ObjectStream$'

# what "the decoded data of the object stream" is, for the postconditions
DATA = 'stream_data(&self.inner, resolve)'
N = 'self.n()'

UNIT = {
 'name': 'objstm',
 'doc': 'Object streams: header loop (N pairs, in order), member slicing by /First + offset, range check of Backend::read',
 # BOUNDED native stand-in (vlib/native.py): the real crate, public API only. Decides restructurings of the compressed-object path that the
 # Verus part cannot read (a NEW helper without contract leaves it UNDECIDED). Reported under bounded_checks, never counted as proved.
 'native': {'tests': [
    {'name': 'same_value_plain_or_compressed', 'code': 'native_storage_independence.rs', 'place': 'pdf/tests/verif_c11_storage.rs',
     'fn': 'Storage::resolve_ref', 'props': ['C11'], 'tier': 'quick', 'timeout': 900,
     'bound': 'pairs of hand-generated files with the SAME 1..6 objects out of 19 values (integers, reals, names with #xx, literal strings with '
              'escapes / nested parentheses / EOL, hex strings, arrays, nested dictionaries, references, null, true, false; every value at every '
              'position: lists V[start + j*stride], stride 1 and 7): FILE A ordinary indirect objects + classic table, FILE B inside object stream 3 + '
              'xref stream with type-2 entries (/First and offsets computed by the test, /Extends absent) in 10 layouts (members separated by '
              'blanks / newlines / CR LF / nothing where the syntax allows, with and without trailing white-space, padded header, ascending / '
              'descending member order, unfiltered / ASCIIHexDecode as name / as array) x {strict, tolerant} x {uncached, cached (fresh document '
              'per order)} x orders of access (all permutations for n <= 4, rotations + every 6th / 24th permutation for n = 5 / 6, every member '
              'twice in a row); + a stream whose /Length is direct or a reference to the member `5` (plain in A, compressed in B); 1.49 million reads',
     'contract': 'both files load; resolve(k 0 R) is Ok in both with equal Primitives, equal to the hand-written denoted value; the stream data is '
                 'HELLO in both; nothing panics'},
 ]},
 'items': {
  'type ObjNr': {'kind': 'decl', 'file': 'pdf/src/object/mod.rs', 'header': r'^pub type ObjNr = u64;$'},
  'struct Lexer': {'kind': 'decl', 'file': L, 'header': r"^pub struct Lexer<'a>$",
     'rewrites': [{'rule': 'R2', 'find': 'pos:', 'replace': 'pub pos:'},
                  {'rule': 'R2', 'find': 'buf:', 'replace': 'pub buf:'},
                  {'rule': 'R2', 'find': 'file_offset:', 'replace': 'pub file_offset:'}]},
  'struct Substr': {'kind': 'decl', 'file': L, 'header': r"^pub struct Substr<'a>$",
     'rewrites': [{'rule': 'R2', 'find': 'slice:', 'replace': 'pub slice:'},
                  {'rule': 'R2', 'find': 'file_offset:', 'replace': 'pub file_offset:'}]},
  'Lexer::new': {'kind': 'fn', 'file': L, 'container': r"^impl<'a> Lexer<'a>$", 'name': 'new', 'props': ['C01'],
     'ensures': [('new_at_start', 'r.buf@ == buf@ && r.pos == 0 && r.file_offset == 0')]},
  'Lexer::get_pos': {'kind': 'fn', 'file': L, 'container': r"^impl<'a> Lexer<'a>$", 'name': 'get_pos', 'props': ['C01'],
     'ensures': [('get_pos_is_pos', 'r == self.pos')]},

  'struct ObjStmInfo': {'kind': 'decl', 'file': S, 'header': r'^pub struct ObjStmInfo$',
     # R2: `extends` is not mentioned by any extracted function
     'rewrites': [{'rule': 'R2', 'find': 'pub extends: Option<Ref<Stream<()>>>,', 'replace': ''}]},
  'struct ObjectStream': {'kind': 'decl', 'file': S, 'header': r'^pub struct ObjectStream$',
     'rewrites': [{'rule': 'R2', 'find': 'offsets:', 'replace': 'pub offsets:'},
                  {'rule': 'R2', 'find': '_id:', 'replace': 'pub _id:'},
                  {'rule': 'R2', 'find': 'inner:', 'replace': 'pub inner:'}]},

  # ---- header: exactly N pairs, in order (C11); hostile N / tokens end in Err, loop terminates (C14, C01)
  'ObjectStream::from_primitive': {'kind': 'fn', 'file': S, 'container': r'^impl Object for ObjectStream$',
     'name': 'from_primitive', 'props': ['C11', 'C14', 'C01'],
     'attrs': ['#[verifier::loop_isolation(false)]'],   # the early `?` exits inside the loop need what was read before it
     'ensures': [
        ('hdr_ok_pairs_in_order',
         'r matches Ok(os) ==> (stream_reads::<ObjStmInfo, _>(p, resolve) matches Ok(st) && (os.inner == st'
         ' && (stream_data(&st, resolve) matches Ok(d)'
         ' && header(d, 0, st.info.num_objects as nat) == Some(os.offsets@))))'),
        ('hdr_ok_count', 'r matches Ok(os) ==> os.offsets@.len() == os.inner.info.num_objects'),
        ('hdr_err_iff',
         'r is Err <==> (stream_reads::<ObjStmInfo, _>(p, resolve) matches Ok(st) ==>'
         ' (stream_data(&st, resolve) matches Ok(d) ==> header(d, 0, st.info.num_objects as nat) is None))'),
     ],
     'loops': {1: {'for_ghost': 'it', 'invariant': [
        # unlabelled on purpose: vlib/verus.py attributes a failed postcondition to the first label inside ANY span of
        # the diagnostic, and the 'at the end of the function body' span covers these lines
        'lexer.buf@ == data@',
        ('join(offsets@, header(data@, lexer.pos as int, (stream.info.num_objects - it.index@) as nat))'
         ' == header(data@, 0, stream.info.num_objects as nat)'),
        'it.index@ <= stream.info.num_objects',
     ]}},
     'rewrites': [
        # R1 ghost, anchored on SHAPES only (the two reads themselves carry no anchor: `lexer.next()?.to::<T>()?`,
        # `lexer.next_as::<T>()?`, a read nested in the `push(..)` argument, renamed temporaries all stay verbatim):
        # (a) in front of the header loop: the length lemma;
        # (b) at the top of the loop body: snapshot of the loop-carried state + the two "a failing token kills the header"
        #     lemmas, each guarded by its own hypothesis (both talk about the buffer and the position before the pair only);
        # (c) after `offsets.push(<e>)`: the step lemma for the value just pushed, guarded by its hypotheses (a wrong value
        #     pushed fails the progress invariant, not a lemma precondition).
        {'rule': 'R1', 'regex': r'\bfor\s+(\w+)\s+in\s+([^{;]*?)\s*\{',
         'replace': r'proof { lemma_header_len(data@, 0, stream.info.num_objects as nat); } for \1 in \2 {'
                    ' let ghost pos0 = lexer.pos as int; let ghost done0 = offsets@;'
                    ' let ghost left = (stream.info.num_objects - it.index@) as nat;'
                    ' proof { if lex_word(data@, pos0) is None || <u64 as FromDec>::dec(lex_word(data@, pos0).unwrap().0) is None'
                    ' { lemma_header_fail1(data@, pos0, left, done0); }'
                    ' else if lex_word(data@, lex_word(data@, pos0).unwrap().1) is None'
                    ' || <usize as FromDec>::dec(lex_word(data@, lex_word(data@, pos0).unwrap().1).unwrap().0) is None'
                    ' { lemma_header_fail2(data@, pos0, left, done0); } }'},
        {'rule': 'R1', 'regex': r'\boffsets\s*\.\s*push\(([^;]*)\);',
         'replace': r'offsets.push(\1);'
                    ' proof { if lex_word(data@, pos0) is Some && <u64 as FromDec>::dec(lex_word(data@, pos0).unwrap().0) is Some'
                    ' && lex_word(data@, lex_word(data@, pos0).unwrap().1) is Some'
                    ' && <usize as FromDec>::dec(lex_word(data@, lex_word(data@, pos0).unwrap().1).unwrap().0) == Some(offsets@.last())'
                    ' { let t1 = lex_word(data@, pos0).unwrap(); let t2 = lex_word(data@, t1.1).unwrap();'
                    ' lemma_header_step(data@, pos0, left, done0, t1.0, t1.1, t2.0, t2.1, offsets@.last()); } }'},
     ]},

  # ---- member slicing (C11), no overflow / no panic for hostile offsets (C14, C01)
  'ObjectStream::get_object_slice': {'kind': 'fn', 'file': S, 'container': IMPL, 'name': 'get_object_slice',
     'props': ['C11', 'C14', 'C01'],
     'ensures': [
        ('slice_index_out_of_bounds',
         'index >= %s ==> (r matches Err(PdfError::ObjStmOutOfBounds { index: i, max: m }) && i == index && m == %s)' % (N, N)),
        ('slice_data_is_stream_data', 'r matches Ok(dr) ==> %s == Ok::<Seq<u8>, PdfError>(dr.0@)' % DATA),
        ('slice_start', 'r matches Ok(dr) ==> index < %s && dr.1.start == self.member_start(index as int)' % N),
        ('slice_end_next_start', 'r matches Ok(dr) ==> (index + 1 < %s ==> dr.1.end == self.member_start(index + 1))' % N),
        ('slice_last_end_is_data_len', 'r matches Ok(dr) ==> (index + 1 == %s ==> dr.1.end == dr.0@.len())' % N),
        ('slice_err_iff',
         'r is Err <==> (index >= %s || %s is Err || self.member_start(index as int) > usize::MAX'
         ' || self.member_end(index as int, 0) > usize::MAX)' % (N, DATA)),
     ]},
  'ObjectStream::n_objects': {'kind': 'fn', 'file': S, 'container': IMPL, 'name': 'n_objects', 'props': ['C11'],
     'ensures': [('n_objects_is_count', 'r == %s' % N)]},
  'ObjectStream::_data': {'kind': 'fn', 'file': S, 'container': IMPL, 'name': '_data', 'props': ['C11'],
     'ensures': [('data_is_stream_data',
                  'match r { Ok(d) => %s == Ok::<Seq<u8>, PdfError>(d@), Err(e) => %s == Err::<Seq<u8>, PdfError>(e) }' % (DATA, DATA))]},

  # ---- backend.rs: the range check in front of every slice of the file (C01)
  'IndexRange::to_range': {'kind': 'fn', 'file': B, 'container': r'^pub trait IndexRange$', 'name': 'to_range',
     'props': ['C01', 'C14'],
     'ensures': [
        ('range_ok_inside', 'r matches Ok(rg) ==> rg.start <= rg.end <= len'),
        ('range_ok_bounds',
         'r matches Ok(rg) ==> rg.start == (match self.spec_start() { Some(s) => s, None => 0 })'
         ' && rg.end == (match self.spec_end() { Some(e) => e, None => len })'),
        ('range_err_iff',
         'r is Err <==> ((self.spec_start() matches Some(s) && s > len) || (self.spec_end() matches Some(e) && e > len)'
         ' || (self.spec_start() matches Some(s) && self.spec_end() matches Some(e) && s > e))'),
        ('range_err_kind', 'r matches Err(e) ==> e is ContentReadPastBoundary'),
     ]},
 },
 'kani': {
   'modules': [{'file': L, 'code': 'kani_lexer.rs'}],
   'harnesses': [
     {'name': 'substr_to_usize_dec', 'fn': 'Substr::to', 'file': L, 'props': ['C11'], 'kind': 'bounded',
      'bound': 'slices <= 3 bytes, every byte value, unwind 5', 'tier': 'quick', 'covers': True,
      'contract': 'Substr::to::<usize>() == Ok(v) iff the slice is [+]digit+ with decimal value v, else Err (FromDec::dec of unit.rs)'},
     {'name': 'substr_to_objnr_dec', 'fn': 'Substr::to', 'file': L, 'props': ['C11'], 'kind': 'bounded',
      'bound': 'slices <= 3 bytes, every byte value, unwind 5', 'tier': 'quick', 'covers': True,
      'contract': 'Substr::to::<ObjNr>() == Ok(v) iff the slice is [+]digit+ with decimal value v, else Err'},
   ],
   'jobs': 2, 'timeout': 900 },
}
