// Unit `objstm` (C11, C14, C01): object streams of pdf/src/object/stream.rs.
//   ObjectStream::from_primitive   the header loop reads exactly N (object number, offset) pairs, in order
//   ObjectStream::get_object_slice member i is first+off[i] .. first+off[i+1], the last one runs to data.len()
//   ObjectStream::n_objects, ObjectStream::_data   accessors
//   IndexRange::to_range (backend.rs) the range check every Backend::read goes through
// Spec functions are written from ISO 32000-1 7.5.7 ("Object streams"), not from the code.
use vstd::prelude::*;
use std::sync::Arc;
use std::ops::Range;
//@@ INCLUDE _common/error_macros.rs
verus! {
global size_of usize == 8;

//@@ PDFERROR

// ---------------------------------------------------------------------------------------------
// env (NOT under proof): abstract callees of the extracted functions
// ---------------------------------------------------------------------------------------------
//@@ type ObjNr

/// opaque: the primitive handed to the typed reader
#[verifier::external_body]
pub struct Primitive { _p: () }
/// opaque: where the (still encoded) bytes of a stream live
#[verifier::external_body]
pub struct StreamData { _p: () }
pub trait Resolve {}

/// `Stream<I>` of stream.rs. R2 (shape): in /repo `info: StreamInfo<I>` and `StreamInfo<I>: Deref<Target = I>`;
/// the extracted functions only ever go through that deref (`.info.first`, `.info.num_objects`), so the env
/// type holds the `I` directly. `filters`, `file`, `file_filters` are not mentioned by any extracted function.
pub struct Stream<I> { pub info: I, pub inner_data: StreamData }

/// what `Stream::<I>::from_primitive(p, resolve)` yields (abstract)
pub uninterp spec fn stream_reads<I, R>(p: Primitive, resolve: &R) -> Result<Stream<I>>;
/// the decoded data of a stream (abstract: filters, cache and decryption are not under proof here)
pub uninterp spec fn stream_data<I, R>(s: &Stream<I>, resolve: &R) -> Result<Seq<u8>>;

impl<I> Stream<I> {
    #[verifier::external_body]
    pub fn from_primitive<R: Resolve>(p: Primitive, resolve: &R) -> (r: Result<Stream<I>>)
        ensures r == stream_reads::<I, R>(p, resolve)
    { unimplemented!() }

    #[verifier::external_body]
    pub fn data<R: Resolve>(&self, resolve: &R) -> (r: Result<Arc<[u8]>>)
        ensures
            match r { Ok(d) => stream_data(self, resolve) == Ok::<Seq<u8>, PdfError>(d@),
                      Err(e) => stream_data(self, resolve) == Err::<Seq<u8>, PdfError>(e) }
    { unimplemented!() }
}

// ---- lexer interface (contracts as proved in unit `lexer`; here abstract) ----
/// the token function of ISO 32000-1 7.2: the next token at or after `pos` and the position after it;
/// None = no further token (EOF)
pub uninterp spec fn lex_word(buf: Seq<u8>, pos: int) -> Option<(Seq<u8>, int)>;

/// value of a non-empty string of ASCII digits
pub open spec fn dec_digits(s: Seq<u8>) -> Option<nat>
    decreases s.len()
{
    if s.len() == 0 { None }
    else if !(0x30 <= s.last() <= 0x39) { None }
    else if s.len() == 1 { Some((s.last() - 0x30) as nat) }
    else { match dec_digits(s.drop_last()) { None => None, Some(v) => Some(v * 10 + (s.last() - 0x30) as nat) } }
}
/// the decimal-value contract of `str::parse::<uN>()`: optional '+', at least one digit, value <= max
pub open spec fn dec_unsigned(s: Seq<u8>, max: nat) -> Option<nat> {
    let body = if s.len() > 0 && s[0] == 0x2b { s.subrange(1, s.len() as int) } else { s };
    match dec_digits(body) { Some(v) => if v <= max { Some(v) } else { None }, None => None }
}
pub trait FromDec: Sized {
    spec fn dec(s: Seq<u8>) -> Option<Self>;
}
impl FromDec for u64 {
    open spec fn dec(s: Seq<u8>) -> Option<u64> {
        match dec_unsigned(s, u64::MAX as nat) { Some(v) => Some(v as u64), None => None }
    }
}
impl FromDec for usize {
    open spec fn dec(s: Seq<u8>) -> Option<usize> {
        match dec_unsigned(s, usize::MAX as nat) { Some(v) => Some(v as usize), None => None }
    }
}

//@@ struct Lexer
//@@ struct Substr

impl<'a> Lexer<'a> {
//@@ Lexer::new
//@@ Lexer::get_pos

    /// abstract callee: Lexer::next_as::<T> = `self.next().and_then(|word| word.to::<T>())` — the composition of the two
    /// contracts below (trusted as such; a refactor of the header loop is likely to use it)
    #[verifier::external_body]
    pub fn next_as<T: FromDec>(&mut self) -> (r: Result<T>)
        ensures
            final(self).buf@ == old(self).buf@,
            match r {
                Ok(v) => lex_word(old(self).buf@, old(self).pos as int) matches Some(t) && T::dec(t.0) == Some(v) && final(self).pos as int == t.1,
                Err(_) => lex_word(old(self).buf@, old(self).pos as int) matches Some(t) ==> T::dec(t.0) is None,
            }
    { unimplemented!() }

    /// abstract callee: Lexer::next (= next_word + advance), contract of unit `lexer`
    #[verifier::external_body]
    pub fn next(&mut self) -> (r: Result<Substr<'a>>)
        ensures
            final(self).buf@ == old(self).buf@,
            match r {
                Ok(w) => lex_word(old(self).buf@, old(self).pos as int) == Some((w.slice@, final(self).pos as int)),
                Err(_) => lex_word(old(self).buf@, old(self).pos as int) is None,
            }
    { unimplemented!() }
}
impl<'a> Substr<'a> {
    /// abstract callee: Substr::to::<T>() = from_utf8(slice)?.parse::<T>(); L0 decimal-value contract
    /// (Kani leaf `substr_to_usize_dec` on the real function, bounded)
    #[verifier::external_body]
    pub fn to<T: FromDec>(&self) -> (r: Result<T>)
        ensures
            match r { Ok(v) => T::dec(self.slice@) == Some(v), Err(_) => T::dec(self.slice@) is None }
    { unimplemented!() }
}

// ---------------------------------------------------------------------------------------------
// spec (ISO 32000-1 7.5.7): "The stream data begins with N pairs of integers, the first being the object
// number and the second the byte offset of that object relative to the first object (/First)".
// ---------------------------------------------------------------------------------------------
/// the offsets of `n` pairs read from position `pos`; None if a token is missing or is not an unsigned decimal
pub open spec fn header(buf: Seq<u8>, pos: int, n: nat) -> Option<Seq<usize>>
    decreases n
{
    if n == 0 { Some(Seq::<usize>::empty()) } else {
        match lex_word(buf, pos) { None => None, Some(t1) =>
            if <u64 as FromDec>::dec(t1.0) is None { None } else {
                match lex_word(buf, t1.1) { None => None, Some(t2) =>
                    match <usize as FromDec>::dec(t2.0) { None => None, Some(off) =>
                        match header(buf, t2.1, (n - 1) as nat) { None => None, Some(rest) => Some(seq![off] + rest) } } } } }
    }
}
pub open spec fn join(done: Seq<usize>, rest: Option<Seq<usize>>) -> Option<Seq<usize>> {
    match rest { None => None, Some(r) => Some(done + r) }
}
pub proof fn lemma_header_len(buf: Seq<u8>, pos: int, n: nat)
    ensures header(buf, pos, n) matches Some(s) ==> s.len() == n
    decreases n
{
    if n > 0 {
        match lex_word(buf, pos) { None => {}, Some(t1) => {
            match lex_word(buf, t1.1) { None => {}, Some(t2) => { lemma_header_len(buf, t2.1, (n - 1) as nat); } } } }
    }
}
/// one successful pair moves an offset from the "still to read" part to the "done" part
pub proof fn lemma_header_step(buf: Seq<u8>, pos: int, n: nat, done: Seq<usize>, w1: Seq<u8>, p1: int, w2: Seq<u8>, p2: int, off: usize)
    requires n > 0, lex_word(buf, pos) == Some((w1, p1)), <u64 as FromDec>::dec(w1) is Some,
        lex_word(buf, p1) == Some((w2, p2)), <usize as FromDec>::dec(w2) == Some(off),
    ensures join(done, header(buf, pos, n)) == join(done.push(off), header(buf, p2, (n - 1) as nat))
{
    match header(buf, p2, (n - 1) as nat) {
        None => {},
        Some(rest) => { assert(done + (seq![off] + rest) =~= done.push(off) + rest); }
    }
}
/// a failing token anywhere makes the whole header unreadable
pub proof fn lemma_header_fail1(buf: Seq<u8>, pos: int, n: nat, done: Seq<usize>)
    requires n > 0, lex_word(buf, pos) is None || <u64 as FromDec>::dec(lex_word(buf, pos).unwrap().0) is None
    ensures join(done, header(buf, pos, n)) is None
{}
pub proof fn lemma_header_fail2(buf: Seq<u8>, pos: int, n: nat, done: Seq<usize>)
    requires n > 0, lex_word(buf, pos) matches Some(t1) && (lex_word(buf, t1.1) is None
        || <usize as FromDec>::dec(lex_word(buf, t1.1).unwrap().0) is None)
    ensures join(done, header(buf, pos, n)) is None
{}

//@@ struct ObjStmInfo
//@@ struct ObjectStream

impl ObjectStream {
    pub open spec fn n(&self) -> int { self.offsets@.len() as int }
    pub open spec fn first(&self) -> int { self.inner.info.first as int }
    pub open spec fn off(&self, i: int) -> int { self.offsets@[i] as int }
    /// ISO 7.5.7: member i starts at First + offset_i and ends where the next one starts; the last one ends with the data
    pub open spec fn member_start(&self, i: int) -> int { self.first() + self.off(i) }
    pub open spec fn member_end(&self, i: int, data_len: int) -> int {
        if i == self.n() - 1 { data_len } else { self.first() + self.off(i + 1) }
    }

//@@ ObjectStream::from_primitive
//@@ ObjectStream::get_object_slice
//@@ ObjectStream::n_objects
//@@ ObjectStream::_data
}

// ---------------------------------------------------------------------------------------------
// backend.rs: IndexRange::to_range — a trait default method; `start()`/`end()` are the abstract accessors
// ---------------------------------------------------------------------------------------------
pub trait IndexRange {
    spec fn spec_start(&self) -> Option<usize>;
    spec fn spec_end(&self) -> Option<usize>;
    fn start(&self) -> (r: Option<usize>) ensures r == self.spec_start();
    fn end(&self) -> (r: Option<usize>) ensures r == self.spec_end();

//@@ IndexRange::to_range
}
}
fn main(){}
