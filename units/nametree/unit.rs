// Unit `nametree` (C15; C14/C01 for the reader; "no call panics" for the writer): NameTree<T>::from_primitive / to_primitive
//   (pdf/src/object/types.rs) against ISO 32000-1 7.9.6 Table 36. Sister of the NumberTree pair of units/hwpairs2 (same env,
//   same contract shape): the reader is proved equal to a whole-value model `nm_reads(p, store)`, the writer to a model of the
//   dictionary it emits; `lemma_nametree_roundtrip` proves read(write(x)) == Ok(x) from the models alone.
use vstd::prelude::*;
//@@ INCLUDE _common/error_macros.rs
// R4: `unexpected_primitive!` of pdf/src/error.rs, same control flow (it `return`s the error)
macro_rules! unexpected_primitive {
    ($expected:ident, $found:expr) => ( return Err(PdfError::UnexpectedPrimitive { expected: stringify!($expected), found: $found }) )
}
verus! {
global size_of usize == 8;

//@@ PDFERROR
//@@ DEVIATIONS

// R4: `todo!(..)` = `panic!("not yet implemented: ..")`: a call that must be unreachable
#[verifier::external_body]
fn explicit_panic() -> !
    requires false
{ panic!() }

// ---- env types (not under proof) ---------------------------------------------------------------------------------
pub struct SmallString { pub chars: Ghost<Seq<char>> }
impl SmallString {
    pub open spec fn view(&self) -> Seq<char> { self.chars@ }
    #[verifier::external_body]
    pub fn as_str(&self) -> (r: &str) ensures r@ == self@ { unimplemented!() }
}
impl Clone for SmallString {
    #[verifier::external_body]
    fn clone(&self) -> (r: SmallString) ensures r == *self { unimplemented!() }
}
impl From<&str> for SmallString {
    #[verifier::external_body]
    fn from(s: &str) -> (r: SmallString) ensures r == (SmallString { chars: Ghost(s@) }) { unimplemented!() }
}
pub open spec fn sstr(s: &str) -> SmallString { SmallString { chars: Ghost(s@) } }
// the crate's `IBytes` payload is modelled as a byte vector
pub struct PdfString { pub data: Vec<u8> }
impl Clone for PdfString {
    #[verifier::external_body]
    fn clone(&self) -> (r: PdfString) ensures r == *self { unimplemented!() }
}
pub struct PdfStream { pub info: Dictionary, pub data: Ghost<Seq<u8>> }
pub type ObjNr = u64;
pub type GenNr = u64;
#[derive(Clone, Copy)]
pub struct PlainRef { pub id: ObjNr, pub gen: GenNr }
//@@ struct Name
pub enum Primitive {
    Null,
    Integer(i32),
    Number(f32),
    Boolean(bool),
    String(PdfString),
    Stream(PdfStream),
    Dictionary(Dictionary),
    Array(Vec<Primitive>),
    Reference(PlainRef),
    Name(SmallString),
}
impl Clone for Primitive {
    #[verifier::external_body]
    fn clone(&self) -> (r: Primitive) ensures r == *self { unimplemented!() }
}
// what a `Resolve` can see: the stored object behind every reference (or the error of looking it up)
pub struct Store { pub objs: Map<PlainRef, Result<Primitive>> }
impl Store {
    pub open spec fn get(self, r: PlainRef) -> Result<Primitive> { self.objs[r] }
}
pub trait Resolve {
    spec fn store(&self) -> Store;
    // `res == store.get(r)`; and resolve never hands out a Reference (it follows reference-valued objects within its
    // depth budget): proved in units/guard, StorageResolver::resolve_flags/never_a_reference
    fn resolve(&self, r: PlainRef) -> (res: Result<Primitive>)
        ensures res == self.store().get(r), res matches Ok(p) ==> !(p is Reference);
}
pub trait Updater: Sized {
    spec fn created(&self) -> Map<PlainRef, Primitive>;
}

// ---- abstract Dictionary: ghost Map<Name, Primitive> with IndexMap semantics (trusted; entry order not modelled) -------
pub type DMap = Map<Seq<char>, Primitive>;
pub struct Dictionary { pub m: Ghost<DMap> }
pub open spec fn dget(m: DMap, key: Seq<char>) -> Option<Primitive> {
    if m.dom().contains(key) { Some(m[key]) } else { None::<Primitive> }
}
impl Dictionary {
    pub open spec fn view(&self) -> DMap { self.m@ }
    #[verifier::external_body]
    pub fn new() -> (r: Dictionary) ensures r@ == Map::<Seq<char>, Primitive>::empty() { unimplemented!() }
    // the crate's `insert(&mut self, key: impl Into<Name>, val: impl Into<Primitive>)`; the `Into` conversions of the values
    // are made explicit at the call sites (R7) so that the value inserted is visible
    #[verifier::external_body]
    pub fn insert(&mut self, key: &str, val: Primitive) -> (r: Option<Primitive>)
        ensures final(self)@ == old(self)@.insert(key@, val), r == dget(old(self)@, key@)
    { unimplemented!() }
    #[verifier::external_body]
    pub fn remove(&mut self, key: &str) -> (r: Option<Primitive>)
        ensures final(self)@ == old(self)@.remove(key@), r == dget(old(self)@, key@)
    { unimplemented!() }
    #[verifier::external_body]
    pub fn get(&self, key: &str) -> (r: Option<&Primitive>)
        ensures r == (if self@.dom().contains(key@) { Some(&self@[key@]) } else { None::<&Primitive> })
    { unimplemented!() }
    // primitive.rs:235  `self.remove(key).ok_or(MissingEntry{typ, field})`
    #[verifier::external_body]
    pub fn require(&mut self, typ: &'static str, key: &str) -> (r: Result<Primitive>)
        ensures final(self)@ == old(self)@.remove(key@),
            r == (match dget(old(self)@, key@) { Some(p) => Ok::<Primitive, PdfError>(p), None => Err::<Primitive, PdfError>(PdfError::MissingEntry { typ: typ }) })
    { unimplemented!() }
}
impl Clone for Dictionary {
    #[verifier::external_body]
    fn clone(&self) -> (r: Dictionary) ensures r == *self { unimplemented!() }
}

// ---- specs: Primitive accessors (proved in units/expansions_hw for the real text; restated as env stubs here) ---------
pub open spec fn debug_name(p: Primitive) -> &'static str {
    match p {
        Primitive::Null => "Null", Primitive::Integer(..) => "Integer", Primitive::Number(..) => "Number",
        Primitive::Boolean(..) => "Boolean", Primitive::String(..) => "String", Primitive::Stream(..) => "Stream",
        Primitive::Dictionary(..) => "Dictionary", Primitive::Array(..) => "Array",
        Primitive::Reference(..) => "Reference", Primitive::Name(..) => "Name",
    }
}
pub open spec fn unexpected<T>(expected: &'static str, p: Primitive) -> Result<T> {
    Err(PdfError::UnexpectedPrimitive { expected: expected, found: debug_name(p) })
}
pub open spec fn deref1(p: Primitive, st: Store) -> Result<Primitive> {
    match p { Primitive::Reference(id) => st.get(id), _ => Ok(p) }
}
pub open spec fn int_of(p: Primitive) -> Result<i32> { match p { Primitive::Integer(n) => Ok(n), _ => unexpected("Integer", p) } }
pub uninterp spec fn f32_of_i32(n: i32) -> f32;
pub open spec fn number_of(p: Primitive) -> Result<f32> {
    match p { Primitive::Integer(n) => Ok(f32_of_i32(n)), Primitive::Number(f) => Ok(f), _ => unexpected("Number", p) }
}
pub open spec fn then<A, B>(x: Result<A>, f: spec_fn(A) -> Result<B>) -> Result<B> { match x { Ok(v) => f(v), Err(e) => Err(e) } }
// `t!(e)` wraps the error of e
pub open spec fn wrap<A>(x: Result<A>) -> Result<A> { match x { Ok(v) => Ok(v), Err(e) => Err(PdfError::Try { source: Box::new(e) }) } }

impl Primitive {
    // proved in units/expansions_hw: Primitive::get_debug_name/spec
    #[verifier::external_body]
    pub fn get_debug_name(&self) -> (r: &'static str) ensures r == debug_name(*self) { unimplemented!() }
    // proved in units/expansions_hw: Primitive::resolve/spec
    #[verifier::external_body]
    pub fn resolve<R: Resolve>(self, r_: &R) -> (r: Result<Primitive>) ensures r == deref1(self, r_.store()) { unimplemented!() }
    // proved in units/expansions_hw: Primitive::as_integer/spec
    #[verifier::external_body]
    pub fn as_integer(&self) -> (r: Result<i32>) ensures r == int_of(*self) { unimplemented!() }
    // proved in units/expansions_hw: Primitive::as_number/spec
    #[verifier::external_body]
    pub fn as_number(&self) -> (r: Result<f32>) ensures r == number_of(*self) { unimplemented!() }
    // proved in units/expansions_hw: Primitive::into_array/spec
    #[verifier::external_body]
    pub fn into_array(self) -> (r: Result<Vec<Primitive>>)
        ensures r == (match self { Primitive::Array(v) => Ok::<Vec<Primitive>, PdfError>(v), _ => unexpected("Array", self) })
    { unimplemented!() }
    // primitive.rs:586 (same shape as into_array; not under proof anywhere: trusted)
    #[verifier::external_body]
    pub fn into_dictionary(self) -> (r: Result<Dictionary>)
        ensures r == (match self { Primitive::Dictionary(d) => Ok::<Dictionary, PdfError>(d), _ => unexpected("Dictionary", self) })
    { unimplemented!() }
    // primitive.rs:598
    #[verifier::external_body]
    pub fn into_string(self) -> (r: Result<PdfString>)
        ensures r == (match self { Primitive::String(d) => Ok::<PdfString, PdfError>(d), _ => unexpected("String", self) })
    { unimplemented!() }
    // primitive.rs:556 (borrowed result)
    #[verifier::external_body]
    pub fn as_name(&self) -> (r: Result<&str>)
        ensures (self matches Primitive::Name(s) ==> (r matches Ok(t) && t@ == s@)),
            !(self is Name) ==> r == unexpected::<&str>("Name", *self)
    { unimplemented!() }
    // primitive.rs:568 (borrowed result)
    #[verifier::external_body]
    pub fn as_array(&self) -> (r: Result<&[Primitive]>)
        ensures (self matches Primitive::Array(v) ==> (r matches Ok(t) && t@ == v@)),
            !(self is Array) ==> r == unexpected::<&[Primitive]>("Array", *self)
    { unimplemented!() }
}
// =====================================================================================================================
// generic element codecs (as in units/expansions_hw), Ref<T>, conversions
// =====================================================================================================================
pub trait Object: Sized {
    spec fn reads(p: Primitive, st: Store) -> Result<Self>;
    fn from_primitive<R: Resolve>(p: Primitive, resolve: &R) -> (r: Result<Self>)
        ensures r == Self::reads(p, resolve.store());
}
pub trait ObjectWrite: Sized {
    spec fn writes(&self) -> Primitive;
    spec fn wfail(&self) -> bool;
    fn to_primitive<U: Updater>(&self, update: &mut U) -> (r: Result<Primitive>)
        ensures
            r matches Ok(p) ==> p == self.writes(),
            r is Err ==> self.wfail();
}
// object/mod.rs:170  `struct Ref<T> { inner: PlainRef, _marker: PhantomData<T> }`
#[verifier::external_body]
#[verifier::accept_recursive_types(T)]
pub struct Ref<T> { inner: PlainRef, _marker: core::marker::PhantomData<T> }
impl<T> Ref<T> {
    pub uninterp spec fn id(&self) -> PlainRef;
    // object/mod.rs:194
    #[verifier::external_body]
    pub fn get_inner(&self) -> (r: PlainRef) ensures r == self.id() { unimplemented!() }
}
pub open spec fn ref_ids<T>(k: Seq<Ref<T>>) -> Seq<PlainRef> { Seq::new(k.len(), |i: int| k[i].id()) }
// From<i32> / From<Vec<Primitive>> / From<Dictionary> for Primitive (primitive.rs:620-659), spelled `.into()` in the source
#[verifier::external_body]
fn hoist_vec_into(x: Vec<Primitive>) -> (r: Primitive) ensures r == Primitive::Array(x) { unimplemented!() }
#[verifier::external_body]
fn hoist_dict_into(x: Dictionary) -> (r: Primitive) ensures r == Primitive::Dictionary(x) { unimplemented!() }
// `a == b` on str, as text (R9)
#[verifier::external_body]
fn name_eq(a: &str, b: &str) -> (r: bool) ensures r == (a@ == b@) { a == b }

// =====================================================================================================================
// NameTree<T>  (ISO 32000-1 7.9.6 Table 36:
//   /Kids   (root and intermediate nodes) array of indirect references to the immediate children
//   /Names  (root and leaf nodes) [key1 value1 key2 value2 ... keyn valuen], each key a string, in order
//   /Limits (intermediate and leaf nodes) array of two strings [least greatest]
//   a root has either Kids or Names but not both)
// =====================================================================================================================
//@@ enum NameTreeNode
//@@ struct NameTree
pub enum NmNode<T> { Leaf(Seq<(PdfString, T)>), Intermediate(Seq<PlainRef>) }
pub struct NmModel<T> { pub limits: Option<(PdfString, PdfString)>, pub node: NmNode<T> }
pub open spec fn nm_view<T>(t: NameTree<T>) -> NmModel<T> {
    NmModel { limits: t.limits, node: match t.node {
        NameTreeNode::Leaf(items) => NmNode::Leaf(items@),
        NameTreeNode::Intermediate(kids) => NmNode::Intermediate(ref_ids(kids@)) } }
}
pub open spec fn str_of(p: Primitive) -> Result<PdfString> { match p { Primitive::String(s) => Ok(s), _ => unexpected("String", p) } }
pub open spec fn limits_reads(m: DMap, st: Store) -> Result<Option<(PdfString, PdfString)>> {
    match dget(m, "Limits"@) {
        None => Ok(None),
        Some(l) => match deref1(l, st) {
            Err(e) => Err(e),
            Ok(Primitive::Array(v)) => if v@.len() != 2 { Err(PdfError::Other) } else {
                match str_of(v@[0]) { Err(e) => Err(e), Ok(a) =>
                match str_of(v@[1]) { Err(e) => Err(e), Ok(b) => Ok(Some((a, b))) } } },
            Ok(q) => unexpected("Array", q),
        }
    }
}
// every kid is an indirect reference (the first that is not: its error)
pub open spec fn refs_read(v: Seq<Primitive>, n: int) -> Result<Seq<PlainRef>>
    decreases n
{
    if n <= 0 { Ok(Seq::<PlainRef>::empty()) } else {
        match refs_read(v, n - 1) { Err(e) => Err(e), Ok(s) => match v[n - 1] { Primitive::Reference(id) => Ok(s.push(id)), q => unexpected("Reference", q) } }
    }
}
// key_i value_i pairs in order: pair i is (v[2i], v[2i+1]); the key is a string (possibly behind a reference), the value is
// read by T's own codec; a trailing odd element is ignored; the first error wins
pub open spec fn key_read(p: Primitive, st: Store) -> Result<PdfString> { then(deref1(p, st), |q: Primitive| str_of(q)) }
pub open spec fn pairs_read<T: Object>(v: Seq<Primitive>, n: int, st: Store) -> Result<Seq<(PdfString, T)>>
    decreases n
{
    if n <= 0 { Ok(Seq::<(PdfString, T)>::empty()) } else {
        match pairs_read::<T>(v, n - 1, st) { Err(e) => Err(e), Ok(s) =>
            match key_read(v[2 * (n - 1)], st) { Err(e) => Err(e), Ok(key) =>
            match T::reads(v[2 * (n - 1) + 1], st) { Err(e) => Err(PdfError::Try { source: Box::new(e) }), Ok(val) => Ok(s.push((key, val))) } } }
    }
}
pub open spec fn nm_of_dict<T: Object>(m: DMap, st: Store) -> Result<NmModel<T>> {
    match limits_reads(m, st) {
        Err(e) => Err(e),
        Ok(lim) => match dget(m, "Kids"@) {
            Some(k) => match deref1(k, st) {
                Err(e) => Err(e),
                Ok(Primitive::Array(v)) => match refs_read(v@, v@.len() as int) { Err(e) => Err(PdfError::Try { source: Box::new(e) }), Ok(ids) => Ok(NmModel { limits: lim, node: NmNode::Intermediate(ids) }) },
                Ok(q) => unexpected("Array", q),
            },
            None => match dget(m, "Names"@) {
                Some(nm) => match deref1(nm, st) {
                    Err(e) => Err(e),
                    Ok(Primitive::Array(v)) => match pairs_read::<T>(v@, v@.len() as int / 2, st) { Err(e) => Err(e), Ok(items) => Ok(NmModel { limits: lim, node: NmNode::Leaf(items) }) },
                    Ok(q) => unexpected("Array", q),
                },
                None => Ok(NmModel { limits: lim, node: NmNode::Intermediate(Seq::<PlainRef>::empty()) }),
            }
        }
    }
}
pub open spec fn nm_reads<T: Object>(p: Primitive, st: Store) -> Result<NmModel<T>> {
    then(deref1(p, st), |q: Primitive| match q { Primitive::Dictionary(d) => nm_of_dict::<T>(d@, st), _ => wrap(unexpected::<NmModel<T>>("Dictionary", q)) })
}
pub open spec fn nm_agrees<T>(r: Result<NameTree<T>>, m: Result<NmModel<T>>) -> bool {
    match (r, m) { (Ok(t), Ok(x)) => nm_view(t) == x, (Err(a), Err(b)) => a == b, _ => false }
}
pub proof fn lemma_nm_keys()
    ensures "Limits"@ != "Kids"@, "Limits"@ != "Names"@, "Kids"@ != "Names"@
{
    reveal_strlit("Limits"); reveal_strlit("Kids"); reveal_strlit("Names");
    assert("Limits"@.len() != "Kids"@.len());
    assert("Limits"@.len() != "Names"@.len());
    assert("Kids"@[0] != "Names"@[0]);
}
pub proof fn lemma_pairs_err_sticks<T: Object>(v: Seq<Primitive>, i: int, n: int, st: Store)
    ensures (0 <= i <= n && pairs_read::<T>(v, i, st) is Err) ==> pairs_read::<T>(v, n, st) == pairs_read::<T>(v, i, st)
    decreases n - i
{
    if 0 <= i < n && pairs_read::<T>(v, i, st) is Err { lemma_pairs_err_sticks::<T>(v, i, n - 1, st); }
}
// R7: `ARR.iter().map(|kid| Ref::<NameTree<T>>::from_primitive(kid.clone(), resolve)).collect::<Result<Vec<_>>>()`
// Ref::from_primitive (object/mod.rs:201) is `Ok(Ref::new(p.into_reference()?))`; collect stops at the first error
#[verifier::external_body]
fn hoist_read_refs<T, R: Resolve>(arr: &Vec<Primitive>, resolve: &R) -> (r: Result<Vec<Ref<T>>>)
    ensures (match (r, refs_read(arr@, arr@.len() as int)) { (Ok(k), Ok(ids)) => ref_ids(k@) == ids, (Err(a), Err(b)) => a == b, _ => false })
{ unimplemented!() }
// R6: the i/2-th chunk of `names.chunks_exact(2)`: the two elements at i, i+1
#[verifier::external_body]
fn hoist_chunk2<'a>(v: &'a Vec<Primitive>, i: usize) -> (r: &'a [Primitive])
    requires i + 2 <= v@.len()
    ensures r@ == v@.subrange(i as int, i + 2)
{ &v[i..i + 2] }
// R7: `kids.iter().map(|r| r.get_inner().into()).collect_vec()`
#[verifier::external_body]
fn hoist_refs_to_prims<T>(kids: &Vec<Ref<T>>) -> (r: Vec<Primitive>)
    ensures r@ == refs_prims(ref_ids(kids@))
{ unimplemented!() }
// R7: `vec![a, b]`
#[verifier::external_body]
fn hoist_vec2(a: Primitive, b: Primitive) -> (r: Vec<Primitive>) ensures r@ == seq![a, b] { vec![a, b] }
// [A: Rust] an allocation holds at most isize::MAX bytes and (PdfString, T) occupies at least 4
#[verifier::external_body]
pub proof fn axiom_vec_len_bound2<T>(v: &Vec<(PdfString, T)>)
    ensures v@.len() <= 0x1fff_ffff_ffff_ffff
{}
// writer model
pub open spec fn refs_prims(ids: Seq<PlainRef>) -> Seq<Primitive> { Seq::new(ids.len(), |i: int| Primitive::Reference(ids[i])) }
pub open spec fn names_array<T: ObjectWrite>(items: Seq<(PdfString, T)>, n: int) -> Seq<Primitive>
    decreases n
{
    if n <= 0 { Seq::<Primitive>::empty() } else { names_array(items, n - 1).push(Primitive::String(items[n - 1].0)).push(items[n - 1].1.writes()) }
}
pub open spec fn is_array_of(p: Primitive, s: Seq<Primitive>) -> bool { p matches Primitive::Array(v) && v@ == s }
pub open spec fn nm_writes<T: ObjectWrite>(x: NmModel<T>, p: Primitive) -> bool {
    p matches Primitive::Dictionary(d)
    && d@.dom() =~= (if x.limits is Some { set!["Limits"@] } else { Set::<Seq<char>>::empty() }).insert(if x.node is Leaf { "Names"@ } else { "Kids"@ })
    && (x.limits matches Some(l) ==> is_array_of(d@["Limits"@], seq![Primitive::String(l.0), Primitive::String(l.1)]))
    && (x.node matches NmNode::Leaf(items) ==> is_array_of(d@["Names"@], names_array(items, items.len() as int)))
    && (x.node matches NmNode::Intermediate(ids) ==> is_array_of(d@["Kids"@], refs_prims(ids)))
}
//@@ nametree_from_primitive
//@@ nametree_to_primitive
// reading the /Names array the writer made gives the same keys in the same order, each value as its own codec reads it back
pub open spec fn rt_strong<T: Object + ObjectWrite>(t: T, st: Store) -> bool { T::reads(t.writes(), st) == Ok::<T, PdfError>(t) }
pub proof fn lemma_names_roundtrip<T: Object + ObjectWrite>(items: Seq<(PdfString, T)>, n: int, st: Store)
    requires 0 <= n <= items.len(), forall|i: int| 0 <= i < items.len() ==> rt_strong((#[trigger] items[i]).1, st)
    ensures names_array(items, n).len() == 2 * n, pairs_read::<T>(names_array(items, n), n, st) == Ok::<Seq<(PdfString, T)>, PdfError>(items.subrange(0, n))
    decreases n
{
    if n > 0 {
        lemma_names_roundtrip(items, n - 1, st);
        let prev = names_array(items, n - 1);
        let cur = names_array(items, n);
        lemma_pairs_prefix::<T>(cur, prev, n - 1, st);
        assert(cur[2 * (n - 1)] == Primitive::String(items[n - 1].0));
        assert(cur[2 * (n - 1) + 1] == items[n - 1].1.writes());
        assert(key_read(cur[2 * (n - 1)], st) == Ok::<PdfString, PdfError>(items[n - 1].0));
        assert(rt_strong(items[n - 1].1, st));
        assert(items.subrange(0, n - 1).push(items[n - 1]) =~= items.subrange(0, n));
    } else {
        assert(items.subrange(0, 0) =~= Seq::<(PdfString, T)>::empty());
    }
}
pub proof fn lemma_kids_roundtrip(ids: Seq<PlainRef>, n: int)
    requires 0 <= n <= ids.len()
    ensures refs_read(refs_prims(ids), n) == Ok::<Seq<PlainRef>, PdfError>(ids.subrange(0, n))
    decreases n
{
    if n > 0 {
        lemma_kids_roundtrip(ids, n - 1);
        assert(ids.subrange(0, n - 1).push(ids[n - 1]) =~= ids.subrange(0, n));
    } else {
        assert(ids.subrange(0, 0) =~= Seq::<PlainRef>::empty());
    }
}
// whole value: what the writer emitted for x reads back as x (every leaf value round-tripping through its own codec)
pub proof fn lemma_nametree_roundtrip<T: Object + ObjectWrite>(x: NmModel<T>, p: Primitive, st: Store)
    requires nm_writes(x, p), x.node matches NmNode::Leaf(items) ==> forall|i: int| 0 <= i < items.len() ==> rt_strong((#[trigger] items[i]).1, st)
    ensures nm_reads::<T>(p, st) == Ok::<NmModel<T>, PdfError>(x)
{
    lemma_nm_keys();
    let d = p->Dictionary_0;
    assert(deref1(p, st) == Ok::<Primitive, PdfError>(p));
    match x.limits {
        Some(l) => {
            let lp = d@["Limits"@];
            assert(dget(d@, "Limits"@) == Some(lp));
            assert(deref1(lp, st) == Ok::<Primitive, PdfError>(lp));
            let v = lp->Array_0;
            assert(str_of(v@[0]) == Ok::<PdfString, PdfError>(l.0) && str_of(v@[1]) == Ok::<PdfString, PdfError>(l.1));
            assert(limits_reads(d@, st) == Ok::<Option<(PdfString, PdfString)>, PdfError>(Some(l)));
        }
        None => { assert(dget(d@, "Limits"@) is None); }
    }
    match x.node {
        NmNode::Leaf(items) => {
            assert(dget(d@, "Kids"@) is None);
            let np = d@["Names"@];
            assert(dget(d@, "Names"@) == Some(np));
            assert(deref1(np, st) == Ok::<Primitive, PdfError>(np));
            let n = items.len() as int;
            lemma_names_roundtrip(items, n, st);
            assert(items.subrange(0, n) =~= items);
            assert((2 * n) / 2 == n);
        }
        NmNode::Intermediate(ids) => {
            let kp = d@["Kids"@];
            assert(dget(d@, "Kids"@) == Some(kp));
            assert(deref1(kp, st) == Ok::<Primitive, PdfError>(kp));
            lemma_kids_roundtrip(ids, ids.len() as int);
            assert(ids.subrange(0, ids.len() as int) =~= ids);
            assert(refs_prims(ids).len() == ids.len());
        }
    }
}
pub proof fn lemma_pairs_prefix<T: Object>(v: Seq<Primitive>, w: Seq<Primitive>, k: int, st: Store)
    requires 0 <= k, 2 * k <= v.len(), 2 * k <= w.len(), forall|i: int| 0 <= i < 2 * k ==> v[i] == w[i]
    ensures pairs_read::<T>(v, k, st) == pairs_read::<T>(w, k, st)
    decreases k
{
    if k > 0 { lemma_pairs_prefix::<T>(v, w, k - 1, st); }
}

}
fn main(){}
