// Repro for finding `nametree_writer_todo` (unit nametree; C15 / "no call panics").
// Copy to pdf/tests/ of a scratch copy of /repo and run
//   CARGO_TARGET_DIR=/tmp/nametree_target cargo test --offline -p pdf --test nametree_writer_todo_repro
// On the pinned tree all three tests die with  `not yet implemented: impl ObjectWrite for NameTree` (types.rs:1193);
// with findings/nametree_writer_todo_fix.diff they pass.
use pdf::file::FileOptions;
use pdf::object::*;
use pdf::primitive::{PdfString, Primitive};

// 1. the trait method itself is public API
#[test]
fn writing_a_name_tree_returns() {
    let t = NameTree::<Primitive> { limits: None, node: NameTreeNode::Leaf(vec![(PdfString::from("a"), Primitive::Integer(1))]) };
    let p = t.to_primitive(&mut NoUpdate).expect("a leaf node can be written");
    let t2 = NameTree::<Primitive>::from_primitive(p.clone(), &NoResolve).expect("what was written reads back");
    assert_eq!(t2.to_primitive(&mut NoUpdate).unwrap(), p, "write-read-write");
    match t2.node { NameTreeNode::Leaf(ref v) => { assert_eq!(v.len(), 1); assert_eq!(v[0].0.as_bytes(), b"a"); } _ => panic!("leaf") }
}

// 2. Limits and Kids
#[test]
fn writing_an_intermediate_node_returns() {
    let t = NameTree::<Primitive> {
        limits: Some((PdfString::from("a"), PdfString::from("m"))),
        node: NameTreeNode::Intermediate(vec![Ref::new(PlainRef { id: 7, gen: 0 }), Ref::new(PlainRef { id: 9, gen: 0 })]),
    };
    let p = t.to_primitive(&mut NoUpdate).expect("an intermediate node can be written");
    let t2 = NameTree::<Primitive>::from_primitive(p.clone(), &NoResolve).expect("reads back");
    assert_eq!(t2.to_primitive(&mut NoUpdate).unwrap(), p);
    let (lo, hi) = t2.limits.expect("limits kept");
    assert_eq!((lo.as_bytes(), hi.as_bytes()), (&b"a"[..], &b"m"[..]));
}

// 3. through a document: a catalog whose /Names dictionary is DIRECT (ISO 32000-1 Table 28 does not require it to be
//    indirect) is read as a typed Catalog and written back with File::update_catalog -- the ordinary way to change a catalog entry
fn build() -> Vec<u8> {
    let mut out: Vec<u8> = Vec::new();
    let mut offs = vec![];
    out.extend_from_slice(b"%PDF-1.4\n");
    let objs = [
        "<< /Type /Catalog /Pages 2 0 R /Names << /Dests << /Names [(chapter1) [3 0 R /Fit]] >> >> >>",
        "<< /Type /Pages /Kids [3 0 R] /Count 1 >>",
        "<< /Type /Page /Parent 2 0 R /MediaBox [0 0 10 10] >>",
    ];
    for (i, o) in objs.iter().enumerate() {
        offs.push(out.len());
        out.extend_from_slice(format!("{} 0 obj\n{}\nendobj\n", i + 1, o).as_bytes());
    }
    let px = out.len();
    out.extend_from_slice(b"xref\n0 4\n0000000000 65535 f \n");
    for o in &offs { out.extend_from_slice(format!("{:010} 00000 n \n", o).as_bytes()); }
    out.extend_from_slice(format!("trailer\n<< /Size 4 /Root 1 0 R >>\nstartxref\n{}\n%%EOF\n", px).as_bytes());
    out
}

#[test]
fn updating_the_catalog_of_a_document_with_direct_names_returns() {
    let mut file = FileOptions::uncached().load(build()).expect("load");
    let root = file.trailer.root.get_ref().get_inner();
    let catalog: Catalog = {
        let r = file.resolver();
        Catalog::from_primitive(r.resolve(root).expect("catalog object"), &r).expect("typed catalog")
    };
    assert!(catalog.names.is_some(), "the direct /Names dictionary was read");
    file.update_catalog(catalog).expect("the catalog that was just read can be written");
    let path = std::env::temp_dir().join("nametree_writer_todo_repro.pdf");
    file.save_to(&path).expect("save");
    let bytes = std::fs::read(&path).unwrap();
    let _ = std::fs::remove_file(&path);
    let again = FileOptions::uncached().load(bytes).expect("the saved file loads");
    let names = again.get_root().names.as_ref().expect("/Names survived");
    let dests = names.dests.as_ref().expect("/Dests survived");
    let mut n = 0;
    dests.walk(&again.resolver(), &mut |k, _v| { assert_eq!(k.as_bytes(), b"chapter1"); n += 1; }).unwrap();
    assert_eq!(n, 1);
}
