"""Unit `nametree` (C15; C14/C01 for the reader): NameTree<T>::from_primitive / to_primitive (ISO 32000-1 7.9.6 Table 36).

The writer is `todo!("impl ObjectWrite for NameTree")` on the pinned tree (finding nametree_writer_todo); with
findings/nametree_writer_todo_fix.diff it is the symmetric twin of NumberTree::to_primitive. unit.py looks at the tree and
describes the writer item for the shape it finds (loops / anchors of the implemented writer cannot be optional)."""
import os
import re
from vlib import assemble as _asm

P = 'pdf/src/primitive.rs'
T = 'pdf/src/object/types.rs'
RT = ['C15']
RD = ['C15', 'C14', 'C01']

try:
    _S = open(os.path.join(_asm.REPO, T), encoding='utf-8').read()
except OSError:
    _S = ''
WRITER_IS_TODO = re.search(r'todo!\("impl ObjectWrite for NameTree"\)', _S) is not None

SELF = lambda n=1: {'rule': 'R2', 'regex': r'\bself\b', 'replace': 'this', 'count': n}

# R2: a trait-impl method is emitted as a free generic fn (`Self`, `&impl Resolve` / `&mut impl Updater` as named generics)
READER_SIG = [
    {'where': 'sig', 'rule': 'R2', 'regex': r'\bfn from_primitive\(', 'replace': 'fn from_primitive<T: Object, R__: Resolve>('},
    {'where': 'sig', 'rule': 'R2', 'regex': r'&impl Resolve', 'replace': '&R__'},
    {'where': 'sig', 'rule': 'R2', 'regex': r'Result<Self>', 'replace': 'Result<NameTree<T>>'},
]
WRITER_SIG = [
    {'where': 'sig', 'rule': 'R2', 'regex': r'\bfn to_primitive\(&self', 'replace': 'fn to_primitive<T: ObjectWrite, U__: Updater>(this: &NameTree<T>'},
    {'where': 'sig', 'rule': 'R2', 'regex': r'&mut impl Updater', 'replace': '&mut U__'},
]

NM_READER_RW = READER_SIG + [
    {'rule': 'R1', 'find': 'let limits = match dict.remove("Limits") {', 'replace': 'proof { lemma_nm_keys(); } let ghost dict0 = dict@; let limits = match dict.remove("Limits") {'},
    {'rule': 'R7', 'regex': r't!\((kids\.resolve\(resolve\)\?\.into_array\(\)\?)\.iter\(\)\.map\(\|kid\|\s*Ref::<NameTree<T>>::from_primitive\(kid\.clone\(\), resolve\)\s*\)\.collect::<Result<Vec<_>>>\(\)\)',
     'replace': r't!(hoist_read_refs::<NameTree<T>, R__>(&\1, resolve))'},
    {'rule': 'R2', 'find': 'let mut new_names = Vec::new();', 'replace': 'let mut new_names: Vec<(PdfString, T)> = Vec::new();'},
    # R6: `names.chunks_exact(2)` yields names[0..2], names[2..4], ... and drops an odd last element
    {'rule': 'R6', 'find': 'for pair in names.chunks_exact(2) {',
     'replace': 'let mut i__: usize = 0; while names.len() - i__ >= 2 { let pair = hoist_chunk2(&names, i__); i__ += 2; '
                'proof { lemma_pairs_err_sticks::<T>(names@, i__ as int / 2, names@.len() as int / 2, resolve.store()); }'},
    {'rule': 'R2', 'find': 'node: NameTreeNode::Intermediate(vec![])', 'replace': 'node: NameTreeNode::Intermediate({ let e__: Vec<Ref<NameTree<T>>> = Vec::new(); proof { assert(ref_ids(e__@) =~= Seq::<PlainRef>::empty()); } e__ })'},
    {'rule': 'R1', 'find': 'node: NameTreeNode::Leaf (new_names),', 'replace': 'node: { proof { assert(i__ as int / 2 == names@.len() as int / 2); } NameTreeNode::Leaf (new_names) },'},
]
NM_READER_LOOPS = {1: {'invariant': [
    'i__ <= names.len()', 'i__ % 2 == 0',
    ('pairs_prefix', 'pairs_read::<T>(names@, i__ as int / 2, resolve.store()) == Ok::<Seq<(PdfString, T)>, PdfError>(new_names@)')],
    'decreases': 'names.len() - i__'}}

WR_ENS = [('wr_value', 'r matches Ok(p) ==> nm_writes(nm_view(*this), p)'),
          ('wr_err', 'r is Err ==> (this.node matches NameTreeNode::Leaf(items) && exists|i: int| 0 <= i < items@.len() && (#[trigger] items@[i]).1.wfail())')]

if WRITER_IS_TODO:
    # pinned tree: the body is `todo!(..)` = a panic for EVERY value: `panic_free` fails
    WRITER = {'kind': 'fn', 'file': T, 'container': r'^impl<T: ObjectWrite> ObjectWrite for NameTree<T>$', 'name': 'to_primitive',
              'rename': 'nametree_to_primitive', 'verus_name': 'nametree_to_primitive', 'props': RT + ['C04'], 'ensures': WR_ENS,
              'canary': False,   # the body is one diverging call: everything after it is vacuous, a canary twin says nothing
              'rewrites': WRITER_SIG + [
                  {'where': 'sig', 'rule': 'R2', 'find': '_update: &mut U__', 'replace': 'update_: &mut U__'},
                  {'rule': 'R4', 'regex': r'todo!\("impl ObjectWrite for NameTree"\)', 'replace': 'explicit_panic()'}]}
else:
    WRITER = {'kind': 'fn', 'file': T, 'container': r'^impl<T: ObjectWrite> ObjectWrite for NameTree<T>$', 'name': 'to_primitive',
              'rename': 'nametree_to_primitive', 'verus_name': 'nametree_to_primitive', 'props': RT + ['C04'], 'ensures': WR_ENS,
              'attrs': ['#[verifier::loop_isolation(false)]'],
              'loops': {1: {'invariant': ['i__ <= items.len()', ('names_prefix', 'names@ == names_array(items@, i__ as int)')],
                            'decreases': 'items.len() - i__'}},
              'rewrites': WRITER_SIG + [
                  SELF('*'),
                  {'rule': 'R1', 'find': 'let mut dict = Dictionary::new();', 'replace': 'proof { lemma_nm_keys(); } let mut dict = Dictionary::new();'},
                  {'rule': 'R7', 'regex': r'dict\.insert\("Limits", vec!\[(.*?), (.*?)\]\);', 'replace': r'dict.insert("Limits", hoist_vec_into(hoist_vec2(\1, \2)));'},
                  {'rule': 'R1', 'find': 'let mut names = Vec::with_capacity(items.len() * 2);', 'replace': 'proof { axiom_vec_len_bound2(items); } let mut names: Vec<Primitive> = Vec::with_capacity(items.len() * 2);'},
                  {'rule': 'R6', 'find': 'for &(ref name, ref value) in items {',
                   'replace': 'let mut i__: usize = 0; while i__ < items.len() { let it__ = &items[i__]; let name = &it__.0; let value = &it__.1; i__ += 1;'},
                  {'rule': 'R7', 'regex': r'dict\.insert\(("\w+"), names\);', 'replace': r'dict.insert(\1, hoist_vec_into(names));'},
                  {'rule': 'R7', 'find': 'kids.iter().map(|r| r.get_inner().into()).collect_vec()', 'replace': 'hoist_vec_into(hoist_refs_to_prims(kids))'},
                  {'rule': 'R7', 'find': 'Ok(dict.into())', 'replace': 'Ok(hoist_dict_into(dict))'},
              ]}

UNIT = {
 'name': 'nametree',
 'doc': 'NameTree<T> reader (Limits / Kids / Names pairs in order, hostile shapes are errors) and writer; reads(writes(x)) == Ok(x); the writer returns',
 'timeout': 600,
 'items': {
  'struct Name': {'kind': 'decl', 'file': P, 'header': r'^pub struct Name\('},
  'enum NameTreeNode': {'kind': 'decl', 'file': T, 'header': r'^pub enum NameTreeNode<T>$'},
  'struct NameTree': {'kind': 'decl', 'file': T, 'header': r'^pub struct NameTree<T>$'},
  'nametree_from_primitive': {'kind': 'fn', 'file': T, 'container': r'^impl<T: Object> Object for NameTree<T>$', 'name': 'from_primitive',
      'rename': 'nametree_from_primitive', 'verus_name': 'nametree_from_primitive', 'props': RD,
      'ensures': [('rd_spec', 'nm_agrees(r, nm_reads::<T>(p, resolve.store()))')],
      'rewrites': NM_READER_RW, 'loops': NM_READER_LOOPS, 'attrs': ['#[verifier::loop_isolation(false)]']},
  'nametree_to_primitive': WRITER,
 },
}
