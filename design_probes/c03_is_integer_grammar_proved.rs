use vstd::prelude::*;
verus! {
global size_of usize == 8;
#[derive(Clone, Copy)]
pub struct Substr<'a> { pub slice: &'a [u8], pub file_offset: usize }

// ISO 32000-1 7.3.3 numbers, with named deviations of the pinned code
pub open spec fn DEV_NO_PLUS_SIGN() -> bool { true }   // ISO: a leading '+' is allowed
pub open spec fn digit(b: u8) -> bool { 48 <= b <= 57 }
pub open spec fn all_digits(s: Seq<u8>) -> bool { forall|i: int| 0 <= i < s.len() ==> digit(#[trigger] s[i]) }
pub open spec fn sign_len(s: Seq<u8>) -> int { if s.len() > 0 && (s[0] == 45 || (!DEV_NO_PLUS_SIGN() && s[0] == 43)) { 1 } else { 0 } }
// integer literal: optional sign, one or more digits
pub open spec fn is_int_lit(s: Seq<u8>) -> bool {
    let k = sign_len(s);
    s.len() > k && all_digits(s.subrange(k, s.len() as int))
}

#[verifier::external_body]
fn is_int(b: &[u8]) -> (r: bool) ensures r == all_digits(b@) { b.iter().all(|&b| b.is_ascii_digit()) }   // L0, Kani leaf

impl<'a> Substr<'a> {
    pub fn is_integer(&self) -> (r: bool)
        ensures r == is_int_lit(self.slice@)
    {
        if self.slice.len() == 0 {
            return false;
        }
        let mut slice = self.slice;
        if slice[0] == b'-' {
            if slice.len() < 2 {
                return false;
            }
            slice = &slice[1..];
        }
        proof {
            let s = self.slice@; let k = sign_len(s);
            assert(slice@ =~= s.subrange(k, s.len() as int));
        }
        is_int(slice)
    }
}
}
fn main(){}
