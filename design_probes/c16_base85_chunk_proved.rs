use vstd::prelude::*;
verus! {
pub open spec fn be32(c: [u8; 4]) -> nat { (c@[0] as nat) * 16777216 + (c@[1] as nat) * 65536 + (c@[2] as nat) * 256 + (c@[3] as nat) }
pub open spec fn a85_value(e: [u8; 5]) -> int {
    ((((e@[0] - 33) * 85 + (e@[1] - 33)) * 85 + (e@[2] - 33)) * 85 + (e@[3] - 33)) * 85 + (e@[4] - 33)
}
#[verifier::external_body]
fn hoist_from_be(c: [u8; 4]) -> (r: u32) ensures r == be32(c) { u32::from_be_bytes(c) }

#[inline]
fn divmod(n: u32, m: u32) -> (r: (u32, u32))
    requires m != 0
    ensures r.0 == n / m, r.1 == n % m
{
    (n / m, n % m)
}

#[inline]
fn a85(n: u32) -> (r: u8)
    requires n < 85
    ensures r == n + 0x21
{
    n as u8 + 0x21
}

#[inline]
fn base85_chunk(c: [u8; 4]) -> (r: [u8; 5])
    ensures a85_value(r) == be32(c),
        forall|i: int| 0 <= i < 5 ==> 0x21 <= #[trigger] r@[i] <= 0x75
{
    let n = hoist_from_be(c);
    let (n, e) = divmod(n, 85);
    let (n, d) = divmod(n, 85);
    let (n, c) = divmod(n, 85);
    let (a, b) = divmod(n, 85);
    
    [a85(a), a85(b), a85(c), a85(d), a85(e)]
}
}
fn main(){}
