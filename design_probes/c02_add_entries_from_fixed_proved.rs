use vstd::prelude::*;
macro_rules! bail { ($($t:tt)*) => { return Err(PdfError::Other) } }
verus! {
pub enum PdfError { Other }
pub type Result<T, E=PdfError> = core::result::Result<T, E>;
pub type ObjNr = u64; pub type GenNr = u64;

#[derive(Copy, Clone)]
pub enum XRef {
    Free { next_obj_nr: ObjNr, gen_nr: GenNr },
    Raw { pos: usize, gen_nr: GenNr },
    Stream { stream_id: ObjNr, index: usize },
    Promised,
    Invalid
}
impl XRef {
    pub fn get_gen_nr(&self) -> (r: GenNr)
        requires !(*self is Promised), !(*self is Invalid)
        ensures r == gen_of(*self)
    {
        match *self {
            XRef::Free {gen_nr, ..}
            | XRef::Raw {gen_nr, ..} => gen_nr,
            XRef::Stream { .. } => 0, // TODO I think these always have gen nr 0?
            _ => panic!()
        }
    }
}
pub open spec fn gen_of(e: XRef) -> u64 { match e { XRef::Free{gen_nr, ..} => gen_nr, XRef::Raw{gen_nr, ..} => gen_nr, _ => 0 } }
pub struct XRefTable { pub entries: Vec<XRef> }
pub struct XRefSection { pub first_id: u32, pub entries: Vec<XRef> }

#[verifier::external_body]
fn hoist_entries(section: &XRefSection) -> (r: Vec<(usize, XRef)>)
    ensures r@.len() == section.entries@.len(),
        forall|k: int| 0 <= k < r@.len() ==> r@[k] == ((section.first_id as usize + k) as usize, section.entries@[k])
{
    section.entries.iter().enumerate().map(move |(i, e)| (i + section.first_id as usize, *e)).collect()
}


pub open spec fn usable(e: XRef) -> bool { e is Free || e is Raw || e is Stream }
pub open spec fn mentions(sec: XRefSection, i: int) -> bool { sec.first_id <= i < sec.first_id + sec.entries@.len() }
pub open spec fn merge1(t: Seq<XRef>, sec: XRefSection) -> Seq<XRef> {
    Seq::new(t.len(), |i: int| if t[i] is Invalid && mentions(sec, i) { sec.entries@[i - sec.first_id] } else { t[i] })
}
impl XRefTable {
    pub fn add_entries_from(&mut self, section: XRefSection) -> (r: Result<()>)
        requires
            forall|k: int| 0 <= k < section.entries@.len() ==> usable(#[trigger] section.entries@[k]),
            forall|i: int| 0 <= i < old(self).entries@.len() ==> !(#[trigger] old(self).entries@[i] is Promised),
            section.first_id + section.entries@.len() < usize::MAX,
            // well-formed history: an older section never carries a larger generation than what is already merged
            forall|i: int| 0 <= i < old(self).entries@.len() && mentions(section, i) && (old(self).entries@[i] is Raw || old(self).entries@[i] is Free)
                ==> gen_of(section.entries@[i - section.first_id]) <= gen_of(#[trigger] old(self).entries@[i]),
        ensures r is Ok, final(self).entries@ =~= merge1(old(self).entries@, section),
    {
        let __it = hoist_entries(&section);
        for __k in 0..__it.len()
            invariant
                __it@.len() == section.entries@.len(),
                forall|k: int| 0 <= k < __it@.len() ==> __it@[k] == ((section.first_id as usize + k) as usize, section.entries@[k]),
                forall|k: int| 0 <= k < section.entries@.len() ==> usable(#[trigger] section.entries@[k]),
                section.first_id + section.entries@.len() < usize::MAX,
                self.entries@.len() == old(self).entries@.len(),
                forall|i: int| 0 <= i < self.entries@.len() ==> self.entries@[i] ==
                    (if old(self).entries@[i] is Invalid && section.first_id <= i < section.first_id + __k { section.entries@[i - section.first_id] } else { old(self).entries@[i] }),
                forall|i: int| 0 <= i < old(self).entries@.len() ==> !(#[trigger] old(self).entries@[i] is Promised),
                forall|i: int| 0 <= i < old(self).entries@.len() && mentions(section, i) && (old(self).entries@[i] is Raw || old(self).entries@[i] is Free)
                    ==> gen_of(section.entries@[i - section.first_id]) <= gen_of(#[trigger] old(self).entries@[i]),
        { let (i, entry) = __it[__k];
            if let Some(dst) = self.entries.get_mut(i) {
                // Early return if the entry we have has larger or equal generation number
                let should_be_updated = match *dst {
                    XRef::Raw { gen_nr: gen, .. } | XRef::Free { gen_nr: gen, .. }
                        => entry.get_gen_nr() > gen,
                    XRef::Stream { .. } => false,
                    XRef::Invalid
                        => true,
                    x => bail!("found {:?}", x)
                };
                if should_be_updated {
                    *dst = entry;
                }
            }
        }
        Ok(())
    }
}
}
fn main(){}
