use vstd::prelude::*;
macro_rules! err { ($e: expr) => ({ return Err($e); }) }
verus! {
global size_of usize == 8;
pub enum PdfError { ObjStmOutOfBounds { index: usize, max: usize }, ContentReadPastBoundary, Other }
pub type Result<T, E=PdfError> = core::result::Result<T, E>;

// ---- backend.rs: IndexRange::to_range (trait default method as free fn over the two accessors)
pub fn to_range(start: Option<usize>, end: Option<usize>, len: usize) -> (r: Result<core::ops::Range<usize>>)
    ensures r matches Ok(rg) ==> rg.start <= rg.end <= len
        && (start matches Some(s) ==> rg.start == s) && (start is None ==> rg.start == 0)
        && (end matches Some(e) ==> rg.end == e) && (end is None ==> rg.end == len),
        r is Err <==> ((start matches Some(s) && s > len) || (end matches Some(e) && e > len) || (start matches Some(s) && end matches Some(e) && s > e)),
{
        match (start, end) {
            (None, None) => Ok(0 .. len),
            (Some(start), None) if start <= len => Ok(start .. len),
            (None, Some(end)) if end <= len => Ok(0 .. end),
            (Some(start), Some(end)) if start <= end && end <= len => Ok(start .. end),
            _ => Err(PdfError::ContentReadPastBoundary)
        }
}

// ---- object/stream.rs: ObjectStream::get_object_slice
pub struct Info { pub first: usize }
pub struct Inner { pub info: Info }
pub struct ObjectStream { pub offsets: Vec<usize>, pub inner: Inner }
pub uninterp spec fn decoded(s: ObjectStream) -> Seq<u8>;
#[verifier::external_body]
fn hoist_data(s: &ObjectStream) -> (r: Result<Vec<u8>>) ensures r matches Ok(d) ==> d@ == decoded(*s) { todo!() }

impl ObjectStream {
    pub fn get_object_slice(&self, index: usize) -> (r: Result<(Vec<u8>, core::ops::Range<usize>)>)
        requires
            // what a conforming object stream satisfies (ISO 32000-1 7.5.7): offsets relative to /First, inside the data
            forall|i: int| 0 <= i < self.offsets@.len() ==> self.inner.info.first + #[trigger] self.offsets@[i] <= usize::MAX,
        ensures
            index >= self.offsets@.len() ==> r matches Err(PdfError::ObjStmOutOfBounds{..}),
            r matches Ok((data, range)) ==> index < self.offsets@.len() && data@ == decoded(*self)
                && range.start == self.inner.info.first + self.offsets@[index as int]
                && range.end == (if index == self.offsets@.len() - 1 { data@.len() as int } else { self.inner.info.first + self.offsets@[index + 1] }),
    {
        if index >= self.offsets.len() {
            err!(PdfError::ObjStmOutOfBounds {index, max: self.offsets.len()});
        }
        let start = self.inner.info.first + self.offsets[index];
        let data = hoist_data(self)?;
        let end = if index == self.offsets.len() - 1 {
            data.len()
        } else {
            self.inner.info.first + self.offsets[index + 1]
        };

        Ok((data, start..end))
    }
}
}
fn main(){}
