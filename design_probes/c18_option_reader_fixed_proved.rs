use vstd::prelude::*;
verus! {
pub enum PdfError { EOF, NullRef, FreeObject, UnspecifiedXRefEntry, Other, Try(Box<PdfError>), FromPrimitive(Box<PdfError>), Shared(Box<PdfError>) }
pub type Result<T, E=PdfError> = core::result::Result<T, E>;
pub enum Primitive { Null, Integer(i32), Reference(u64) }
pub struct ParseOptions { pub allow_error_in_option: bool }

pub open spec fn root(e: PdfError) -> PdfError decreases e {
    match e { PdfError::Try(b) => root(*b), PdfError::FromPrimitive(b) => root(*b), PdfError::Shared(b) => root(*b), x => x }
}
pub open spec fn is_missing(e: PdfError) -> bool { root(e) is NullRef || root(e) is FreeObject || root(e) is UnspecifiedXRefEntry }

impl PdfError {
    pub fn is_missing_object(&self) -> (r: bool)
        ensures r == is_missing(*self)
        decreases *self
    {
        match self {
            PdfError::NullRef | PdfError::FreeObject | PdfError::UnspecifiedXRefEntry => true,
            PdfError::Try(source) => source.is_missing_object(),
            PdfError::FromPrimitive(source) => source.is_missing_object(),
            PdfError::Shared(source) => source.is_missing_object(),
            _ => false
        }
    }
}
pub trait Resolve {
    spec fn opts(&self) -> ParseOptions;
    fn options(&self) -> (r: &ParseOptions) ensures *r == self.opts();
}
pub trait Object: Sized {
    spec fn reads(p: Primitive) -> Result<Self>;
    fn from_primitive(p: Primitive, resolve: &impl Resolve) -> (r: Result<Self>)
        ensures r == Self::reads(p);
}

pub fn option_from_primitive<T: Object>(p: Primitive, resolve: &impl Resolve) -> (r: Result<Option<T>>)
    ensures
        p is Null ==> r == Ok::<Option<T>, PdfError>(None),
        !(p is Null) ==> match T::reads(p) {
            Ok(v) => r == Ok::<Option<T>, PdfError>(Some(v)),
            Err(e) => if is_missing(e) || resolve.opts().allow_error_in_option { r == Ok::<Option<T>, PdfError>(None) } else { r is Err },
        }
{
        match p {
            Primitive::Null => Ok(None),
            p => match T::from_primitive(p, resolve) {
                Ok(p) => Ok(Some(p)),
                // References to non-existing objects ought not to be an error
                Err(e) if e.is_missing_object() => Ok(None),
                Err(e) if resolve.options().allow_error_in_option => {
                    Ok(None)
                }
                Err(e) => Err(e)
            }
        }
}
}
fn main(){}
