use vstd::prelude::*;
verus! {
pub enum PdfError { EOF, Other }
pub type Result<T, E=PdfError> = core::result::Result<T, E>;

pub struct StringLexer<'a> {
    pub pos: usize, // points to next byte
    pub nested: i32, // How far in () we are nested
    pub buf: &'a [u8],
}
impl<'a> StringLexer<'a> {
    pub open spec fn wf(&self) -> bool { self.pos <= self.buf@.len() && -1 <= self.nested < i32::MAX  }
    pub fn get_offset(&self) -> usize {
        self.pos
    }
    pub fn next_lexeme(&mut self) -> (r: Result<Option<u8>>)
        requires old(self).wf(), old(self).nested >= 0, old(self).nested as int + old(self).buf@.len() - old(self).pos < i32::MAX
        ensures final(self).wf(), final(self).buf == old(self).buf, final(self).pos >= old(self).pos
        decreases old(self).buf@.len() - old(self).pos
    {
        let c = self.next_byte()?;
        match c {
            b'\\' => {
                let c = self.next_byte()?;
                Ok(
                match c {
                    b'n' => Some(b'\n'),
                    b'r' => Some(b'\r'),
                    b't' => Some(b'\t'),
                    b'b' => Some(b'\x08'),
                    b'f' => Some(b'\x0c'),
                    b'(' => Some(b'('),
                    b')' => Some(b')'),
                    b'\n' => {
                        // ignore end-of-line marker
                        if let Ok(b'\r') = self.peek_byte() {
                            let _ = self.next_byte();
                        }
                        self.next_lexeme()?
                    }
                    b'\r' => {
                        // ignore end-of-line marker
                        if let Ok(b'\n') = self.peek_byte() {
                            let _ = self.next_byte();
                        }
                        self.next_lexeme()?
                    }
                    b'\\' => Some(b'\\'),

                    _ => {
                        self.back()?;
                        let _start = self.get_offset();
                        let mut char_code: u16 = 0;

                        // A character code must follow. 1-3 numbers.
                        for _ in 0..3 {
                            let c = self.peek_byte()?;
                            if (b'0'..=b'7').contains(&c) {
                                self.next_byte()?;
                                char_code = char_code * 8 + (c - b'0') as u16;
                            } else {
                                break;
                            }
                        }
                        Some(char_code as u8)
                    }
                }
                )
            },

            b'(' => {
                self.nested += 1;
                Ok(Some(b'('))
            },
            b')' => {
                self.nested -= 1;
                if self.nested < 0 {
                    Ok(None)
                } else {
                    Ok(Some(b')'))
                }
            },

            c => Ok(Some(c))

        }
    }

    fn next_byte(&mut self) -> (r: Result<u8>)
        requires old(self).pos <= old(self).buf@.len()
        ensures final(self).buf == old(self).buf, final(self).nested == old(self).nested,
            r matches Ok(b) ==> old(self).pos < old(self).buf@.len() && final(self).pos == old(self).pos + 1 && b == old(self).buf@[old(self).pos as int],
            r is Err ==> final(self).pos == old(self).pos && old(self).pos == old(self).buf@.len(),
    {
        if self.pos < self.buf.len() {
            self.pos += 1;
            Ok(self.buf[self.pos-1])
        } else {
            Err(PdfError::EOF)
        }
    }
    fn back(&mut self) -> (r: Result<()>)
        ensures final(self).buf == old(self).buf, final(self).nested == old(self).nested,
            r is Ok ==> old(self).pos > 0 && final(self).pos == old(self).pos - 1,
            r is Err ==> final(self).pos == old(self).pos
    {
        if self.pos > 0 {
            self.pos -= 1;
            Ok(())
        } else {
            Err(PdfError::EOF)
        }
    }
    fn peek_byte(&mut self) -> (r: Result<u8>)
        requires old(self).pos <= old(self).buf@.len()
        ensures *final(self) == *old(self),
            r matches Ok(b) ==> old(self).pos < old(self).buf@.len() && b == old(self).buf@[old(self).pos as int],
    {
        if self.pos < self.buf.len() {
            Ok(self.buf[self.pos])
        } else {
            Err(PdfError::EOF)
        }
    }
}
}
fn main(){}
