use vstd::prelude::*;
verus! {

pub struct Widths {
    pub values: Vec<f32>,
    pub default: f32,
    pub first_char: usize
}

#[verifier::external_body]
fn hoist_splice_front(values: &mut Vec<f32>, d: f32, n: usize)
    ensures final(values)@ == Seq::new(n as nat, |i: int| d) + old(values)@
{
    values.splice(0 .. 0, std::iter::repeat(d).take(n));
}
#[verifier::external_body]
fn hoist_extend_repeat(values: &mut Vec<f32>, d: f32, n: usize)
    ensures final(values)@ == old(values)@ + Seq::new(n as nat, |i: int| d)
{
    values.extend(std::iter::repeat(d).take(n));
}

impl Widths {
    pub open spec fn view_at(&self, cid: int) -> f32 {
        if cid < self.first_char || cid >= self.first_char + self.values@.len() { self.default } else { self.values@[cid - self.first_char] }
    }
    pub open spec fn wf(&self) -> bool { self.first_char + self.values@.len() <= usize::MAX }

    pub fn get(&self, cid: usize) -> (r: f32)
        ensures r == self.view_at(cid as int)
    {
        if cid < self.first_char {
            self.default
        } else {
            self.values.get(cid - self.first_char).cloned().unwrap_or(self.default)
        }
    }

    fn _set(&mut self, cid: usize, width: f32)
        requires old(self).wf(), cid < usize::MAX
        ensures final(self).wf(),
            final(self).default == old(self).default,
            forall|c: int| final(self).view_at(c) == if c == cid { width } else { old(self).view_at(c) },
    {
        if self.values.is_empty() {
            self.first_char = cid;
            self.values.push(width);
            return;
        }

        if cid == self.first_char + self.values.len() {
            self.values.push(width);
            return;
        }

        if cid < self.first_char {
            let __d = self.default; let __n = self.first_char - cid; hoist_splice_front(&mut self.values, __d, __n);
            self.first_char = cid;
            self.values[0] = width;
            return;
        }

        if cid > self.values.len() + self.first_char {
            let __d = self.default; let __n = cid - self.first_char - self.values.len(); hoist_extend_repeat(&mut self.values, __d, __n);
            self.values.push(width);
            return;
        }

        self.values[cid - self.first_char] = width;
    }
}
}
fn main(){}
