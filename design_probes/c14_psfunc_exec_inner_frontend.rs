use vstd::prelude::*;
macro_rules! op {
    ($stack:ident; $($v:ident),* => $($e:expr),*) => ( {
        $(let $v = $stack.pop().ok_or(PostScriptError::StackUnderflow)?;)*
        $($stack.push($e);)*
    } )
}
verus! {
pub enum PostScriptError { StackUnderflow, IncorrectStackSize }
#[derive(Clone, Copy)]
pub enum PsOp { Int(i32), Value(f32), Dup, Exch, Pop, Index, Roll }
pub struct PsFunc { pub ops: Vec<PsOp> }
#[verifier::external_body]
fn i2f(i: i32) -> f32 { i as f32 }
#[verifier::external_body]
fn f2usize(f: f32) -> usize { f as usize }
#[verifier::external_body]
fn f2isize(f: f32) -> isize { f as isize }
#[verifier::external_body]
fn hoist_rotate_right(s: &mut [f32], k: usize) requires k <= old(s)@.len() ensures final(s)@.len() == old(s)@.len() { s.rotate_right(k) }
#[verifier::external_body]
fn hoist_rotate_left(s: &mut [f32], k: usize) requires k <= old(s)@.len() ensures final(s)@.len() == old(s)@.len() { s.rotate_left(k) }

impl PsFunc {
    fn exec_inner(&self, stack: &mut Vec<f32>) -> Result<(), PostScriptError> {
        for op_ref in it: &self.ops { let op = *op_ref;
            match op {
                PsOp::Int(i) => stack.push(i2f(i)),
                PsOp::Value(v) => stack.push(v),
                PsOp::Dup => op!(stack; v => v, v),
                PsOp::Exch => op!(stack; b, a => b, a),
                PsOp::Roll => {
                    let j = f2isize(stack.pop().ok_or(PostScriptError::StackUnderflow)?);
                    let n = f2usize(stack.pop().ok_or(PostScriptError::StackUnderflow)?);
                    let start = stack.len() - n;
                    let slice = &mut stack[start..];
                    if j > 0 {
                        hoist_rotate_right(slice, j as usize);
                    } else {
                        hoist_rotate_left(slice, -j as usize);
                    }
                }
                PsOp::Index => {
                    let n = f2usize(stack.pop().ok_or(PostScriptError::StackUnderflow)?);
                    if n >= stack.len() { return Err(PostScriptError::StackUnderflow); }
                    let val = stack[stack.len() - n - 1];
                    stack.push(val);
                }
                PsOp::Pop => {
                    stack.pop().ok_or(PostScriptError::StackUnderflow)?;
                }
            }
        }
        Ok(())
    }
}
}
fn main(){}
