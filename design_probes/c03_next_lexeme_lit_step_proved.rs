use vstd::prelude::*;
verus! {
pub enum PdfError { EOF, Other }
pub type Result<T, E=PdfError> = core::result::Result<T, E>;
pub struct StringLexer<'a> { pub pos: usize, pub nested: i32, pub buf: &'a [u8] }

// ---- spec: one lexeme of a literal string, ISO 32000-1 7.3.4.2 (Table 3), with named deviations
pub open spec fn DEV_UNKNOWN_ESCAPE_EMITS_NUL() -> bool { true }   // ISO: false (backslash ignored)
pub struct Step { pub eof: bool, pub out: Option<u8>, pub pos: int, pub nested: int }
pub open spec fn esc_other(d: u8) -> bool { !(d == 110 || d == 114 || d == 116 || d == 98 || d == 102 || d == 40 || d == 41 || d == 92 || d == 10 || d == 13) }
pub open spec fn is_oct(c: u8) -> bool { 48 <= c <= 55 }
pub open spec fn oct_len(buf: Seq<u8>, p: int) -> int {
    if p < buf.len() && is_oct(buf[p]) { if p + 1 < buf.len() && is_oct(buf[p+1]) { if p + 2 < buf.len() && is_oct(buf[p+2]) { 3 } else { 2 } } else { 1 } } else { 0 }
}
pub open spec fn oct_val(buf: Seq<u8>, p: int, n: int) -> int decreases n {
    if n <= 0 { 0 } else { oct_val(buf, p, n - 1) * 8 + (buf[p + n - 1] - 48) }
}
pub open spec fn lit_step(buf: Seq<u8>, pos: int, nested: int) -> Step decreases buf.len() - pos {
    if pos < 0 || pos >= buf.len() { Step { eof: true, out: None, pos, nested } } else {
    let c = buf[pos];
    if c == 92 {
        if pos + 1 >= buf.len() { Step { eof: true, out: None, pos: pos + 1, nested } } else {
        let d = buf[pos + 1];
        if d == 110 { Step { eof: false, out: Some(10u8), pos: pos + 2, nested } }
        else if d == 114 { Step { eof: false, out: Some(13u8), pos: pos + 2, nested } }
        else if d == 116 { Step { eof: false, out: Some(9u8), pos: pos + 2, nested } }
        else if d == 98 { Step { eof: false, out: Some(8u8), pos: pos + 2, nested } }
        else if d == 102 { Step { eof: false, out: Some(12u8), pos: pos + 2, nested } }
        else if d == 40 { Step { eof: false, out: Some(40u8), pos: pos + 2, nested } }
        else if d == 41 { Step { eof: false, out: Some(41u8), pos: pos + 2, nested } }
        else if d == 92 { Step { eof: false, out: Some(92u8), pos: pos + 2, nested } }
        else if d == 10 { lit_step(buf, if pos + 2 < buf.len() && buf[pos + 2] == 13 { pos + 3 } else { pos + 2 }, nested) }
        else if d == 13 { lit_step(buf, if pos + 2 < buf.len() && buf[pos + 2] == 10 { pos + 3 } else { pos + 2 }, nested) }
        else {
            let n = oct_len(buf, pos + 1);
            if n == 0 {
                if DEV_UNKNOWN_ESCAPE_EMITS_NUL() { Step { eof: false, out: Some(0u8), pos: pos + 1, nested } }
                else { lit_step(buf, pos + 1, nested) }
            } else if n < 3 && pos + 1 + n >= buf.len() {
                Step { eof: true, out: None, pos: pos + 1 + n, nested }      // code peeks past the end: EOF
            } else { Step { eof: false, out: Some((oct_val(buf, pos + 1, n) % 256) as u8), pos: pos + 1 + n, nested } }
        } }
    } else if c == 40 { Step { eof: false, out: Some(40u8), pos: pos + 1, nested: nested + 1 } }
    else if c == 41 { if nested - 1 < 0 { Step { eof: false, out: None, pos: pos + 1, nested: nested - 1 } } else { Step { eof: false, out: Some(41u8), pos: pos + 1, nested: nested - 1 } } }
    else { Step { eof: false, out: Some(c), pos: pos + 1, nested } } }
}

impl<'a> StringLexer<'a> {
    pub open spec fn wf(&self) -> bool { self.pos <= self.buf@.len() }
    pub fn get_offset(&self) -> (r: usize) ensures r == self.pos { self.pos }

    pub fn next_lexeme(&mut self) -> (r: Result<Option<u8>>)
        requires old(self).wf(), 0 <= old(self).nested, old(self).nested + old(self).buf@.len() < i32::MAX
        ensures final(self).buf == old(self).buf, final(self).wf(),
            ({ let st = lit_step(old(self).buf@, old(self).pos as int, old(self).nested as int);
               if st.eof { r is Err } else { r == Ok::<Option<u8>, PdfError>(st.out) && final(self).pos == st.pos && final(self).nested == st.nested } }),
        decreases old(self).buf@.len() - old(self).pos
    {
        let c = self.next_byte()?;
        match c {
            b'\\' => {
                let c = self.next_byte()?;
                Ok(
                match c {
                    b'n' => Some(b'\n'),
                    b'r' => Some(b'\r'),
                    b't' => Some(b'\t'),
                    b'b' => Some(b'\x08'),
                    b'f' => Some(b'\x0c'),
                    b'(' => Some(b'('),
                    b')' => Some(b')'),
                    b'\n' => {
                        // ignore end-of-line marker
                        if let Ok(b'\r') = self.peek_byte() {
                            let _ = self.next_byte();
                        }
                        self.next_lexeme()?
                    }
                    b'\r' => {
                        // ignore end-of-line marker
                        if let Ok(b'\n') = self.peek_byte() {
                            let _ = self.next_byte();
                        }
                        self.next_lexeme()?
                    }
                    b'\\' => Some(b'\\'),

                    _ => {
                        self.back()?;
                        let _start = self.get_offset();
                        let mut char_code: u16 = 0;
                        let ghost p1 = self.pos as int;

                        // A character code must follow. 1-3 numbers.
                        let ghost mut k: int = 0;
                        for _i in it: 0..3
                            invariant self.buf == old(self).buf, self.nested == old(self).nested, self.wf(),
                                p1 == old(self).pos + 1, 0 <= k <= 3, k <= it.index@,
                                p1 < self.buf@.len(), self.buf@[p1 - 1] == 92u8, esc_other(self.buf@[p1]), 0 <= old(self).nested,
                                self.pos == p1 + k,
                                char_code as int == oct_val(self.buf@, p1, k),
                                k >= 1 ==> (p1 < self.buf@.len() && is_oct(self.buf@[p1])), k >= 2 ==> (p1 + 1 < self.buf@.len() && is_oct(self.buf@[p1 + 1])), k >= 3 ==> (p1 + 2 < self.buf@.len() && is_oct(self.buf@[p1 + 2])),
                                k == 0 ==> char_code == 0, k == 1 ==> char_code < 8, k == 2 ==> char_code < 64, k == 3 ==> char_code < 512,
                                k == it.index@ || (k < 3 && self.pos < self.buf@.len() && !is_oct(self.buf@[self.pos as int])),
                            ensures k == 3 || (k < 3 && self.pos < self.buf@.len() && !is_oct(self.buf@[self.pos as int])),
                        {
                            let c = self.peek_byte()?;
                            if (b'0'..=b'7').contains(&c) {
                                self.next_byte()?;
                                char_code = char_code * 8 + (c - b'0') as u16;
                                proof { k = k + 1; }
                            } else {
                                break;
                            }
                        }
                        proof { assert(k == oct_len(self.buf@, p1));
                            let st = lit_step(old(self).buf@, old(self).pos as int, old(self).nested as int);
                            assert(old(self).buf@[old(self).pos as int] == 92u8);
                            assert(!st.eof);
                            assert(st.pos == self.pos);
                            assert(st.out == Some(((char_code as int) % 256) as u8));
                            let cc: u16 = char_code; assert((#[verifier::truncate] (cc as u8)) == (cc % 256) as u8) by (bit_vector);
                        }
                        Some(#[verifier::truncate] (char_code as u8))
                    }
                }
                )
            },

            b'(' => {
                self.nested += 1;
                Ok(Some(b'('))
            },
            b')' => {
                self.nested -= 1;
                if self.nested < 0 {
                    Ok(None)
                } else {
                    Ok(Some(b')'))
                }
            },

            c => Ok(Some(c))

        }
    }

    fn next_byte(&mut self) -> (r: Result<u8>)
        requires old(self).wf()
        ensures final(self).buf == old(self).buf, final(self).nested == old(self).nested, final(self).wf(),
            r matches Ok(b) ==> old(self).pos < old(self).buf@.len() && final(self).pos == old(self).pos + 1 && b == old(self).buf@[old(self).pos as int],
            r is Err ==> final(self).pos == old(self).pos && old(self).pos == old(self).buf@.len(),
    {
        if self.pos < self.buf.len() {
            self.pos += 1;
            Ok(self.buf[self.pos-1])
        } else {
            Err(PdfError::EOF)
        }
    }
    fn back(&mut self) -> (r: Result<()>)
        requires old(self).wf()
        ensures final(self).buf == old(self).buf, final(self).nested == old(self).nested, final(self).wf(),
            r is Ok ==> old(self).pos > 0 && final(self).pos == old(self).pos - 1,
            r is Err ==> final(self).pos == old(self).pos && old(self).pos == 0
    {
        if self.pos > 0 {
            self.pos -= 1;
            Ok(())
        } else {
            Err(PdfError::EOF)
        }
    }
    fn peek_byte(&mut self) -> (r: Result<u8>)
        requires old(self).wf()
        ensures *final(self) == *old(self),
            r matches Ok(b) ==> old(self).pos < old(self).buf@.len() && b == old(self).buf@[old(self).pos as int],
            r is Err ==> old(self).pos == old(self).buf@.len(),
    {
        if self.pos < self.buf.len() {
            Ok(self.buf[self.pos])
        } else {
            Err(PdfError::EOF)
        }
    }
}
}
fn main(){}
