use vstd::prelude::*;
verus! {
global size_of usize == 8;
pub enum PdfError { EOF, HexDecode }
pub type Result<T, E=PdfError> = core::result::Result<T, E>;
pub struct HexStringLexer<'a> { pub pos: usize, pub buf: &'a [u8] }

// ISO 32000-1 7.3.4.3; white-space per Table 1 with a named deviation for NUL
pub open spec fn DEV_HEX_NUL_NOT_SKIPPED() -> bool { true }   // ISO: false
pub open spec fn hex_ws(b: u8) -> bool { b == 32 || b == 9 || b == 10 || b == 13 || b == 12 || (!DEV_HEX_NUL_NOT_SKIPPED() && b == 0) }
pub open spec fn hexval(c: u8) -> Option<u8> {
    if 48 <= c <= 57 { Some((c - 48) as u8) } else if 65 <= c <= 70 { Some((c - 55) as u8) } else if 97 <= c <= 102 { Some((c - 87) as u8) } else { None }
}
pub open spec fn skip(buf: Seq<u8>, p: int) -> int decreases buf.len() - p { if 0 <= p < buf.len() && hex_ws(buf[p]) { skip(buf, p + 1) } else { p } }
pub struct HStep { pub eof: bool, pub bad: bool, pub out: Option<u8>, pub pos: int }
pub open spec fn hex_step(buf: Seq<u8>, pos: int) -> HStep {
    let p1 = skip(buf, pos);
    if p1 >= buf.len() { HStep { eof: true, bad: false, out: None, pos: p1 } } else {
    let c1 = buf[p1];
    if c1 == 62 { HStep { eof: false, bad: false, out: None, pos: p1 + 1 } }
    else { match hexval(c1) { None => HStep { eof: false, bad: true, out: None, pos: p1 + 1 }, Some(h) => {
        let p2 = skip(buf, p1 + 1);
        if p2 >= buf.len() { HStep { eof: true, bad: false, out: None, pos: p2 } } else {
        let c2 = buf[p2];
        if c2 == 62 { HStep { eof: false, bad: false, out: Some((h * 16) as u8), pos: p2 } }      // odd digit: low nibble 0, '>' left for the next call
        else { match hexval(c2) { None => HStep { eof: false, bad: true, out: None, pos: p2 + 1 }, Some(l) => HStep { eof: false, bad: false, out: Some((h * 16 + l) as u8), pos: p2 + 1 } } } }
    } } } }
}
proof fn lemma_skip(buf: Seq<u8>, p: int, r: int)
    requires 0 <= p <= r <= buf.len(), forall|i: int| p <= i < r ==> hex_ws(buf[i]), r < buf.len() ==> !hex_ws(buf[r])
    ensures skip(buf, p) == r
    decreases r - p
{ if p < r { lemma_skip(buf, p + 1, r); } }

impl<'a> HexStringLexer<'a> {
    pub open spec fn wf(&self) -> bool { self.pos <= self.buf@.len() }

    fn next_non_whitespace_char(&mut self) -> (r: Result<u8>)
        requires old(self).wf()
        ensures final(self).buf == old(self).buf, final(self).wf(),
            ({ let p = skip(old(self).buf@, old(self).pos as int);
               if p >= old(self).buf@.len() { r is Err } else { r == Ok::<u8, PdfError>(old(self).buf@[p]) && final(self).pos == p + 1 } }),
    {
        let ghost p0 = self.pos as int;
        let mut byte = self.read_byte()?;
        while byte == b' ' || byte == b'\t' || byte == b'\n' || byte == b'\r' || byte == b'\x0c'
            invariant self.buf == old(self).buf, self.wf(), p0 == old(self).pos, p0 < self.pos, byte == self.buf@[self.pos - 1],
                forall|i: int| p0 <= i < self.pos - 1 ==> hex_ws(self.buf@[i]),
            ensures !hex_ws(byte), byte == self.buf@[self.pos - 1], forall|i: int| p0 <= i < self.pos - 1 ==> hex_ws(self.buf@[i]), self.buf == old(self).buf, self.wf(), p0 < self.pos, p0 == old(self).pos,
            decreases self.buf@.len() - self.pos
        {
            proof { if self.pos == self.buf@.len() { lemma_skip(self.buf@, p0, self.pos as int); } }
            byte = self.read_byte()?;
        }
        proof { lemma_skip(self.buf@, p0, self.pos as int - 1); }
        Ok(byte)
    }

    fn read_byte(&mut self) -> (r: Result<u8>)
        requires old(self).wf()
        ensures final(self).buf == old(self).buf, final(self).wf(),
            r matches Ok(b) ==> old(self).pos < old(self).buf@.len() && final(self).pos == old(self).pos + 1 && b == old(self).buf@[old(self).pos as int],
            r is Err ==> final(self).pos == old(self).pos && old(self).pos == old(self).buf@.len(),
    {
        if self.pos < self.buf.len() {
            self.pos += 1;
            Ok(self.buf[self.pos - 1])
        } else {
            Err(PdfError::EOF)
        }
    }
}
}
fn main(){}
