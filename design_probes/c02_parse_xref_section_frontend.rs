use vstd::prelude::*;
macro_rules! other { ($($t:tt)*) => (PdfError::Other) }
macro_rules! bail { ($($t:tt)*) => { return Err(PdfError::Other) } }
macro_rules! warn { ($($t:tt)*) => {} }
verus! {
pub enum PdfError { Other, XRefStreamType { found: u64 } }
pub type Result<T, E=PdfError> = core::result::Result<T, E>;
pub type ObjNr = u64; pub type GenNr = u64;
#[derive(Copy, Clone)]
pub enum XRef {
    Free { next_obj_nr: ObjNr, gen_nr: GenNr },
    Raw { pos: usize, gen_nr: GenNr },
    Stream { stream_id: ObjNr, index: usize },
    Promised,
    Invalid
}
pub struct XRefSection { pub first_id: u32, pub entries: Vec<XRef> }
pub struct ParseOptions { pub allow_xref_error: bool }
pub trait Resolve { fn options(&self) -> &ParseOptions; }

#[verifier::external_body]
fn hoist_try3(width: &[usize]) -> (r: Result<[usize; 3]>)
    ensures width@.len() == 3 ==> (r matches Ok(a) && a@ == width@), width@.len() != 3 ==> r is Err
{ unimplemented!() }
#[verifier::external_body]
fn u64_from(c: u8) -> (r: u64) ensures r == c { u64::from(c) }

fn read_u64_from_stream(width: usize, data: &mut &[u8]) -> (r: Result<u64>)
    ensures r is Ok <==> (width <= 8 && width <= old(data)@.len()),
        r is Ok ==> final(data)@ == old(data)@.subrange(width as int, old(data)@.len() as int),
        r is Err ==> final(data)@ == old(data)@,
{
    if width > std::mem::size_of::<u64>() {
        return Err(PdfError::Other);
    }
    if width > data.len() {
        return Err(PdfError::Other);
    }
    let mut result: u64 = 0;
    let ghost d0 = data@;
    for i in iter: (0..width).rev()
        invariant width <= 8, width <= d0.len(), data@ == d0.subrange(iter.index@ as int, d0.len() as int), iter.index@ <= width,
    {
        let base = 8 * i; // (width, 0]
        let c: u8 = data[0];
        *data = &data[1..]; // Consume byte
        assume((result as u64) + ((c as u64) << (base as u64)) <= u64::MAX); // probe only
        result += u64_from(c) << base;
    }
    Ok(result)
}

fn parse_xref_section_from_stream(first_id: u32, mut num_entries: usize, width: &[usize], data: &mut &[u8], resolve: &impl Resolve) -> (r: Result<XRefSection>)
{
    let mut entries = Vec::new();
    let __a: [usize; 3] = hoist_try3(width)?; let w0 = __a[0]; let w1 = __a[1]; let w2 = __a[2];
    if num_entries * (w0 + w1 + w2) > data.len() {
        if resolve.options().allow_xref_error {
            warn!("not enough xref data. truncating.");
            num_entries = data.len() / (w0 + w1 + w2);
        } else {
            bail!("not enough xref data");
        }
    }
    for _i in 0..num_entries {
        let _type = if w0 == 0 {
            1
        } else {
            read_u64_from_stream(w0, data)?
        };
        let field1 = read_u64_from_stream(w1, data)?;
        let field2 = read_u64_from_stream(w2, data)?;

        let entry =
        match _type {
            0 => XRef::Free {next_obj_nr: field1 as ObjNr, gen_nr: field2 as GenNr},
            1 => XRef::Raw {pos: field1 as usize, gen_nr: field2 as GenNr},
            2 => XRef::Stream {stream_id: field1 as ObjNr, index: field2 as usize},
            _ => return Err(PdfError::XRefStreamType {found: _type}), // TODO: Should actually just be seen as a reference to the null object
        };
        entries.push(entry);
    }
    Ok(XRefSection {
        first_id,
        entries,
    })
}
}
fn main(){}
