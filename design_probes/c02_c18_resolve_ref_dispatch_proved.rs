use vstd::prelude::*;
macro_rules! t { ($e:expr $(,$c:expr)*) => { match $e { Ok(v) => v, Err(e) => { return Err(PdfError::Try(Box::new(e))) } } }; }
macro_rules! err { ($e: expr) => ({ return Err($e); }) }
macro_rules! bail { ($($t:tt)*) => { err!(PdfError::Other) } }
macro_rules! other { ($($t:tt)*) => (PdfError::Other) }
verus! {
pub enum PdfError { Other, FreeObject { obj_nr: u64 }, NullRef { obj_nr: u64 }, UnspecifiedXRefEntry { id: u64 }, PrimitiveNotAllowed, Try(Box<PdfError>) }
pub type Result<T, E=PdfError> = core::result::Result<T, E>;
pub type ObjNr = u64; pub type GenNr = u64;
#[derive(Clone, Copy)]
pub struct PlainRef { pub id: ObjNr, pub gen: GenNr }
#[derive(Copy, Clone)]
pub enum XRef {
    Free { next_obj_nr: ObjNr, gen_nr: GenNr },
    Raw { pos: usize, gen_nr: GenNr },
    Stream { stream_id: ObjNr, index: usize },
    Promised,
    Invalid
}
pub struct XRefTable { pub entries: Vec<XRef> }
impl XRefTable {
    pub fn get(&self, id: ObjNr) -> (r: Result<XRef>)
        ensures id < self.entries@.len() ==> r == Ok::<XRef, PdfError>(self.entries@[id as int]),
            id >= self.entries@.len() ==> r matches Err(PdfError::UnspecifiedXRefEntry{..})
    {
        if id < self.entries.len() as u64 { Ok(self.entries[id as usize]) } else { Err(PdfError::UnspecifiedXRefEntry {id}) }
    }
}
// ---- abstract environment ----
pub struct Primitive { pub tok: Ghost<int> }
#[derive(Clone, Copy)]
pub struct ParseFlags { pub bits: u16 }
pub struct Decoder {}
pub struct Lexer<'a> { pub buf: &'a [u8], pub off: usize }
pub struct ObjectStreamRc { pub id: Ghost<int> }
pub struct Changes { pub m: Ghost<Map<ObjNr, Primitive>> }
impl Changes {
    #[verifier::external_body]
    pub fn get_cloned(&self, id: ObjNr) -> (r: Option<Primitive>)
        ensures self.m@.dom().contains(id) ==> r == Some(self.m@[id]), !self.m@.dom().contains(id) ==> r is None
    { todo!() }
}
pub uninterp spec fn object_of(suffix: Seq<u8>, abs: int, flags: ParseFlags) -> Result<Primitive>;
pub open spec fn object_at(file: Seq<u8>, abs: int, flags: ParseFlags) -> Result<Primitive> { object_of(file.subrange(abs, file.len() as int), abs, flags) }
pub uninterp spec fn member_of(stream_id: ObjNr, index: int, flags: ParseFlags) -> Result<Primitive>;
pub uninterp spec fn has_stream_flag(f: ParseFlags) -> bool;

pub trait Backend: Sized {
    spec fn bytes(&self) -> Seq<u8>;
    fn read_from(&self, start: usize) -> (r: Result<&[u8]>)
        ensures r matches Ok(s) ==> start <= self.bytes().len() && s@ == self.bytes().subrange(start as int, self.bytes().len() as int),
            start <= self.bytes().len() ==> r is Ok;
}
pub trait Resolve {}
pub struct Storage<B> { pub changes: Changes, pub refs: XRefTable, pub decoder: Option<Decoder>, pub backend: B, pub start_offset: usize }

#[verifier::external_body]
fn lexer_with_offset<'a>(buf: &'a [u8], off: usize) -> (r: Lexer<'a>) ensures r.off == off, r.buf == buf { todo!() }
#[verifier::external_body]
fn parse_indirect_object(lexer: &mut Lexer, r: &impl Resolve, decoder: Option<&Decoder>, flags: ParseFlags) -> (res: Result<(PlainRef, Primitive)>)
    ensures match object_of(old(lexer).buf@, old(lexer).off as int, flags) { Ok(p) => res matches Ok((_, q)) && q == p, Err(_) => res is Err }
{ todo!() }
#[verifier::external_body]
fn hoist_flags_contains_stream(flags: ParseFlags) -> (r: bool) ensures r == has_stream_flag(flags) { todo!() }
#[verifier::external_body]
fn hoist_objstm_member(resolve: &impl Resolve, stream_id: ObjNr, index: usize, flags: ParseFlags) -> (r: Result<Primitive>)
    ensures match member_of(stream_id, index as int, flags) { Ok(p) => r == Ok::<Primitive, PdfError>(p), Err(_) => r is Err }
{ todo!() }

impl<B: Backend> Storage<B> {
    fn resolve_ref(&self, r: PlainRef, flags: ParseFlags, resolve: &impl Resolve) -> (res: Result<Primitive>)
        requires self.start_offset + self.backend.bytes().len() <= usize::MAX,
            forall|i: int| 0 <= i < self.refs.entries@.len() ==> (#[trigger] self.refs.entries@[i] matches XRef::Raw{pos, ..} ==> self.start_offset + pos <= usize::MAX),
        ensures
            self.changes.m@.dom().contains(r.id) ==> res == Ok::<Primitive, PdfError>(self.changes.m@[r.id]),
            !self.changes.m@.dom().contains(r.id) ==> (
                if r.id >= self.refs.entries@.len() { res is Err }
                else { match self.refs.entries@[r.id as int] {
                    XRef::Raw { pos, .. } => self.start_offset + pos <= self.backend.bytes().len() ==>
                        (match object_at(self.backend.bytes(), self.start_offset + pos, flags) { Ok(p) => res == Ok::<Primitive, PdfError>(p), Err(_) => res is Err }),
                    XRef::Stream { stream_id, index } => has_stream_flag(flags) ==>
                        (match member_of(stream_id, index as int, flags) { Ok(p) => res == Ok::<Primitive, PdfError>(p), Err(_) => res is Err }),
                    XRef::Free { .. } => res matches Err(PdfError::FreeObject { .. }),
                    XRef::Invalid => res matches Err(PdfError::NullRef { .. }),
                    XRef::Promised => res is Err,
                } }),
    {
        match self.changes.get_cloned(r.id) {
            Some(p) => Ok(p),
            None => match t!(self.refs.get(r.id)) {
                XRef::Raw {pos, ..} => {
                    let mut lexer = lexer_with_offset(t!(self.backend.read_from(self.start_offset + pos)), self.start_offset + pos);
                    let p = t!(parse_indirect_object(&mut lexer, resolve, self.decoder.as_ref(), flags)).1;
                    Ok(p)
                }
                XRef::Stream {stream_id, index} => {
                    if !hoist_flags_contains_stream(flags) {
                        return Err(PdfError::PrimitiveNotAllowed);
                    }
                    hoist_objstm_member(resolve, stream_id, index, flags)
                }
                XRef::Free {..} => err!(PdfError::FreeObject {obj_nr: r.id}),
                XRef::Promised => bail!("Unimplemented"),
                XRef::Invalid => err!(PdfError::NullRef {obj_nr: r.id}),
            }
        }
    }
}
}
fn main(){}
