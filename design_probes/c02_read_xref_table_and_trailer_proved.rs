use vstd::prelude::*;
macro_rules! t { ($e:expr $(,$c:expr)*) => { match $e { Ok(v) => v, Err(e) => { return Err(PdfError::Try(Box::new(e))) } } }; }
macro_rules! bail { ($($t:tt)*) => { return Err(PdfError::Other) } }
macro_rules! trace { ($($t:tt)*) => {} }
verus! {
pub enum PdfError { Other, Invalid, MissingEntry, Try(Box<PdfError>) }
pub type Result<T, E=PdfError> = core::result::Result<T, E>;
pub type ObjNr = u64;
pub const MAX_ID: u32 = 1_000_000;

// ---- environment: abstract sections / table / dictionary / lexer ----
#[derive(Clone, Copy)]
pub struct XRefSection { pub g: Ghost<int> }
pub struct XRefTable { pub merged: Ghost<Seq<int>>, pub size: Ghost<int> }   // ghost: ids of sections merged so far, in order
pub struct Dictionary { pub id: Ghost<int> }
pub enum Primitive { Integer(i32), Other }
pub struct Lexer<'a> { pub buf: &'a [u8], pub off: usize }

pub uninterp spec fn size_of(d: Dictionary) -> Option<u32>;
pub uninterp spec fn prev_of(d: Dictionary) -> Option<usize>;
// what is stored in the file at absolute position p: a list of section ids and a trailer
pub uninterp spec fn sections_of(suffix: Seq<u8>) -> Seq<int>;
pub open spec fn sections_at(file: Seq<u8>, p: int) -> Seq<int> { sections_of(file.subrange(p, file.len() as int)) }
pub uninterp spec fn trailer_of(suffix: Seq<u8>) -> Dictionary;
pub open spec fn trailer_at(file: Seq<u8>, p: int) -> Dictionary { trailer_of(file.subrange(p, file.len() as int)) }
pub uninterp spec fn readable_at(file: Seq<u8>, p: int) -> bool;

impl XRefTable {
    #[verifier::external_body]
    pub fn new(n: ObjNr) -> (r: XRefTable) ensures r.merged@ == Seq::<int>::empty(), r.size@ == n { unimplemented!() }
    #[verifier::external_body]
    pub fn add_entries_from(&mut self, section: XRefSection) -> (r: Result<()>)
        ensures r is Ok ==> final(self).merged@ == old(self).merged@.push(section.g@) && final(self).size@ == old(self).size@,
    { unimplemented!() }
}
impl Dictionary {
    #[verifier::external_body]
    pub fn get_size(&self) -> (r: Result<u32>) ensures r matches Ok(n) ==> size_of(*self) == Some(n) { unimplemented!() }
    #[verifier::external_body]
    pub fn get_prev(&self) -> (r: Result<Option<usize>>) ensures r matches Ok(p) ==> prev_of(*self) == p { unimplemented!() }
}
pub trait Resolve {}
pub trait Backend: Sized {
    spec fn bytes(&self) -> Seq<u8>;
    fn len(&self) -> (r: usize) ensures r == self.bytes().len();
    fn read_from(&self, start: usize) -> (r: Result<&[u8]>)
        ensures r matches Ok(s) ==> start <= self.bytes().len() && s@ == self.bytes().subrange(start as int, self.bytes().len() as int);
    spec fn startxref(&self) -> int;
    fn locate_xref_offset(&self) -> (r: Result<usize>) ensures r matches Ok(x) ==> x == self.startxref();
}
#[verifier::external_body]
fn read_xref_and_trailer_at(lexer: &mut Lexer, resolve: &impl Resolve) -> (r: Result<(Vec<XRefSection>, Dictionary)>)
    ensures r matches Ok((secs, tr)) ==> tr == trailer_of(old(lexer).buf@)
        && secs@.len() == sections_of(old(lexer).buf@).len()
        && forall|k: int| 0 <= k < secs@.len() ==> secs@[k].g@ == sections_of(old(lexer).buf@)[k]
{ unimplemented!() }
#[verifier::external_body]
fn hoist_contains(v: &Vec<usize>, x: usize) -> (r: bool) ensures r == v@.contains(x) { v.contains(&x) }
#[verifier::external_body]
fn lexer_with_offset<'a>(buf: &'a [u8], off: usize) -> (r: Lexer<'a>) ensures r.off == off, r.buf == buf { unimplemented!() }

pub open spec fn concat_sections(file: Seq<u8>, visited: Seq<int>) -> Seq<int> decreases visited.len() {
    if visited.len() == 0 { Seq::empty() } else { concat_sections(file, visited.drop_last()) + sections_at(file, visited.last()) }
}
// visited is the /Prev chain: each next position is start + /Prev of the trailer at the previous one
pub open spec fn is_chain_prefix(file: Seq<u8>, start: int, visited: Seq<int>) -> bool {
    forall|i: int| 0 <= i < visited.len() - 1 ==> prev_of(trailer_at(file, #[trigger] visited[i])) == Some((visited[i + 1] - start) as usize) && visited[i + 1] >= start
}
pub open spec fn gs(secs: Seq<XRefSection>) -> Seq<int> { Seq::new(secs.len(), |k: int| secs[k].g@) }
pub proof fn lemma_nodup_bound(s: Seq<usize>, n: int)
    requires s.no_duplicates(), n >= 0, forall|i: int| 0 <= i < s.len() ==> s[i] <= n
    ensures s.len() <= n + 1
{
    let m = s.map_values(|x: usize| x as int);
    assert(m.no_duplicates()) by {
        assert forall|i: int, j: int| 0 <= i < m.len() && 0 <= j < m.len() && i != j implies m[i] != m[j] by { assert(s[i] != s[j]); }
    }
    m.unique_seq_to_set();
    let r = vstd::set_lib::set_int_range(0, n + 1);
    assert(m.to_set().subset_of(r)) by {
        assert forall|x: int| m.to_set().contains(x) implies r.contains(x) by {
            let i = choose|i: int| 0 <= i < m.len() && m[i] == x;
            assert(s[i] <= n);
        }
    }
    vstd::set_lib::lemma_int_range(0, n + 1);
    vstd::set_lib::lemma_len_subset(m.to_set(), r);
}
// spec: sections along the chain starting at absolute position p, following /Prev relative to start_offset
pub open spec fn chain(file: Seq<u8>, start: int, p: int, fuel: nat) -> Seq<int> decreases fuel {
    if fuel == 0 { Seq::empty() } else {
        sections_at(file, p) + match prev_of(trailer_at(file, p)) { Some(q) => chain(file, start, start + q, (fuel - 1) as nat), None => Seq::empty() }
    }
}

    fn read_xref_table_and_trailer<B: Backend>(this: &B, start_offset: usize, resolve: &impl Resolve) -> (r: Result<(XRefTable, Dictionary)>)
        ensures r matches Ok((refs, tr)) ==> exists|visited: Seq<int>| #![auto] visited.len() >= 1
            && is_chain_prefix(this.bytes(), start_offset as int, visited)
            && prev_of(trailer_at(this.bytes(), visited.last())) is None
            && refs.merged@ == concat_sections(this.bytes(), visited)
            && tr == trailer_at(this.bytes(), visited[0]) && visited[0] == start_offset + this.startxref()
            && size_of(tr) == Some(refs.size@ as u32)
    {
        let xref_offset = t!(this.locate_xref_offset());
        let pos = t!(start_offset.checked_add(xref_offset).ok_or(PdfError::Invalid));
        if pos >= this.len() {
            bail!("XRef offset outside file bounds");
        }

        let mut lexer = lexer_with_offset(t!(this.read_from(pos)), pos);
        
        let (xref_sections, trailer) = t!(read_xref_and_trailer_at(&mut lexer, resolve));
        
        let highest_id = t!(trailer.get_size());

        if highest_id > MAX_ID {
            bail!("too many objects");
        }
        let mut refs = XRefTable::new(highest_id as ObjNr);
        let ghost file = this.bytes();
        let ghost secs0 = xref_sections@;
        let ghost base0 = refs.merged@;
        for __k in 0..xref_sections.len()
            invariant refs.merged@ == base0 + gs(secs0).take(__k as int), refs.size@ == highest_id, secs0 == xref_sections@,
        { let section = xref_sections[__k];
            proof { assert(gs(secs0).take(__k + 1) =~= gs(secs0).take(__k as int).push(secs0[__k as int].g@)); }
            refs.add_entries_from(section)?;
        }
        let ghost mut visited: Seq<int> = seq![pos as int];
        proof {
            assert(gs(secs0).take(secs0.len() as int) =~= gs(secs0));
            assert(gs(secs0) =~= sections_at(file, pos as int));
            assert(visited.drop_last() =~= Seq::<int>::empty());
            assert(concat_sections(file, Seq::<int>::empty()) =~= Seq::<int>::empty());
            assert(visited.last() == pos as int);
            assert(concat_sections(file, visited) =~= concat_sections(file, visited.drop_last()) + sections_at(file, visited.last()));
            assert(concat_sections(file, visited) =~= sections_at(file, pos as int));
            assert(pos == start_offset + this.startxref());
        }
        
        let mut prev_trailer = t!(trailer.get_prev());
        trace!("READ XREF AND TABLE");
        let mut seen: Vec<usize> = vec![];
        let ghost tr0 = trailer;
        while let Some(prev_xref_offset) = prev_trailer
            invariant
                file == this.bytes(), trailer == tr0,
                visited.len() >= 1, visited[0] == start_offset + this.startxref(), is_chain_prefix(file, start_offset as int, visited),
                tr0 == trailer_at(file, visited[0]), size_of(tr0) == Some(highest_id),
                refs.merged@ == concat_sections(file, visited), refs.size@ == highest_id,
                prev_trailer == prev_of(trailer_at(file, visited.last())),
                seen@.no_duplicates(), forall|i: int| 0 <= i < seen@.len() ==> seen@[i] <= file.len(),
                seen@.len() <= file.len() + 1,
            ensures prev_trailer is None,
            decreases file.len() + 1 - seen@.len()
        {
            if hoist_contains(&seen, prev_xref_offset) {
                bail!("xref offsets loop");
            }
            let ghost seen_old = seen@;
            seen.push(prev_xref_offset);

            let pos = t!(start_offset.checked_add(prev_xref_offset).ok_or(PdfError::Invalid));
            let mut lexer = lexer_with_offset(t!(this.read_from(pos)), pos);
            proof {
                assert(seen@ =~= seen_old.push(prev_xref_offset));
                assert(prev_xref_offset <= file.len());
                assert(seen@.no_duplicates());
                lemma_nodup_bound(seen@, file.len() as int);
            }
            let (xref_sections, trailer) = t!(read_xref_and_trailer_at(&mut lexer, resolve));
            
            let ghost secs = xref_sections@;
            let ghost base = refs.merged@;
            for __k in 0..xref_sections.len()
                invariant refs.merged@ == base + gs(secs).take(__k as int), refs.size@ == highest_id, secs == xref_sections@,
            { let section = xref_sections[__k];
                proof { assert(gs(secs).take(__k + 1) =~= gs(secs).take(__k as int).push(secs[__k as int].g@)); }
                refs.add_entries_from(section)?;
            }
            
            prev_trailer = t!(trailer.get_prev());
            proof {
                let v2 = visited.push(pos as int);
                assert(v2.drop_last() =~= visited);
                assert(gs(secs).take(secs.len() as int) =~= gs(secs));
                assert(gs(secs) =~= sections_at(file, pos as int));
                assert(is_chain_prefix(file, start_offset as int, v2)) by {
                    assert forall|i: int| 0 <= i < v2.len() - 1 implies prev_of(trailer_at(file, #[trigger] v2[i])) == Some((v2[i + 1] - start_offset) as usize) && v2[i + 1] >= start_offset by {
                        if i < visited.len() - 1 { assert(v2[i] == visited[i]); assert(v2[i+1] == visited[i+1]); } else { assert(v2[i] == visited.last()); }
                    }
                }
                visited = v2;
            }
        }
        proof {
            assert(prev_trailer is None);
            assert(visited.len() >= 1 && is_chain_prefix(this.bytes(), start_offset as int, visited)
              && prev_of(trailer_at(this.bytes(), visited.last())) is None
              && refs.merged@ == concat_sections(this.bytes(), visited)
              && trailer == trailer_at(this.bytes(), visited[0]) && visited[0] == start_offset + this.startxref()
              && size_of(trailer) == Some(refs.size@ as u32));
        }
        Ok((refs, trailer))
    }
}
fn main(){}
