use vstd::prelude::*;
verus! {
#[derive(Clone, Copy, PartialEq, Eq)]
pub enum PredictorType { NoFilter = 0, Sub = 1, Up = 2, Avg = 3, Paeth = 4 }

pub open spec fn add8(a: u8, b: u8) -> u8 { ((a as int + b as int) % 256) as u8 }
pub open spec fn paeth_spec(a: u8, b: u8, c: u8) -> u8 {
    let p = a as int + b as int - c as int;
    let pa = if p - a >= 0 { p - a } else { a - p };
    let pb = if p - b >= 0 { p - b } else { b - p };
    let pc = if p - c >= 0 { p - c } else { c - p };
    if pa <= pb && pa <= pc { a } else if pb <= pc { b } else { c }
}
// PNG spec: Recon(x) per filter type; a = Recon(x-bpp), b = Prior(x), c = Prior(x-bpp)
pub open spec fn recon(ft: PredictorType, bpp: int, prev: Seq<u8>, filt: Seq<u8>, i: int) -> u8
    decreases i
{
    if i < 0 || i >= filt.len() { 0 } else {
        let a: u8 = if i >= bpp && bpp > 0 { recon(ft, bpp, prev, filt, i - bpp) } else { 0 };
        let b: u8 = prev[i];
        let c: u8 = if i >= bpp { prev[i - bpp] } else { 0 };
        match ft {
            PredictorType::NoFilter => filt[i],
            PredictorType::Sub => add8(filt[i], a),
            PredictorType::Up => add8(filt[i], b),
            PredictorType::Avg => add8(filt[i], ((a as int + b as int) / 2) as u8),
            PredictorType::Paeth => add8(filt[i], paeth_spec(a, b, c)),
        }
    }
}
pub proof fn recon_unfold(ft: PredictorType, bpp: int, prev: Seq<u8>, filt: Seq<u8>, i: int)
    requires 0 <= i < filt.len(), bpp >= 1
    ensures recon(ft, bpp, prev, filt, i) == ({
        let a: u8 = if i >= bpp { recon(ft, bpp, prev, filt, i - bpp) } else { 0 };
        let b: u8 = prev[i];
        let c: u8 = if i >= bpp { prev[i - bpp] } else { 0 };
        match ft {
            PredictorType::NoFilter => filt[i],
            PredictorType::Sub => add8(filt[i], a),
            PredictorType::Up => add8(filt[i], b),
            PredictorType::Avg => add8(filt[i], ((a as int + b as int) / 2) as u8),
            PredictorType::Paeth => add8(filt[i], paeth_spec(a, b, c)),
        }})
{}
#[verifier::external_body]
fn filter_paeth(a: u8, b: u8, c: u8) -> (r: u8) ensures r == paeth_spec(a, b, c) { unimplemented!() }
#[verifier::external_body]
fn hoist_copy(dst: &mut [u8], src: &[u8]) requires old(dst)@.len() == src@.len() ensures final(dst)@ == src@ { unimplemented!() }
#[verifier::external_body]
fn wadd(a: u8, b: u8) -> (r: u8) ensures r == add8(a, b) { a.wrapping_add(b) }

pub fn unfilter(filter: PredictorType, bpp: usize, prev: &[u8], inp: &[u8], out: &mut [u8])
    requires inp@.len() == old(out)@.len(), inp@.len() == prev@.len(), bpp >= 1
    ensures final(out)@.len() == old(out)@.len(),
        bpp <= inp@.len() ==> forall|i: int| 0 <= i < inp@.len() ==> final(out)@[i] == recon(filter, bpp as int, prev@, inp@, i)
{
    use self::PredictorType::*;
    let ghost old_filter = filter;
    let len = inp.len();
    assert!(len == out.len());
    assert!(len == prev.len());
    if bpp > len {
        return;
    }

    match filter {
        Sub => {
            for i in 0..bpp
                invariant out@.len() == len, inp@.len() == len, prev@.len() == len, 1 <= bpp <= len, filter is Sub, forall|j: int| 0 <= j < i ==> out@[j] == recon(filter, bpp as int, prev@, inp@, j)
            { proof { recon_unfold(filter, bpp as int, prev@, inp@, i as int); assert(add8(inp@[i as int], 0) == inp@[i as int]); } out[i] = inp[i]; }

            for i in bpp..len
                invariant out@.len() == len, inp@.len() == len, prev@.len() == len, 1 <= bpp <= len, filter is Sub, forall|j: int| 0 <= j < i ==> out@[j] == recon(filter, bpp as int, prev@, inp@, j)
            {
                proof { recon_unfold(filter, bpp as int, prev@, inp@, i as int); }
                out[i] = wadd(inp[i], out[i - bpp]);
            }
        }
        Up => {
            for i in 0..len
                invariant out@.len() == len, inp@.len() == len, prev@.len() == len, 1 <= bpp <= len, filter is Up, forall|j: int| 0 <= j < i ==> out@[j] == recon(filter, bpp as int, prev@, inp@, j)
            {
                proof { recon_unfold(filter, bpp as int, prev@, inp@, i as int); }
                out[i] = wadd(inp[i], prev[i]);
            }
        }
        Paeth => {
            for i in 0..bpp
                invariant out@.len() == len, inp@.len() == len, prev@.len() == len, 1 <= bpp <= len, filter is Paeth, forall|j: int| 0 <= j < i ==> out@[j] == recon(filter, bpp as int, prev@, inp@, j)
            {
                proof { recon_unfold(filter, bpp as int, prev@, inp@, i as int); }
                out[i] = wadd(inp[i],
                    filter_paeth(0, prev[i], 0)
                );
            }

            for i in bpp..len
                invariant out@.len() == len, inp@.len() == len, prev@.len() == len, 1 <= bpp <= len, filter is Paeth, forall|j: int| 0 <= j < i ==> out@[j] == recon(filter, bpp as int, prev@, inp@, j)
            {
                proof { recon_unfold(filter, bpp as int, prev@, inp@, i as int); }
                out[i] = wadd(inp[i],
                    filter_paeth(out[i - bpp], prev[i], prev[i - bpp])
                );
            }
        }
        NoFilter => {
            hoist_copy(&mut out[..len], &inp[..len]);
            proof { assert forall|i: int| 0 <= i < len implies out@[i] == recon(filter, bpp as int, prev@, inp@, i) by { recon_unfold(filter, bpp as int, prev@, inp@, i); } }
        }
        Avg => {
            for i in 0..bpp
                invariant out@.len() == len, inp@.len() == len, prev@.len() == len, 1 <= bpp <= len, filter is Avg, forall|j: int| 0 <= j < i ==> out@[j] == recon(filter, bpp as int, prev@, inp@, j)
            {
                proof { recon_unfold(filter, bpp as int, prev@, inp@, i as int); }
                out[i] = wadd(inp[i], prev[i] / 2);
            }

            for i in bpp..len
                invariant out@.len() == len, inp@.len() == len, prev@.len() == len, 1 <= bpp <= len, filter is Avg, forall|j: int| 0 <= j < i ==> out@[j] == recon(filter, bpp as int, prev@, inp@, j)
            {
                proof { recon_unfold(filter, bpp as int, prev@, inp@, i as int); }
                out[i] = wadd(inp[i],
                    ((out[i - bpp] as i16 + prev[i] as i16) / 2) as u8
                );
            }
        }
    }
}
}
fn main(){}
